(* C19 property theorems: statements only; proofs live in Proofs/C19.v.
   The macro is Model.Annotation.typeshare_macro (annotation/src/lib.rs); the declarative side is
   Spec.C19Spec.  rustc is not modelled beyond its attribute-expansion loop (Model.Annotation Part 2):
   "compiles exactly when" and "same serialised form" follow from the token-level statements below
   only by trusting rustc to treat equal token streams equally; they are observed by checks/c19.py. *)
From TS Require Import Model.Str Model.Syntax Model.Annotation Spec.C19Spec.
From TS Require Proofs.C19.

(* For every input - struct, tuple struct, unit struct, enum, union, or anything that does not parse
   as a DeriveInput - the macro's output is the declarative erasure: typeshare attributes filtered
   out at every member position, everything else untouched. *)
Theorem C19_macro_is_erase :
  forall (i : macro_input), typeshare_macro i = erase i.
Proof. exact Proofs.C19.macro_is_erase. Qed.
Print Assumptions C19_macro_is_erase.

(* The retain predicate `path.to_token_stream().to_string() != "typeshare"` removes exactly the
   attributes whose path is the single identifier `typeshare` (no `typeshare::typeshare`, no leading
   `::`), whatever separator the compiler's TokenStream Display puts between tokens. *)
Theorem C19_configuration_attribute_is_single_segment_typeshare :
  forall (sp : str) (a : attr),
    str_eqb (ann_path_to_string sp (meta_path (a_meta a))) CONFIG_ATTRIBUTE_NAME = is_typeshare_attr a.
Proof. exact Proofs.C19.config_predicate_attr. Qed.
Print Assumptions C19_configuration_attribute_is_single_segment_typeshare.

(* Same members in the same order: fields, variants and variant fields keep their identifiers... *)
Theorem C19_same_members_same_order :
  forall (i : macro_input), obs_members (typeshare_macro i) = obs_members i.
Proof. exact Proofs.C19.same_members. Qed.
Print Assumptions C19_same_members_same_order.

(* ...and everything that is not a member attribute (visibilities, types, generics, where-clause,
   discriminants, named/tuple/unit shape, item attributes) is identical. *)
Theorem C19_same_skeleton :
  forall (i : macro_input), c19_skeleton (typeshare_macro i) = c19_skeleton i.
Proof. exact Proofs.C19.same_skeleton. Qed.
Print Assumptions C19_same_skeleton.

(* Every non-typeshare attribute (serde, derive helpers, cfg, doc, allow, ...) at every member
   position is preserved, in place and in order. *)
Theorem C19_other_attributes_preserved :
  forall (i : macro_input), obs_other_attrs (typeshare_macro i) = obs_other_attrs i.
Proof. exact Proofs.C19.other_attrs_preserved. Qed.
Print Assumptions C19_other_attributes_preserved.

(* The same, position by position: the attribute list found at a member position afterwards is the
   list found there before minus its typeshare attributes - only those are removed. *)
Theorem C19_only_typeshare_attributes_removed :
  forall (i : macro_input) (p : mpos) (attrs : list attr),
    In (p, attrs) (member_positions i) -> In (p, other_attrs attrs) (member_positions (typeshare_macro i)).
Proof. exact Proofs.C19.other_attrs_preserved_at. Qed.
Print Assumptions C19_only_typeshare_attributes_removed.

(* No typeshare attribute remains at any member position. *)
Theorem C19_no_typeshare_attribute_remains :
  forall (i : macro_input), obs_ts_count (typeshare_macro i) = 0%nat.
Proof. exact Proofs.C19.no_typeshare_left. Qed.
Print Assumptions C19_no_typeshare_attribute_remains.

(* Idempotent: expanding twice (two invocations on one item) is expanding once. *)
Theorem C19_idempotent :
  forall (i : macro_input), typeshare_macro (typeshare_macro i) = typeshare_macro i.
Proof. exact Proofs.C19.macro_idempotent. Qed.
Print Assumptions C19_idempotent.

(* Items that are not a DeriveInput (type alias, const, fn, static, ...) come back unchanged. *)
Theorem C19_other_items_unchanged :
  forall (a : list attr) (t : str), typeshare_macro (Other a t) = Other a t.
Proof. exact Proofs.C19.other_unchanged. Qed.
Print Assumptions C19_other_items_unchanged.

(* The attributes of the item itself (derive, serde, repr, doc, cfg, further typeshare invocations)
   are not touched. *)
Theorem C19_item_attributes_untouched :
  forall (i : macro_input), obs_item_attrs (typeshare_macro i) = obs_item_attrs i.
Proof. exact Proofs.C19.item_attrs_untouched. Qed.
Print Assumptions C19_item_attributes_untouched.

(* PARTIAL (rustc): under the model of rustc's expansion loop (detach the first invocation on the
   item, replace the item by the macro's output, repeat), an item carrying any number >= 1 of
   `#[typeshare..]` / `#[typeshare::typeshare..]` invocations ends up as its stripped twin - the same
   item with every typeshare attribute removed.  That the two programs then compile alike and
   serialise alike is rustc's and serde_derive's determinism on equal token streams: not proved. *)
Theorem C19_expansion_is_stripped_twin_partial :
  forall (i : macro_input), has_invocation i = true -> rustc_expand i = stripped_twin i.
Proof. exact Proofs.C19.expand_is_twin. Qed.
Print Assumptions C19_expansion_is_stripped_twin_partial.

(* The finding class is exactly: a struct/enum/union carrying helpers that the macro's syn could not
   parse.  Everything else is covered by the theorems above. *)
Theorem C19_known_class_exact :
  forall (parses : bool) (full : macro_input),
    known_C19 parses full = None <-> (parses = true \/ obs_ts_count full = 0%nat \/ exists a t, full = Other a t).
Proof. exact Proofs.C19.known_class_exact. Qed.
Print Assumptions C19_known_class_exact.

(* Refutation witness for finding C19-derive-parse-needs-syn-full:
   `#[typeshare] pub struct A { #[typeshare(skip)] pub a: [u8; if true { 1 } else { 2 }] }` -
   the item is in the domain, the macro (whose syn lacks the "full" feature) returns it unchanged,
   one macro attribute is left on a field (rustc rejects it), none would be left had it parsed. *)
Theorem C19_unparsed_item_keeps_helpers_refuted :
  known_C19 false Proofs.C19.wit_unparsed = Some "C19-derive-parse-needs-syn-full"%string /\
  dom_C19 Proofs.C19.wit_unparsed = true /\
  typeshare_macro_on false Proofs.C19.wit_unparsed = Proofs.C19.wit_unparsed /\
  rustc_macro_attrs_at_members (typeshare_macro_on false Proofs.C19.wit_unparsed) = 1%nat /\
  rustc_macro_attrs_at_members (typeshare_macro_on true Proofs.C19.wit_unparsed) = 0%nat.
Proof. exact Proofs.C19.unparsed_keeps_helpers. Qed.
Print Assumptions C19_unparsed_item_keeps_helpers_refuted.
