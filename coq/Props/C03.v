(* C03 property theorems: statements only; proofs live in Proofs/{C03,C03Back,C03_TS,...}.v *)
From Coq Require Import String List Bool.
From TS Require Import Model.Str Model.Outcome Model.Unicode Model.Syntax Model.Attrs Model.Types Model.Parse Model.Reconcile
                       Model.Lang.Common Model.Lang.Decl Model.Lang.TypeScript Model.Lang.Kotlin Model.Lang.Swift
                       Model.Lang.Scala Model.Lang.Go Model.Lang.Python.
From TS Require Import Spec.Serde Spec.TargetOsRule Spec.C03Spec.
From TS Require Proofs.FrontItems Proofs.C03 Proofs.C03_TS Proofs.C03_Kotlin Proofs.C03_Swift Proofs.C03_Scala Proofs.C03_Go
                Proofs.C03_Python Proofs.C03_Witness Proofs.C03Src Proofs.C03E2E Proofs.C03_All.
Import ListNotations.
From TS Require Import Model.MultiFile.
From TS Require Proofs.C12Multi Proofs.C12MultiTS Proofs.C12MultiSwift Proofs.C12MultiGo Proofs.MultiSameItems.

(* the struct / enum / type / const item handed to the matching parse_* function *)
Definition parse_leaf (uc : unicode) (tstr : str -> option ty) (T : list str) (it : item) : outcome ritem :=
  match it with
  | IStruct a i g fs => parse_struct uc tstr T a i g fs
  | IEnum a i g vs => parse_enum uc tstr T a i g vs
  | IType a i g t => parse_type_alias uc tstr a i g t
  | IConst a i t e => parse_const uc tstr a i t e
  | _ => Panic "not a leaf"
  end.

(* C03_items.  For EVERY file (items nested in mod / fn / impl bodies at any depth) whose cfg attributes are
   ones rustc accepts: what parser::parse collects is accounted for, item by item and in source order, by
   the annotated, target-accepted struct / enum / type / const items: each such item is either collected
   (under its own identifier, in a list its kind may end up in) or counted as an error; nothing else is
   collected (un-annotated items contribute nothing). *)
Theorem C03_items : forall (uc : unicode) (tstr : str -> option ty) (T : list str) (f : file) (r : option parsed),
  dom_C03_front f = true -> parse_file uc tstr T f = Ok r ->
  good_C03_front T f (c03_obs_of_parsed r) = true.
Proof. exact Proofs.C03.items_good. Qed.
Print Assumptions C03_items.

(* ... in exact form: the collected lists are the successful parse results of the expected items, kind by
   kind in source order, the recorded errors are exactly the failed ones, and no item panicked *)
Theorem C03_items_exact : forall (uc : unicode) (tstr : str -> option ty) (T : list str) (f : file) (r : option parsed),
  dom_C03_front f = true -> parse_file uc tstr T f = Ok r ->
  let rs := map (parse_leaf uc tstr T) (expected_leaves T f) in
  let pd := match r with Some pd => pd | None => empty_parsed end in
  let oks := flat_map (fun o => match o with Ok it => [it] | _ => [] end) rs in
  Forall (fun o => is_panic o = false) rs /\
  p_structs pd = flat_map (fun it => match it with ItStruct s => [s] | _ => [] end) oks /\
  p_enums pd = flat_map (fun it => match it with ItEnum e => [e] | _ => [] end) oks /\
  p_aliases pd = flat_map (fun it => match it with ItAlias a => [a] | _ => [] end) oks /\
  p_consts pd = flat_map (fun it => match it with ItConst c => [c] | _ => [] end) oks /\
  p_errors pd = flat_map (fun o => match o with Err e => [e] | _ => [] end) rs.
Proof. exact Proofs.C03.items_exact. Qed.
Print Assumptions C03_items_exact.

(* an annotated item whose parse fails is reported: its error is recorded in ParsedData.errors (the CLI
   then exits with a diagnostic naming the file: observed on the real binary by the check; C08) *)
Theorem C03_error_recorded : forall (uc : unicode) (tstr : str -> option ty) (T : list str) (f : file) (r : option parsed) (x : item) (e : perr),
  dom_C03_front f = true -> parse_file uc tstr T f = Ok r ->
  In x (expected_leaves T f) -> parse_leaf uc tstr T x = Err e -> exists pd, r = Some pd /\ In e (p_errors pd).
Proof. exact Proofs.C03.error_recorded. Qed.
Print Assumptions C03_error_recorded.

(* no annotated (and accepted) item anywhere in the file: nothing is generated *)
Theorem C03_unannotated_nothing : forall (uc : unicode) (tstr : str -> option ty) (T : list str) (f : file),
  dom_C03_front f = true -> expected_leaves T f = [] -> parse_file uc tstr T f = Ok None.
Proof. exact Proofs.C03.unannotated_nothing. Qed.
Print Assumptions C03_unannotated_nothing.

(* a collected item keeps the kind and the identifier of its source item *)
Theorem C03_item_identity : forall (uc : unicode) (tstr : str -> option ty) (T : list str) (x : item) (it : ritem),
  parse_leaf uc tstr T x = Ok it ->
  c03_leaf_kind_ok x it /\ original (item_id it) = replace_sub (lit "r#") [] (leaf_ident x).
Proof. exact Proofs.C03.parse_leaf_kind. Qed.
Print Assumptions C03_item_identity.

(* C03_members.  The fields of a parsed struct are exactly the source fields not marked serde(skip) /
   typeshare(skip) (in any attribute, at any position) and not excluded by --target-os, in source order:
   a filter/map identity - none dropped, none duplicated, none invented. *)
Theorem C03_members_struct : forall (uc : unicode) (tstr : str -> option ty) (T : list str) attrs ident gens (l : list field) (s : rstruct),
  forallb c03_field_ok l = true ->
  parse_struct uc tstr T attrs ident gens (FNamed l) = Ok (ItStruct s) ->
  map (fun rf => original (fid rf)) (sfields s) = expected_field_names T l.
Proof. exact Proofs.C03.struct_members_spec. Qed.
Print Assumptions C03_members_struct.

(* the same for the variants of an enum ... *)
Theorem C03_members_enum : forall (uc : unicode) (tstr : str -> option ty) (T : list str) attrs ident gens (vs : list variant) (e : renum),
  forallb c03_variant_ok vs = true ->
  parse_enum uc tstr T attrs ident gens vs = Ok (ItEnum e) ->
  map (fun rv => original (vid (variant_shared rv))) (evariants (enum_shared e)) = expected_variant_names T vs.
Proof. exact Proofs.C03.enum_variants_spec. Qed.
Print Assumptions C03_members_enum.

(* ... and for the fields of every struct variant (each parsed variant keeps the form of its source variant) *)
Theorem C03_members_variant_fields : forall (uc : unicode) (tstr : str -> option ty) (T : list str) attrs ident gens (vs : list variant) (e : renum),
  forallb c03_variant_ok vs = true ->
  parse_enum uc tstr T attrs ident gens vs = Ok (ItEnum e) ->
  Forall2 (fun v rv => match v_fields v with
                       | FNamed l => exists fs sh, rv = VAnon fs sh /\ map (fun rf => original (fid rf)) fs = expected_field_names T l
                       | FUnnamed _ => exists t sh, rv = VTuple t sh
                       | FUnit => exists sh, rv = VUnit sh
                       end)
          (filter (fun v => negb (member_skipped T (v_attrs v))) vs) (evariants (enum_shared e)).
Proof. exact Proofs.C03.enum_variant_fields_spec. Qed.
Print Assumptions C03_members_variant_fields.

(* the IR the parser produces lies in the domain of the back-end theorems below *)
Theorem C03_parsed_in_dom : forall (uc : unicode) (tstr : str -> option ty) (T : list str) (x : item) (it : ritem),
  parse_leaf uc tstr T x = Ok it -> dom_C03_item it = true.
Proof. exact Proofs.C03.parsed_in_dom. Qed.
Print Assumptions C03_parsed_in_dom.

(* C03_src_item.  The expectation the check computes from the SOURCE of an annotated item - with serde's
   own reading of skip / rename / rename_all (Spec/Serde.v), for conventional identifiers (dom_C03_src) - is
   the expectation the back-end theorems below are stated with, computed on the IR item it parses to: the
   same definitions, the same member keys and variant wire names, in the same order, for every language. *)
Theorem C03_src_item : forall (uc : unicode), unicode_ok uc -> forall (tstr : str -> option ty) (T : list str) (L : lang) (x : item) (it : ritem),
  dom_C03_src T x = true -> parse_leaf uc tstr T x = Ok it ->
  c03_expected_sigs L it = c03_src_expected_sigs uc T L x.
Proof. exact Proofs.C03Src.src_item. Qed.
Print Assumptions C03_src_item.

(* ... and for a whole file, over the expected items in source order *)
Theorem C03_src_file : forall (uc : unicode), unicode_ok uc -> forall (tstr : str -> option ty) (T : list str) (L : lang) (f : file) (its : list ritem),
  forallb (dom_C03_src T) (expected_leaves T f) = true ->
  Forall2 (fun x it => parse_leaf uc tstr T x = Ok it) (expected_leaves T f) its ->
  c03_src_file_expected uc T L f = flat_map (c03_expected_sigs L) its.
Proof. exact Proofs.C03Src.src_file. Qed.
Print Assumptions C03_src_file.

(* C03_back_TypeScript.  Every IR item yields exactly one TypeScript definition, of the item's kind, listing
   exactly the item's fields / variants in order (the fields of a struct variant inline, in order). *)
Theorem C03_item_TypeScript : forall (uc : unicode) (cfg : ts_config) (it : ritem) st d st',
  ts_decl_of uc cfg it st = Ok (d, st') -> good_C03_item TypeScript it [ts_obs d] = true.
Proof. exact Proofs.C03_TS.ts_item_good. Qed.
Print Assumptions C03_item_TypeScript.

(* ... and a generated TypeScript file defines, as a multiset of signatures, exactly one definition per parsed
   item: none missing, none twice, none invented *)
Theorem C03_back_TypeScript : forall (uc : unicode) (cfg : ts_config) (pd : parsed) (fd : file_decls),
  ts_file_decls uc cfg pd = Ok fd -> good_C03_file TypeScript pd fd = true.
Proof. exact Proofs.C03_TS.ts_file. Qed.
Print Assumptions C03_back_TypeScript.

(* C03_back_Kotlin.  Every IR item (inside dom_C03_item: what the parser produces) yields exactly: one
   <Enum><Variant>Inner class per struct variant, in variant order, listing that variant's fields in order;
   then the definition of the item itself, listing exactly the item's fields / variants in order, every
   variant with the payload form of its source variant.  (A const stops the Kotlin back end with the error
   "constants are not supported for Kotlin": the hypothesis is then false and the run ends with that diagnostic - reported, not
   silently omitted; Props/C07.C07_kotlin_const_is_error.) *)
Theorem C03_item_Kotlin : forall (cfg : kt_config) (it : ritem) ds,
  kt_decl_of cfg it = Ok ds -> dom_C03_item it = true -> good_C03_item Kotlin it (map kt_obs ds) = true.
Proof. exact Proofs.C03_Kotlin.kt_item_good. Qed.
Print Assumptions C03_item_Kotlin.

Theorem C03_back_Kotlin : forall (uc : unicode) (cfg : kt_config) (pd : parsed) (fd : file_decls),
  kt_file_decls uc cfg pd = Ok fd -> dom_C03_file pd = true -> good_C03_file Kotlin pd fd = true.
Proof. exact Proofs.C03_Kotlin.kt_file. Qed.
Print Assumptions C03_back_Kotlin.

(* C03_back_Swift: as Kotlin (CodableVoid is a file-level helper; consts: the error "constants are not supported for Swift", Props/C07.C07_swift_const_is_error) *)
Theorem C03_item_Swift : forall (uc : unicode) (cfg : sw_config) (it : ritem) st d st',
  sw_decl_of uc cfg it st = Ok (d, st') -> dom_C03_item it = true -> good_C03_item Swift it (sw_obs d) = true.
Proof. exact Proofs.C03_Swift.sw_item_good. Qed.
Print Assumptions C03_item_Swift.

Theorem C03_back_Swift : forall (uc : unicode) (cfg : sw_config) (pd : parsed) (fd : file_decls),
  sw_file_decls uc cfg pd = Ok fd -> dom_C03_file pd = true -> good_C03_file Swift pd fd = true.
Proof. exact Proofs.C03_Swift.sw_file. Qed.
Print Assumptions C03_back_Swift.

(* C03_back_Scala: per item as Kotlin; the FILE theorem needs known_C03_file = None, i.e. no const: Scala's
   generate_types never looks at data.consts (finding C03-scala-const, witness below) *)
Theorem C03_item_Scala : forall (cfg : sc_config) (it : ritem) ds,
  sc_decl_of cfg it = Ok ds -> dom_C03_item it = true -> good_C03_item Scala it (flat_map sc_obs ds) = true.
Proof. exact Proofs.C03_Scala.sc_item_good. Qed.
Print Assumptions C03_item_Scala.

Theorem C03_back_Scala : forall (uc : unicode) (cfg : sc_config) (pd : parsed) (fd : file_decls),
  sc_file_decls uc cfg pd = Ok fd -> dom_C03_file pd = true -> known_C03_file uc Scala pd = None ->
  good_C03_file Scala pd fd = true.
Proof. exact Proofs.C03_Scala.sc_file. Qed.
Print Assumptions C03_back_Scala.

Theorem C03_scala_const_refuted :
  exists pd fd, dom_C03_file pd = true /\ known_C03_file uc_exec Scala pd = Some "C03-scala-const"%string /\
                sc_file_decls uc_exec Proofs.C03_Witness.c03_sc_cfg pd = Ok fd /\ good_C03_file Scala pd fd = false.
Proof. exact Proofs.C03_Witness.scala_const_refuted. Qed.
Print Assumptions C03_scala_const_refuted.

(* C03_back_Go: helper structs, then the key type `<Enum><Tag>s` of a data-carrying enum, then the item *)
Theorem C03_item_Go : forall (uc : unicode) (cfg : go_config) (custom_structs : list str) (it : ritem) st ds st',
  go_decl_of uc cfg custom_structs it st = Ok (ds, st') -> good_C03_item Go it (flat_map go_obs ds) = true.
Proof. exact Proofs.C03_Go.go_item_good. Qed.
Print Assumptions C03_item_Go.

Theorem C03_back_Go : forall (uc : unicode) (cfg : go_config) (pd : parsed) (fd : file_decls),
  go_file_decls uc cfg pd = Ok fd -> good_C03_file Go pd fd = true.
Proof. exact Proofs.C03_Go.go_file. Qed.
Print Assumptions C03_back_Go.

(* C03_back_Python: helper classes, then the `<Enum>Types` class listing every wire name, then the item;
   outside the class C03-python-typekey-collision (two wire names with the same Types member name) *)
Theorem C03_item_Python : forall (uc : unicode) (cfg : py_config) (it : ritem) st ds st',
  py_decl_of uc cfg it st = Ok (ds, st') -> dom_C03_item it = true -> known_C03_item uc Python it = None ->
  good_C03_item Python it (flat_map py_obs ds) = true.
Proof. exact Proofs.C03_Python.py_item_good. Qed.
Print Assumptions C03_item_Python.

Theorem C03_back_Python : forall (uc : unicode) (cfg : py_config) (pd : parsed) (fd : file_decls),
  py_file_decls uc cfg pd = Ok fd -> dom_C03_file pd = true -> known_C03_file uc Python pd = None ->
  good_C03_file Python pd fd = true.
Proof. exact Proofs.C03_Python.py_file. Qed.
Print Assumptions C03_back_Python.

Theorem C03_python_typekey_collision_refuted :
  exists pd fd, dom_C03_file pd = true /\ known_C03_file uc_exec Python pd = Some "C03-python-typekey-collision"%string /\
                py_file_decls uc_exec Proofs.C03_Witness.c03_py_cfg pd = Ok fd /\ good_C03_file Python pd fd = false.
Proof. exact Proofs.C03_Witness.python_typekey_collision_refuted. Qed.
Print Assumptions C03_python_typekey_collision_refuted.

(* C03 END TO END.  For every source file inside the quantifier (dom_C03_src_file: cfg attributes rustc accepts,
   conventional identifiers) and outside the two finding classes (decided on the source), whenever parsing
   records no error and the back end answers: the definitions of the generated file (after reconcile_crate,
   for any rename table) are, as a multiset of signatures, exactly what the SOURCE demands - one per annotated,
   target-accepted struct / enum / type / const, plus one helper struct per kept struct variant (TypeScript:
   inline), each listing exactly the source fields / variants not marked skip, in source order, under serde's
   keys.  This is the verdict the check evaluates on the real tool's output (good_C03_src_file). *)
Theorem C03_end_to_end_TypeScript : forall (uc : unicode), unicode_ok uc -> forall (tstr : str -> option ty) (T : list str) (cfg : ts_config)
    (f : file) (pd : parsed) (cn : str) (rn : renames) (fd : file_decls),
  dom_C03_src_file T f = true -> known_C03_src_file uc T TypeScript f = None ->
  parse_file uc tstr T f = Ok (Some pd) -> p_errors pd = [] ->
  ts_file_decls uc cfg (reconcile_crate rn cn pd) = Ok fd ->
  good_C03_src_file uc T TypeScript f (map c03_sig_of (fd_decls fd)) = true.
Proof. exact Proofs.C03_All.e2e_ts. Qed.
Print Assumptions C03_end_to_end_TypeScript.

Theorem C03_end_to_end_Kotlin : forall (uc : unicode), unicode_ok uc -> forall (tstr : str -> option ty) (T : list str) (cfg : kt_config)
    (f : file) (pd : parsed) (cn : str) (rn : renames) (fd : file_decls),
  dom_C03_src_file T f = true -> known_C03_src_file uc T Kotlin f = None ->
  parse_file uc tstr T f = Ok (Some pd) -> p_errors pd = [] ->
  kt_file_decls uc cfg (reconcile_crate rn cn pd) = Ok fd ->
  good_C03_src_file uc T Kotlin f (map c03_sig_of (fd_decls fd)) = true.
Proof. exact Proofs.C03_All.e2e_kt. Qed.
Print Assumptions C03_end_to_end_Kotlin.

Theorem C03_end_to_end_Swift : forall (uc : unicode), unicode_ok uc -> forall (tstr : str -> option ty) (T : list str) (cfg : sw_config)
    (f : file) (pd : parsed) (cn : str) (rn : renames) (fd : file_decls),
  dom_C03_src_file T f = true -> known_C03_src_file uc T Swift f = None ->
  parse_file uc tstr T f = Ok (Some pd) -> p_errors pd = [] ->
  sw_file_decls uc cfg (reconcile_crate rn cn pd) = Ok fd ->
  good_C03_src_file uc T Swift f (map c03_sig_of (fd_decls fd)) = true.
Proof. exact Proofs.C03_All.e2e_sw. Qed.
Print Assumptions C03_end_to_end_Swift.

Theorem C03_end_to_end_Scala : forall (uc : unicode), unicode_ok uc -> forall (tstr : str -> option ty) (T : list str) (cfg : sc_config)
    (f : file) (pd : parsed) (cn : str) (rn : renames) (fd : file_decls),
  dom_C03_src_file T f = true -> known_C03_src_file uc T Scala f = None ->
  parse_file uc tstr T f = Ok (Some pd) -> p_errors pd = [] ->
  sc_file_decls uc cfg (reconcile_crate rn cn pd) = Ok fd ->
  good_C03_src_file uc T Scala f (map c03_sig_of (fd_decls fd)) = true.
Proof. exact Proofs.C03_All.e2e_sc. Qed.
Print Assumptions C03_end_to_end_Scala.

Theorem C03_end_to_end_Go : forall (uc : unicode), unicode_ok uc -> forall (tstr : str -> option ty) (T : list str) (cfg : go_config)
    (f : file) (pd : parsed) (cn : str) (rn : renames) (fd : file_decls),
  dom_C03_src_file T f = true -> known_C03_src_file uc T Go f = None ->
  parse_file uc tstr T f = Ok (Some pd) -> p_errors pd = [] ->
  go_file_decls uc cfg (reconcile_crate rn cn pd) = Ok fd ->
  good_C03_src_file uc T Go f (map c03_sig_of (fd_decls fd)) = true.
Proof. exact Proofs.C03_All.e2e_go. Qed.
Print Assumptions C03_end_to_end_Go.

Theorem C03_end_to_end_Python : forall (uc : unicode), unicode_ok uc -> forall (tstr : str -> option ty) (T : list str) (cfg : py_config)
    (f : file) (pd : parsed) (cn : str) (rn : renames) (fd : file_decls),
  dom_C03_src_file T f = true -> known_C03_src_file uc T Python f = None ->
  parse_file uc tstr T f = Ok (Some pd) -> p_errors pd = [] ->
  py_file_decls uc cfg (reconcile_crate rn cn pd) = Ok fd ->
  good_C03_src_file uc T Python f (map c03_sig_of (fd_decls fd)) = true.
Proof. exact Proofs.C03_All.e2e_py. Qed.
Print Assumptions C03_end_to_end_Python.

(* =============================================================================================
   FOLDER (multi-file) MODE.  The declarations ds of a crate's folder-mode file, generated from ANY state the earlier
   crates of the run left (Proofs.C12Multi*.<l>_multi_decls; Kotlin, Scala: kt_decls / sc_decls), are the declaration
   list of the single-file observation <l>_file_decls of that crate (Props/C01.v C01_multi_file_decls_<l>) - next to
   Swift's trailing CodableVoid helper and Python's header helper entries, which are not item declarations - and that
   observation defines exactly one definition per parsed item: the conclusion of C03_back_<L>, no hypothesis about
   the state. *)
Theorem C03_multi_back_TypeScript :
  forall uc cfg st pd ds st',
  Proofs.C12MultiTS.ts_multi_decls uc cfg st pd = Ok (ds, st') ->
  exists fd, ts_file_decls uc cfg pd = Ok fd /\ fd_decls fd = map ts_obs ds /\ good_C03_file TypeScript pd fd = true.
Proof. exact Proofs.MultiSameItems.c03_multi_back_ts. Qed.
Print Assumptions C03_multi_back_TypeScript.

Theorem C03_multi_back_Kotlin :
  forall uc cfg c im pd text,
  kt_generate_multi uc cfg c im pd = Ok text -> dom_C03_file pd = true ->
  exists ds fd, kt_decls uc cfg pd = Ok ds /\ kt_file_decls uc cfg pd = Ok fd /\ fd_decls fd = map kt_obs ds /\
                good_C03_file Kotlin pd fd = true.
Proof. exact Proofs.MultiSameItems.c03_multi_back_kt. Qed.
Print Assumptions C03_multi_back_Kotlin.

Theorem C03_multi_back_Swift :
  forall uc cfg st pd ds st',
  Proofs.C12MultiSwift.sw_multi_decls uc cfg st pd = Ok (ds, st') -> dom_C03_file pd = true ->
  exists fd st0, sw_file_decls uc cfg pd = Ok fd /\
                 fd_decls fd = flat_map sw_obs ds ++ flat_map sw_obs (sw_trailing_decls cfg st0) /\
                 good_C03_file Swift pd fd = true.
Proof. exact Proofs.MultiSameItems.c03_multi_back_sw. Qed.
Print Assumptions C03_multi_back_Swift.

Theorem C03_multi_back_Scala :
  forall uc cfg pd text,
  sc_generate uc cfg pd = Ok text -> dom_C03_file pd = true -> known_C03_file uc Scala pd = None ->
  exists objs pkgs fd, sc_decls uc cfg pd = Ok (objs, pkgs) /\ sc_file_decls uc cfg pd = Ok fd /\
                       fd_decls fd = flat_map sc_obs (objs ++ pkgs) /\ good_C03_file Scala pd fd = true.
Proof. exact Proofs.MultiSameItems.c03_multi_back_sc. Qed.
Print Assumptions C03_multi_back_Scala.

Theorem C03_multi_back_Go :
  forall uc cfg st pd ds st',
  Proofs.C12MultiGo.go_multi_decls uc cfg st pd = Ok (ds, st') ->
  exists fd, go_file_decls uc cfg pd = Ok fd /\ fd_decls fd = flat_map go_obs ds /\ good_C03_file Go pd fd = true.
Proof. exact Proofs.MultiSameItems.c03_multi_back_go. Qed.
Print Assumptions C03_multi_back_Go.

Theorem C03_multi_back_Python :
  forall uc cfg st pd ds st',
  Proofs.C12Multi.py_multi_decls uc cfg st pd = Ok (ds, st') -> dom_C03_file pd = true -> known_C03_file uc Python pd = None ->
  exists fd helpers, py_file_decls uc cfg pd = Ok fd /\
                     fd_decls fd = map py_helper_decl helpers ++ flat_map py_obs ds /\ good_C03_file Python pd fd = true.
Proof. exact Proofs.MultiSameItems.c03_multi_back_py. Qed.
Print Assumptions C03_multi_back_Python.
