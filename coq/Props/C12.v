(* C12 property theorems: statements only; proofs live in Proofs/C12*.v.
   [c12_<L>_observe uc cfg pd] = (helper names the declarations of the generated file use, helper
   names the file defines or imports), read by Spec/C12Spec.v off the declarations the model of the
   back end computes; [c12_good uses defs] = every used name is among the defined ones. *)
From Coq Require Import String List.
From TS Require Import Model.Str Model.Outcome Model.Unicode Model.Types Model.Parse Model.Lang.Common Model.Lang.Decl
                       Model.Lang.Swift Model.Lang.Scala Model.Lang.Go Model.Lang.Kotlin Spec.C12Spec Proofs.C12Obs.
From TS Require Proofs.C12 Proofs.C12_Swift Proofs.C12_Go Proofs.C12_Kotlin.
Import ListNotations.

(* Swift, single file: for every program and configuration (any prefix, mappings, decorators), ()
   at any depth in any position: a file whose declarations spell CodableVoid ends with its
   definition.  dom: no type name or generic parameter of the program is itself `CodableVoid`. *)
Theorem C12_swift :
  forall (uc : unicode) (cfg : sw_config) (pd : parsed) (uses defs : list str),
    c12_sw_observe uc cfg pd = Ok (uses, defs) -> c12_sw_dom cfg (items_of pd) = true ->
    c12_good uses defs = true.
Proof. exact Proofs.C12.c12_swift. Qed.
Print Assumptions C12_swift.

(* Swift, the flag itself, from ANY initial state (multi-file mode threads one Swift value through
   all crates and never resets should_emit_codable_void): formatting a sequence of items never clears
   the flag and leaves it set whenever a declaration produced spells CodableVoid; post_generation
   then writes Codable.swift. *)
Theorem C12_swift_flag_any_state :
  forall (uc : unicode) (cfg : sw_config) (items : list ritem) (s : sw_state) (ds : list sw_decl) (s' : sw_state),
    c12_sw_dom cfg items = true ->
    mmapM (sw_decl_of uc cfg) items s = Ok (ds, s') ->
    (s = true -> s' = true) /\ (c12_sw_uses ds <> [] -> s' = true).
Proof.
  intros uc cfg items s ds s' Hdom H.
  exact (Proofs.C12_Swift.c12_sw_items_flag uc cfg items (Proofs.C12_Swift.c12_sw_dom_items cfg items Hdom) s ds s' H).
Qed.
Print Assumptions C12_swift_flag_any_state.

(* Scala: for every program and configuration outside the class C12-scala-unsigned-depth, every
   UByte/UShort/UInt/ULong the declarations spell (an unsigned integer at any depth) is defined by
   the alias block. *)
Theorem C12_scala :
  forall (uc : unicode) (cfg : sc_config) (pd : parsed) (uses defs : list str),
    c12_sc_observe uc cfg pd = Ok (uses, defs) -> c12_sc_dom pd = true -> c12_sc_known cfg pd = None ->
    c12_good uses defs = true.
Proof. exact Proofs.C12.c12_scala. Qed.
Print Assumptions C12_scala.

(* the class is inhabited: `type Grid = Vec<Vec<u16>>` spells UShort, the scan sees nothing *)
Theorem C12_scala_unsigned_depth_refuted :
  c12_sc_known Proofs.C12_Scala.c12_sc_cfg0 Proofs.C12_Scala.c12_sc_witness = Some "C12-scala-unsigned-depth"%string /\
  c12_sc_dom Proofs.C12_Scala.c12_sc_witness = true /\
  c12_sc_observe uc_exec Proofs.C12_Scala.c12_sc_cfg0 Proofs.C12_Scala.c12_sc_witness = Ok ([lit "UShort"], []) /\
  c12_good [lit "UShort"] [] = false.
Proof. exact Proofs.C12.c12_scala_refuted. Qed.
Print Assumptions C12_scala_unsigned_depth_refuted.

(* Go: for every program, and every configuration without uppercase_acronyms (c12_go_dom; it also
   asks that no type name of the program itself starts with `time.` / `json.`): every package a
   declaration refers to (time. in a type at any depth, json. in the methods of a tagged enum) is in
   the import block written above the body. *)
Theorem C12_go :
  forall (uc : unicode) (cfg : go_config) (pd : parsed) (uses defs : list str),
    c12_go_observe uc cfg pd = Ok (uses, defs) -> c12_go_dom cfg (items_of pd) = true ->
    c12_good uses defs = true.
Proof. exact Proofs.C12_Go.c12_go. Qed.
Print Assumptions C12_go.

(* Kotlin: for every program and configuration outside the two classes (empty package name; a
   JvmInline value class), the annotations the declarations carry are imported by the header. *)
Theorem C12_kotlin :
  forall (uc : unicode) (cfg : kt_config) (pd : parsed) (uses defs : list str),
    c12_kt_observe uc cfg pd = Ok (uses, defs) -> c12_kt_known cfg pd = None ->
    c12_good uses defs = true.
Proof. exact Proofs.C12_Kotlin.c12_kotlin. Qed.
Print Assumptions C12_kotlin.

Theorem C12_kotlin_empty_package_refuted :
  c12_kt_known (Proofs.C12.c12_kt_cfg []) Proofs.C12.c12_nonvac_pd = Some "C12-kotlin-empty-package"%string /\
  c12_kt_observe uc_exec (Proofs.C12.c12_kt_cfg []) Proofs.C12.c12_nonvac_pd = Ok ([lit "Serializable"], []) /\
  c12_good [lit "Serializable"] [] = false.
Proof. exact Proofs.C12.c12_kotlin_empty_package_refuted. Qed.
Print Assumptions C12_kotlin_empty_package_refuted.

Theorem C12_kotlin_jvminline_refuted :
  c12_kt_known (Proofs.C12.c12_kt_cfg (lit "com.p")) Proofs.C12.c12_kt_inline_pd = Some "C12-kotlin-jvminline"%string /\
  c12_kt_observe uc_exec (Proofs.C12.c12_kt_cfg (lit "com.p")) Proofs.C12.c12_kt_inline_pd =
    Ok ([lit "Serializable"; lit "JvmInline"], [lit "Serializable"; lit "SerialName"]) /\
  c12_good [lit "Serializable"; lit "JvmInline"] [lit "Serializable"; lit "SerialName"] = false.
Proof. exact Proofs.C12.c12_kotlin_jvminline_refuted. Qed.
Print Assumptions C12_kotlin_jvminline_refuted.
