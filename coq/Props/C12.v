(* C12 property theorems: statements only; proofs live in Proofs/C12*.v.
   [c12_<L>_observe uc cfg pd] = (helper names the declarations of the generated file use, helper
   names the file defines or imports), read by Spec/C12Spec.v off the declarations the model of the
   back end computes; [c12_good uses defs] = every used name is among the defined ones. *)
From Coq Require Import String List.
From TS Require Import Model.Str Model.Outcome Model.Unicode Model.Types Model.Parse Model.Lang.Common Model.Lang.Decl
                       Model.Lang.Swift Model.Lang.Scala Model.Lang.Go Model.Lang.Kotlin Model.Lang.Python Spec.C12Spec Proofs.C12Obs.
From TS Require Proofs.C12 Proofs.C12_Swift Proofs.C12_Go Proofs.C12_Kotlin Proofs.C12_Python.
From TS Require Import Model.MultiFile Model.Lang.TypeScript Spec.C12TSSpec.
From TS Require Model.Writer Spec.C17Spec Proofs.C02_Witness Proofs.C12Multi Proofs.C12MultiGo Proofs.C12MultiSwift Proofs.C12MultiStateless Proofs.C12MultiTS Proofs.C12MultiWitness.
Import ListNotations.

(* Swift, single file: for every program and configuration (any prefix, mappings, decorators), ()
   at any depth in any position: a file whose declarations spell CodableVoid ends with its
   definition.  dom: no type name or generic parameter of the program is itself `CodableVoid`. *)
Theorem C12_swift :
  forall (uc : unicode) (cfg : sw_config) (pd : parsed) (uses defs : list str),
    c12_sw_observe uc cfg pd = Ok (uses, defs) -> c12_sw_dom cfg (items_of pd) = true ->
    c12_good uses defs = true.
Proof. exact Proofs.C12.c12_swift. Qed.
Print Assumptions C12_swift.

(* Swift, the flag itself, from ANY initial state (multi-file mode threads one Swift value through
   all crates and never resets should_emit_codable_void): formatting a sequence of items never clears
   the flag and leaves it set whenever a declaration produced spells CodableVoid; post_generation
   then writes Codable.swift. *)
Theorem C12_swift_flag_any_state :
  forall (uc : unicode) (cfg : sw_config) (items : list ritem) (s : sw_state) (ds : list sw_decl) (s' : sw_state),
    c12_sw_dom cfg items = true ->
    mmapM (sw_decl_of uc cfg) items s = Ok (ds, s') ->
    (s = true -> s' = true) /\ (c12_sw_uses ds <> [] -> s' = true).
Proof.
  intros uc cfg items s ds s' Hdom H.
  exact (Proofs.C12_Swift.c12_sw_items_flag uc cfg items (Proofs.C12_Swift.c12_sw_dom_items cfg items Hdom) s ds s' H).
Qed.
Print Assumptions C12_swift_flag_any_state.

(* Scala: for every program and configuration, every UByte/UShort/UInt/ULong the declarations spell
   (an unsigned integer at any depth) is defined by the alias block.  No carve-out: the class
   C12-scala-unsigned-depth is fixed in /repo (unsigned_integer_used scans recursively). *)
Theorem C12_scala :
  forall (uc : unicode) (cfg : sc_config) (pd : parsed) (uses defs : list str),
    c12_sc_observe uc cfg pd = Ok (uses, defs) -> c12_sc_dom pd = true ->
    c12_good uses defs = true.
Proof. exact Proofs.C12.c12_scala. Qed.
Print Assumptions C12_scala.

(* regression pin of the fixed finding: `type Grid = Vec<Vec<u16>>` spells UShort two levels deep; the
   scan sees it and the file now has the alias block *)
Theorem C12_scala_unsigned_depth_fixed :
  c12_sc_dom Proofs.C12_Scala.c12_sc_witness = true /\
  c12_sc_scan Proofs.C12_Scala.c12_sc_witness = true /\
  c12_sc_observe uc_exec Proofs.C12_Scala.c12_sc_cfg0 Proofs.C12_Scala.c12_sc_witness =
    Ok ([lit "UShort"], [lit "UByte"; lit "UShort"; lit "UInt"; lit "ULong"]) /\
  c12_good [lit "UShort"] [lit "UByte"; lit "UShort"; lit "UInt"; lit "ULong"] = true.
Proof. exact Proofs.C12.c12_scala_unsigned_depth_fixed. Qed.
Print Assumptions C12_scala_unsigned_depth_fixed.

(* Go: for every program, and every configuration without uppercase_acronyms (c12_go_dom; configurations
   with acronyms: C12_go_acronyms below; it also
   asks that no type name of the program itself starts with `time.` / `json.`): every package a
   declaration refers to (time. in a type at any depth, json. in the methods of a tagged enum) is in
   the import block written above the body. *)
Theorem C12_go :
  forall (uc : unicode) (cfg : go_config) (pd : parsed) (uses defs : list str),
    c12_go_observe uc cfg pd = Ok (uses, defs) -> c12_go_dom cfg (items_of pd) = true ->
    c12_good uses defs = true.
Proof. exact Proofs.C12_Go.c12_go. Qed.
Print Assumptions C12_go.

(* Go WITH uppercase_acronyms: for every Unicode table agreeing with ASCII below 128, every program and every
   configuration whose acronyms are alphanumeric, whose type names and type_mappings values are ASCII and whose
   type names do not start with `time.` / `json.` (c12_go_dom_acr): the same conclusion.  The acronym rewrite
   of go.rs:579 works on the printed text of a type; on such input it only changes the case of letters
   (Proofs/GoAcronyms.v), so it can neither create nor destroy a `time.` / `json.` qualifier. *)
Theorem C12_go_acronyms :
  forall (uc : unicode), unicode_ok uc ->
  forall (cfg : go_config) (pd : parsed) (uses defs : list str),
    c12_go_observe uc cfg pd = Ok (uses, defs) -> c12_go_dom_acr cfg (items_of pd) = true ->
    c12_good uses defs = true.
Proof. exact Proofs.C12_Go.c12_go_acronyms. Qed.
Print Assumptions C12_go_acronyms.

(* the hypotheses are satisfiable with a real rewrite next to a package use *)
Theorem C12_go_acronyms_nonvacuous :
  c12_go_dom_acr Proofs.C12_Go.c12_go_acr_cfg (items_of Proofs.C12_Go.c12_go_acr_pd) = true /\
  c12_go_observe uc_exec Proofs.C12_Go.c12_go_acr_cfg Proofs.C12_Go.c12_go_acr_pd =
    Ok ([lit "time"], [lit "json"; lit "time"]).
Proof. exact Proofs.C12_Go.c12_go_acronyms_nonvacuous. Qed.
Print Assumptions C12_go_acronyms_nonvacuous.

(* Kotlin: for every program and configuration outside the two classes (empty package name; a
   JvmInline value class), the annotations the declarations carry are imported by the header. *)
Theorem C12_kotlin :
  forall (uc : unicode) (cfg : kt_config) (pd : parsed) (uses defs : list str),
    c12_kt_observe uc cfg pd = Ok (uses, defs) -> c12_kt_known cfg pd = None ->
    c12_good uses defs = true.
Proof. exact Proofs.C12_Kotlin.c12_kotlin. Qed.
Print Assumptions C12_kotlin.

Theorem C12_kotlin_empty_package_refuted :
  c12_kt_known (Proofs.C12.c12_kt_cfg []) Proofs.C12.c12_nonvac_pd = Some "C12-kotlin-empty-package"%string /\
  c12_kt_observe uc_exec (Proofs.C12.c12_kt_cfg []) Proofs.C12.c12_nonvac_pd = Ok ([lit "Serializable"], []) /\
  c12_good [lit "Serializable"] [] = false.
Proof. exact Proofs.C12.c12_kotlin_empty_package_refuted. Qed.
Print Assumptions C12_kotlin_empty_package_refuted.

Theorem C12_kotlin_jvminline_refuted :
  c12_kt_known (Proofs.C12.c12_kt_cfg (lit "com.p")) Proofs.C12.c12_kt_inline_pd = Some "C12-kotlin-jvminline"%string /\
  c12_kt_observe uc_exec (Proofs.C12.c12_kt_cfg (lit "com.p")) Proofs.C12.c12_kt_inline_pd =
    Ok ([lit "Serializable"; lit "JvmInline"], [lit "Serializable"; lit "SerialName"]) /\
  c12_good [lit "Serializable"; lit "JvmInline"] [lit "Serializable"; lit "SerialName"] = false.
Proof. exact Proofs.C12.c12_kotlin_jvminline_refuted. Qed.
Print Assumptions C12_kotlin_jvminline_refuted.

(* Python, the formatter (every Rust type, any depth, from any state): translating a type never removes
   an import and leaves imported every name of the fixed vocabulary (Optional, List, Dict, datetime)
   the translated type spells.  ids: no user type name of t is a reserved word. *)
Theorem C12_python_format_type :
  forall (cfg : py_config) (generics : list str) (t : rtype),
    Forall (fun id => ~ In id c12_py_reserved) (c12_rtype_ids t) ->
    forall (s : py_state) (x : texp) (s' : py_state),
      py_texp cfg generics t s = Ok (x, s') ->
      incl (c12_py_imported s) (c12_py_imported s') /\
      (forall u, In u (c12_py_tnames x) -> In u c12_py_fixed -> In u (c12_py_imported s')).
Proof.
  intros cfg generics t Hid s x s' H.
  destruct (Proofs.C12_Python.c12_py_texp_imports cfg generics t Hid s x s' H) as [[L _] Q]. split; [exact L|exact Q].
Qed.
Print Assumptions C12_python_format_type.

(* Python, the WHOLE file (header + body): for every program and configuration, every helper name the
   generated file uses - in the body: type names of the fixed vocabulary at any depth, BaseModel / Generic /
   ConfigDict / Field / Annotated / BeforeValidator / PlainSerializer / Enum / Literal / Union of the templates,
   the generic parameters of class headers and of types (alias targets included), the (de)serialiser functions an
   Annotated field names; in the header (written AFTER the body from the state it left): TypeVar of the
   `T = TypeVar("T")` lines, datetime inside the datetime helper functions - is imported, declared as a
   TypeVar or defined as a helper function by that header.  dom: no user type name / generic parameter is
   a word of the helper vocabulary, no type_mappings value is the text `datetime`.
   No carve-out: the classes C12-python-alias-typevar and C12-python-default-translation are fixed in /repo
   (write_type_alias declares the alias's parameters as TypeVars; write_field registers the unwrapped type). *)
Theorem C12_python :
  forall (uc : unicode) (cfg : py_config) (pd : parsed) (uses defs : list str),
    c12_py_observe uc cfg pd = Ok (uses, defs) -> c12_py_dom cfg (items_of pd) = true ->
    c12_good uses defs = true.
Proof. exact Proofs.C12.c12_python. Qed.
Print Assumptions C12_python.

(* the hypotheses are satisfiable on an input that exercises every half: generic struct + generic alias
   sharing T, a generic alias whose parameter U nothing else declares, serde(default) OffsetDateTime next to a
   plain one, serde(default) Vec<u8> mapped to bytes next to one the formatter registers two levels deep *)
Theorem C12_python_nonvacuous :
  c12_py_dom Proofs.C12.c12_py_cfg1 (items_of Proofs.C12.c12_py_full_pd) = true /\
  exists uses defs, c12_py_observe uc_exec Proofs.C12.c12_py_cfg1 Proofs.C12.c12_py_full_pd = Ok (uses, defs) /\
                    In (lit "T") uses /\ In (lit "U") uses /\ In (lit "TypeVar") uses /\ In (lit "parse_rfc3339") uses /\
                    In (lit "deserialize_binary_data") uses /\ In (lit "datetime") uses /\
                    c12_good uses defs = true.
Proof. exact Proofs.C12.c12_python_file_nonvacuous. Qed.
Print Assumptions C12_python_nonvacuous.

(* Python, the body alone (kept from before C12_python; partial): every name the declarations of the body use
   is defined or imported by the header, OR is a generic parameter name of the program, OR one of the four
   (de)serialiser function names.  The two "OR"s are what the two repaired classes decided on the unchanged
   tree; C12_python above closes them and adds the header's own uses. *)
Theorem C12_python_body_partial :
  forall (uc : unicode) (cfg : py_config) (pd : parsed) (ds : list py_decl) (st : py_state),
    py_decls uc cfg pd = Ok (ds, st) -> c12_py_dom cfg (items_of pd) = true ->
    forall u, In u (flat_map (c12_py_decl_uses (c12_py_tv_vocab (items_of pd))) ds) ->
      In u (c12_py_tv_vocab (items_of pd)) \/ In u Proofs.C12_Python.c12_py_fn_names \/
      In u (c12_py_defs (py_type_variables st) (c12_py_fns st) (c12_py_imported st)).
Proof. exact Proofs.C12_Python.c12_py_file_partial. Qed.
Print Assumptions C12_python_body_partial.

(* REGRESSION PINS of the two fixed findings (vm_compute): the former witnesses through the model.
   `#[typeshare] pub type GA<T> = Vec<T>;` alone: the file declares `T = TypeVar("T")`, imports TypeVar, and the
   alias is the plain assignment `GA = List[T]` (before the repair: `GA[T] = List[T]`, T undefined). *)
Theorem C12_python_alias_typevar_fixed :
  c12_py_known Proofs.C12.c12_py_cfg0 Proofs.C12.c12_py_alias_pd = None /\
  c12_py_dom Proofs.C12.c12_py_cfg0 (items_of Proofs.C12.c12_py_alias_pd) = true /\
  py_generate uc_exec Proofs.C12.c12_py_cfg0 Proofs.C12.c12_py_alias_pd = Ok Proofs.C12.c12_py_alias_text /\
  c12_py_observe uc_exec Proofs.C12.c12_py_cfg0 Proofs.C12.c12_py_alias_pd =
    Ok ([lit "TypeVar"; lit "List"; lit "T"], [lit "T"; lit "List"; lit "TypeVar"]) /\
  c12_good [lit "TypeVar"; lit "List"; lit "T"] [lit "T"; lit "List"; lit "TypeVar"] = true.
Proof. exact Proofs.C12.c12_python_alias_typevar_fixed. Qed.
Print Assumptions C12_python_alias_typevar_fixed.

(* `struct S { #[serde(default)] at: OffsetDateTime }` alone: the field is annotated with parse_rfc3339 /
   serialize_datetime_data and the header now defines both (before the repair the set held `Optional[datetime]`,
   for which no functions are written) *)
Theorem C12_python_default_translation_fixed :
  c12_py_known Proofs.C12.c12_py_cfg0 Proofs.C12.c12_py_default_pd = None /\
  c12_py_dom Proofs.C12.c12_py_cfg0 (items_of Proofs.C12.c12_py_default_pd) = true /\
  py_generate uc_exec Proofs.C12.c12_py_cfg0 Proofs.C12.c12_py_default_pd = Ok Proofs.C12.c12_py_default_text /\
  contains_sub (lit "def parse_rfc3339(date_str: str) -> datetime:") Proofs.C12.c12_py_default_text = true /\
  contains_sub (lit "def serialize_datetime_data(utc_time: datetime) -> str:") Proofs.C12.c12_py_default_text = true /\
  c12_py_observe uc_exec Proofs.C12.c12_py_cfg0 Proofs.C12.c12_py_default_pd =
    Ok (Proofs.C12.c12_py_default_uses, Proofs.C12.c12_py_default_defs) /\
  c12_good Proofs.C12.c12_py_default_uses Proofs.C12.c12_py_default_defs = true.
Proof. exact Proofs.C12.c12_python_default_translation_fixed. Qed.
Print Assumptions C12_python_default_translation_fixed.

(* ---------------------------------------------------------------------------------------------
   MULTI-FILE (folder output, `-d`) MODE.  The language value lives as long as the run: generate_crates
   (Model/MultiFile.v) threads the printer state from one crate's file to the next, in plan order.  Vocabulary
   (Proofs/C12Multi.v):
     <l>_multi_decls uc cfg st pd     the declarations of ONE file and the state reached, from the state st the earlier
                                      crates left (= <l>_decls of the single-file theorems when st is the initial state)
     c12_<l>_observe_multi .. st pd   the observation (names used, names defined/imported) of that file, read by
                                      the SAME readers of Spec/C12Spec.v as the single-file observation
     <l>_multi_gen uc cfg             the multi-file generator in the shape generate_crates takes
   Each language has: a layout theorem tying <l>_multi_decls to the TEXT <l>_generate_multi writes, the per-file
   judgement from any admissible state, and the run: every file of generate_crates satisfies the judgement. *)

(* Python, what py_multi_decls is: py_generate_multi succeeds with `text` IF AND ONLY IF py_multi_decls succeeds
   with declarations ds and the same final state, and text is the header, the import block / TypeVar lines / helper
   functions of the state REACHED after the last declaration, then the rendering of exactly ds. *)
Theorem C12_multi_python_layout :
  forall (uc : unicode) (cfg : py_config) (st : py_state) (pd : parsed) (text : str) (st' : py_state),
    py_generate_multi uc cfg st pd = Ok (text, st') <->
    exists ds, Proofs.C12Multi.py_multi_decls uc cfg st pd = Ok (ds, st') /\
               text = py_begin_file cfg ++ py_write_all_imports st' ++ py_write_custom_translations st' ++
                      List.concat (map py_render_decl ds).
Proof. exact Proofs.C12Multi.py_multi_layout. Qed.
Print Assumptions C12_multi_python_layout.

(* from the initial state of a run the multi-file observation is the single-file one *)
Theorem C12_multi_python_observe_initial :
  forall (uc : unicode) (cfg : py_config) (pd : parsed),
    Proofs.C12Multi.c12_py_observe_multi uc cfg py_empty_state pd = c12_py_observe uc cfg pd.
Proof. exact Proofs.C12Multi.c12_py_observe_multi_empty. Qed.
Print Assumptions C12_multi_python_observe_initial.

(* the invariant on printer states, in words; the initial state of a run (py_empty_state, as the CLI model and
   the driver start generate_crates) satisfies it *)
Theorem C12_multi_python_state_ok_meaning :
  (forall st : py_state,
     Proofs.C12Multi.c12_py_state_ok st = true <->
     (py_type_variables st <> [] -> In (lit "TypeVar") (c12_py_imported st)) /\
     (In (lit "datetime") (py_custom_types st) -> In (lit "datetime") (c12_py_imported st))) /\
  Proofs.C12Multi.c12_py_state_ok py_empty_state = true.
Proof. split; [exact Proofs.C12Multi.c12_py_state_ok_spec|exact Proofs.C12Multi.c12_py_empty_state_ok]. Qed.
Print Assumptions C12_multi_python_state_ok_meaning.

(* Python, ONE FILE from ANY state that satisfies the invariant - whatever else the earlier crates left in it
   (imports, TypeVars, helper translations: they only make the header define MORE): the judgement of C12_python,
   under the same hypothesis on THIS crate (dom; no class is left, see C12_python); and the state reached satisfies
   the invariant again. *)
Theorem C12_multi_python_file :
  forall (uc : unicode) (cfg : py_config) (st0 : py_state) (pd : parsed),
    Proofs.C12Multi.c12_py_state_ok st0 = true -> c12_py_dom cfg (items_of pd) = true ->
    (forall uses defs, Proofs.C12Multi.c12_py_observe_multi uc cfg st0 pd = Ok (uses, defs) ->
       c12_good uses defs = true) /\
    (forall ds st, Proofs.C12Multi.py_multi_decls uc cfg st0 pd = Ok (ds, st) -> Proofs.C12Multi.c12_py_state_ok st = true).
Proof.
  intros uc cfg st0 pd Hinv Hdom. split.
  - intros uses defs H. exact (Proofs.C12Multi.c12_python_multi_file uc cfg st0 pd uses defs Hinv H Hdom).
  - intros ds st H. exact (Proofs.C12Multi.c12_py_state_ok_step uc cfg st0 pd ds st Hinv H Hdom).
Qed.
Print Assumptions C12_multi_python_file.

(* Python, THE RUN: for every plan (any number of crates, any data), every configuration and every initial state
   satisfying the invariant (py_empty_state does), every file generate_crates produces - file number i, provided the
   crates up to and including number i are in the domain - is what py_generate_multi returns on crate number i's
   data from a state st_i that satisfies the invariant; its text is the layout above over the declarations ds;
   and its observation satisfies the per-file judgement of C12_python: every helper name the file uses - in the
   body or in the header written from the accumulated state - is imported, declared as a TypeVar or defined as a
   helper function by that file's header.  When the run completes on a plan inside the domain, the final state satisfies
   the invariant.  (Carry-over makes a later file import or define more than it uses - see the pins below -, never
   less.) *)
Theorem C12_multi_python :
  forall (uc : unicode) (cfg : py_config) (st0 : py_state) (plan : list out_plan)
         (files : list (str * Writer.gen_result)) (fin : outcome py_state),
    Proofs.C12Multi.c12_py_state_ok st0 = true ->
    generate_crates (Proofs.C12Multi.py_multi_gen uc cfg) st0 plan = (files, fin) ->
    (forall i fname text,
       nth_error files i = Some (fname, Writer.Generated text) ->
       Forall (fun p => c12_py_dom cfg (items_of (op_data p)) = true) (firstn (S i) plan) ->
       exists p st_i st_i' ds uses defs,
         nth_error plan i = Some p /\ fname = op_file p /\ Proofs.C12Multi.c12_py_state_ok st_i = true /\
         py_generate_multi uc cfg st_i (op_data p) = Ok (text, st_i') /\
         Proofs.C12Multi.py_multi_decls uc cfg st_i (op_data p) = Ok (ds, st_i') /\
         text = py_begin_file cfg ++ py_write_all_imports st_i' ++ py_write_custom_translations st_i' ++
                List.concat (map py_render_decl ds) /\
         Proofs.C12Multi.c12_py_observe_multi uc cfg st_i (op_data p) = Ok (uses, defs) /\
         c12_good uses defs = true) /\
    (forall st', fin = Ok st' -> Forall (fun p => c12_py_dom cfg (items_of (op_data p)) = true) plan ->
       Proofs.C12Multi.c12_py_state_ok st' = true).
Proof. exact Proofs.C12Multi.c12_multi_python. Qed.
Print Assumptions C12_multi_python.

(* the generator of C12_multi_python is py_generate_multi (the crate name and the import list are not used) *)
Theorem C12_multi_python_gen_meaning :
  forall uc cfg st c im pd, Proofs.C12Multi.py_multi_gen uc cfg st c im pd = py_generate_multi uc cfg st pd.
Proof. reflexivity. Qed.
Print Assumptions C12_multi_python_gen_meaning.

(* NON-VACUITY (vm_compute), workspaces of Proofs/C12MultiWitness.v parsed by the multi-file front end:
     alpha/src/lib.rs:  #[typeshare] struct Page<T> { item: T, at: OffsetDateTime }
     beta/src/lib.rs:   #[typeshare] struct Plain { n: u32 }                          (ws_py_plain)
   Both crates are in the domain; the run from py_empty_state completes; beta.py is
   y_beta_plain_py byte for byte: although Plain uses neither a type variable nor datetime, its header carries the
   imports, `T = TypeVar("T")` and the datetime helper functions crate alpha left in the printer, and imports what
   these use.  py_multi_observations = the observation of every file, the state threaded as generate_crates does. *)
Theorem C12_multi_python_nonvacuous_plain :
  exists plan t_alpha st_fin,
    Proofs.C12MultiWitness.y_plan Python Proofs.C12MultiWitness.ws_py_plain = Some plan /\
    map op_crate plan = [lit "alpha"; lit "beta"] /\
    forallb (fun p => c12_py_dom Proofs.C12MultiWitness.y_py_cfg (items_of (op_data p))) plan = true /\
    generate_crates (Proofs.C12Multi.py_multi_gen uc_exec Proofs.C12MultiWitness.y_py_cfg) py_empty_state plan =
      ([(lit "alpha.py", Writer.Generated t_alpha); (lit "beta.py", Writer.Generated Proofs.C12MultiWitness.y_beta_plain_py)], Ok st_fin) /\
    py_type_variables st_fin = [lit "T"] /\ py_custom_types st_fin = [lit "datetime"] /\
    Proofs.C12MultiWitness.py_multi_observations Proofs.C12MultiWitness.y_py_cfg py_empty_state plan =
      [(lit "alpha.py", Ok (Proofs.C12MultiWitness.y_py_uses_generic (lit "T"), Proofs.C12MultiWitness.y_py_defs_alpha));
       (lit "beta.py", Ok ([lit "TypeVar"; lit "datetime"; lit "BaseModel"], Proofs.C12MultiWitness.y_py_defs_alpha))] /\
    c12_good (Proofs.C12MultiWitness.y_py_uses_generic (lit "T")) Proofs.C12MultiWitness.y_py_defs_alpha = true /\
    c12_good [lit "TypeVar"; lit "datetime"; lit "BaseModel"] Proofs.C12MultiWitness.y_py_defs_alpha = true.
Proof. exact Proofs.C12MultiWitness.c12_multi_python_nonvacuous_plain. Qed.
Print Assumptions C12_multi_python_nonvacuous_plain.

(* ... and with beta/src/lib.rs: #[typeshare] struct Other<U> { item: U, at: OffsetDateTime } (ws_py_again): the
   second crate uses generics + datetime too; its file declares both T and U and uses U *)
Theorem C12_multi_python_nonvacuous_again :
  exists plan t_alpha t_beta st_fin,
    Proofs.C12MultiWitness.y_plan Python Proofs.C12MultiWitness.ws_py_again = Some plan /\
    map op_crate plan = [lit "alpha"; lit "beta"] /\
    forallb (fun p => c12_py_dom Proofs.C12MultiWitness.y_py_cfg (items_of (op_data p))) plan = true /\
    generate_crates (Proofs.C12Multi.py_multi_gen uc_exec Proofs.C12MultiWitness.y_py_cfg) py_empty_state plan =
      ([(lit "alpha.py", Writer.Generated t_alpha); (lit "beta.py", Writer.Generated t_beta)], Ok st_fin) /\
    py_type_variables st_fin = [lit "T"; lit "U"] /\
    Proofs.C12MultiWitness.py_multi_observations Proofs.C12MultiWitness.y_py_cfg py_empty_state plan =
      [(lit "alpha.py", Ok (Proofs.C12MultiWitness.y_py_uses_generic (lit "T"), Proofs.C12MultiWitness.y_py_defs_alpha));
       (lit "beta.py", Ok (Proofs.C12MultiWitness.y_py_uses_generic (lit "U"),
                           lit "T" :: lit "U" :: tl Proofs.C12MultiWitness.y_py_defs_alpha))] /\
    c12_good (Proofs.C12MultiWitness.y_py_uses_generic (lit "U")) (lit "T" :: lit "U" :: tl Proofs.C12MultiWitness.y_py_defs_alpha) = true.
Proof. exact Proofs.C12MultiWitness.c12_multi_python_nonvacuous_again. Qed.
Print Assumptions C12_multi_python_nonvacuous_again.

(* REGRESSION PIN (vm_compute) of the seeded change "the import table is drained after every file while TypeVars
   and helper translations carry over" (py_drained_gen: the multi-file generator started from the incoming state
   with py_imports emptied).  The state alpha leaves satisfies the invariant, the drained one does not; on ws_py_plain
   the drained run writes a different beta.py, whose header uses TypeVar and datetime without importing them. *)
Theorem C12_multi_python_drain_regression :
  exists plan p_alpha p_beta t_alpha st1 t_beta st2 uses defs,
    Proofs.C12MultiWitness.y_plan Python Proofs.C12MultiWitness.ws_py_plain = Some plan /\ plan = [p_alpha; p_beta] /\
    py_generate_multi uc_exec Proofs.C12MultiWitness.y_py_cfg py_empty_state (op_data p_alpha) = Ok (t_alpha, st1) /\
    Proofs.C12Multi.c12_py_state_ok st1 = true /\
    Proofs.C12Multi.c12_py_state_ok (Proofs.C12MultiWitness.py_drain st1) = false /\
    generate_crates (Proofs.C12MultiWitness.py_drained_gen Proofs.C12MultiWitness.y_py_cfg) py_empty_state plan =
      ([(lit "alpha.py", Writer.Generated t_alpha); (lit "beta.py", Writer.Generated t_beta)], Ok st2) /\
    t_beta <> Proofs.C12MultiWitness.y_beta_plain_py /\
    Proofs.C12Multi.c12_py_observe_multi uc_exec Proofs.C12MultiWitness.y_py_cfg (Proofs.C12MultiWitness.py_drain st1) (op_data p_beta) = Ok (uses, defs) /\
    In (lit "TypeVar") uses /\ ~ In (lit "TypeVar") defs /\ In (lit "datetime") uses /\ ~ In (lit "datetime") defs /\
    c12_good uses defs = false.
Proof. exact Proofs.C12MultiWitness.c12_multi_python_drain_regression. Qed.
Print Assumptions C12_multi_python_drain_regression.

(* SHARPNESS (vm_compute) of the hypothesis of C12_multi_python on the crates BEFORE file i.  Workspace ws_py_taint:
     alpha/src/lib.rs:  #[typeshare] struct A { d: datetime }     (a user type called `datetime`: outside c12_py_dom)
     beta/src/lib.rs:   #[typeshare] struct Plain { n: u32 }      (inside the domain)
   alpha's field prints as the text `datetime`, which registers the datetime helper functions without the datetime
   import; the state alpha leaves violates the invariant and beta.py carries the helper functions, using datetime
   without importing it: in multi-file mode a crate outside the domain spoils the files of LATER crates. *)
Theorem C12_multi_python_earlier_dom_needed :
  exists plan p_alpha p_beta t_alpha st1 uses defs,
    Proofs.C12MultiWitness.y_plan Python Proofs.C12MultiWitness.ws_py_taint = Some plan /\ plan = [p_alpha; p_beta] /\
    c12_py_dom Proofs.C12MultiWitness.y_py_cfg (items_of (op_data p_alpha)) = false /\
    c12_py_dom Proofs.C12MultiWitness.y_py_cfg (items_of (op_data p_beta)) = true /\
    py_generate_multi uc_exec Proofs.C12MultiWitness.y_py_cfg py_empty_state (op_data p_alpha) = Ok (t_alpha, st1) /\
    Proofs.C12Multi.c12_py_state_ok st1 = false /\
    Proofs.C12Multi.c12_py_observe_multi uc_exec Proofs.C12MultiWitness.y_py_cfg st1 (op_data p_beta) = Ok (uses, defs) /\
    In (lit "datetime") uses /\ ~ In (lit "datetime") defs /\ c12_good uses defs = false.
Proof. exact Proofs.C12MultiWitness.c12_multi_python_earlier_dom_needed. Qed.
Print Assumptions C12_multi_python_earlier_dom_needed.

(* ---- Go, multi-file.  The import set (a BTreeSet in the language value) is never cleared between files; begin_file
   inserts encoding/json into it again for every file; the import block of a file is written from the set reached
   after the file's last item.  A set that only grows makes a later file import MORE than it uses, never less: no
   invariant on the incoming state is needed, the theorems hold from ANY state. *)

(* what go_multi_decls is: go_generate_multi succeeds with `text` IF AND ONLY IF go_multi_decls succeeds with
   declarations ds and the same final import set, and text is begin_file's text, the import block of the set
   REACHED, then the rendering of exactly ds *)
Theorem C12_multi_go_layout :
  forall (uc : unicode) (cfg : go_config) (st : go_state) (pd : parsed) (text : str) (st' : go_state),
    go_generate_multi uc cfg st pd = Ok (text, st') <->
    exists ds header st1,
      Proofs.C12MultiGo.go_multi_decls uc cfg st pd = Ok (ds, st') /\ go_begin_file cfg st = Ok (header, st1) /\
      text = header ++ go_write_all_imports st' ++ List.concat (map go_render_decl ds).
Proof. exact Proofs.C12MultiGo.go_multi_layout. Qed.
Print Assumptions C12_multi_go_layout.

Theorem C12_multi_go_observe_initial :
  forall (uc : unicode) (cfg : go_config) (pd : parsed),
    Proofs.C12MultiGo.c12_go_observe_multi uc cfg [] pd = c12_go_observe uc cfg pd.
Proof. exact Proofs.C12MultiGo.c12_go_observe_multi_empty. Qed.
Print Assumptions C12_multi_go_observe_initial.

(* ONE FILE from ANY import set: the judgement of C12_go (configurations without acronyms) / C12_go_acronyms *)
Theorem C12_multi_go_file :
  forall (uc : unicode) (cfg : go_config) (st0 : go_state) (pd : parsed) (uses defs : list str),
    Proofs.C12MultiGo.c12_go_observe_multi uc cfg st0 pd = Ok (uses, defs) -> c12_go_dom cfg (items_of pd) = true ->
    c12_good uses defs = true.
Proof. exact Proofs.C12MultiGo.c12_go_multi_file. Qed.
Print Assumptions C12_multi_go_file.

Theorem C12_multi_go_file_acronyms :
  forall (uc : unicode), unicode_ok uc ->
  forall (cfg : go_config) (st0 : go_state) (pd : parsed) (uses defs : list str),
    Proofs.C12MultiGo.c12_go_observe_multi uc cfg st0 pd = Ok (uses, defs) -> c12_go_dom_acr cfg (items_of pd) = true ->
    c12_good uses defs = true.
Proof. exact Proofs.C12MultiGo.c12_go_multi_file_acronyms. Qed.
Print Assumptions C12_multi_go_file_acronyms.

(* THE RUN, from any initial import set (the CLI model starts with the empty one), any plan: every file
   generate_crates produces is what go_generate_multi returns on that crate's data from the set st_i the earlier crates
   left; its text is the layout above; every package its declarations refer to (time. in a type at any depth, json. in
   the methods of a tagged enum) is in the import block written into THAT file, whenever that crate is in the domain.
   No hypothesis on the other crates.  go_multi_gen uc cfg st _ _ pd = go_generate_multi uc cfg st pd. *)
Theorem C12_multi_go :
  forall (uc : unicode) (cfg : go_config) (st0 : go_state) (plan : list out_plan)
         (files : list (str * Writer.gen_result)) (fin : outcome go_state),
    generate_crates (Proofs.C12MultiGo.go_multi_gen uc cfg) st0 plan = (files, fin) ->
    forall i fname text,
      nth_error files i = Some (fname, Writer.Generated text) ->
      exists p st_i st_i' ds header st1 uses defs,
        nth_error plan i = Some p /\ fname = op_file p /\
        go_generate_multi uc cfg st_i (op_data p) = Ok (text, st_i') /\
        Proofs.C12MultiGo.go_multi_decls uc cfg st_i (op_data p) = Ok (ds, st_i') /\
        go_begin_file cfg st_i = Ok (header, st1) /\
        text = header ++ go_write_all_imports st_i' ++ List.concat (map go_render_decl ds) /\
        Proofs.C12MultiGo.c12_go_observe_multi uc cfg st_i (op_data p) = Ok (uses, defs) /\
        (c12_go_dom cfg (items_of (op_data p)) = true -> c12_good uses defs = true).
Proof. exact Proofs.C12MultiGo.c12_multi_go_noacr. Qed.
Print Assumptions C12_multi_go.

Theorem C12_multi_go_acronyms :
  forall (uc : unicode), unicode_ok uc ->
  forall (cfg : go_config) (st0 : go_state) (plan : list out_plan)
         (files : list (str * Writer.gen_result)) (fin : outcome go_state),
    generate_crates (Proofs.C12MultiGo.go_multi_gen uc cfg) st0 plan = (files, fin) ->
    forall i fname text,
      nth_error files i = Some (fname, Writer.Generated text) ->
      exists p st_i st_i' ds header st1 uses defs,
        nth_error plan i = Some p /\ fname = op_file p /\
        go_generate_multi uc cfg st_i (op_data p) = Ok (text, st_i') /\
        Proofs.C12MultiGo.go_multi_decls uc cfg st_i (op_data p) = Ok (ds, st_i') /\
        go_begin_file cfg st_i = Ok (header, st1) /\
        text = header ++ go_write_all_imports st_i' ++ List.concat (map go_render_decl ds) /\
        Proofs.C12MultiGo.c12_go_observe_multi uc cfg st_i (op_data p) = Ok (uses, defs) /\
        (c12_go_dom_acr cfg (items_of (op_data p)) = true -> c12_good uses defs = true).
Proof. exact Proofs.C12MultiGo.c12_multi_go_acr. Qed.
Print Assumptions C12_multi_go_acronyms.

(* non-vacuity (vm_compute, workspace ws_py_plain: only crate alpha has an OffsetDateTime): beta.go is y_beta_go byte
   for byte - it imports "time" as well (carried over), more than it uses *)
Theorem C12_multi_go_nonvacuous :
  exists plan t_alpha,
    Proofs.C12MultiWitness.y_plan Go Proofs.C12MultiWitness.ws_py_plain = Some plan /\
    map op_crate plan = [lit "alpha"; lit "beta"] /\
    forallb (fun p => c12_go_dom Proofs.C12MultiWitness.y_go_cfg (items_of (op_data p))) plan = true /\
    generate_crates (Proofs.C12MultiGo.go_multi_gen uc_exec Proofs.C12MultiWitness.y_go_cfg) [] plan =
      ([(lit "alpha.go", Writer.Generated t_alpha); (lit "beta.go", Writer.Generated Proofs.C12MultiWitness.y_beta_go)],
       Ok [lit "encoding/json"; lit "time"]) /\
    Proofs.C12MultiWitness.go_multi_observations Proofs.C12MultiWitness.y_go_cfg [] plan =
      [(lit "alpha.go", Ok ([lit "time"], [lit "json"; lit "time"])); (lit "beta.go", Ok ([], [lit "json"; lit "time"]))].
Proof. exact Proofs.C12MultiWitness.c12_multi_go_nonvacuous. Qed.
Print Assumptions C12_multi_go_nonvacuous.

(* ---- Swift, multi-file.  No file of a multi-crate run defines CodableVoid (end_file writes it only in single-file
   mode); should_emit_codable_void lives in the language value; post_generation writes the shared Codable.swift. *)

(* what sw_multi_decls is: the text of a file is begin_file's text and the rendering of exactly its declarations -
   nothing after them *)
Theorem C12_multi_swift_layout :
  forall (uc : unicode) (cfg : sw_config) (st : sw_state) (pd : parsed) (text : str) (st' : sw_state),
    sw_generate_multi uc cfg st pd = Ok (text, st') <->
    exists ds, Proofs.C12MultiSwift.sw_multi_decls uc cfg st pd = Ok (ds, st') /\
               text = sw_begin_file cfg ++ List.concat (map sw_render_decl ds).
Proof. exact Proofs.C12MultiSwift.sw_multi_layout. Qed.
Print Assumptions C12_multi_swift_layout.

(* ONE FILE from ANY flag (C12_swift_flag_any_state on the declarations of the file as sorted and written): the file
   defines nothing, never clears the flag, and leaves it set when it spells CodableVoid *)
Theorem C12_multi_swift_file :
  forall (uc : unicode) (cfg : sw_config) (st0 : sw_state) (pd : parsed) (ds : list sw_decl) (st : sw_state),
    Proofs.C12MultiSwift.sw_multi_decls uc cfg st0 pd = Ok (ds, st) -> c12_sw_dom cfg (items_of pd) = true ->
    c12_sw_defs ds = [] /\ (st0 = true -> st = true) /\ (c12_sw_uses ds <> [] -> st = true).
Proof. exact Proofs.C12MultiSwift.c12_sw_file_from. Qed.
Print Assumptions C12_multi_swift_file.

(* THE RUN.  For every plan inside the domain, any initial flag (the CLI model starts with false) and every run that
   completes with final flag fin:
   (1) a flag that was set stays set;
   (2) every file is what sw_generate_multi returns on that crate's data, its text is the layout above over ds, it
       defines no helper, and if ds spells CodableVoid - () at any depth, in ANY crate, first or last - then fin = true;
   (3) when fin = true the run hands the writer Some (get_codable_contents ()) (sw_multi_codable: what
       ocaml/drv_c14.ml computes, swift.rs:535 post_generation), the CodableVoid declaration defines CodableVoid, and
       from ANY file system, at any time, into any folder, the writer of Model/Writer.v exits with status 0 and leaves
       <folder>/Codable.swift holding exactly the rendering of that declaration (C17's Codable theorems say when the
       file is rewritten and when it is left untouched; here: what it holds).
   So the definition of every CodableVoid a file uses is in the shared Codable.swift of the same output folder. *)
Theorem C12_multi_swift :
  forall (uc : unicode) (cfg : sw_config) (st0 : sw_state) (plan : list out_plan)
         (files : list (str * Writer.gen_result)) (fin : sw_state),
    Forall (fun p => c12_sw_dom cfg (items_of (op_data p)) = true) plan ->
    generate_crates (Proofs.C12MultiSwift.sw_multi_gen uc cfg) st0 plan = (files, Ok fin) ->
    (st0 = true -> fin = true) /\
    (forall i fname text, nth_error files i = Some (fname, Writer.Generated text) ->
       exists p st_i st_i' ds,
         nth_error plan i = Some p /\ fname = op_file p /\
         sw_generate_multi uc cfg st_i (op_data p) = Ok (text, st_i') /\
         Proofs.C12MultiSwift.sw_multi_decls uc cfg st_i (op_data p) = Ok (ds, st_i') /\
         text = sw_begin_file cfg ++ List.concat (map sw_render_decl ds) /\
         c12_sw_defs ds = [] /\
         (c12_sw_uses ds <> [] -> fin = true)) /\
    (fin = true ->
       Proofs.C12MultiSwift.sw_multi_codable cfg (Ok fin) = Some (sw_codable_contents cfg) /\
       c12_sw_decl_defs (sw_codable_void cfg) = [sw_CODABLE_VOID] /\
       forall (s : Writer.fs) (now : Writer.mtime) (folder : str),
         Writer.content (Writer.run s now (multi_outputs folder files (Proofs.C12MultiSwift.sw_multi_codable cfg (Ok fin))))
                        (Spec.C17Spec.codable_path folder) = Some (sw_render_decl (sw_codable_void cfg)) /\
         snd (Writer.run_full s now (multi_outputs folder files (Proofs.C12MultiSwift.sw_multi_codable cfg (Ok fin)))) = Writer.ExitOk).
Proof. exact Proofs.C12MultiSwift.c12_multi_swift. Qed.
Print Assumptions C12_multi_swift.

(* sw_multi_codable, in full: Some contents exactly when the run completed with the flag set *)
Theorem C12_multi_swift_codable_meaning :
  forall (cfg : sw_config) (fin : outcome sw_state),
    Proofs.C12MultiSwift.sw_multi_codable cfg fin = match fin with Ok true => Some (sw_codable_contents cfg) | _ => None end.
Proof. reflexivity. Qed.
Print Assumptions C12_multi_swift_codable_meaning.

(* NON-VACUITY (vm_compute).  Workspace ws_sw_unit:
     alpha/src/lib.rs:  #[typeshare] struct Ping { nothing: () }
     beta/src/lib.rs:   #[typeshare] struct Plain { n: u32 }
   only the FIRST crate uses ().  Alpha.swift and Beta.swift byte for byte; Alpha spells CodableVoid twice and defines
   nothing, Beta neither; the run ends with the flag set; on an empty folder "o" the writer leaves the two files and
   o/Codable.swift = y_codable_swift (blank line, the doc line, `public struct CodableVoid: Codable {}`). *)
Theorem C12_multi_swift_nonvacuous :
  exists plan p_alpha p_beta ds_alpha ds_beta,
    Proofs.C12MultiWitness.y_plan Swift Proofs.C12MultiWitness.ws_sw_unit = Some plan /\ plan = [p_alpha; p_beta] /\
    map op_crate plan = [lit "alpha"; lit "beta"] /\
    forallb (fun p => c12_sw_dom Proofs.C12MultiWitness.y_sw_cfg (items_of (op_data p))) plan = true /\
    generate_crates (Proofs.C12MultiSwift.sw_multi_gen uc_exec Proofs.C12MultiWitness.y_sw_cfg) false plan =
      ([(lit "Alpha.swift", Writer.Generated Proofs.C12MultiWitness.y_alpha_swift);
        (lit "Beta.swift", Writer.Generated Proofs.C12MultiWitness.y_beta_swift)], Ok true) /\
    Proofs.C12MultiSwift.sw_multi_decls uc_exec Proofs.C12MultiWitness.y_sw_cfg false (op_data p_alpha) = Ok (ds_alpha, true) /\
    c12_sw_uses ds_alpha = [lit "CodableVoid"; lit "CodableVoid"] /\ c12_sw_defs ds_alpha = [] /\
    Proofs.C12MultiSwift.sw_multi_decls uc_exec Proofs.C12MultiWitness.y_sw_cfg true (op_data p_beta) = Ok (ds_beta, true) /\
    c12_sw_uses ds_beta = [] /\ c12_sw_defs ds_beta = [] /\
    Writer.run_full [] 1%N (multi_outputs Proofs.C12MultiWitness.y_folder
                              [(lit "Alpha.swift", Writer.Generated Proofs.C12MultiWitness.y_alpha_swift);
                               (lit "Beta.swift", Writer.Generated Proofs.C12MultiWitness.y_beta_swift)]
                              (Proofs.C12MultiSwift.sw_multi_codable Proofs.C12MultiWitness.y_sw_cfg (Ok true))) =
      ([(Proofs.C12MultiWitness.y_path "Alpha.swift", (Proofs.C12MultiWitness.y_alpha_swift, 1%N));
        (Proofs.C12MultiWitness.y_path "Beta.swift", (Proofs.C12MultiWitness.y_beta_swift, 1%N));
        (Proofs.C12MultiWitness.y_path "Codable.swift", (Proofs.C12MultiWitness.y_codable_swift, 1%N))], Writer.ExitOk) /\
    Spec.C17Spec.codable_path Proofs.C12MultiWitness.y_folder = Proofs.C12MultiWitness.y_path "Codable.swift".
Proof. exact Proofs.C12MultiWitness.c12_multi_swift_nonvacuous. Qed.
Print Assumptions C12_multi_swift_nonvacuous.

(* REGRESSION PIN (vm_compute) of the seeded change "begin_file clears the CodableVoid flag" (sw_reset_gen: every file
   generated from a cleared flag): the same two files, Alpha.swift still spells CodableVoid, the run ends with the
   flag of the LAST crate and no Codable.swift is written - C12_multi_swift (2) fails for such a generator. *)
Theorem C12_multi_swift_reset_regression :
  exists plan,
    Proofs.C12MultiWitness.y_plan Swift Proofs.C12MultiWitness.ws_sw_unit = Some plan /\
    generate_crates (Proofs.C12MultiWitness.sw_reset_gen Proofs.C12MultiWitness.y_sw_cfg) false plan =
      ([(lit "Alpha.swift", Writer.Generated Proofs.C12MultiWitness.y_alpha_swift);
        (lit "Beta.swift", Writer.Generated Proofs.C12MultiWitness.y_beta_swift)], Ok false) /\
    Proofs.C12MultiSwift.sw_multi_codable Proofs.C12MultiWitness.y_sw_cfg (Ok false) = None /\
    Writer.content (Writer.run [] 1%N (multi_outputs Proofs.C12MultiWitness.y_folder
                      [(lit "Alpha.swift", Writer.Generated Proofs.C12MultiWitness.y_alpha_swift);
                       (lit "Beta.swift", Writer.Generated Proofs.C12MultiWitness.y_beta_swift)]
                      (Proofs.C12MultiSwift.sw_multi_codable Proofs.C12MultiWitness.y_sw_cfg (Ok false))))
                   (Spec.C17Spec.codable_path Proofs.C12MultiWitness.y_folder) = None.
Proof. exact Proofs.C12MultiWitness.c12_multi_swift_reset_regression. Qed.
Print Assumptions C12_multi_swift_reset_regression.

(* ---- Kotlin, multi-file (stateless).  The file of crate c starts with kt_header_multi cfg c = the single-file
   header with `.<c>` appended to the package: the SAME two kotlinx.serialization imports, written under the same
   condition (a non-empty package name); then the cross-crate import lines, then the declarations. *)
Theorem C12_multi_kotlin_header :
  forall (cfg : kt_config) (c : str),
    kt_begin_file_multi cfg c = kt_render_header (Proofs.C12MultiStateless.kt_header_multi cfg c) /\
    Proofs.C12MultiStateless.kt_header_multi cfg c =
      match kt_header_of cfg with
      | None => None
      | Some h => Some {| kh_version := kh_version h; kh_package := kh_package h ++ lit "." ++ c; kh_imports := kh_imports h |}
      end /\
    c12_kt_defs (Proofs.C12MultiStateless.kt_header_multi cfg c) = c12_kt_defs (kt_header_of cfg).
Proof.
  intros cfg c. split; [exact (Proofs.C12MultiStateless.kt_begin_file_multi_header cfg c)|].
  split; [reflexivity|exact (Proofs.C12MultiStateless.c12_kt_defs_multi cfg c)].
Qed.
Print Assumptions C12_multi_kotlin_header.

Theorem C12_multi_kotlin_layout :
  forall (uc : unicode) (cfg : kt_config) (c : str) (im : scoped) (pd : parsed) (text : str),
    kt_generate_multi uc cfg c im pd = Ok text <->
    exists ds, kt_decls uc cfg pd = Ok ds /\
               text = kt_render_header (Proofs.C12MultiStateless.kt_header_multi cfg c) ++ kt_write_imports cfg im ++
                      List.concat (map kt_render_decl ds).
Proof. exact Proofs.C12MultiStateless.kt_multi_layout. Qed.
Print Assumptions C12_multi_kotlin_layout.

(* THE RUN (kt_multi_gen = kt_generate_multi wrapped with a unit state, as the driver does): every file is what
   kt_generate_multi returns on that crate's name, import list and data; its text is the layout above; outside the two
   classes (decided on THAT crate) the annotations its declarations carry are imported by ITS header.
   c12_kt_observe_multi uc cfg c pd = (c12_kt_uses of kt_decls, c12_kt_defs (kt_header_multi cfg c)). *)
Theorem C12_multi_kotlin :
  forall (uc : unicode) (cfg : kt_config) (st0 : unit) (plan : list out_plan)
         (files : list (str * Writer.gen_result)) (fin : outcome unit),
    generate_crates (Proofs.C12MultiStateless.kt_multi_gen uc cfg) st0 plan = (files, fin) ->
    forall i fname text,
      nth_error files i = Some (fname, Writer.Generated text) ->
      exists p ds uses defs,
        nth_error plan i = Some p /\ fname = op_file p /\
        kt_generate_multi uc cfg (op_crate p) (op_imports p) (op_data p) = Ok text /\
        kt_decls uc cfg (op_data p) = Ok ds /\
        text = kt_render_header (Proofs.C12MultiStateless.kt_header_multi cfg (op_crate p)) ++ kt_write_imports cfg (op_imports p) ++
               List.concat (map kt_render_decl ds) /\
        Proofs.C12MultiStateless.c12_kt_observe_multi uc cfg (op_crate p) (op_data p) = Ok (uses, defs) /\
        uses = c12_kt_uses ds /\ defs = c12_kt_defs (Proofs.C12MultiStateless.kt_header_multi cfg (op_crate p)) /\
        (c12_kt_known cfg (op_data p) = None -> c12_good uses defs = true).
Proof. exact Proofs.C12MultiStateless.c12_multi_kotlin. Qed.
Print Assumptions C12_multi_kotlin.

Theorem C12_multi_kotlin_nonvacuous :
  exists plan t_alpha t_beta,
    Proofs.C12MultiWitness.y_plan Kotlin Proofs.C12MultiWitness.ws_sw_unit = Some plan /\
    forallb (fun p => Proofs.C12MultiWitness.y_none (c12_kt_known Proofs.C02_Witness.c02_w_kt_cfg (op_data p))) plan = true /\
    generate_crates (Proofs.C12MultiStateless.kt_multi_gen uc_exec Proofs.C02_Witness.c02_w_kt_cfg) tt plan =
      ([(lit "alpha.kt", Writer.Generated t_alpha); (lit "beta.kt", Writer.Generated t_beta)], Ok tt) /\
    map (fun p => Proofs.C12MultiStateless.c12_kt_observe_multi uc_exec Proofs.C02_Witness.c02_w_kt_cfg (op_crate p) (op_data p)) plan =
      [Ok ([lit "Serializable"], [lit "Serializable"; lit "SerialName"]);
       Ok ([lit "Serializable"], [lit "Serializable"; lit "SerialName"])].
Proof. exact Proofs.C12MultiWitness.c12_multi_kotlin_nonvacuous. Qed.
Print Assumptions C12_multi_kotlin_nonvacuous.

(* ---- Scala, multi-file (stateless): sc_generate is the same function in both modes.  Layout (the direction the run
   needs): the text is begin_file's text, the package object around the rendering of the first group of declarations
   sc_decls returns (helper aliases, aliases), the package around the rendering of the second (structs, enums). *)
Theorem C12_multi_scala_layout :
  forall (uc : unicode) (cfg : sc_config) (pd : parsed) (text : str),
    sc_generate uc cfg pd = Ok text ->
    exists head objs pkgs,
      sc_begin_file cfg = Ok head /\ sc_decls uc cfg pd = Ok (objs, pkgs) /\
      text = head ++
             (if sc_unsigned_integer_used pd || negb (sc_is_empty (p_aliases pd))
              then sc_begin_package_object cfg ++ List.concat (map sc_render_decl objs) ++ sc_end_package_object cfg else []) ++
             (if negb (sc_is_empty (p_structs pd)) || negb (sc_is_empty (p_enums pd))
              then sc_begin_package cfg ++ List.concat (map sc_render_decl pkgs) ++ sc_end_package cfg else []).
Proof. exact Proofs.C12MultiStateless.sc_multi_layout. Qed.
Print Assumptions C12_multi_scala_layout.

(* THE RUN (sc_multi_gen = sc_generate wrapped with a unit state): every file is what sc_generate returns on that
   crate's data, laid out as above over the declarations c12_sc_observe reads; every UByte/UShort/UInt/ULong the
   declarations of THAT file spell is defined by the alias block of THAT file *)
Theorem C12_multi_scala :
  forall (uc : unicode) (cfg : sc_config) (st0 : unit) (plan : list out_plan)
         (files : list (str * Writer.gen_result)) (fin : outcome unit),
    generate_crates (Proofs.C12MultiStateless.sc_multi_gen uc cfg) st0 plan = (files, fin) ->
    forall i fname text,
      nth_error files i = Some (fname, Writer.Generated text) ->
      exists p head objs pkgs uses defs,
        nth_error plan i = Some p /\ fname = op_file p /\
        sc_generate uc cfg (op_data p) = Ok text /\
        sc_begin_file cfg = Ok head /\ sc_decls uc cfg (op_data p) = Ok (objs, pkgs) /\
        text = head ++
               (if sc_unsigned_integer_used (op_data p) || negb (sc_is_empty (p_aliases (op_data p)))
                then sc_begin_package_object cfg ++ List.concat (map sc_render_decl objs) ++ sc_end_package_object cfg else []) ++
               (if negb (sc_is_empty (p_structs (op_data p))) || negb (sc_is_empty (p_enums (op_data p)))
                then sc_begin_package cfg ++ List.concat (map sc_render_decl pkgs) ++ sc_end_package cfg else []) /\
        c12_sc_observe uc cfg (op_data p) = Ok (uses, defs) /\
        (c12_sc_dom (op_data p) = true -> c12_good uses defs = true).
Proof. exact Proofs.C12MultiStateless.c12_multi_scala. Qed.
Print Assumptions C12_multi_scala.

(* non-vacuity (workspace ws_sw_unit): alpha.scala uses no unsigned integer and has no alias block, beta.scala spells
   UInt and has its own *)
Theorem C12_multi_scala_nonvacuous :
  exists plan t_alpha t_beta,
    Proofs.C12MultiWitness.y_plan Scala Proofs.C12MultiWitness.ws_sw_unit = Some plan /\
    forallb (fun p => c12_sc_dom (op_data p)) plan = true /\
    generate_crates (Proofs.C12MultiStateless.sc_multi_gen uc_exec Proofs.C02_Witness.c02_w_sc_cfg) tt plan =
      ([(lit "alpha.scala", Writer.Generated t_alpha); (lit "beta.scala", Writer.Generated t_beta)], Ok tt) /\
    map (fun p => c12_sc_observe uc_exec Proofs.C02_Witness.c02_w_sc_cfg (op_data p)) plan =
      [Ok ([], []); Ok ([lit "UInt"], [lit "UByte"; lit "UShort"; lit "UInt"; lit "ULong"])].
Proof. exact Proofs.C12MultiWitness.c12_multi_scala_nonvacuous. Qed.
Print Assumptions C12_multi_scala_nonvacuous.

(* ---- TypeScript, multi-file.  The trailer (typescript.rs:43 end_file: ReviverFunc / ReplacerFunc) IS written in
   multi-file mode, from types_for_custom_json_translation, a map in the language value that is never cleared between
   files.  Generated declarations never NAME the two helpers (single-file: nothing to check); what a threaded state can
   break is their CONTENT.  Spec/C12TSSpec.v: c12_ts_translated ds = the printed types of the members (interface
   properties, properties of struct variants) of ds that have a reviver / replacer (Date, Uint8Array);
   c12_ts_handled st = the types whose blocks the trailer written from st contains; c12_ts_defs st = the helper names
   that trailer defines; c12_ts_good ds st = every translated member type is handled, and when there is one both
   helpers are defined. *)
Theorem C12_multi_typescript_good_meaning :
  forall (ds : list ts_decl) (st : ts_state),
    c12_ts_good ds st = true <->
    (forall t, In t (c12_ts_translated ds) -> In t (c12_ts_handled st)) /\
    (c12_ts_translated ds <> [] -> forall h, In h c12_ts_helpers -> In h (c12_ts_defs st)).
Proof. exact Proofs.C12MultiTS.c12_ts_good_spec. Qed.
Print Assumptions C12_multi_typescript_good_meaning.

(* what ts_multi_decls is: header, cross-crate import lines, the rendering of exactly ds, the trailer of the map REACHED *)
Theorem C12_multi_typescript_layout :
  forall (uc : unicode) (cfg : ts_config) (st : ts_state) (im : scoped) (pd : parsed) (text : str) (st' : ts_state),
    ts_generate_multi uc cfg st im pd = Ok (text, st') <->
    exists ds, Proofs.C12MultiTS.ts_multi_decls uc cfg st pd = Ok (ds, st') /\
               text = ts_begin_file cfg ++ ts_write_imports im ++ List.concat (map ts_render_decl ds) ++ ts_end_file st'.
Proof. exact Proofs.C12MultiTS.ts_multi_layout. Qed.
Print Assumptions C12_multi_typescript_layout.

(* ONE FILE from ANY map, every program and configuration (no hypothesis): nothing registered before is forgotten, and
   the file is good with respect to the map its own trailer is written from *)
Theorem C12_multi_typescript_file :
  forall (uc : unicode) (cfg : ts_config) (st0 : ts_state) (pd : parsed) (ds : list ts_decl) (st : ts_state),
    Proofs.C12MultiTS.ts_multi_decls uc cfg st0 pd = Ok (ds, st) ->
    incl (c12_ts_handled st0) (c12_ts_handled st) /\ c12_ts_good ds st = true.
Proof. exact Proofs.C12MultiTS.c12_ts_file_from. Qed.
Print Assumptions C12_multi_typescript_file.

(* THE RUN, any initial map (the CLI model starts with the empty one), any plan: every file is what ts_generate_multi
   returns on that crate's import list and data from the map st_i the earlier crates left; its text is the layout above
   with the trailer of st_i'; the handled types only grow along the run; the file is good *)
Theorem C12_multi_typescript :
  forall (uc : unicode) (cfg : ts_config) (st0 : ts_state) (plan : list out_plan)
         (files : list (str * Writer.gen_result)) (fin : outcome ts_state),
    generate_crates (Proofs.C12MultiTS.ts_multi_gen uc cfg) st0 plan = (files, fin) ->
    forall i fname text,
      nth_error files i = Some (fname, Writer.Generated text) ->
      exists p st_i st_i' ds,
        nth_error plan i = Some p /\ fname = op_file p /\
        ts_generate_multi uc cfg st_i (op_imports p) (op_data p) = Ok (text, st_i') /\
        Proofs.C12MultiTS.ts_multi_decls uc cfg st_i (op_data p) = Ok (ds, st_i') /\
        text = ts_begin_file cfg ++ ts_write_imports (op_imports p) ++ List.concat (map ts_render_decl ds) ++ ts_end_file st_i' /\
        incl (c12_ts_handled st0) (c12_ts_handled st_i) /\
        incl (c12_ts_handled st_i) (c12_ts_handled st_i') /\
        c12_ts_good ds st_i' = true.
Proof. exact Proofs.C12MultiTS.c12_multi_typescript. Qed.
Print Assumptions C12_multi_typescript.

(* non-vacuity (vm_compute, workspace ws_py_plain): alpha's member `at: Date` is registered and handled (and would not be
   good against the empty map); beta has no translated member; beta.ts is y_beta_ts byte for byte: its declarations
   followed by the trailer of the map alpha left *)
Theorem C12_multi_typescript_nonvacuous :
  exists plan p_alpha p_beta t_alpha ds_alpha ds_beta,
    Proofs.C12MultiWitness.y_plan TypeScript Proofs.C12MultiWitness.ws_py_plain = Some plan /\ plan = [p_alpha; p_beta] /\
    generate_crates (Proofs.C12MultiTS.ts_multi_gen uc_exec Proofs.C12MultiWitness.y_ts_cfg) [] plan =
      ([(lit "alpha.ts", Writer.Generated t_alpha); (lit "beta.ts", Writer.Generated Proofs.C12MultiWitness.y_beta_ts)],
       Ok [(lit "Date", [lit "at"])]) /\
    Proofs.C12MultiTS.ts_multi_decls uc_exec Proofs.C12MultiWitness.y_ts_cfg [] (op_data p_alpha) = Ok (ds_alpha, [(lit "Date", [lit "at"])]) /\
    c12_ts_translated ds_alpha = [lit "Date"] /\ c12_ts_good ds_alpha [(lit "Date", [lit "at"])] = true /\
    c12_ts_good ds_alpha [] = false /\
    Proofs.C12MultiTS.ts_multi_decls uc_exec Proofs.C12MultiWitness.y_ts_cfg [(lit "Date", [lit "at"])] (op_data p_beta) =
      Ok (ds_beta, [(lit "Date", [lit "at"])]) /\
    c12_ts_translated ds_beta = [] /\ c12_ts_defs [(lit "Date", [lit "at"])] = c12_ts_helpers.
Proof. exact Proofs.C12MultiWitness.c12_multi_typescript_nonvacuous. Qed.
Print Assumptions C12_multi_typescript_nonvacuous.
