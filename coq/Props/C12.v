(* C12 property theorems: statements only; proofs live in Proofs/C12*.v.
   [c12_<L>_observe uc cfg pd] = (helper names the declarations of the generated file use, helper
   names the file defines or imports), read by Spec/C12Spec.v off the declarations the model of the
   back end computes; [c12_good uses defs] = every used name is among the defined ones. *)
From Coq Require Import String List.
From TS Require Import Model.Str Model.Outcome Model.Unicode Model.Types Model.Parse Model.Lang.Common Model.Lang.Decl
                       Model.Lang.Swift Model.Lang.Scala Model.Lang.Go Model.Lang.Kotlin Model.Lang.Python Spec.C12Spec Proofs.C12Obs.
From TS Require Proofs.C12 Proofs.C12_Swift Proofs.C12_Go Proofs.C12_Kotlin Proofs.C12_Python.
Import ListNotations.

(* Swift, single file: for every program and configuration (any prefix, mappings, decorators), ()
   at any depth in any position: a file whose declarations spell CodableVoid ends with its
   definition.  dom: no type name or generic parameter of the program is itself `CodableVoid`. *)
Theorem C12_swift :
  forall (uc : unicode) (cfg : sw_config) (pd : parsed) (uses defs : list str),
    c12_sw_observe uc cfg pd = Ok (uses, defs) -> c12_sw_dom cfg (items_of pd) = true ->
    c12_good uses defs = true.
Proof. exact Proofs.C12.c12_swift. Qed.
Print Assumptions C12_swift.

(* Swift, the flag itself, from ANY initial state (multi-file mode threads one Swift value through
   all crates and never resets should_emit_codable_void): formatting a sequence of items never clears
   the flag and leaves it set whenever a declaration produced spells CodableVoid; post_generation
   then writes Codable.swift. *)
Theorem C12_swift_flag_any_state :
  forall (uc : unicode) (cfg : sw_config) (items : list ritem) (s : sw_state) (ds : list sw_decl) (s' : sw_state),
    c12_sw_dom cfg items = true ->
    mmapM (sw_decl_of uc cfg) items s = Ok (ds, s') ->
    (s = true -> s' = true) /\ (c12_sw_uses ds <> [] -> s' = true).
Proof.
  intros uc cfg items s ds s' Hdom H.
  exact (Proofs.C12_Swift.c12_sw_items_flag uc cfg items (Proofs.C12_Swift.c12_sw_dom_items cfg items Hdom) s ds s' H).
Qed.
Print Assumptions C12_swift_flag_any_state.

(* Scala: for every program and configuration, every UByte/UShort/UInt/ULong the declarations spell
   (an unsigned integer at any depth) is defined by the alias block.  No carve-out: the class
   C12-scala-unsigned-depth is fixed in /repo (unsigned_integer_used scans recursively). *)
Theorem C12_scala :
  forall (uc : unicode) (cfg : sc_config) (pd : parsed) (uses defs : list str),
    c12_sc_observe uc cfg pd = Ok (uses, defs) -> c12_sc_dom pd = true ->
    c12_good uses defs = true.
Proof. exact Proofs.C12.c12_scala. Qed.
Print Assumptions C12_scala.

(* regression pin of the fixed finding: `type Grid = Vec<Vec<u16>>` spells UShort two levels deep; the
   scan sees it and the file now has the alias block *)
Theorem C12_scala_unsigned_depth_fixed :
  c12_sc_dom Proofs.C12_Scala.c12_sc_witness = true /\
  c12_sc_scan Proofs.C12_Scala.c12_sc_witness = true /\
  c12_sc_observe uc_exec Proofs.C12_Scala.c12_sc_cfg0 Proofs.C12_Scala.c12_sc_witness =
    Ok ([lit "UShort"], [lit "UByte"; lit "UShort"; lit "UInt"; lit "ULong"]) /\
  c12_good [lit "UShort"] [lit "UByte"; lit "UShort"; lit "UInt"; lit "ULong"] = true.
Proof. exact Proofs.C12.c12_scala_unsigned_depth_fixed. Qed.
Print Assumptions C12_scala_unsigned_depth_fixed.

(* Go: for every program, and every configuration without uppercase_acronyms (c12_go_dom; configurations
   with acronyms: C12_go_acronyms below; it also
   asks that no type name of the program itself starts with `time.` / `json.`): every package a
   declaration refers to (time. in a type at any depth, json. in the methods of a tagged enum) is in
   the import block written above the body. *)
Theorem C12_go :
  forall (uc : unicode) (cfg : go_config) (pd : parsed) (uses defs : list str),
    c12_go_observe uc cfg pd = Ok (uses, defs) -> c12_go_dom cfg (items_of pd) = true ->
    c12_good uses defs = true.
Proof. exact Proofs.C12_Go.c12_go. Qed.
Print Assumptions C12_go.

(* Go WITH uppercase_acronyms: for every Unicode table agreeing with ASCII below 128, every program and every
   configuration whose acronyms are alphanumeric, whose type names and type_mappings values are ASCII and whose
   type names do not start with `time.` / `json.` (c12_go_dom_acr): the same conclusion.  The acronym rewrite
   of go.rs:579 works on the printed text of a type; on such input it only changes the case of letters
   (Proofs/GoAcronyms.v), so it can neither create nor destroy a `time.` / `json.` qualifier. *)
Theorem C12_go_acronyms :
  forall (uc : unicode), unicode_ok uc ->
  forall (cfg : go_config) (pd : parsed) (uses defs : list str),
    c12_go_observe uc cfg pd = Ok (uses, defs) -> c12_go_dom_acr cfg (items_of pd) = true ->
    c12_good uses defs = true.
Proof. exact Proofs.C12_Go.c12_go_acronyms. Qed.
Print Assumptions C12_go_acronyms.

(* the hypotheses are satisfiable with a real rewrite next to a package use *)
Theorem C12_go_acronyms_nonvacuous :
  c12_go_dom_acr Proofs.C12_Go.c12_go_acr_cfg (items_of Proofs.C12_Go.c12_go_acr_pd) = true /\
  c12_go_observe uc_exec Proofs.C12_Go.c12_go_acr_cfg Proofs.C12_Go.c12_go_acr_pd =
    Ok ([lit "time"], [lit "json"; lit "time"]).
Proof. exact Proofs.C12_Go.c12_go_acronyms_nonvacuous. Qed.
Print Assumptions C12_go_acronyms_nonvacuous.

(* Kotlin: for every program and configuration outside the two classes (empty package name; a
   JvmInline value class), the annotations the declarations carry are imported by the header. *)
Theorem C12_kotlin :
  forall (uc : unicode) (cfg : kt_config) (pd : parsed) (uses defs : list str),
    c12_kt_observe uc cfg pd = Ok (uses, defs) -> c12_kt_known cfg pd = None ->
    c12_good uses defs = true.
Proof. exact Proofs.C12_Kotlin.c12_kotlin. Qed.
Print Assumptions C12_kotlin.

Theorem C12_kotlin_empty_package_refuted :
  c12_kt_known (Proofs.C12.c12_kt_cfg []) Proofs.C12.c12_nonvac_pd = Some "C12-kotlin-empty-package"%string /\
  c12_kt_observe uc_exec (Proofs.C12.c12_kt_cfg []) Proofs.C12.c12_nonvac_pd = Ok ([lit "Serializable"], []) /\
  c12_good [lit "Serializable"] [] = false.
Proof. exact Proofs.C12.c12_kotlin_empty_package_refuted. Qed.
Print Assumptions C12_kotlin_empty_package_refuted.

Theorem C12_kotlin_jvminline_refuted :
  c12_kt_known (Proofs.C12.c12_kt_cfg (lit "com.p")) Proofs.C12.c12_kt_inline_pd = Some "C12-kotlin-jvminline"%string /\
  c12_kt_observe uc_exec (Proofs.C12.c12_kt_cfg (lit "com.p")) Proofs.C12.c12_kt_inline_pd =
    Ok ([lit "Serializable"; lit "JvmInline"], [lit "Serializable"; lit "SerialName"]) /\
  c12_good [lit "Serializable"; lit "JvmInline"] [lit "Serializable"; lit "SerialName"] = false.
Proof. exact Proofs.C12.c12_kotlin_jvminline_refuted. Qed.
Print Assumptions C12_kotlin_jvminline_refuted.

(* Python, the formatter (every Rust type, any depth, from any state): translating a type never removes
   an import and leaves imported every name of the fixed vocabulary (Optional, List, Dict, datetime)
   the translated type spells.  ids: no user type name of t is a reserved word. *)
Theorem C12_python_format_type :
  forall (cfg : py_config) (generics : list str) (t : rtype),
    Forall (fun id => ~ In id c12_py_reserved) (c12_rtype_ids t) ->
    forall (s : py_state) (x : texp) (s' : py_state),
      py_texp cfg generics t s = Ok (x, s') ->
      incl (c12_py_imported s) (c12_py_imported s') /\
      (forall u, In u (c12_py_tnames x) -> In u c12_py_fixed -> In u (c12_py_imported s')).
Proof.
  intros cfg generics t Hid s x s' H.
  destruct (Proofs.C12_Python.c12_py_texp_imports cfg generics t Hid s x s' H) as [[L _] Q]. split; [exact L|exact Q].
Qed.
Print Assumptions C12_python_format_type.

(* Python, the WHOLE file (header + body): for every program and configuration outside the two classes
   (C12-python-alias-typevar, C12-python-default-translation), every helper name the generated file
   uses - in the body: type names of the fixed vocabulary at any depth, BaseModel / Generic / ConfigDict /
   Field / Annotated / BeforeValidator / PlainSerializer / Enum / Literal / Union of the templates, the
   generic parameters of class headers, alias heads and types, the (de)serialiser functions an Annotated
   field names; in the header (written AFTER the body from the state it left): TypeVar of the
   `T = TypeVar("T")` lines, datetime inside the datetime helper functions - is imported, declared as a
   TypeVar or defined as a helper function by that header.  dom: no user type name / generic parameter is
   a word of the helper vocabulary, no type_mappings value is the text `datetime`. *)
Theorem C12_python :
  forall (uc : unicode) (cfg : py_config) (pd : parsed) (uses defs : list str),
    c12_py_observe uc cfg pd = Ok (uses, defs) -> c12_py_dom cfg (items_of pd) = true ->
    c12_py_known cfg pd = None ->
    c12_good uses defs = true.
Proof. exact Proofs.C12.c12_python. Qed.
Print Assumptions C12_python.

(* the hypotheses are satisfiable on an input that exercises every half: generic struct + generic alias
   sharing T, serde(default) OffsetDateTime next to a plain one, serde(default) Vec<u8> mapped to bytes
   whose plain text is registered by the formatter two levels deep *)
Theorem C12_python_nonvacuous :
  c12_py_known Proofs.C12.c12_py_cfg1 Proofs.C12.c12_py_full_pd = None /\
  c12_py_dom Proofs.C12.c12_py_cfg1 (items_of Proofs.C12.c12_py_full_pd) = true /\
  exists uses defs, c12_py_observe uc_exec Proofs.C12.c12_py_cfg1 Proofs.C12.c12_py_full_pd = Ok (uses, defs) /\
                    In (lit "T") uses /\ In (lit "TypeVar") uses /\ In (lit "parse_rfc3339") uses /\
                    In (lit "deserialize_binary_data") uses /\ In (lit "datetime") uses /\
                    c12_good uses defs = true.
Proof. exact Proofs.C12.c12_python_file_nonvacuous. Qed.
Print Assumptions C12_python_nonvacuous.

(* Python, the body alone, with NO class hypothesis (kept from before C12_python; partial): every name the
   declarations of the body use is defined or imported by the header, OR is a generic parameter name of
   the program, OR one of the four (de)serialiser function names.  The two "OR"s are exactly what the two
   classes decide; C12_python above closes them and adds the header's own uses. *)
Theorem C12_python_body_partial :
  forall (uc : unicode) (cfg : py_config) (pd : parsed) (ds : list py_decl) (st : py_state),
    py_decls uc cfg pd = Ok (ds, st) -> c12_py_dom cfg (items_of pd) = true ->
    forall u, In u (flat_map (c12_py_decl_uses (c12_py_tv_vocab (items_of pd))) ds) ->
      In u (c12_py_tv_vocab (items_of pd)) \/ In u Proofs.C12_Python.c12_py_fn_names \/
      In u (c12_py_defs (py_type_variables st) (c12_py_fns st) (c12_py_imported st)).
Proof. exact Proofs.C12_Python.c12_py_file_partial. Qed.
Print Assumptions C12_python_body_partial.

Theorem C12_python_alias_typevar_refuted :
  c12_py_known Proofs.C12.c12_py_cfg0 Proofs.C12.c12_py_alias_pd = Some "C12-python-alias-typevar"%string /\
  c12_py_dom Proofs.C12.c12_py_cfg0 (items_of Proofs.C12.c12_py_alias_pd) = true /\
  exists uses defs, c12_py_observe uc_exec Proofs.C12.c12_py_cfg0 Proofs.C12.c12_py_alias_pd = Ok (uses, defs) /\
                    In (lit "T") uses /\ ~ In (lit "T") defs /\ c12_good uses defs = false.
Proof. exact Proofs.C12.c12_python_alias_typevar_refuted. Qed.
Print Assumptions C12_python_alias_typevar_refuted.

Theorem C12_python_default_translation_refuted :
  c12_py_known Proofs.C12.c12_py_cfg0 Proofs.C12.c12_py_default_pd = Some "C12-python-default-translation"%string /\
  c12_py_dom Proofs.C12.c12_py_cfg0 (items_of Proofs.C12.c12_py_default_pd) = true /\
  exists uses defs, c12_py_observe uc_exec Proofs.C12.c12_py_cfg0 Proofs.C12.c12_py_default_pd = Ok (uses, defs) /\
                    In (lit "parse_rfc3339") uses /\ ~ In (lit "parse_rfc3339") defs /\ c12_good uses defs = false.
Proof. exact Proofs.C12.c12_python_default_translation_refuted. Qed.
Print Assumptions C12_python_default_translation_refuted.
