(* C08 property theorems: statements only; proofs live in Proofs/{FrontTypes,FrontItems,C08}.v *)
From Coq Require Import String.
From TS Require Import Model.Str Model.Outcome Model.Unicode Model.Syntax Model.Attrs Model.Types Model.Parse.
From TS Require Import Spec.Serde Spec.C08Spec.
From TS Require Proofs.FrontTypes Proofs.FrontItems Proofs.C08.

(* a type expression containing u64 / i64 / usize / isize or a non-empty tuple ANYWHERE - through any
   generic argument, reference, array, slice or smart pointer, at any depth - is never accepted *)
Theorem C08_unsupported_type_never_parses :
  forall t : ty, has_unsupported t = true -> is_ok (parse_ty t) = false.
Proof. exact Proofs.FrontTypes.unsupported_never_ok. Qed.
Print Assumptions C08_unsupported_type_never_parses.

(* every annotated item that uses an unsupported construct in a non-skipped position (bad field /
   payload / alias / const / serialized_as type, tuple struct or variant with several fields,
   serde(flatten) on a struct field or a struct-variant field, data-carrying enum without tag+content,
   tag/content on a unit enum, const whose initialiser is not a possibly parenthesised / negated
   integer literal) fails to parse - no recorded class is excepted any more; stated under the
   hypothesis that the code's skip decision is the documented one (C13) ... *)
Theorem C08_unsupported_item_rejected :
  forall (uc : unicode) (tstr : str -> option ty) (T : list str),
    (forall attrs, is_skipped T attrs = skipped8 T attrs) ->
  forall it : item,
    item_unsupported uc tstr T it = true ->
    is_ok (Proofs.C08.parse_leaf8 uc tstr T it) = false.
Proof. exact Proofs.C08.unsupported_item_never_ok. Qed.
Print Assumptions C08_unsupported_item_rejected.

(* ... which holds outright when no --target-os is given *)
Theorem C08_unsupported_item_rejected_no_target :
  forall (uc : unicode) (tstr : str -> option ty) (it : item),
    item_unsupported uc tstr [] it = true ->
    is_ok (Proofs.C08.parse_leaf8 uc tstr [] it) = false.
Proof. exact Proofs.C08.unsupported_item_never_ok_no_target. Qed.
Print Assumptions C08_unsupported_item_rejected_no_target.

(* never silently mis-generated: a const that IS accepted carries exactly the integer its initialiser
   denotes (const_value8: the literal, through parentheses and negations) *)
Theorem C08_const_value_faithful :
  forall (uc : unicode) (tstr : str -> option ty) (attrs : list attr) (ident : str) (t : ty) (e : cexpr) (c : rconst),
    parse_const uc tstr attrs ident t e = Ok (ItConst c) -> const_value8 e = Some (cvalue c).
Proof. exact Proofs.C08.const_value_faithful. Qed.
Print Assumptions C08_const_value_faithful.

(* moving the construct under serde(skip) / typeshare(skip): the item parses exactly as if the
   member were not there *)
Theorem C08_skipped_field_is_as_absent :
  forall uc tstr T attrs ident gens l1 f l2, is_skipped T (f_attrs f) = true ->
    parse_struct uc tstr T attrs ident gens (FNamed (l1 ++ f :: l2)) =
    parse_struct uc tstr T attrs ident gens (FNamed (l1 ++ l2)).
Proof. exact Proofs.FrontItems.struct_skipped_field_irrelevant. Qed.
Theorem C08_skipped_variant_is_as_absent :
  forall uc tstr T attrs ident gens l1 v l2, is_skipped T (v_attrs v) = true ->
    parse_enum uc tstr T attrs ident gens (l1 ++ v :: l2) = parse_enum uc tstr T attrs ident gens (l1 ++ l2).
Proof. exact Proofs.FrontItems.enum_skipped_variant_irrelevant. Qed.
Print Assumptions C08_skipped_variant_is_as_absent.

(* regression pins of the two finding classes fixed in /repo.
   C08-const-expr: `const X: i32 = -5;` (also -(5), (-5)) is accepted with the value -5 (was 5); any other
   expression (1 + 2, foo(7), 7 as u32) is rejected with RustConstExprInvalid, also under a negation;
   a non-integer literal with RustConstTypeInvalid *)
Theorem C08_const_expr_fixed :
  (forall e, In e [CENeg (Proofs.C08.c08_lit 5); CENeg (CEParen (Proofs.C08.c08_lit 5)); CEParen (CENeg (Proofs.C08.c08_lit 5))] ->
     item_unsupported uc_exec (fun _ => None) [] (Proofs.C08.c08_const e) = false /\
     match Proofs.C08.parse_leaf8 uc_exec (fun _ => None) [] (Proofs.C08.c08_const e) with
     | Ok (ItConst c) => cvalue c = Zneg 5
     | _ => False
     end) /\
  item_unsupported uc_exec (fun _ => None) [] (Proofs.C08.c08_const CEOther) = true /\
  Proofs.C08.parse_leaf8 uc_exec (fun _ => None) [] (Proofs.C08.c08_const CEOther) = Err EConstExprInvalid /\
  Proofs.C08.parse_leaf8 uc_exec (fun _ => None) [] (Proofs.C08.c08_const (CENeg CEOther)) = Err EConstExprInvalid /\
  Proofs.C08.parse_leaf8 uc_exec (fun _ => None) [] (Proofs.C08.c08_const (CELit CNotInt)) = Err EConstTypeInvalid.
Proof. exact Proofs.C08.C08_const_expr_fixed. Qed.
Print Assumptions C08_const_expr_fixed.

(* C08-flatten-variant: #[serde(tag = "t", content = "c")] enum E { V { #[serde(flatten)] x: u8 } } is
   rejected with SerdeFlattenNotAllowed, like a struct field (was accepted) *)
Theorem C08_flatten_variant_fixed :
  let flat := {| a_inner := false; a_meta := MList [lit "serde"] (Some [MPath [lit "flatten"]]) None |} in
  let tagc := {| a_inner := false; a_meta := MList [lit "serde"] (Some [MNV [lit "tag"] (VStr (lit "t")); MNV [lit "content"] (VStr (lit "c"))]) None |} in
  let it := IEnum [Proofs.C08.a_typeshare; tagc] (lit "E") []
                  [{| v_attrs := []; v_ident := lit "V";
                      v_fields := FNamed [{| f_attrs := [flat]; f_ident := Some (lit "x"); f_ty := Proofs.C08.ty_u8 |}] |}] in
  item_unsupported uc_exec (fun _ => None) [] it = true /\
  Proofs.C08.parse_leaf8 uc_exec (fun _ => None) [] it = Err ESerdeFlatten.
Proof. exact Proofs.C08.C08_flatten_variant_fixed. Qed.
Print Assumptions C08_flatten_variant_fixed.

(* the hypotheses are satisfiable: Vec<Option<u64>> in a struct field is unsupported and is rejected *)
Theorem C08_nonvacuous_witness :
  let it := IStruct [Proofs.C08.a_typeshare] (lit "S") []
                    (FNamed [{| f_attrs := []; f_ident := Some (lit "a");
                                f_ty := TPath [] (lit "Vec") [Some (TPath [] (lit "Option") [Some (TPath [] (lit "u64") [])])] |}]) in
  item_unsupported uc_exec (fun _ => None) [] it = true /\
  is_ok (Proofs.C08.parse_leaf8 uc_exec (fun _ => None) [] it) = false.
Proof. exact Proofs.C08.C08_nonvacuous. Qed.
Print Assumptions C08_nonvacuous_witness.
