(* C08 property theorems: statements only; proofs live in Proofs/{FrontTypes,FrontItems,C08}.v *)
From Coq Require Import String.
From TS Require Import Model.Str Model.Outcome Model.Unicode Model.Syntax Model.Attrs Model.Types Model.Parse.
From TS Require Import Spec.Serde Spec.C08Spec.
From TS Require Proofs.FrontTypes Proofs.FrontItems Proofs.C08.

(* a type expression containing u64 / i64 / usize / isize or a non-empty tuple ANYWHERE - through any
   generic argument, reference, array, slice or smart pointer, at any depth - is never accepted *)
Theorem C08_unsupported_type_never_parses :
  forall t : ty, has_unsupported t = true -> is_ok (parse_ty t) = false.
Proof. exact Proofs.FrontTypes.unsupported_never_ok. Qed.
Print Assumptions C08_unsupported_type_never_parses.

(* every annotated item that uses an unsupported construct in a non-skipped position (bad field /
   payload / alias / const / serialized_as type, tuple struct or variant with several fields,
   serde(flatten), data-carrying enum without tag+content, tag/content on a unit enum, const that is
   not an integer literal) fails to parse, outside the two recorded finding classes; stated under the
   hypothesis that the code's skip decision is the documented one (C13) ... *)
Theorem C08_unsupported_item_rejected :
  forall (uc : unicode) (tstr : str -> option ty) (T : list str),
    (forall attrs, is_skipped T attrs = skipped8 T attrs) ->
  forall it : item,
    item_unsupported uc tstr T it = true -> known_C08 T it = None ->
    is_ok (Proofs.C08.parse_leaf8 uc tstr T it) = false.
Proof. exact Proofs.C08.unsupported_item_never_ok. Qed.
Print Assumptions C08_unsupported_item_rejected.

(* ... which holds outright when no --target-os is given *)
Theorem C08_unsupported_item_rejected_no_target :
  forall (uc : unicode) (tstr : str -> option ty) (it : item),
    item_unsupported uc tstr [] it = true -> known_C08 [] it = None ->
    is_ok (Proofs.C08.parse_leaf8 uc tstr [] it) = false.
Proof. exact Proofs.C08.unsupported_item_never_ok_no_target. Qed.
Print Assumptions C08_unsupported_item_rejected_no_target.

(* moving the construct under serde(skip) / typeshare(skip): the item parses exactly as if the
   member were not there *)
Theorem C08_skipped_field_is_as_absent :
  forall uc tstr T attrs ident gens l1 f l2, is_skipped T (f_attrs f) = true ->
    parse_struct uc tstr T attrs ident gens (FNamed (l1 ++ f :: l2)) =
    parse_struct uc tstr T attrs ident gens (FNamed (l1 ++ l2)).
Proof. exact Proofs.FrontItems.struct_skipped_field_irrelevant. Qed.
Theorem C08_skipped_variant_is_as_absent :
  forall uc tstr T attrs ident gens l1 v l2, is_skipped T (v_attrs v) = true ->
    parse_enum uc tstr T attrs ident gens (l1 ++ v :: l2) = parse_enum uc tstr T attrs ident gens (l1 ++ l2).
Proof. exact Proofs.FrontItems.enum_skipped_variant_irrelevant. Qed.
Print Assumptions C08_skipped_variant_is_as_absent.

(* the unrestricted statement is false of the faithful model: one witness per finding class *)
Theorem C08_const_expr_refuted :
  let it := IConst [Proofs.C08.a_typeshare] (lit "X") (TPath [] (lit "i32") [])
                   {| ce_first_lit := Some (CInt (Some (Zpos 5))); ce_plain := None |} in
  item_unsupported uc_exec (fun _ => None) [] it = true /\ known_C08 [] it <> None /\
  is_ok (Proofs.C08.parse_leaf8 uc_exec (fun _ => None) [] it) = true.
Proof. exact Proofs.C08.C08_const_expr_refuted. Qed.
Print Assumptions C08_const_expr_refuted.
