(* C05 property theorems: statements only; proofs live in Proofs/C05.v and Proofs/C05_Back.v. *)
From Coq Require Import String List.
From TS Require Import Model.Str Model.Outcome Model.Unicode Model.Syntax Model.Types Model.Lang.Common Model.Lang.Decl Model.Lang.TypeScript Model.Lang.Kotlin Model.Lang.Scala Model.Lang.Swift Model.Lang.Go Model.Lang.Python Spec.C05Spec.
From TS Require Proofs.C05 Proofs.C05_Back Proofs.C05_Sites Proofs.GoAcronyms Proofs.C05_GoAcr Spec.C02Spec.
Import ListNotations.
From TS Require Proofs.C12Multi Proofs.C12MultiTS Proofs.C12MultiSwift Proofs.C12MultiGo Proofs.MultiSameSites.

(* ---- syn type -> IR ---- *)
(* Every syn type built from supported pieces (any depth, any mix of Vec / Option / HashMap / arrays / slices /
   references / Box, Arc, Rc, Cow, Cell, RefCell, Mutex, RwLock, Weak / qualified paths / user types with generic
   arguments / primitives) is translated to exactly its structural denotation: containers to the IR nodes of the
   translated children, wrappers and references to nothing, arguments in order, qualification dropped. *)
Theorem C05_parse :
  forall (t : ty), c05_src_ok t = true -> parse_ty t = Ok (c05_denote t).
Proof. exact Proofs.C05.C05_parse. Qed.
Print Assumptions C05_parse.

Theorem C05_wrappers_vanish :
  forall (q : list str) (id : str) (t : ty) (rest : list (option ty)),
    mem_str id c05_wrappers = true -> c05_denote (TPath q id (Some t :: rest)) = c05_denote t.
Proof. exact Proofs.C05.C05_denote_wrapper. Qed.
Print Assumptions C05_wrappers_vanish.

(* ---- the skeleton: mappings, generic parameters, argument order (all languages at once) ---- *)
(* a mapped identifier never survives as a user type or generic parameter, at any depth *)
Theorem C05_mapped_never_survives :
  forall (inst : bool) (m : c05_tmap) (g : list str) (t : rtype) (id n : str),
    c05_lookup m id = Some n -> ~ In id (c05_tree_ids (c05_core inst m g t)).
Proof. exact Proofs.C05.C05_mapped_never_survives. Qed.
Print Assumptions C05_mapped_never_survives.

(* the configured name stands where the mapped type stood (a mapped generic type is replaced as a whole) *)
Theorem C05_mapped_name_stands :
  forall (L : lang) (c : c05_cfg) (g : list str) (id n : str) (ps : list rtype),
    c05_lookup (c05_m c) id = Some n ->
    c05_erase L c g (RSimple id) = XRaw n /\ c05_erase L c g (RGeneric id ps) = XRaw n.
Proof. exact Proofs.C05.C05_mapped_name_stands. Qed.
Print Assumptions C05_mapped_name_stands.

(* a generic parameter is never prefixed, in any language, under any prefix *)
Theorem C05_generic_parameter_not_prefixed :
  forall (L : lang) (c : c05_cfg) (g : list str) (id : str),
    mem_str id g = true -> c05_lookup (c05_m c) id = None -> c05_erase L c g (RSimple id) = XName id [].
Proof. exact Proofs.C05.C05_param_not_prefixed. Qed.
Print Assumptions C05_generic_parameter_not_prefixed.

(* generic arguments are kept, each translated, in order *)
Theorem C05_generic_arguments_in_order :
  forall (L : lang) (c : c05_cfg) (g : list str) (id : str) (ps : list rtype),
    c05_lookup (c05_m c) id = None ->
    exists name, c05_erase L c g (RGeneric id ps) = XName name (map (c05_erase L c g) ps).
Proof. exact Proofs.C05.C05_generic_args_in_order. Qed.
Print Assumptions C05_generic_arguments_in_order.

(* ---- the six translators compute the spec's tree: every IR type over the property's leaves, any depth,
        any generics list, any type_mappings table / prefix, outside the recorded classes ---- *)
Theorem C05_fmt_typescript :
  forall (cfg : ts_config) (g : list str) (t : rtype),
    dom_C05 t = true -> known_C05 TypeScript (Proofs.C05.c05_ts_cfg cfg) g t = None ->
    forall st, exists st', ts_texp cfg g t st = Ok (c05_erase TypeScript (Proofs.C05.c05_ts_cfg cfg) g t, st').
Proof. exact Proofs.C05.C05_fmt_ts. Qed.
Print Assumptions C05_fmt_typescript.

Theorem C05_fmt_kotlin :
  forall (cfg : kt_config) (g : list str) (t : rtype),
    dom_C05 t = true -> known_C05 Kotlin (Proofs.C05_Back.c05_kt_cfg cfg) g t = None ->
    kt_texp cfg g t = Ok (c05_erase Kotlin (Proofs.C05_Back.c05_kt_cfg cfg) g t).
Proof. exact Proofs.C05_Back.C05_fmt_kt. Qed.
Print Assumptions C05_fmt_kotlin.

Theorem C05_fmt_scala :
  forall (cfg : sc_config) (g : list str) (t : rtype),
    dom_C05 t = true -> known_C05 Scala (Proofs.C05_Back.c05_sc_cfg cfg) g t = None ->
    sc_texp cfg g t = Ok (c05_erase Scala (Proofs.C05_Back.c05_sc_cfg cfg) g t).
Proof. exact Proofs.C05_Back.C05_fmt_sc. Qed.
Print Assumptions C05_fmt_scala.

Theorem C05_fmt_swift :
  forall (cfg : sw_config) (g : list str) (t : rtype),
    dom_C05 t = true -> known_C05 Swift (Proofs.C05_Back.c05_sw_cfg cfg) g t = None ->
    forall st, exists st', sw_texp cfg g t st = Ok (c05_erase Swift (Proofs.C05_Back.c05_sw_cfg cfg) g t, st').
Proof. exact Proofs.C05_Back.C05_fmt_sw. Qed.
Print Assumptions C05_fmt_swift.

(* Go decides its own tree (with [n]T); its observation - lengths dropped - is the spec's tree *)
Theorem C05_fmt_go :
  forall (cfg : go_config) (g : list str) (t : rtype),
    dom_C05 t = true -> known_C05 Go (Proofs.C05_Back.c05_go_cfg cfg) g t = None ->
    forall st, exists x st', go_texp cfg g t st = Ok (x, st') /\
                             go_obs_ty x = c05_erase Go (Proofs.C05_Back.c05_go_cfg cfg) g t.
Proof. exact Proofs.C05_Back.C05_fmt_go. Qed.
Print Assumptions C05_fmt_go.

Theorem C05_go_array_length_kept :
  forall (cfg : go_config) (g : list str) (t : rtype) (n : N) (st : go_state) (x : go_ty) (st' : go_state),
    tmap_get (go_type_mappings cfg) (rtype_display (RArray t n)) = None ->
    go_texp cfg g (RArray t n) st = Ok (x, st') -> exists e, x = GArray n e.
Proof. exact Proofs.C05_Back.C05_go_array_length. Qed.
Print Assumptions C05_go_array_length_kept.

Theorem C05_fmt_python :
  forall (cfg : py_config) (g : list str) (t : rtype),
    dom_C05 t = true -> known_C05 Python (Proofs.C05_Back.c05_py_cfg cfg) g t = None ->
    forall st, exists st', py_texp cfg g t st = Ok (c05_erase Python (Proofs.C05_Back.c05_py_cfg cfg) g t, st').
Proof. exact Proofs.C05_Back.C05_fmt_py. Qed.
Print Assumptions C05_fmt_python.

(* ---- the primitive table ---- *)
(* every primitive of the quantifier, in every language: same JSON category, and the target type holds
   every value of the Rust type - outside the three recorded classes *)
Theorem C05_prims :
  forall (swcfg : sw_config) (L : lang) (p : prim) (name : str),
    c05_leaf_ok p = true -> known_C05_prim L p = None ->
    Proofs.C05_Back.c05_model_prim_name swcfg L p = Some name -> good_C05_prim L p name = true.
Proof. exact Proofs.C05_Back.C05_prims. Qed.
Print Assumptions C05_prims.

(* ---- refutation witnesses of the recorded classes ---- *)
Theorem C05_scala_unsigned_refuted :
  forall p, In p [PU8; PU16; PU32; PU53] ->
    known_C05_prim Scala p = Some C05K_scala_unsigned /\ good_C05_prim Scala p (c05_prim_target Scala p) = false.
Proof. exact Proofs.C05_Back.C05_scala_unsigned_refuted. Qed.
Print Assumptions C05_scala_unsigned_refuted.

Theorem C05_go_char_refuted :
  known_C05_prim Go PChar = Some C05K_go_char /\ good_C05_prim Go PChar (c05_prim_target Go PChar) = false.
Proof. exact Proofs.C05_Back.C05_go_char_refuted. Qed.
Print Assumptions C05_go_char_refuted.

Theorem C05_swift_char_refuted :
  known_C05_prim Swift PChar = Some C05K_swift_char /\ good_C05_prim Swift PChar (c05_prim_target Swift PChar) = false.
Proof. exact Proofs.C05_Back.C05_swift_char_refuted. Qed.
Print Assumptions C05_swift_char_refuted.

Theorem C05_generic_map_key_refuted :
  let g := [lit "T"] in let t := RHashMap (RSimple (lit "T")) (RPrim PString) in
  dom_C05 t = true /\
  known_C05 TypeScript (Proofs.C05.c05_ts_cfg (Proofs.C05_Back.c05_ts_with [])) g t = Some C05K_generic_map_key /\
  good_C05 TypeScript (Proofs.C05.c05_ts_cfg (Proofs.C05_Back.c05_ts_with [])) g t
           (Proofs.C05_Back.c05_obs_st (ts_texp (Proofs.C05_Back.c05_ts_with []) g t [])) = false /\
  known_C05 Python (Proofs.C05_Back.c05_py_cfg (Proofs.C05_Back.c05_py_with [])) g t = Some C05K_generic_map_key /\
  good_C05 Python (Proofs.C05_Back.c05_py_cfg (Proofs.C05_Back.c05_py_with [])) g t
           (Proofs.C05_Back.c05_obs_st (py_texp (Proofs.C05_Back.c05_py_with []) g t py_empty_state)) = false.
Proof. exact Proofs.C05_Back.C05_generic_map_key_refuted. Qed.
Print Assumptions C05_generic_map_key_refuted.

Theorem C05_special_mapping_ignored_refuted :
  let m := [(lit "u32", lit "Foo")] in let t := RVec (RPrim PU32) in
  dom_C05 t = true /\
  known_C05 Kotlin (Proofs.C05_Back.c05_kt_cfg (Proofs.C05_Back.c05_kt_with [] m)) [] t = Some C05K_special_mapping_ignored /\
  kt_texp (Proofs.C05_Back.c05_kt_with [] m) [] t = Ok (XName (lit "List") [XName (lit "UInt") []]) /\
  good_C05 Kotlin (Proofs.C05_Back.c05_kt_cfg (Proofs.C05_Back.c05_kt_with [] m)) [] t
           (Proofs.C05_Back.c05_obs (kt_texp (Proofs.C05_Back.c05_kt_with [] m) [] t)) = false.
Proof. exact Proofs.C05_Back.C05_special_mapping_ignored_refuted. Qed.
Print Assumptions C05_special_mapping_ignored_refuted.

Theorem C05_mapping_key_display_refuted :
  let m1 := [(lit "HashMap<String, u32>", lit "Foo")] in let t1 := RHashMap (RPrim PString) (RPrim PU32) in
  let m2 := [(lit "Option<Vec>", lit "Foo")] in let t2 := ROption (RVec (RPrim PString)) in
  known_C05 TypeScript (Proofs.C05.c05_ts_cfg (Proofs.C05_Back.c05_ts_with m1)) [] t1 = Some C05K_mapping_key_display /\
  good_C05 TypeScript (Proofs.C05.c05_ts_cfg (Proofs.C05_Back.c05_ts_with m1)) [] t1
           (Proofs.C05_Back.c05_obs_st (ts_texp (Proofs.C05_Back.c05_ts_with m1) [] t1 [])) = false /\
  known_C05 TypeScript (Proofs.C05.c05_ts_cfg (Proofs.C05_Back.c05_ts_with m2)) [] t2 = Some C05K_mapping_key_display /\
  ts_texp (Proofs.C05_Back.c05_ts_with m2) [] t2 [] = Ok (XRaw (lit "Foo"), []) /\
  good_C05 TypeScript (Proofs.C05.c05_ts_cfg (Proofs.C05_Back.c05_ts_with m2)) [] t2
           (Proofs.C05_Back.c05_obs_st (ts_texp (Proofs.C05_Back.c05_ts_with m2) [] t2 [])) = false.
Proof. exact Proofs.C05_Back.C05_mapping_key_display_refuted. Qed.
Print Assumptions C05_mapping_key_display_refuted.

(* ---- use sites: every place an item carries a type translates it under the generics list of the enclosing item
        (c05_field_ok: the field's declared type is in the quantifier, outside the classes, and not overridden) ---- *)
Theorem C05_site_typescript_struct :
  forall (uc : unicode) (cfg : ts_config) (s : rstruct),
    Forall (Proofs.C05_Sites.c05_field_ok TypeScript (Proofs.C05.c05_ts_cfg cfg) (sgenerics s)) (sfields s) ->
    forall st, exists d st', ts_decl_of uc cfg (ItStruct s) st = Ok (d, st') /\
      exists docs name ms, d = TSInterface docs name (sgenerics s) ms /\
        map tm_type ms = map (fun f => c05_erase TypeScript (Proofs.C05.c05_ts_cfg cfg) (sgenerics s) (fty f)) (sfields s).
Proof. exact Proofs.C05_Sites.C05_site_ts_struct. Qed.
Print Assumptions C05_site_typescript_struct.

Theorem C05_site_typescript_alias :
  forall (uc : unicode) (cfg : ts_config) (a : ralias),
    dom_C05 (atype a) = true -> known_C05 TypeScript (Proofs.C05.c05_ts_cfg cfg) (agenerics a) (atype a) = None ->
    forall st, exists d st', ts_decl_of uc cfg (ItAlias a) st = Ok (d, st') /\
      exists docs name u n, d = TSAlias docs name (agenerics a) (c05_erase TypeScript (Proofs.C05.c05_ts_cfg cfg) (agenerics a) (atype a)) u n.
Proof. exact Proofs.C05_Sites.C05_site_ts_alias. Qed.
Print Assumptions C05_site_typescript_alias.

Theorem C05_site_typescript_const :
  forall (uc : unicode) (cfg : ts_config) (k : rconst),
    dom_C05 (ctype k) = true -> known_C05 TypeScript (Proofs.C05.c05_ts_cfg cfg) [] (ctype k) = None ->
    forall st, exists d st', ts_decl_of uc cfg (ItConst k) st = Ok (d, st') /\
      exists name v, d = TSConst name (c05_erase TypeScript (Proofs.C05.c05_ts_cfg cfg) [] (ctype k)) v.
Proof. exact Proofs.C05_Sites.C05_site_ts_const. Qed.
Print Assumptions C05_site_typescript_const.

Theorem C05_site_typescript_payload :
  forall (cfg : ts_config) (g : list str) (ue : bool) (t : rtype) (vsh : vshared),
    dom_C05 t = true -> known_C05 TypeScript (Proofs.C05.c05_ts_cfg cfg) g t = None ->
    forall st, exists v st', ts_variant_of cfg g ue (VTuple t vsh) st = Ok (v, st') /\
      exists docs w o n, v = TVTuple docs w (c05_erase TypeScript (Proofs.C05.c05_ts_cfg cfg) g t) o n.
Proof. exact Proofs.C05_Sites.C05_site_ts_payload. Qed.
Print Assumptions C05_site_typescript_payload.

Theorem C05_site_typescript_variant_fields :
  forall (cfg : ts_config) (g : list str) (ue : bool) (fs : list rfield) (vsh : vshared),
    Forall (Proofs.C05_Sites.c05_field_ok TypeScript (Proofs.C05.c05_ts_cfg cfg) g) fs ->
    forall st, exists v st', ts_variant_of cfg g ue (VAnon fs vsh) st = Ok (v, st') /\
      exists docs w ms, v = TVStruct docs w ms /\
        map tm_type ms = map (fun f => c05_erase TypeScript (Proofs.C05.c05_ts_cfg cfg) g (fty f)) fs.
Proof. exact Proofs.C05_Sites.C05_site_ts_variant_fields. Qed.
Print Assumptions C05_site_typescript_variant_fields.

Theorem C05_site_kotlin_struct :
  forall (cfg : kt_config) (rs : rstruct),
    sfields rs <> [] -> Forall (Proofs.C05_Sites.c05_field_ok Kotlin (Proofs.C05_Back.c05_kt_cfg cfg) (sgenerics rs)) (sfields rs) ->
    exists docs name ms ts, kt_struct_decl cfg rs = Ok (KTDataClass docs name (sgenerics rs) ms ts) /\
      map km_type ms = map (fun f => c05_erase Kotlin (Proofs.C05_Back.c05_kt_cfg cfg) (sgenerics rs) (fty f)) (sfields rs).
Proof. exact Proofs.C05_Sites.C05_site_kt_struct. Qed.
Print Assumptions C05_site_kotlin_struct.

Theorem C05_site_kotlin_alias :
  forall (cfg : kt_config) (a : ralias),
    kt_is_inline (adecs a) = false -> dom_C05 (atype a) = true ->
    known_C05 Kotlin (Proofs.C05_Back.c05_kt_cfg cfg) (agenerics a) (atype a) = None ->
    exists docs name, kt_alias_decl cfg a =
      Ok (KTTypeAlias docs name (agenerics a) (c05_erase Kotlin (Proofs.C05_Back.c05_kt_cfg cfg) (agenerics a) (atype a))).
Proof. exact Proofs.C05_Sites.C05_site_kt_alias. Qed.
Print Assumptions C05_site_kotlin_alias.

(* a @JvmInline value class, outside the recorded class (empty prefix, or no generic parameter survives) *)
Theorem C05_site_kotlin_inline_alias :
  forall (cfg : kt_config) (a : ralias),
    kt_is_inline (adecs a) = true -> dom_C05 (atype a) = true ->
    known_C05_site Kotlin (Proofs.C05_Back.c05_kt_cfg cfg) C05SInlineAlias (agenerics a) (atype a) = None ->
    exists docs name mm red, kt_alias_decl cfg a = Ok (KTValueClass docs name mm red) /\
      km_type mm = c05_erase Kotlin (Proofs.C05_Back.c05_kt_cfg cfg) (agenerics a) (atype a).
Proof. exact Proofs.C05_Sites.C05_site_kt_inline_alias_full. Qed.
Print Assumptions C05_site_kotlin_inline_alias.

Theorem C05_site_kotlin_payload :
  forall (cfg : kt_config) (sh : eshared) (t : rtype) (vsh : vshared),
    dom_C05 t = true -> known_C05 Kotlin (Proofs.C05_Back.c05_kt_cfg cfg) (egenerics sh) t = None ->
    exists v, kt_variant_of cfg sh (VTuple t vsh) = Ok v /\
      kv_payload v = KTPNewtype (c05_erase Kotlin (Proofs.C05_Back.c05_kt_cfg cfg) (egenerics sh) t).
Proof. exact Proofs.C05_Sites.C05_site_kt_payload. Qed.
Print Assumptions C05_site_kotlin_payload.

(* struct variants: the helper struct gets the SUBSET of the enum's generics its fields mention (mod.rs:381);
   its fields are translated exactly as under the enum's full generics list *)
Theorem C05_site_kotlin_variant_fields :
  forall (cfg : kt_config) (sh : eshared) (name vo : str) (fields : list rfield),
    fields <> [] -> Forall (Proofs.C05_Sites.c05_field_ok Kotlin (Proofs.C05_Back.c05_kt_cfg cfg) (egenerics sh)) fields ->
    exists docs n gs ms ts, kt_struct_decl cfg (anon_struct sh name vo fields) = Ok (KTDataClass docs n gs ms ts) /\
      map km_type ms = map (fun f => c05_erase Kotlin (Proofs.C05_Back.c05_kt_cfg cfg) (egenerics sh) (fty f)) fields.
Proof. exact Proofs.C05_Sites.C05_site_kt_variant_fields. Qed.
Print Assumptions C05_site_kotlin_variant_fields.

Theorem C05_kotlin_inline_generic_refuted :
  let cfg := Proofs.C05_Back.c05_kt_with (lit "P") [] in
  let a := {| aid := {| original := lit "A1"; renamed := lit "A1"; via_serde_rename := false |}; agenerics := [lit "T"];
              atype := RVec (RSimple (lit "T")); acomments := []; adecs := [(DKKotlin, [lit "JvmInline"])]; aredacted := false |} in
  known_C05_site Kotlin (Proofs.C05_Back.c05_kt_cfg cfg) C05SInlineAlias (agenerics a) (atype a) = Some C05S_kotlin_inline_generic /\
  exists docs name mm red, kt_alias_decl cfg a = Ok (KTValueClass docs name mm red) /\
    km_type mm = XName (lit "List") [XName (lit "PT") []] /\
    good_C05_site Kotlin (Proofs.C05_Back.c05_kt_cfg cfg) C05SInlineAlias (agenerics a) (atype a) (Some (km_type mm)) = false.
Proof. exact Proofs.C05_Sites.C05_kotlin_inline_generic_refuted. Qed.
Print Assumptions C05_kotlin_inline_generic_refuted.

Theorem C05_site_scala_struct :
  forall (cfg : sc_config) (s : rstruct),
    sfields s <> [] -> Forall (Proofs.C05_Sites.c05_field_ok Scala (Proofs.C05_Back.c05_sc_cfg cfg) (sgenerics s)) (sfields s) ->
    exists docs name ms, sc_class_of cfg s = Ok (SCCaseClass docs name (sgenerics s) ms) /\
      map scm_type ms = map (fun f => c05_erase Scala (Proofs.C05_Back.c05_sc_cfg cfg) (sgenerics s) (fty f)) (sfields s).
Proof. exact Proofs.C05_Sites.C05_site_sc_struct. Qed.
Print Assumptions C05_site_scala_struct.

Theorem C05_site_scala_alias :
  forall (cfg : sc_config) (a : ralias),
    dom_C05 (atype a) = true -> known_C05 Scala (Proofs.C05_Back.c05_sc_cfg cfg) (agenerics a) (atype a) = None ->
    exists docs name, sc_decl_of cfg (ItAlias a) =
      Ok [SCAlias docs name (agenerics a) (c05_erase Scala (Proofs.C05_Back.c05_sc_cfg cfg) (agenerics a) (atype a))].
Proof. exact Proofs.C05_Sites.C05_site_sc_alias. Qed.
Print Assumptions C05_site_scala_alias.

Theorem C05_site_scala_payload :
  forall (cfg : sc_config) (content_key : str) (e : eshared) (t : rtype) (vsh : vshared),
    dom_C05 t = true -> known_C05 Scala (Proofs.C05_Back.c05_sc_cfg cfg) (egenerics e) t = None ->
    exists v gs ck, sc_variant_of_algebraic cfg content_key e (VTuple t vsh) = Ok v /\
      scv_payload v = SCPayTuple gs ck (c05_erase Scala (Proofs.C05_Back.c05_sc_cfg cfg) (egenerics e) t).
Proof. exact Proofs.C05_Sites.C05_site_sc_payload. Qed.
Print Assumptions C05_site_scala_payload.

Theorem C05_site_scala_variant_fields :
  forall (cfg : sc_config) (sh : eshared) (name vo : str) (fields : list rfield),
    fields <> [] -> Forall (Proofs.C05_Sites.c05_field_ok Scala (Proofs.C05_Back.c05_sc_cfg cfg) (egenerics sh)) fields ->
    exists docs n gs ms, sc_class_of cfg (anon_struct sh name vo fields) = Ok (SCCaseClass docs n gs ms) /\
      map scm_type ms = map (fun f => c05_erase Scala (Proofs.C05_Back.c05_sc_cfg cfg) (egenerics sh) (fty f)) fields.
Proof. exact Proofs.C05_Sites.C05_site_sc_variant_fields. Qed.
Print Assumptions C05_site_scala_variant_fields.

Theorem C05_site_swift_struct :
  forall (uc : unicode) (cfg : sw_config) (rs : rstruct),
    Forall (Proofs.C05_Sites.c05_field_ok Swift (Proofs.C05_Back.c05_sw_cfg cfg) (sgenerics rs)) (sfields rs) ->
    forall st, exists d st', sw_struct_of uc cfg rs st = Ok (d, st') /\
      (map swm_type (sws_members d) = map (fun f => c05_erase Swift (Proofs.C05_Back.c05_sw_cfg cfg) (sgenerics rs) (fty f)) (sfields rs) /\
       map swm_init_type (sws_members d) = map (fun f => c05_erase Swift (Proofs.C05_Back.c05_sw_cfg cfg) (sgenerics rs) (fty f)) (sfields rs)).
Proof. exact Proofs.C05_Sites.C05_site_sw_struct. Qed.
Print Assumptions C05_site_swift_struct.

Theorem C05_site_swift_alias :
  forall (uc : unicode) (cfg : sw_config) (a : ralias),
    dom_C05 (atype a) = true -> known_C05 Swift (Proofs.C05_Back.c05_sw_cfg cfg) (agenerics a) (atype a) = None ->
    forall st, exists d st', sw_decl_of uc cfg (ItAlias a) st = Ok (d, st') /\
      exists docs name esc, d = SWAlias docs name esc (agenerics a) (c05_erase Swift (Proofs.C05_Back.c05_sw_cfg cfg) (agenerics a) (atype a)).
Proof. exact Proofs.C05_Sites.C05_site_sw_alias. Qed.
Print Assumptions C05_site_swift_alias.

(* the variant is always produced (a variant NAME can no longer make to_camel_case panic: fixed in /repo, C07) *)
Theorem C05_site_swift_payload :
  forall (uc : unicode) (cfg : sw_config) (sh : eshared) (t : rtype) (vsh : vshared),
    dom_C05 t = true -> known_C05 Swift (Proofs.C05_Back.c05_sw_cfg cfg) (egenerics sh) t = None ->
    forall st, exists v st', sw_variant_of uc cfg sh (VTuple t vsh) st = Ok (v, st') /\
      exists esc opt, swv_payload v = SWPTuple (c05_erase Swift (Proofs.C05_Back.c05_sw_cfg cfg) (egenerics sh) t) esc opt.
Proof. exact Proofs.C05_Sites.C05_site_sw_payload. Qed.
Print Assumptions C05_site_swift_payload.

Theorem C05_site_swift_variant_fields :
  forall (uc : unicode) (cfg : sw_config) (sh : eshared) (name vo : str) (fields : list rfield),
    Forall (Proofs.C05_Sites.c05_field_ok Swift (Proofs.C05_Back.c05_sw_cfg cfg) (egenerics sh)) fields ->
    forall st, exists d st', sw_struct_of uc cfg (anon_struct sh name vo fields) st = Ok (d, st') /\
      map swm_type (sws_members d) = map (fun f => c05_erase Swift (Proofs.C05_Back.c05_sw_cfg cfg) (egenerics sh) (fty f)) fields.
Proof. exact Proofs.C05_Sites.C05_site_sw_variant_fields. Qed.
Print Assumptions C05_site_swift_variant_fields.

(* Python: a non-Option field with a serde default is wrapped in Optional[..] (C04); the type inside is the translation *)
Theorem C05_site_python_struct :
  forall (uc : unicode) (cfg : py_config) (s : rstruct),
    Forall (Proofs.C05_Sites.c05_field_ok Python (Proofs.C05_Back.c05_py_cfg cfg) (sgenerics s)) (sfields s) ->
    forall st, exists d st', py_class_of uc cfg s st = Ok (d, st') /\
      exists docs name pbn ms, d = PYClass docs name (sgenerics s) pbn ms /\
        map pym_type ms = map (Proofs.C05_Sites.py_field_type cfg (sgenerics s)) (sfields s).
Proof. exact Proofs.C05_Sites.C05_site_py_struct. Qed.
Print Assumptions C05_site_python_struct.

Theorem C05_site_python_variant_fields :
  forall (uc : unicode) (cfg : py_config) (sh : eshared) (name vo : str) (fields : list rfield),
    Forall (Proofs.C05_Sites.c05_field_ok Python (Proofs.C05_Back.c05_py_cfg cfg) (egenerics sh)) fields ->
    forall st, exists d st', py_class_of uc cfg (anon_struct sh name vo fields) st = Ok (d, st') /\
      exists docs n gs pbn ms, d = PYClass docs n gs pbn ms /\
        map pym_type ms = map (Proofs.C05_Sites.py_field_type cfg (egenerics sh)) fields.
Proof. exact Proofs.C05_Sites.C05_site_py_variant_fields. Qed.
Print Assumptions C05_site_python_variant_fields.

Theorem C05_site_python_alias :
  forall (uc : unicode) (cfg : py_config) (a : ralias),
    dom_C05 (atype a) = true -> known_C05 Python (Proofs.C05_Back.c05_py_cfg cfg) (agenerics a) (atype a) = None ->
    forall st, exists ds st', py_decl_of uc cfg (ItAlias a) st = Ok (ds, st') /\
      exists docs name, ds = [PYAlias docs name (agenerics a) (c05_erase Python (Proofs.C05_Back.c05_py_cfg cfg) (agenerics a) (atype a))].
Proof. exact Proofs.C05_Sites.C05_site_py_alias. Qed.
Print Assumptions C05_site_python_alias.

Theorem C05_site_python_const :
  forall (uc : unicode) (cfg : py_config) (k : rconst),
    dom_C05 (ctype k) = true -> known_C05 Python (Proofs.C05_Back.c05_py_cfg cfg) [] (ctype k) = None ->
    forall st, exists ds st', py_decl_of uc cfg (ItConst k) st = Ok (ds, st') /\
      exists name v, ds = [PYConst name (c05_erase Python (Proofs.C05_Back.c05_py_cfg cfg) [] (ctype k)) v].
Proof. exact Proofs.C05_Sites.C05_site_py_const. Qed.
Print Assumptions C05_site_python_const.

Theorem C05_site_python_payload :
  forall (uc : unicode) (cfg : py_config) (en etn : str) (sh : eshared) (t : rtype) (vsh : vshared),
    dom_C05 t = true -> known_C05 Python (Proofs.C05_Back.c05_py_cfg cfg) (egenerics sh) t = None ->
    forall st, exists v st', py_variant_of uc cfg en etn sh (VTuple t vsh) st = Ok (v, st') /\
      pyv_content v = PYCType (c05_erase Python (Proofs.C05_Back.c05_py_cfg cfg) (egenerics sh) t).
Proof. exact Proofs.C05_Sites.C05_site_py_payload. Qed.
Print Assumptions C05_site_python_payload.

(* Go: format_type never looks at the generics list *)
Theorem C05_go_generics_immaterial :
  forall (cfg : go_config) (g g' : list str) (t : rtype),
    c05_erase Go (Proofs.C05_Back.c05_go_cfg cfg) g t = c05_erase Go (Proofs.C05_Back.c05_go_cfg cfg) g' t.
Proof. exact Proofs.C05_Sites.C05_go_generics_immaterial. Qed.
Print Assumptions C05_go_generics_immaterial.

Theorem C05_site_go_struct :
  forall (uc : unicode) (cfg : go_config), go_uppercase_acronyms cfg = [] -> forall (rs : rstruct),
    Forall (Proofs.C05_Sites.c05_field_ok Go (Proofs.C05_Back.c05_go_cfg cfg) (sgenerics rs)) (sfields rs) ->
    forall st, exists d st', go_struct_decl_of uc cfg rs st = Ok (d, st') /\
      exists docs name ms, d = GOStruct docs name (sgenerics rs) ms /\
        map (fun mm => go_obs_ty (gm_type mm)) ms = map (fun f => c05_erase Go (Proofs.C05_Back.c05_go_cfg cfg) (sgenerics rs) (fty f)) (sfields rs).
Proof. exact Proofs.C05_Sites.C05_site_go_struct. Qed.
Print Assumptions C05_site_go_struct.

Theorem C05_site_go_alias :
  forall (uc : unicode) (cfg : go_config) (cs : list str) (a : ralias) (st : go_state) (ds : list go_decl) (st' : go_state),
    dom_C05 (atype a) = true -> known_C05 Go (Proofs.C05_Back.c05_go_cfg cfg) [] (atype a) = None ->
    go_decl_of uc cfg cs (ItAlias a) st = Ok (ds, st') ->
    exists docs name ty, ds = [GOAlias docs name ty] /\
      go_obs_ty ty = c05_erase Go (Proofs.C05_Back.c05_go_cfg cfg) (agenerics a) (atype a).
Proof. exact Proofs.C05_Sites.C05_site_go_alias. Qed.
Print Assumptions C05_site_go_alias.

Theorem C05_site_go_const :
  forall (uc : unicode) (cfg : go_config) (cs : list str) (k : rconst),
    dom_C05 (ctype k) = true -> known_C05 Go (Proofs.C05_Back.c05_go_cfg cfg) [] (ctype k) = None ->
    forall st, exists ds st', go_decl_of uc cfg cs (ItConst k) st = Ok (ds, st') /\
      exists name ty v, ds = [GOConst name ty v] /\ go_obs_ty ty = c05_erase Go (Proofs.C05_Back.c05_go_cfg cfg) [] (ctype k).
Proof. exact Proofs.C05_Sites.C05_site_go_const. Qed.
Print Assumptions C05_site_go_const.

Theorem C05_site_go_payload :
  forall (uc : unicode) (cfg : go_config), go_uppercase_acronyms cfg = [] ->
  forall (sh : eshared) (cs : list str) (sn tk : str) (t : rtype) (vsh : vshared),
    dom_C05 t = true -> known_C05 Go (Proofs.C05_Back.c05_go_cfg cfg) [] t = None ->
    forall st, exists v st', go_variant_of uc cfg sh cs sn tk (VTuple t vsh) st = Ok (v, st') /\
      exists ty p, gv_content v = GCType ty p /\ go_obs_ty ty = c05_erase Go (Proofs.C05_Back.c05_go_cfg cfg) (egenerics sh) t.
Proof. exact Proofs.C05_Sites.C05_site_go_payload. Qed.
Print Assumptions C05_site_go_payload.

Theorem C05_site_go_variant_fields :
  forall (uc : unicode) (cfg : go_config), go_uppercase_acronyms cfg = [] ->
  forall (sh : eshared) (name vo : str) (fields : list rfield),
    Forall (Proofs.C05_Sites.c05_field_ok Go (Proofs.C05_Back.c05_go_cfg cfg) (egenerics sh)) fields ->
    forall st, exists d st', go_struct_decl_of uc cfg (anon_struct sh name vo fields) st = Ok (d, st') /\
      exists docs n gs ms, d = GOStruct docs n gs ms /\
        map (fun mm => go_obs_ty (gm_type mm)) ms = map (fun f => c05_erase Go (Proofs.C05_Back.c05_go_cfg cfg) (egenerics sh) (fty f)) fields.
Proof. exact Proofs.C05_Sites.C05_site_go_variant_fields. Qed.
Print Assumptions C05_site_go_variant_fields.

(* ---- Go under EVERY alphanumeric uppercase_acronyms list (lifts the `go_uppercase_acronyms cfg = []` restriction of
        C05_site_go_struct / _payload / _variant_fields above; Proofs/C05_GoAcr.v over Proofs/GoAcronyms.v) ----
   Hypotheses: the acronyms are [A-Za-z0-9]* (ga_alnum: what an acronym is), the type names and the type_mappings values
   the declared type can reach are ASCII (ga_texp_asciib), so are the names that are converted on the way (struct name,
   field names, variant name, tag key), and the Unicode table agrees with ASCII below 128 (unicode_ok).  Outside
   (a non-alphanumeric acronym could straddle `]` or `*`; byte and char offsets drift apart on non-ASCII text, C07) the
   rewrite of go.rs:579 has no closed form and nothing is claimed.
   Statement: nothing panics, and the type written at a struct field / struct-variant field / tuple-variant payload is
       c05_go_acronyms acrs (c05_erase Go cfg generics T)
   the translation of the declared type with EVERY name replaced by its acronym rewrite (Spec.C02Spec.c02_go_rewrite, the
   spec-level closed form of go.rs:579): containers, `*`, the order of generic arguments and the place of each name are those
   of the translation; the rewrite changes only the ASCII CASE of letters of a name - of a user type (UserId -> UserID), of
   a GENERIC PARAMETER (TId -> TID) and of the configured name of a type mapping (ApiUrl -> ApiURL) alike.  Alias targets
   and const types are not rewritten (C05_site_go_alias, C05_site_go_const hold for every acronym list).
   Whether the rewritten use agrees with the definition it refers to is C09's subject: on the real code a struct is declared
   under the rewrite of its name and so agrees with its uses in fields and payloads, but an alias target / const type keeps
   the unrewritten name (finding C09-go-acronym-target), a generic parameter is declared unrewritten in `[TId any]` and used
   rewritten (finding C09-go-acronym-generic), and the ...Inner helper gets one pass more at its use (C09-go-acronym-inner). *)

(* the rewrite of one name is the model's (the real code's) conversion on ASCII input, which never panics there *)
Theorem C05_go_rewrite_is_model :
  forall (uc : unicode), unicode_ok uc -> forall (acrs : list str) (name : str),
    forallb (forallb is_ascii) acrs = true -> forallb is_ascii name = true ->
    go_convert_acronyms_to_uppercase uc acrs name = Ok (Spec.C02Spec.c02_go_rewrite acrs name).
Proof. exact Proofs.C05_GoAcr.C05_go_rewrite_is_model. Qed.
Print Assumptions C05_go_rewrite_is_model.

(* it changes the ASCII case of letters and nothing else - for every acronym list and every name *)
Theorem C05_go_rewrite_case_only :
  forall (acrs : list str) (n : str),
    List.length (Spec.C02Spec.c02_go_rewrite acrs n) = List.length n /\
    str_upper_ascii (Spec.C02Spec.c02_go_rewrite acrs n) = str_upper_ascii n.
Proof. exact Proofs.C05_GoAcr.C05_go_rewrite_case_only. Qed.
Print Assumptions C05_go_rewrite_case_only.

(* a name without lowercase letters (T, K, an all-capitals type) is left alone *)
Theorem C05_go_rewrite_no_lower :
  forall (acrs : list str) (n : str),
    forallb (fun c => negb (is_alower c)) n = true -> Spec.C02Spec.c02_go_rewrite acrs n = n.
Proof. exact Proofs.C05_GoAcr.C05_go_rewrite_no_lower. Qed.
Print Assumptions C05_go_rewrite_no_lower.

(* the rewrite of a type expression keeps its shape: generic arguments stay, each rewritten, in order; a configured name
   stands where the mapped type stood (case may change); sequences, maps and `*` are untouched *)
Theorem C05_go_acronyms_shape :
  forall (acrs : list str),
    (forall n args, c05_go_acronyms acrs (XName n args) = XName (Spec.C02Spec.c02_go_rewrite acrs n) (map (c05_go_acronyms acrs) args)) /\
    (forall n, c05_go_acronyms acrs (XRaw n) = XRaw (Spec.C02Spec.c02_go_rewrite acrs n)) /\
    (forall e, c05_go_acronyms acrs (XSeq e) = XSeq (c05_go_acronyms acrs e)) /\
    (forall k v, c05_go_acronyms acrs (XMap k v) = XMap (c05_go_acronyms acrs k) (c05_go_acronyms acrs v)) /\
    (forall e, c05_go_acronyms acrs (XOpt e) = XOpt (c05_go_acronyms acrs e)).
Proof. exact Proofs.C05_GoAcr.C05_go_acronyms_shape. Qed.
Print Assumptions C05_go_acronyms_shape.

(* with no acronyms the Go verdict of the check is the plain one *)
Theorem C05_good_site_go_nil :
  forall c s g t obs, good_C05_site_go [] c s g t obs = good_C05_site Go c s g t obs.
Proof. exact Proofs.C05_GoAcr.C05_good_site_go_nil. Qed.
Print Assumptions C05_good_site_go_nil.

Theorem C05_site_go_struct_acronyms :
  forall (uc : unicode), unicode_ok uc ->
  forall (cfg : go_config), forallb (forallb Proofs.GoAcronyms.ga_alnum) (go_uppercase_acronyms cfg) = true ->
  forall (rs : rstruct),
    forallb is_ascii (renamed (sid rs)) = true ->
    Forall (Proofs.C05_GoAcr.c05_go_field_ok cfg (sgenerics rs)) (sfields rs) ->
    forall st, exists d st', go_struct_decl_of uc cfg rs st = Ok (d, st') /\
      exists docs name ms, d = GOStruct docs name (sgenerics rs) ms /\
        map (fun mm => go_obs_ty (gm_type mm)) ms =
        map (fun f => c05_go_acronyms (go_uppercase_acronyms cfg) (c05_erase Go (Proofs.C05_Back.c05_go_cfg cfg) (sgenerics rs) (fty f))) (sfields rs).
Proof. exact Proofs.C05_GoAcr.C05_site_go_struct_acr. Qed.
Print Assumptions C05_site_go_struct_acronyms.

(* c05_go_field_ok: the field is in the quantifier, outside the classes, not overridden (c05_field_ok), and the type names /
   type_mappings values its type can reach and its own name are ASCII *)
Theorem C05_go_field_ok_unfold :
  forall (cfg : go_config) (g : list str) (f : rfield),
    Proofs.C05_GoAcr.c05_go_field_ok cfg g f <->
    (Proofs.C05_Sites.c05_field_ok Go (Proofs.C05_Back.c05_go_cfg cfg) g f /\
     Proofs.GoAcronyms.ga_texp_asciib cfg (fty f) = true /\ forallb is_ascii (original (fid f)) = true).
Proof. exact Proofs.C05_GoAcr.c05_go_field_ok_unfold. Qed.
Print Assumptions C05_go_field_ok_unfold.

Theorem C05_site_go_payload_acronyms :
  forall (uc : unicode), unicode_ok uc ->
  forall (cfg : go_config), forallb (forallb Proofs.GoAcronyms.ga_alnum) (go_uppercase_acronyms cfg) = true ->
  forall (sh : eshared) (cs : list str) (sn tk : str) (t : rtype) (vsh : vshared),
    dom_C05 t = true -> known_C05 Go (Proofs.C05_Back.c05_go_cfg cfg) [] t = None ->
    Proofs.GoAcronyms.ga_texp_asciib cfg t = true ->
    forallb is_ascii (original (vid vsh)) = true -> forallb is_ascii tk = true ->
    forall st, exists v st', go_variant_of uc cfg sh cs sn tk (VTuple t vsh) st = Ok (v, st') /\
      exists ty p, gv_content v = GCType ty p /\
        go_obs_ty ty = c05_go_acronyms (go_uppercase_acronyms cfg) (c05_erase Go (Proofs.C05_Back.c05_go_cfg cfg) (egenerics sh) t).
Proof. exact Proofs.C05_GoAcr.C05_site_go_payload_acr. Qed.
Print Assumptions C05_site_go_payload_acronyms.

Theorem C05_site_go_variant_fields_acronyms :
  forall (uc : unicode), unicode_ok uc ->
  forall (cfg : go_config), forallb (forallb Proofs.GoAcronyms.ga_alnum) (go_uppercase_acronyms cfg) = true ->
  forall (sh : eshared) (name vo : str) (fields : list rfield),
    forallb is_ascii name = true ->
    Forall (Proofs.C05_GoAcr.c05_go_field_ok cfg (egenerics sh)) fields ->
    forall st, exists d st', go_struct_decl_of uc cfg (anon_struct sh name vo fields) st = Ok (d, st') /\
      exists docs n gs ms, d = GOStruct docs n gs ms /\
        map (fun mm => go_obs_ty (gm_type mm)) ms =
        map (fun f => c05_go_acronyms (go_uppercase_acronyms cfg) (c05_erase Go (Proofs.C05_Back.c05_go_cfg cfg) (egenerics sh) (fty f))) fields.
Proof. exact Proofs.C05_GoAcr.C05_site_go_variant_fields_acr. Qed.
Print Assumptions C05_site_go_variant_fields_acronyms.

(* what the theorems give is what the check's Go verdict (good_C05_site_go) accepts at the rewritten sites *)
Theorem C05_good_site_go_of_obs :
  forall acrs c s g t x,
    c05_go_site_rewritten s = true -> x = c05_go_acronyms acrs (c05_erase Go c (c05_site_generics s g) t) ->
    good_C05_site_go acrs c s g t (Some x) = true.
Proof. exact Proofs.C05_GoAcr.C05_good_site_go_of_obs. Qed.
Print Assumptions C05_good_site_go_of_obs.

(* the hypotheses are satisfiable with real rewrites: below `*[]`, in a map value, of a generic parameter, of a mapped name;
   the acronym ID is given in upper case (its PascalCase form Id is what go.rs:582 searches) *)
Theorem C05_site_go_struct_acronyms_nonvacuous :
  let cfg := {| go_package := lit "p"; go_type_mappings := [(lit "Mapped", lit "ApiUrl")]; go_uppercase_acronyms := [lit "ID"; lit "url"];
                go_no_version_header := true; go_no_pointer_slice := false; go_version := [] |} in
  let fld n t := {| fid := {| original := lit n; renamed := lit n; via_serde_rename := false |}; fty := t; fcomments := [];
                    has_default := false; fdecs := [] |} in
  let rs := {| sid := {| original := lit "S"; renamed := lit "S"; via_serde_rename := false |}; sgenerics := [lit "TId"];
               sfields := [fld "a"%string (ROption (RVec (RSimple (lit "UserId")))); fld "b"%string (RHashMap (RPrim PString) (RSimple (lit "Url")));
                           fld "c"%string (RSimple (lit "TId")); fld "d"%string (RSimple (lit "Mapped"))];
               scomments := []; sdecs := []; sredacted := false |} in
  forallb (forallb Proofs.GoAcronyms.ga_alnum) (go_uppercase_acronyms cfg) = true /\
  forallb is_ascii (renamed (sid rs)) = true /\
  forallb (fun f => dom_C05 (fty f) && match known_C05 Go (Proofs.C05_Back.c05_go_cfg cfg) (sgenerics rs) (fty f) with None => true | _ => false end &&
                    match type_override f Go with None => true | _ => false end &&
                    Proofs.GoAcronyms.ga_texp_asciib cfg (fty f) && forallb is_ascii (original (fid f))) (sfields rs) = true /\
  map (fun f => c05_go_acronyms (go_uppercase_acronyms cfg) (c05_erase Go (Proofs.C05_Back.c05_go_cfg cfg) (sgenerics rs) (fty f))) (sfields rs) =
  [XOpt (XSeq (XName (lit "UserID") [])); XMap (XName (lit "string") []) (XName (lit "URL") []); XName (lit "TID") []; XRaw (lit "ApiURL")].
Proof. exact Proofs.C05_GoAcr.C05_site_go_struct_acr_nonvacuous. Qed.
Print Assumptions C05_site_go_struct_acronyms_nonvacuous.

(* =============================================================================================
   FOLDER (multi-file) MODE, stateful back ends.  Walking the (item, declaration) pairs of a crate's folder-mode file
   generated from ANY state (Proofs.C12Multi*.<l>_multi_decls; Props/C01.v C01_multi_decls_items_<l>): the struct,
   alias and const use sites carry the translation c05_erase of the IR type under the generics of the enclosing item -
   the conclusions of C05_site_<l>_struct / _alias / _const under their hypotheses, none about the state.  (Kotlin and
   Scala: the single-file site theorems speak about kt_struct_decl / sc_decl_of .., which folder mode calls unchanged.) *)
Theorem C05_multi_site_typescript :
  forall uc cfg st pd ds st',
  Proofs.C12MultiTS.ts_multi_decls uc cfg st pd = Ok (ds, st') ->
  exists items, Model.Topsort.topsort (items_of pd) = Ok items /\
    Forall2 (fun it d =>
      (forall s, it = ItStruct s ->
         Forall (Proofs.C05_Sites.c05_field_ok TypeScript (Proofs.C05.c05_ts_cfg cfg) (sgenerics s)) (sfields s) ->
         exists docs name ms, d = TSInterface docs name (sgenerics s) ms /\
           map tm_type ms = map (fun f => c05_erase TypeScript (Proofs.C05.c05_ts_cfg cfg) (sgenerics s) (fty f)) (sfields s)) /\
      (forall a, it = ItAlias a ->
         dom_C05 (atype a) = true -> known_C05 TypeScript (Proofs.C05.c05_ts_cfg cfg) (agenerics a) (atype a) = None ->
         exists docs name u n, d = TSAlias docs name (agenerics a) (c05_erase TypeScript (Proofs.C05.c05_ts_cfg cfg) (agenerics a) (atype a)) u n) /\
      (forall k, it = ItConst k ->
         dom_C05 (ctype k) = true -> known_C05 TypeScript (Proofs.C05.c05_ts_cfg cfg) [] (ctype k) = None ->
         exists name v, d = TSConst name (c05_erase TypeScript (Proofs.C05.c05_ts_cfg cfg) [] (ctype k)) v)) items ds.
Proof. exact Proofs.MultiSameSites.c05_multi_sites_ts. Qed.
Print Assumptions C05_multi_site_typescript.

Theorem C05_multi_site_swift :
  forall uc cfg st pd ds st',
  Proofs.C12MultiSwift.sw_multi_decls uc cfg st pd = Ok (ds, st') ->
  exists items, Model.Topsort.topsort (items_of pd) = Ok items /\
    Forall2 (fun it d =>
      (forall rs, it = ItStruct rs ->
         Forall (Proofs.C05_Sites.c05_field_ok Swift (Proofs.C05_Back.c05_sw_cfg cfg) (sgenerics rs)) (sfields rs) ->
         exists sd, d = SWStruct sd /\
           map swm_type (sws_members sd) = map (fun f => c05_erase Swift (Proofs.C05_Back.c05_sw_cfg cfg) (sgenerics rs) (fty f)) (sfields rs) /\
           map swm_init_type (sws_members sd) = map (fun f => c05_erase Swift (Proofs.C05_Back.c05_sw_cfg cfg) (sgenerics rs) (fty f)) (sfields rs)) /\
      (forall a, it = ItAlias a ->
         dom_C05 (atype a) = true -> known_C05 Swift (Proofs.C05_Back.c05_sw_cfg cfg) (agenerics a) (atype a) = None ->
         exists docs name esc, d = SWAlias docs name esc (agenerics a) (c05_erase Swift (Proofs.C05_Back.c05_sw_cfg cfg) (agenerics a) (atype a)))) items ds.
Proof. exact Proofs.MultiSameSites.c05_multi_sites_sw. Qed.
Print Assumptions C05_multi_site_swift.

Theorem C05_multi_site_python :
  forall uc cfg st pd ds st',
  Proofs.C12Multi.py_multi_decls uc cfg st pd = Ok (ds, st') ->
  exists items dss, Model.Topsort.topsort (items_of pd) = Ok items /\ ds = List.concat dss /\
    Forall2 (fun it dl =>
      (forall s, it = ItStruct s ->
         Forall (Proofs.C05_Sites.c05_field_ok Python (Proofs.C05_Back.c05_py_cfg cfg) (sgenerics s)) (sfields s) ->
         exists docs name pbn ms, dl = [PYClass docs name (sgenerics s) pbn ms] /\
           map pym_type ms = map (Proofs.C05_Sites.py_field_type cfg (sgenerics s)) (sfields s)) /\
      (forall a, it = ItAlias a ->
         dom_C05 (atype a) = true -> known_C05 Python (Proofs.C05_Back.c05_py_cfg cfg) (agenerics a) (atype a) = None ->
         exists docs name, dl = [PYAlias docs name (agenerics a) (c05_erase Python (Proofs.C05_Back.c05_py_cfg cfg) (agenerics a) (atype a))]) /\
      (forall k, it = ItConst k ->
         dom_C05 (ctype k) = true -> known_C05 Python (Proofs.C05_Back.c05_py_cfg cfg) [] (ctype k) = None ->
         exists name v, dl = [PYConst name (c05_erase Python (Proofs.C05_Back.c05_py_cfg cfg) [] (ctype k)) v])) items dss.
Proof. exact Proofs.MultiSameSites.c05_multi_sites_py. Qed.
Print Assumptions C05_multi_site_python.

Theorem C05_multi_site_go :
  forall uc cfg st pd ds st',
  Proofs.C12MultiGo.go_multi_decls uc cfg st pd = Ok (ds, st') ->
  exists items dss, Model.Topsort.topsort (items_of pd) = Ok items /\ ds = List.concat dss /\
    Forall2 (fun it dl =>
      (forall rs, it = ItStruct rs -> go_uppercase_acronyms cfg = [] ->
         Forall (Proofs.C05_Sites.c05_field_ok Go (Proofs.C05_Back.c05_go_cfg cfg) (sgenerics rs)) (sfields rs) ->
         exists docs name ms, dl = [GOStruct docs name (sgenerics rs) ms] /\
           map (fun mm => go_obs_ty (gm_type mm)) ms = map (fun f => c05_erase Go (Proofs.C05_Back.c05_go_cfg cfg) (sgenerics rs) (fty f)) (sfields rs)) /\
      (forall a, it = ItAlias a ->
         dom_C05 (atype a) = true -> known_C05 Go (Proofs.C05_Back.c05_go_cfg cfg) [] (atype a) = None ->
         exists docs name ty, dl = [GOAlias docs name ty] /\
           go_obs_ty ty = c05_erase Go (Proofs.C05_Back.c05_go_cfg cfg) (agenerics a) (atype a)) /\
      (forall k, it = ItConst k ->
         dom_C05 (ctype k) = true -> known_C05 Go (Proofs.C05_Back.c05_go_cfg cfg) [] (ctype k) = None ->
         exists name ty v, dl = [GOConst name ty v] /\ go_obs_ty ty = c05_erase Go (Proofs.C05_Back.c05_go_cfg cfg) [] (ctype k))) items dss.
Proof. exact Proofs.MultiSameSites.c05_multi_sites_go. Qed.
Print Assumptions C05_multi_site_go.
