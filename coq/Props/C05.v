(* C05 property theorems: statements only; proofs live in Proofs/C05.v and Proofs/C05_Back.v. *)
From Coq Require Import String List.
From TS Require Import Model.Str Model.Outcome Model.Syntax Model.Types Model.Lang.Common Model.Lang.Decl Model.Lang.TypeScript Model.Lang.Kotlin Model.Lang.Scala Model.Lang.Swift Model.Lang.Go Model.Lang.Python Spec.C05Spec.
From TS Require Proofs.C05 Proofs.C05_Back.
Import ListNotations.

(* ---- syn type -> IR ---- *)
(* Every syn type built from supported pieces (any depth, any mix of Vec / Option / HashMap / arrays / slices /
   references / Box, Arc, Rc, Cow, Cell, RefCell, Mutex, RwLock, Weak / qualified paths / user types with generic
   arguments / primitives) is translated to exactly its structural denotation: containers to the IR nodes of the
   translated children, wrappers and references to nothing, arguments in order, qualification dropped. *)
Theorem C05_parse :
  forall (t : ty), c05_src_ok t = true -> parse_ty t = Ok (c05_denote t).
Proof. exact Proofs.C05.C05_parse. Qed.
Print Assumptions C05_parse.

Theorem C05_wrappers_vanish :
  forall (q : list str) (id : str) (t : ty) (rest : list (option ty)),
    mem_str id c05_wrappers = true -> c05_denote (TPath q id (Some t :: rest)) = c05_denote t.
Proof. exact Proofs.C05.C05_denote_wrapper. Qed.
Print Assumptions C05_wrappers_vanish.

(* ---- the skeleton: mappings, generic parameters, argument order (all languages at once) ---- *)
(* a mapped identifier never survives as a user type or generic parameter, at any depth *)
Theorem C05_mapped_never_survives :
  forall (inst : bool) (m : c05_tmap) (g : list str) (t : rtype) (id n : str),
    c05_lookup m id = Some n -> ~ In id (c05_tree_ids (c05_core inst m g t)).
Proof. exact Proofs.C05.C05_mapped_never_survives. Qed.
Print Assumptions C05_mapped_never_survives.

(* the configured name stands where the mapped type stood (a mapped generic type is replaced as a whole) *)
Theorem C05_mapped_name_stands :
  forall (L : lang) (c : c05_cfg) (g : list str) (id n : str) (ps : list rtype),
    c05_lookup (c05_m c) id = Some n ->
    c05_erase L c g (RSimple id) = XRaw n /\ c05_erase L c g (RGeneric id ps) = XRaw n.
Proof. exact Proofs.C05.C05_mapped_name_stands. Qed.
Print Assumptions C05_mapped_name_stands.

(* a generic parameter is never prefixed, in any language, under any prefix *)
Theorem C05_generic_parameter_not_prefixed :
  forall (L : lang) (c : c05_cfg) (g : list str) (id : str),
    mem_str id g = true -> c05_lookup (c05_m c) id = None -> c05_erase L c g (RSimple id) = XName id [].
Proof. exact Proofs.C05.C05_param_not_prefixed. Qed.
Print Assumptions C05_generic_parameter_not_prefixed.

(* generic arguments are kept, each translated, in order *)
Theorem C05_generic_arguments_in_order :
  forall (L : lang) (c : c05_cfg) (g : list str) (id : str) (ps : list rtype),
    c05_lookup (c05_m c) id = None ->
    exists name, c05_erase L c g (RGeneric id ps) = XName name (map (c05_erase L c g) ps).
Proof. exact Proofs.C05.C05_generic_args_in_order. Qed.
Print Assumptions C05_generic_arguments_in_order.

(* ---- the six translators compute the spec's tree: every IR type over the property's leaves, any depth,
        any generics list, any type_mappings table / prefix, outside the recorded classes ---- *)
Theorem C05_fmt_typescript :
  forall (cfg : ts_config) (g : list str) (t : rtype),
    dom_C05 t = true -> known_C05 TypeScript (Proofs.C05.c05_ts_cfg cfg) g t = None ->
    forall st, exists st', ts_texp cfg g t st = Ok (c05_erase TypeScript (Proofs.C05.c05_ts_cfg cfg) g t, st').
Proof. exact Proofs.C05.C05_fmt_ts. Qed.
Print Assumptions C05_fmt_typescript.

Theorem C05_fmt_kotlin :
  forall (cfg : kt_config) (g : list str) (t : rtype),
    dom_C05 t = true -> known_C05 Kotlin (Proofs.C05_Back.c05_kt_cfg cfg) g t = None ->
    kt_texp cfg g t = Ok (c05_erase Kotlin (Proofs.C05_Back.c05_kt_cfg cfg) g t).
Proof. exact Proofs.C05_Back.C05_fmt_kt. Qed.
Print Assumptions C05_fmt_kotlin.

Theorem C05_fmt_scala :
  forall (cfg : sc_config) (g : list str) (t : rtype),
    dom_C05 t = true -> known_C05 Scala (Proofs.C05_Back.c05_sc_cfg cfg) g t = None ->
    sc_texp cfg g t = Ok (c05_erase Scala (Proofs.C05_Back.c05_sc_cfg cfg) g t).
Proof. exact Proofs.C05_Back.C05_fmt_sc. Qed.
Print Assumptions C05_fmt_scala.

Theorem C05_fmt_swift :
  forall (cfg : sw_config) (g : list str) (t : rtype),
    dom_C05 t = true -> known_C05 Swift (Proofs.C05_Back.c05_sw_cfg cfg) g t = None ->
    forall st, exists st', sw_texp cfg g t st = Ok (c05_erase Swift (Proofs.C05_Back.c05_sw_cfg cfg) g t, st').
Proof. exact Proofs.C05_Back.C05_fmt_sw. Qed.
Print Assumptions C05_fmt_swift.

(* Go decides its own tree (with [n]T); its observation - lengths dropped - is the spec's tree *)
Theorem C05_fmt_go :
  forall (cfg : go_config) (g : list str) (t : rtype),
    dom_C05 t = true -> known_C05 Go (Proofs.C05_Back.c05_go_cfg cfg) g t = None ->
    forall st, exists x st', go_texp cfg g t st = Ok (x, st') /\
                             go_obs_ty x = c05_erase Go (Proofs.C05_Back.c05_go_cfg cfg) g t.
Proof. exact Proofs.C05_Back.C05_fmt_go. Qed.
Print Assumptions C05_fmt_go.

Theorem C05_go_array_length_kept :
  forall (cfg : go_config) (g : list str) (t : rtype) (n : N) (st : go_state) (x : go_ty) (st' : go_state),
    tmap_get (go_type_mappings cfg) (rtype_display (RArray t n)) = None ->
    go_texp cfg g (RArray t n) st = Ok (x, st') -> exists e, x = GArray n e.
Proof. exact Proofs.C05_Back.C05_go_array_length. Qed.
Print Assumptions C05_go_array_length_kept.

Theorem C05_fmt_python :
  forall (cfg : py_config) (g : list str) (t : rtype),
    dom_C05 t = true -> known_C05 Python (Proofs.C05_Back.c05_py_cfg cfg) g t = None ->
    forall st, exists st', py_texp cfg g t st = Ok (c05_erase Python (Proofs.C05_Back.c05_py_cfg cfg) g t, st').
Proof. exact Proofs.C05_Back.C05_fmt_py. Qed.
Print Assumptions C05_fmt_python.

(* ---- the primitive table ---- *)
(* every primitive of the quantifier, in every language: same JSON category, and the target type holds
   every value of the Rust type - outside the three recorded classes *)
Theorem C05_prims :
  forall (swcfg : sw_config) (L : lang) (p : prim) (name : str),
    c05_leaf_ok p = true -> known_C05_prim L p = None ->
    Proofs.C05_Back.c05_model_prim_name swcfg L p = Some name -> good_C05_prim L p name = true.
Proof. exact Proofs.C05_Back.C05_prims. Qed.
Print Assumptions C05_prims.

(* ---- refutation witnesses of the recorded classes ---- *)
Theorem C05_scala_unsigned_refuted :
  forall p, In p [PU8; PU16; PU32; PU53] ->
    known_C05_prim Scala p = Some C05K_scala_unsigned /\ good_C05_prim Scala p (c05_prim_target Scala p) = false.
Proof. exact Proofs.C05_Back.C05_scala_unsigned_refuted. Qed.
Print Assumptions C05_scala_unsigned_refuted.

Theorem C05_go_char_refuted :
  known_C05_prim Go PChar = Some C05K_go_char /\ good_C05_prim Go PChar (c05_prim_target Go PChar) = false.
Proof. exact Proofs.C05_Back.C05_go_char_refuted. Qed.
Print Assumptions C05_go_char_refuted.

Theorem C05_swift_char_refuted :
  known_C05_prim Swift PChar = Some C05K_swift_char /\ good_C05_prim Swift PChar (c05_prim_target Swift PChar) = false.
Proof. exact Proofs.C05_Back.C05_swift_char_refuted. Qed.
Print Assumptions C05_swift_char_refuted.

Theorem C05_generic_map_key_refuted :
  let g := [lit "T"] in let t := RHashMap (RSimple (lit "T")) (RPrim PString) in
  dom_C05 t = true /\
  known_C05 TypeScript (Proofs.C05.c05_ts_cfg (Proofs.C05_Back.c05_ts_with [])) g t = Some C05K_generic_map_key /\
  good_C05 TypeScript (Proofs.C05.c05_ts_cfg (Proofs.C05_Back.c05_ts_with [])) g t
           (Proofs.C05_Back.c05_obs_st (ts_texp (Proofs.C05_Back.c05_ts_with []) g t [])) = false /\
  known_C05 Python (Proofs.C05_Back.c05_py_cfg (Proofs.C05_Back.c05_py_with [])) g t = Some C05K_generic_map_key /\
  good_C05 Python (Proofs.C05_Back.c05_py_cfg (Proofs.C05_Back.c05_py_with [])) g t
           (Proofs.C05_Back.c05_obs_st (py_texp (Proofs.C05_Back.c05_py_with []) g t py_empty_state)) = false.
Proof. exact Proofs.C05_Back.C05_generic_map_key_refuted. Qed.
Print Assumptions C05_generic_map_key_refuted.

Theorem C05_special_mapping_ignored_refuted :
  let m := [(lit "u32", lit "Foo")] in let t := RVec (RPrim PU32) in
  dom_C05 t = true /\
  known_C05 Kotlin (Proofs.C05_Back.c05_kt_cfg (Proofs.C05_Back.c05_kt_with [] m)) [] t = Some C05K_special_mapping_ignored /\
  kt_texp (Proofs.C05_Back.c05_kt_with [] m) [] t = Ok (XName (lit "List") [XName (lit "UInt") []]) /\
  good_C05 Kotlin (Proofs.C05_Back.c05_kt_cfg (Proofs.C05_Back.c05_kt_with [] m)) [] t
           (Proofs.C05_Back.c05_obs (kt_texp (Proofs.C05_Back.c05_kt_with [] m) [] t)) = false.
Proof. exact Proofs.C05_Back.C05_special_mapping_ignored_refuted. Qed.
Print Assumptions C05_special_mapping_ignored_refuted.

Theorem C05_mapping_key_display_refuted :
  let m1 := [(lit "HashMap<String, u32>", lit "Foo")] in let t1 := RHashMap (RPrim PString) (RPrim PU32) in
  let m2 := [(lit "Option<Vec>", lit "Foo")] in let t2 := ROption (RVec (RPrim PString)) in
  known_C05 TypeScript (Proofs.C05.c05_ts_cfg (Proofs.C05_Back.c05_ts_with m1)) [] t1 = Some C05K_mapping_key_display /\
  good_C05 TypeScript (Proofs.C05.c05_ts_cfg (Proofs.C05_Back.c05_ts_with m1)) [] t1
           (Proofs.C05_Back.c05_obs_st (ts_texp (Proofs.C05_Back.c05_ts_with m1) [] t1 [])) = false /\
  known_C05 TypeScript (Proofs.C05.c05_ts_cfg (Proofs.C05_Back.c05_ts_with m2)) [] t2 = Some C05K_mapping_key_display /\
  ts_texp (Proofs.C05_Back.c05_ts_with m2) [] t2 [] = Ok (XRaw (lit "Foo"), []) /\
  good_C05 TypeScript (Proofs.C05.c05_ts_cfg (Proofs.C05_Back.c05_ts_with m2)) [] t2
           (Proofs.C05_Back.c05_obs_st (ts_texp (Proofs.C05_Back.c05_ts_with m2) [] t2 [])) = false.
Proof. exact Proofs.C05_Back.C05_mapping_key_display_refuted. Qed.
Print Assumptions C05_mapping_key_display_refuted.
