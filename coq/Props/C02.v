(* C02 property theorems: statements only; proofs live in Proofs/C02*.v. *)
From Coq Require Import String.
From TS Require Import Model.Str Model.Outcome Model.Unicode Model.Syntax Model.Types Model.Parse Model.Reconcile
                       Model.Lang.Common Model.Lang.Decl Model.Lang.ConvertCase
                       Model.Lang.TypeScript Model.Lang.Kotlin Model.Lang.Swift Model.Lang.Scala Model.Lang.Go Model.Lang.Python
                       Spec.Serde Spec.C02Spec.
From TS Require Proofs.C02 Proofs.C02_TS Proofs.C02_KtSc Proofs.C02_Swift Proofs.C02_Go Proofs.C02_Py Proofs.C02_Witness Proofs.GoAcronyms.
From TS Require Import Model.MultiFile.
From TS Require Proofs.C12Multi Proofs.C12MultiTS Proofs.C12MultiSwift Proofs.C12MultiGo Proofs.MultiSameItems.
Import ListNotations.

(* Front end.  For every Unicode table agreeing with ASCII below 128, every --target-os list, every
   enum item (any number of variants, any attribute layout) that typeshare turns into an enum: if the
   attribute values are inside the quantifier's alphabets (c02_lex) and the enum is outside the
   recorded class C02-allcaps, then what serde reads off the source - per generated variant the wire
   name (rename > rename_all > identifier), the payload kind, and the tag / content strings - is
   exactly what the IR enum carries. *)
Theorem C02_front :
  forall (uc : unicode), unicode_ok uc ->
  forall (tstr : str -> option ty) (T : list str) attrs ident gens vs e,
    parse_enum uc tstr T attrs ident gens vs = Ok (ItEnum e) ->
    c02_lex T attrs vs = true ->
    known_C02_front T attrs vs = None ->
    c02_expect_src uc T attrs vs = Some (c02_expect_ir e).
Proof. exact Proofs.C02.C02_front. Qed.
Print Assumptions C02_front.

(* The source-level hypotheses (dom_C02, known_C02 = None) yield the IR-level hypotheses of the
   back-end theorems below, for the very expectation serde defines: front end and back ends compose. *)
Theorem C02_front_bridge :
  forall (uc : unicode), unicode_ok uc ->
  forall (tstr : str -> option ty) (T : list str) (l : lang) (acr : bool) attrs ident gens vs e,
    parse_enum uc tstr T attrs ident gens vs = Ok (ItEnum e) ->
    dom_C02 uc T attrs vs = true ->
    known_C02 l acr uc T attrs vs = None ->
    c02_expect_src uc T attrs vs = Some (c02_expect_ir e) /\
    dom_C02_back (c02_expect_ir e) = true /\ known_C02_back l acr (c02_expect_ir e) = None.
Proof. exact Proofs.C02.C02_front_bridge. Qed.
Print Assumptions C02_front_bridge.

(* reconcile_aliases, which runs between the parser and the back ends, does not change the expectation. *)
Theorem C02_reconcile_preserves :
  forall cn rn im e, c02_expect_ir (Proofs.C02.c02_reconciled cn rn im e) = c02_expect_ir e.
Proof. exact Proofs.C02.C02_reconcile_preserves. Qed.
Print Assumptions C02_reconcile_preserves.

(* Back ends.  For every IR enum in the domain (any configuration, any writer state), the Decl
   observation of the declarations the back end decides on passes the extracted verdict good_C02: one
   case per variant in order, each with the IR's wire name and payload kind, EVERY spelled tag /
   content key equal to the IR's keys (and present where the language's encoding needs it), case
   names pairwise different. *)
Theorem C02_back_ts :
  forall (uc : unicode) (cfg : ts_config) e st d st',
    ts_decl_of uc cfg (ItEnum e) st = Ok (d, st') ->
    dom_C02_back (c02_expect_ir e) = true ->
    good_C02 TypeScript (c02_expect_ir e) [ts_obs d] = true.
Proof. exact Proofs.C02_TS.C02_back_ts. Qed.
Print Assumptions C02_back_ts.

Theorem C02_back_scala :
  forall (cfg : sc_config) e ds,
    sc_decl_of cfg (ItEnum e) = Ok ds ->
    dom_C02_back (c02_expect_ir e) = true ->
    good_C02 Scala (c02_expect_ir e) (flat_map sc_obs ds) = true.
Proof. exact Proofs.C02_KtSc.C02_back_sc. Qed.
Print Assumptions C02_back_scala.

(* Kotlin, Swift, Python: outside the recorded case-name collision classes. *)
Theorem C02_back_kotlin :
  forall (cfg : kt_config) (acr : bool) e ds,
    kt_decl_of cfg (ItEnum e) = Ok ds ->
    dom_C02_back (c02_expect_ir e) = true ->
    known_C02_back Kotlin acr (c02_expect_ir e) = None ->
    good_C02 Kotlin (c02_expect_ir e) (map kt_obs ds) = true.
Proof. exact Proofs.C02_KtSc.C02_back_kt. Qed.
Print Assumptions C02_back_kotlin.

Theorem C02_back_swift :
  forall (uc : unicode) (cfg : sw_config) (acr : bool) e st d st',
    sw_decl_of uc cfg (ItEnum e) st = Ok (d, st') ->
    dom_C02_back (c02_expect_ir e) = true ->
    known_C02_back Swift acr (c02_expect_ir e) = None ->
    good_C02 Swift (c02_expect_ir e) (sw_obs d) = true.
Proof. exact Proofs.C02_Swift.C02_back_sw. Qed.
Print Assumptions C02_back_swift.

Theorem C02_back_python :
  forall (uc : unicode), unicode_ok uc ->
  forall (cfg : py_config) (acr : bool) e st ds st',
    py_decl_of uc cfg (ItEnum e) st = Ok (ds, st') ->
    dom_C02_back (c02_expect_ir e) = true ->
    known_C02_back Python acr (c02_expect_ir e) = None ->
    good_C02 Python (c02_expect_ir e) (flat_map py_obs ds) = true.
Proof. exact Proofs.C02_Py.C02_back_py. Qed.
Print Assumptions C02_back_python.

(* Go: wire names, payload kinds and all five key spellings for EVERY configuration; pairwise
   different constant names when no uppercase_acronyms are configured.
   PARTIAL: for a non-empty acronym list the difference of the constants' names is not proved (the
   class C02-go-acronym-case-collision over-approximates the inputs that fail). *)
Theorem C02_back_go_partial :
  forall (uc : unicode) (cfg : go_config) custom e s ds s',
    go_decl_of uc cfg custom (ItEnum e) s = Ok (ds, s') ->
    dom_C02_back (c02_expect_ir e) = true ->
    c02_good_core Go (c02_expect_ir e) (flat_map go_obs ds) = true /\
    (go_uppercase_acronyms cfg = [] -> c02_good_cases (flat_map go_obs ds) = true).
Proof. exact Proofs.C02_Go.C02_go_core. Qed.
Print Assumptions C02_back_go_partial.

(* Go's acronym rewriting (go.rs:579, textual search/replace with byte/char index arithmetic) on ASCII input:
   it never panics, keeps the length and changes nothing but the ASCII case of letters (the closed form is
   Proofs.GoAcronyms.ga_convert).  Hence two identifiers rewritten to one name are equal up to ASCII case:
   the class C02-go-acronym-case-collision (decided by the Spec's c02_upper_eq, never by the model's
   output) contains every collision. *)
Theorem C02_go_rewrite_case_only :
  forall (uc : unicode), unicode_ok uc ->
  forall (acronyms : list str) (name : str),
    forallb (forallb is_ascii) acronyms = true -> forallb is_ascii name = true ->
    exists r, go_convert_acronyms_to_uppercase uc acronyms name = Ok r /\
              List.length r = List.length name /\ str_upper_ascii r = str_upper_ascii name.
Proof. exact Proofs.GoAcronyms.ga_convert_case_only. Qed.
Print Assumptions C02_go_rewrite_case_only.

(* Go, FULL with respect to configurations: for EVERY list of (ASCII) uppercase_acronyms the whole verdict
   - wire names, payload kinds, keys AND pairwise different constant names - holds outside the class
   (acr = "the list is not empty").  The class remains an over-approximation of the collisions (UserId /
   UserID collide under ["ID"] but not under ["URL"]); non-ASCII acronyms are outside this theorem
   (byte/char offset drift of go.rs:579, C07). *)
Theorem C02_back_go :
  forall (uc : unicode), unicode_ok uc ->
  forall (cfg : go_config), forallb (forallb is_ascii) (go_uppercase_acronyms cfg) = true ->
  forall custom e s ds s',
    go_decl_of uc cfg custom (ItEnum e) s = Ok (ds, s') ->
    dom_C02_back (c02_expect_ir e) = true ->
    known_C02_back Go (match go_uppercase_acronyms cfg with [] => false | _ => true end) (c02_expect_ir e) = None ->
    good_C02 Go (c02_expect_ir e) (flat_map go_obs ds) = true.
Proof. exact Proofs.C02_Go.C02_back_go_b. Qed.
Print Assumptions C02_back_go.

(* The EXACT Go class.  Spec.C02Spec.c02_go_rewrite states the acronym rewriting on its own (PascalCase form of
   each acronym, leftmost non-overlapping occurrences, accepted when followed by a non-lowercase character or the
   end, covered letters upper-cased); it IS the model's go.rs:579 on ASCII input: *)
Theorem C02_go_rewrite_is_model :
  forall (uc : unicode), unicode_ok uc ->
  forall (acronyms : list str) (name : str),
    forallb (forallb is_ascii) acronyms = true -> forallb is_ascii name = true ->
    go_convert_acronyms_to_uppercase uc acronyms name = Ok (c02_go_rewrite acronyms name).
Proof. exact Proofs.C02_Go.C02_go_rewrite_is_model. Qed.
Print Assumptions C02_go_rewrite_is_model.

(* ... the class it decides (two variant identifiers rewritten to ONE string) lies inside the over-approximation ... *)
Theorem C02_go_exact_in_class :
  forall acronyms x c, known_C02_back_go acronyms x = Some c -> known_C02_back Go true x = Some c.
Proof. exact Proofs.C02_Go.C02_go_exact_in_class. Qed.
Print Assumptions C02_go_exact_in_class.

(* ... and is EXACT: for every configuration with ASCII acronyms and every IR enum of the domain, the verdict holds
   if and only if the enum is outside the class (the check uses this class: an enum inside it must fail, an enum
   outside it must pass, whatever the acronym list) *)
Theorem C02_back_go_exact :
  forall (uc : unicode), unicode_ok uc ->
  forall (cfg : go_config), forallb (forallb is_ascii) (go_uppercase_acronyms cfg) = true ->
  forall custom e s ds s',
    go_decl_of uc cfg custom (ItEnum e) s = Ok (ds, s') ->
    dom_C02_back (c02_expect_ir e) = true ->
    (good_C02 Go (c02_expect_ir e) (flat_map go_obs ds) = true <->
     known_C02_back_go (go_uppercase_acronyms cfg) (c02_expect_ir e) = None).
Proof. exact Proofs.C02_Go.C02_back_go_exact_b. Qed.
Print Assumptions C02_back_go_exact.

(* The member-name function of Python's <Enum>Types class (convert_case's snake_case, upper-cased),
   which decides the class C02-python-types-member-collision, is on ASCII strings the spec's own
   c02_py_key: the class is decided by the Spec, not by the model's output. *)
Theorem C02_py_key_is_convert_case :
  forall (uc : unicode), unicode_ok uc ->
  forall s, forallb is_ascii s = true -> str_to_uppercase uc (cc_to_snake uc s) = c02_py_key s.
Proof. exact Proofs.C02_Py.c02_py_key_model. Qed.
Print Assumptions C02_py_key_is_convert_case.

(* The unrestricted statement is false of the faithful model: one witness per finding class
   (inside dom_C02, classified, enum generated, verdict false). *)
Theorem C02_allcaps_refuted :
  forall l, In l all_langs ->
    Proofs.C02_Witness.c02_refuted l [] Proofs.C02_Witness.c02_w_allcaps_attrs [Proofs.C02_Witness.c02_w_unit [] "URL"] "C02-allcaps".
Proof. exact Proofs.C02_Witness.C02_allcaps_refuted. Qed.
Theorem C02_swift_case_collision_refuted :
  Proofs.C02_Witness.c02_refuted Swift [] []
    [Proofs.C02_Witness.c02_w_unit [] "URL"; Proofs.C02_Witness.c02_w_unit [] "Url"] "C02-swift-case-collision".
Proof. exact Proofs.C02_Witness.C02_swift_case_collision_refuted. Qed.
Theorem C02_kotlin_case_collision_refuted :
  Proofs.C02_Witness.c02_refuted Kotlin [] [Proofs.C02_Witness.c02_w_keys]
    [Proofs.C02_Witness.c02_w_unit [] "URL"; Proofs.C02_Witness.c02_w_tuple [] "Url" "u8"] "C02-kotlin-case-collision".
Proof. exact Proofs.C02_Witness.C02_kotlin_case_collision_refuted. Qed.
Theorem C02_python_unit_member_collision_refuted :
  Proofs.C02_Witness.c02_refuted Python [] []
    [Proofs.C02_Witness.c02_w_unit [] "FooBar"; Proofs.C02_Witness.c02_w_unit [] "Foobar"] "C02-python-unit-member-collision".
Proof. exact Proofs.C02_Witness.C02_python_unit_member_collision_refuted. Qed.
Theorem C02_python_types_member_collision_refuted :
  Proofs.C02_Witness.c02_refuted Python [] [Proofs.C02_Witness.c02_w_keys]
    [Proofs.C02_Witness.c02_w_struct [Proofs.C02_Witness.c02_w_serde [Proofs.C02_Witness.c02_w_nv "rename" "fooBar"]] "A" "x" "u8";
     Proofs.C02_Witness.c02_w_unit [Proofs.C02_Witness.c02_w_serde [Proofs.C02_Witness.c02_w_nv "rename" "foo_bar"]] "B"]
    "C02-python-types-member-collision".
Proof. exact Proofs.C02_Witness.C02_python_types_member_collision_refuted. Qed.
Theorem C02_go_acronym_case_collision_refuted :
  Proofs.C02_Witness.c02_refuted Go [lit "ID"] [Proofs.C02_Witness.c02_w_keys]
    [Proofs.C02_Witness.c02_w_tuple [] "UserId" "u8"; Proofs.C02_Witness.c02_w_unit [] "UserID"] "C02-go-acronym-case-collision".
Proof. exact Proofs.C02_Witness.C02_go_acronym_case_collision_refuted. Qed.
Print Assumptions C02_allcaps_refuted.

(* =============================================================================================
   FOLDER (multi-file) MODE.  The declarations of a crate's folder-mode file - Proofs.C12Multi*.<l>_multi_decls from
   ANY state the earlier crates of the run left (Props/C12.v C12_multi_<l>_layout ties them to the text; for Kotlin
   and Scala kt_decls / sc_decls themselves) - are, item by item of the sorted crate, what the item writer returns
   from every state (Props/C01.v C01_multi_decls_items_<l>, C01_multi_decls_state_independent_<l>).  Hence for every
   enum of the crate the conclusion of C02_back_<l>, under its hypotheses and none about the state. *)
Theorem C02_multi_back_ts :
  forall uc cfg st pd ds st',
  Proofs.C12MultiTS.ts_multi_decls uc cfg st pd = Ok (ds, st') ->
  exists items, Model.Topsort.topsort (items_of pd) = Ok items /\
    Forall2 (fun it d => forall e, it = ItEnum e -> dom_C02_back (c02_expect_ir e) = true ->
                                   good_C02 TypeScript (c02_expect_ir e) [ts_obs d] = true) items ds.
Proof. exact Proofs.MultiSameItems.c02_multi_back_ts. Qed.
Print Assumptions C02_multi_back_ts.

Theorem C02_multi_back_swift :
  forall uc cfg acr st pd ds st',
  Proofs.C12MultiSwift.sw_multi_decls uc cfg st pd = Ok (ds, st') ->
  exists items, Model.Topsort.topsort (items_of pd) = Ok items /\
    Forall2 (fun it d => forall e, it = ItEnum e -> dom_C02_back (c02_expect_ir e) = true ->
                                   known_C02_back Swift acr (c02_expect_ir e) = None ->
                                   good_C02 Swift (c02_expect_ir e) (sw_obs d) = true) items ds.
Proof. exact Proofs.MultiSameItems.c02_multi_back_sw. Qed.
Print Assumptions C02_multi_back_swift.

Theorem C02_multi_back_python :
  forall uc (Huc : unicode_ok uc) cfg acr st pd ds st',
  Proofs.C12Multi.py_multi_decls uc cfg st pd = Ok (ds, st') ->
  exists items dss, Model.Topsort.topsort (items_of pd) = Ok items /\ ds = List.concat dss /\
    Forall2 (fun it d => forall e, it = ItEnum e -> dom_C02_back (c02_expect_ir e) = true ->
                                   known_C02_back Python acr (c02_expect_ir e) = None ->
                                   good_C02 Python (c02_expect_ir e) (flat_map py_obs d) = true) items dss.
Proof. exact Proofs.MultiSameItems.c02_multi_back_py. Qed.
Print Assumptions C02_multi_back_python.

Theorem C02_multi_back_go :
  forall uc (Huc : unicode_ok uc) cfg st pd ds st',
  forallb (forallb is_ascii) (go_uppercase_acronyms cfg) = true ->
  Proofs.C12MultiGo.go_multi_decls uc cfg st pd = Ok (ds, st') ->
  exists items dss, Model.Topsort.topsort (items_of pd) = Ok items /\ ds = List.concat dss /\
    Forall2 (fun it d => forall e, it = ItEnum e -> dom_C02_back (c02_expect_ir e) = true ->
               known_C02_back Go (match go_uppercase_acronyms cfg with [] => false | _ => true end) (c02_expect_ir e) = None ->
               good_C02 Go (c02_expect_ir e) (flat_map go_obs d) = true) items dss.
Proof. exact Proofs.MultiSameItems.c02_multi_back_go. Qed.
Print Assumptions C02_multi_back_go.

Theorem C02_multi_back_go_partial :
  forall uc cfg st pd ds st',
  Proofs.C12MultiGo.go_multi_decls uc cfg st pd = Ok (ds, st') ->
  exists items dss, Model.Topsort.topsort (items_of pd) = Ok items /\ ds = List.concat dss /\
    Forall2 (fun it d => forall e, it = ItEnum e -> dom_C02_back (c02_expect_ir e) = true ->
               c02_good_core Go (c02_expect_ir e) (flat_map go_obs d) = true /\
               (go_uppercase_acronyms cfg = [] -> c02_good_cases (flat_map go_obs d) = true)) items dss.
Proof. exact Proofs.MultiSameItems.c02_multi_back_go_core. Qed.
Print Assumptions C02_multi_back_go_partial.

Theorem C02_multi_back_kotlin :
  forall uc cfg acr c im pd text,
  kt_generate_multi uc cfg c im pd = Ok text ->
  exists ds items dss, kt_decls uc cfg pd = Ok ds /\ Model.Topsort.topsort (items_of pd) = Ok items /\ ds = List.concat dss /\
    Forall2 (fun it d => forall e, it = ItEnum e -> dom_C02_back (c02_expect_ir e) = true ->
                                   known_C02_back Kotlin acr (c02_expect_ir e) = None ->
                                   good_C02 Kotlin (c02_expect_ir e) (map kt_obs d) = true) items dss.
Proof. exact Proofs.MultiSameItems.c02_multi_back_kt. Qed.
Print Assumptions C02_multi_back_kotlin.

Theorem C02_multi_back_scala :
  forall uc cfg pd text,
  sc_generate uc cfg pd = Ok text ->
  exists objs pkgs sts ens, sc_decls uc cfg pd = Ok (objs, pkgs) /\ pkgs = sts ++ List.concat ens /\
    Forall2 (fun e d => dom_C02_back (c02_expect_ir e) = true ->
                        good_C02 Scala (c02_expect_ir e) (flat_map sc_obs d) = true) (p_enums pd) ens.
Proof. exact Proofs.MultiSameItems.c02_multi_back_sc. Qed.
Print Assumptions C02_multi_back_scala.
