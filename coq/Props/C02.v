(* C02 property theorems: statements only; proofs live in Proofs/C02*.v. *)
From Coq Require Import String.
From TS Require Import Model.Str Model.Outcome Model.Unicode Model.Syntax Model.Types Model.Parse
                       Model.Lang.Common Model.Lang.Decl Model.Lang.TypeScript
                       Spec.Serde Spec.C02Spec.
From TS Require Proofs.C02 Proofs.C02_TS.

(* Front end.  For every Unicode table agreeing with ASCII below 128, every --target-os list, every
   enum item (any number of variants, any attribute layout) that typeshare turns into an enum: if the
   attribute values are inside the quantifier's alphabets (c02_lex) and the enum is outside the
   recorded class C02-allcaps, then what serde reads off the source - per generated variant the wire
   name (rename > rename_all > identifier), the payload kind, and the tag / content strings - is
   exactly what the IR enum carries. *)
Theorem C02_front :
  forall (uc : unicode), unicode_ok uc ->
  forall (tstr : str -> option ty) (T : list str) attrs ident gens vs e,
    parse_enum uc tstr T attrs ident gens vs = Ok (ItEnum e) ->
    c02_lex T attrs vs = true ->
    known_C02_front T attrs vs = None ->
    c02_expect_src uc T attrs vs = Some (c02_expect_ir e).
Proof. exact Proofs.C02.C02_front. Qed.
Print Assumptions C02_front.

(* TypeScript.  For every IR enum in the domain (any configuration, any writer state), the
   declaration the back end decides on passes the extracted verdict: one case per variant in order,
   each with the IR's wire name and payload kind, every spelled `tag:` / `content:` equal to the IR's
   keys, case names pairwise different. *)
Theorem C02_back_ts :
  forall (uc : unicode) (cfg : ts_config) e st d st',
    ts_decl_of uc cfg (ItEnum e) st = Ok (d, st') ->
    dom_C02_back (c02_expect_ir e) = true ->
    good_C02 TypeScript (c02_expect_ir e) [ts_obs d] = true.
Proof. exact Proofs.C02_TS.C02_back_ts. Qed.
Print Assumptions C02_back_ts.
