(* C01 property theorems: statements only; proofs live in Proofs/C01*.v. *)
From Coq Require Import List.
From TS Require Import Model.Str Model.Outcome Model.Unicode Model.Syntax Model.Attrs Model.Types Model.Parse
                       Model.Lang.Common Model.Lang.Decl Model.Lang.TypeScript Model.Lang.Kotlin Model.Lang.Swift
                       Model.Lang.Scala Model.Lang.Go Model.Lang.Python.
From TS Require Import Spec.SerdeCase Spec.C16Spec Spec.Serde Spec.C03Spec Spec.C01Spec.
From TS Require Import Model.Reconcile.
From Coq Require Import Permutation.
From TS Require Proofs.C01 Proofs.C01Front Proofs.C01Layout Proofs.C01File.
From TS Require Import Model.MultiFile.
From TS Require Model.Writer.
From TS Require Proofs.C12Multi Proofs.C12MultiTS Proofs.C12MultiSwift Proofs.C12MultiGo Proofs.C12MultiStateless
                Proofs.MultiSameDecls Proofs.MultiSameProps Proofs.MultiSameWitness Proofs.C12MultiWitness.
Import ListNotations.
Local Open Scope N_scope.

(* [Proofs.C01.groups_fit l expected gs]: the observed member lists gs correspond one to one, in order,
   to the expected key lists, every member binds its key (Scala: declares the key with '-' replaced
   by '_' as its name) and a member without explicit binding is named by its key.  On the property's
   domain (keys over [A-Za-z0-9_-], non-empty; Scala: no '-') this is the verdict the check evaluates. *)
Theorem C01_fit_is_good :
  forall (l : lang) (expected : list (list str)) (gs : list (list member)),
    Proofs.C01.groups_fit l expected gs -> dom_C01 l expected = true -> good_groups_C01 l expected gs = true.
Proof. exact Proofs.C01.groups_good. Qed.
Print Assumptions C01_fit_is_good.

(* Back ends, decision layer: for EVERY IR item (struct, enum with struct variants, alias, const), every
   configuration (prefix, package, type mappings, acronyms ...) and every printer state, whatever
   declarations the back end decides on bind, member by member and in order, the keys the IR carries -
   for structs and for the helper struct (TypeScript: inline object) of every struct variant. *)
Theorem C01_back_typescript :
  forall (uc : unicode) (cfg : ts_config) (it : ritem) st d st',
    ts_decl_of uc cfg it st = Ok (d, st') ->
    Proofs.C01.groups_fit TypeScript (ir_groups it) (obs_groups [ts_obs d]).
Proof. exact Proofs.C01.ts_decl_fits. Qed.
Print Assumptions C01_back_typescript.

Theorem C01_back_kotlin :
  forall (cfg : kt_config) (it : ritem) ds,
    kt_decl_of cfg it = Ok ds ->
    Proofs.C01.groups_fit Kotlin (ir_groups it) (obs_groups (map kt_obs ds)).
Proof. exact Proofs.C01.kt_decl_fits. Qed.
Print Assumptions C01_back_kotlin.

Theorem C01_back_swift :
  forall (uc : unicode) (cfg : sw_config) (it : ritem) st d st',
    sw_decl_of uc cfg it st = Ok (d, st') ->
    Proofs.C01.groups_fit Swift (ir_groups it) (obs_groups (sw_obs d)).
Proof. exact Proofs.C01.sw_decl_fits. Qed.
Print Assumptions C01_back_swift.

Theorem C01_back_scala :
  forall (cfg : sc_config) (it : ritem) ds,
    sc_decl_of cfg it = Ok ds ->
    Proofs.C01.groups_fit Scala (ir_groups it) (obs_groups (flat_map sc_obs ds)).
Proof. exact Proofs.C01.sc_decl_fits. Qed.
Print Assumptions C01_back_scala.

Theorem C01_back_go :
  forall (uc : unicode) (cfg : go_config) (custom_structs : list str) (it : ritem) st ds st',
    go_decl_of uc cfg custom_structs it st = Ok (ds, st') ->
    Proofs.C01.groups_fit Go (ir_groups it) (obs_groups (flat_map go_obs ds)).
Proof. exact Proofs.C01.go_decl_fits. Qed.
Print Assumptions C01_back_go.

Theorem C01_back_python :
  forall (uc : unicode) (cfg : py_config) (it : ritem) st ds st',
    py_decl_of uc cfg it st = Ok (ds, st') ->
    Proofs.C01.groups_fit Python (ir_groups it) (obs_groups (flat_map py_obs ds)).
Proof. exact Proofs.C01.py_decl_fits. Qed.
Print Assumptions C01_back_python.

(* ---------------------------------------------------------------------------------------------
   Front end: for every Unicode table agreeing with ASCII below 128, every --target-os list, every
   struct with named fields / unit struct / enum - any number of #[serde(..)] attributes, arguments
   in any order, interleaved with any other attributes - whose non-skipped fields are conventional
   identifiers (raw or not), whose serde(rename) values are over [A-Za-z_][A-Za-z0-9_-]* and whose
   rename_all (container; for a struct variant the VARIANT's) is one of the 8 rules or absent:
   the keys in the IR typeshare builds are serde's keys of the source (Spec/Serde.v), list by list. *)
Theorem C01_front_struct :
  forall (uc : unicode), unicode_ok uc -> forall (tstr : str -> option ty) (T : list str) attrs ident gens l s,
    parse_struct uc tstr T attrs ident gens (FNamed l) = Ok (ItStruct s) ->
    src_dom T (IStruct attrs ident gens (FNamed l)) = true ->
    src_groups T (IStruct attrs ident gens (FNamed l)) = Some (ir_groups (ItStruct s)).
Proof. exact Proofs.C01Front.front_struct. Qed.
Print Assumptions C01_front_struct.

Theorem C01_front_enum :
  forall (uc : unicode), unicode_ok uc -> forall (tstr : str -> option ty) (T : list str) attrs ident gens vs e,
    parse_enum uc tstr T attrs ident gens vs = Ok (ItEnum e) ->
    src_dom T (IEnum attrs ident gens vs) = true ->
    src_groups T (IEnum attrs ident gens vs) = Some (ir_groups (ItEnum e)).
Proof. exact Proofs.C01Front.front_enum. Qed.
Print Assumptions C01_front_enum.

(* reconcile rewrites type references only: every struct / enum it hands to the back ends carries the
   member keys of the parsed one *)
Theorem C01_reconcile_structs :
  forall rn cn pd s', In s' (p_structs (reconcile_crate rn cn pd)) ->
    exists s, In s (p_structs pd) /\ sid s' = sid s /\ ir_groups (ItStruct s') = ir_groups (ItStruct s).
Proof. exact Proofs.C01Front.reconcile_crate_structs. Qed.
Print Assumptions C01_reconcile_structs.

Theorem C01_reconcile_enums :
  forall rn cn pd e', In e' (p_enums (reconcile_crate rn cn pd)) ->
    exists e, In e (p_enums pd) /\ eid (enum_shared e') = eid (enum_shared e) /\ ir_groups (ItEnum e') = ir_groups (ItEnum e).
Proof. exact Proofs.C01Front.reconcile_crate_enums. Qed.
Print Assumptions C01_reconcile_enums.

(* Composition, per source item and language: source item in the property's domain --front end--> IR
   item; any observation that fits the IR item's keys (which is what C01_back_<language> establishes
   for whatever the back end decides on, and what reconcile preserves) satisfies the verdict the check
   evaluates on the implementation, with serde's keys of the SOURCE as the expectation. *)
Theorem C01_field_keys :
  forall (uc : unicode), unicode_ok uc -> forall (tstr : str -> option ty) (T : list str)
         (l : lang) (it : item) (rit : ritem) (expected : list (list str)) (gs : list (list member)),
    Proofs.C01Front.parses uc tstr T it rit -> Proofs.C01Front.c01_shape it rit -> src_dom T it = true ->
    src_groups T it = Some expected -> dom_C01 l expected = true ->
    Proofs.C01.groups_fit l (ir_groups rit) gs ->
    good_groups_C01 l expected gs = true.
Proof. exact Proofs.C01Front.C01_end_to_end. Qed.
Print Assumptions C01_field_keys.

(* ---------------------------------------------------------------------------------------------
   Layout: the binding each printer writes spells the key as a double-quoted literal without escape
   sequences, and a literal reader gets the key back (keys over [A-Za-z0-9_-]). *)
Theorem C01_layout_typescript :
  forall k rest, c01_key_ok k = true ->
    if c01_has_dash k then Proofs.C01Layout.read_lit (typescript_property_aware_rename k ++ rest) = Some (k, rest)
    else typescript_property_aware_rename k = k.
Proof. exact Proofs.C01Layout.ts_property_token. Qed.
Print Assumptions C01_layout_typescript.

Theorem C01_layout_kotlin :
  forall m k, km_serial_name m = Some k -> c01_key_ok k = true ->
    kt_render_member m = (kt_write_comments 1 (km_docs m) ++ [ch_tab]) ++ lit "@SerialName(" ++ [ch_dq] ++ k ++ [ch_dq] ++ lit ")" ++ nl ++ Proofs.C01Layout.kt_member_rest m /\
    Proofs.C01Layout.read_lit ([ch_dq] ++ k ++ [ch_dq] ++ lit ")" ++ nl ++ Proofs.C01Layout.kt_member_rest m) = Some (k, lit ")" ++ nl ++ Proofs.C01Layout.kt_member_rest m).
Proof. exact Proofs.C01Layout.kt_serial_name_line. Qed.
Print Assumptions C01_layout_kotlin.

Theorem C01_layout_swift :
  forall m k, swm_coding_key m = Some k -> c01_key_ok k = true ->
    sw_render_member_coding_key m = sw_member_ident m ++ lit " = " ++ [ch_dq] ++ k ++ [ch_dq] /\
    Proofs.C01Layout.read_lit ([ch_dq] ++ k ++ [ch_dq]) = Some (k, []).
Proof. exact Proofs.C01Layout.sw_coding_key_case. Qed.
Print Assumptions C01_layout_swift.

Theorem C01_layout_go :
  forall m, c01_key_ok (gm_key m) = true ->
    go_render_member m = Proofs.C01Layout.go_member_front m ++ lit "`json:" ++ [ch_dq] ++ Proofs.C01Layout.go_tag_body m ++ [ch_dq] ++ lit "`" ++ go_nl /\
    Proofs.C01Layout.before_comma (Proofs.C01Layout.go_tag_body m) = gm_key m /\
    (forall rest, Proofs.C01Layout.read_lit ([ch_dq] ++ Proofs.C01Layout.go_tag_body m ++ [ch_dq] ++ rest) = Some (Proofs.C01Layout.go_tag_body m, rest)).
Proof. exact Proofs.C01Layout.go_json_tag. Qed.
Print Assumptions C01_layout_go.

Theorem C01_layout_python :
  forall m k, pym_alias m = Some k -> c01_key_ok k = true ->
    py_render_member m = Proofs.C01Layout.py_member_front m ++ lit "alias=" ++ [ch_dq] ++ k ++ [ch_dq] ++ Proofs.C01Layout.py_member_back m /\
    Proofs.C01Layout.read_lit ([ch_dq] ++ k ++ [ch_dq] ++ Proofs.C01Layout.py_member_back m) = Some (k, Proofs.C01Layout.py_member_back m).
Proof. exact Proofs.C01Layout.py_alias_token. Qed.
Print Assumptions C01_layout_python.

(* the hypotheses of C01_field_keys are satisfiable on a non-trivial input (an adjacently tagged enum
   with a struct variant under the variant's rename_all, raw identifiers, a keyword rename); for Scala
   the dashed key puts it outside the domain *)
Theorem C01_nonvacuous :
  exists rit, Proofs.C01Front.parses uc_exec (fun _ => None) [] Proofs.C01Front.c01_ex_item rit /\
              Proofs.C01Front.c01_shape Proofs.C01Front.c01_ex_item rit /\
              src_dom [] Proofs.C01Front.c01_ex_item = true /\
              src_groups [] Proofs.C01Front.c01_ex_item = Some [[lit "user-id"; lit "class"; lit "in"]] /\
              dom_C01 Kotlin [[lit "user-id"; lit "class"; lit "in"]] = true /\
              dom_C01 Scala [[lit "user-id"; lit "class"; lit "in"]] = false.
Proof. exact Proofs.C01Front.C01_nonvacuous. Qed.
Print Assumptions C01_nonvacuous.

(* The source-side quantifier alone puts serde's keys into the key domain of every language that binds
   keys (TypeScript, Kotlin, Swift, Go, Python): the 8 rules map conventional identifiers to non-empty
   strings over [A-Za-z0-9_-]. Scala additionally needs "no '-'", which is part of dom_C01. *)
Theorem C01_source_domain_implies_key_domain :
  forall (T : list str) (l : lang) (it : item) (expected : list (list str)),
    l <> Scala -> src_dom T it = true -> src_groups T it = Some expected -> dom_C01 l expected = true.
Proof. exact Proofs.C01Front.src_dom_key_dom. Qed.
Print Assumptions C01_source_domain_implies_key_domain.

(* so for those five languages the end-to-end statement needs the source-side quantifier only *)
Theorem C01_field_keys_binding_languages :
  forall (uc : unicode), unicode_ok uc -> forall (tstr : str -> option ty) (T : list str)
         (l : lang) (it : item) (rit : ritem) (expected : list (list str)) (gs : list (list member)),
    l <> Scala ->
    Proofs.C01Front.parses uc tstr T it rit -> Proofs.C01Front.c01_shape it rit -> src_dom T it = true ->
    src_groups T it = Some expected ->
    Proofs.C01.groups_fit l (ir_groups rit) gs ->
    good_groups_C01 l expected gs = true.
Proof. exact Proofs.C01Front.C01_end_to_end_binding. Qed.
Print Assumptions C01_field_keys_binding_languages.

(* ---------------------------------------------------------------------------------------------
   Whole files: whenever a back end produces the declarations of a file, the member lists the file
   declares are - in output order, one to one - the member lists of a permutation of the items it was
   handed (aliases, structs, enums, consts after reconcile; Scala keeps that order), every member
   binding the IR's key; the helper definitions a back end adds declare no members. *)
Theorem C01_file_typescript :
  forall uc cfg pd fd, ts_file_decls uc cfg pd = Ok fd ->
    exists items, Permutation items (items_of pd) /\
                  Proofs.C01.groups_fit TypeScript (flat_map ir_groups items) (obs_groups (fd_decls fd)).
Proof. exact Proofs.C01File.ts_file_fits. Qed.
Print Assumptions C01_file_typescript.

Theorem C01_file_kotlin :
  forall uc cfg pd fd, kt_file_decls uc cfg pd = Ok fd ->
    exists items, Permutation items (items_of pd) /\
                  Proofs.C01.groups_fit Kotlin (flat_map ir_groups items) (obs_groups (fd_decls fd)).
Proof. exact Proofs.C01File.kt_file_fits. Qed.
Print Assumptions C01_file_kotlin.

Theorem C01_file_swift :
  forall uc cfg pd fd, sw_file_decls uc cfg pd = Ok fd ->
    exists items, Permutation items (items_of pd) /\
                  Proofs.C01.groups_fit Swift (flat_map ir_groups items) (obs_groups (fd_decls fd)).
Proof. exact Proofs.C01File.sw_file_fits. Qed.
Print Assumptions C01_file_swift.

Theorem C01_file_scala :
  forall uc cfg pd fd, sc_file_decls uc cfg pd = Ok fd ->
    Proofs.C01.groups_fit Scala
      (flat_map ir_groups (map ItAlias (p_aliases pd) ++ map ItStruct (p_structs pd) ++ map ItEnum (p_enums pd)))
      (obs_groups (fd_decls fd)).
Proof. exact Proofs.C01File.sc_file_fits. Qed.
Print Assumptions C01_file_scala.

Theorem C01_file_go :
  forall uc cfg pd fd, go_file_decls uc cfg pd = Ok fd ->
    exists items, Permutation items (items_of pd) /\
                  Proofs.C01.groups_fit Go (flat_map ir_groups items) (obs_groups (fd_decls fd)).
Proof. exact Proofs.C01File.go_file_fits. Qed.
Print Assumptions C01_file_go.

Theorem C01_file_python :
  forall uc cfg pd fd, py_file_decls uc cfg pd = Ok fd ->
    exists items, Permutation items (items_of pd) /\
                  Proofs.C01.groups_fit Python (flat_map ir_groups items) (obs_groups (fd_decls fd)).
Proof. exact Proofs.C01File.py_file_fits. Qed.
Print Assumptions C01_file_python.

(* =============================================================================================
   FOLDER (multi-file, `-d`) MODE.  The language value lives as long as the run: the printer state (TypeScript's
   map of translated types, Swift's CodableVoid flag, Go's import set, Python's imports / type variables /
   translated types) is threaded from one crate's file to the next (generate_crates of Model/MultiFile.v).
   Proofs.C12Multi*.<l>_multi_decls uc cfg st pd are the declarations of ONE crate's file from ANY incoming
   state st; Props/C12.v C12_multi_<l>_layout ties them to the text <l>_generate_multi writes.

   C01_multi_decls_state_independent_<l>: from any two states the item writers return the same declarations -
   or the same error, or the same panic site (Proofs.MultiSameDecls.same_outcome, spelled out in
   C01_multi_same_outcome_meaning).  Nothing an item declares is decided by reading the state: its only reads are
   the read-modify-write steps registering an import, a type variable, a translated type, the flag.  What DOES
   depend on the incoming state is what is written about the state itself, none of it an item declaration:
   Python's import block / TypeVar lines / translation functions, Go's import block, TypeScript's ReviverFunc /
   ReplacerFunc trailer, Swift's Codable.swift.  No dependency of a declaration on the state was found in any
   of the four stateful back ends; Kotlin and Scala keep no state (their folder-mode generators are stated over
   kt_decls / sc_decls, Props/C12.v C12_multi_kotlin_layout / _scala_layout). *)
Theorem C01_multi_same_outcome_meaning :
  forall (A St : Type) (o1 o2 : outcome (A * St)),
    Proofs.MultiSameDecls.same_outcome o1 o2 <->
    (forall a s1, o1 = Ok (a, s1) -> exists s2, o2 = Ok (a, s2)) /\
    (forall e, o1 = Err e -> o2 = Err e) /\
    (forall p, o1 = Panic p -> o2 = Panic p).
Proof. exact Proofs.MultiSameDecls.same_outcome_meaning. Qed.
Print Assumptions C01_multi_same_outcome_meaning.

Theorem C01_multi_decls_state_independent_typescript :
  forall uc cfg st1 st2 pd,
    Proofs.MultiSameDecls.same_outcome (Proofs.C12MultiTS.ts_multi_decls uc cfg st1 pd) (Proofs.C12MultiTS.ts_multi_decls uc cfg st2 pd).
Proof. exact Proofs.MultiSameDecls.ts_multi_decls_state_independent. Qed.
Print Assumptions C01_multi_decls_state_independent_typescript.

Theorem C01_multi_decls_state_independent_swift :
  forall uc cfg st1 st2 pd,
    Proofs.MultiSameDecls.same_outcome (Proofs.C12MultiSwift.sw_multi_decls uc cfg st1 pd) (Proofs.C12MultiSwift.sw_multi_decls uc cfg st2 pd).
Proof. exact Proofs.MultiSameDecls.sw_multi_decls_state_independent. Qed.
Print Assumptions C01_multi_decls_state_independent_swift.

Theorem C01_multi_decls_state_independent_go :
  forall uc cfg st1 st2 pd,
    Proofs.MultiSameDecls.same_outcome (Proofs.C12MultiGo.go_multi_decls uc cfg st1 pd) (Proofs.C12MultiGo.go_multi_decls uc cfg st2 pd).
Proof. exact Proofs.MultiSameDecls.go_multi_decls_state_independent. Qed.
Print Assumptions C01_multi_decls_state_independent_go.

Theorem C01_multi_decls_state_independent_python :
  forall uc cfg st1 st2 pd,
    Proofs.MultiSameDecls.same_outcome (Proofs.C12Multi.py_multi_decls uc cfg st1 pd) (Proofs.C12Multi.py_multi_decls uc cfg st2 pd).
Proof. exact Proofs.MultiSameDecls.py_multi_decls_state_independent. Qed.
Print Assumptions C01_multi_decls_state_independent_python.

(* ... in particular the declarations of single-file mode, in both directions (single-file mode succeeds on a crate
   exactly when folder mode does from every state, with the same declarations; the failures agree) *)
Theorem C01_multi_same_decls_typescript :
  forall uc cfg st pd,
    Proofs.MultiSameDecls.same_outcome (Proofs.C12MultiTS.ts_multi_decls uc cfg st pd) (ts_decls uc cfg pd) /\
    Proofs.MultiSameDecls.same_outcome (ts_decls uc cfg pd) (Proofs.C12MultiTS.ts_multi_decls uc cfg st pd).
Proof. exact Proofs.MultiSameDecls.ts_multi_single_both. Qed.
Print Assumptions C01_multi_same_decls_typescript.

Theorem C01_multi_same_decls_swift :
  forall uc cfg st pd,
    Proofs.MultiSameDecls.same_outcome (Proofs.C12MultiSwift.sw_multi_decls uc cfg st pd) (sw_decls uc cfg pd) /\
    Proofs.MultiSameDecls.same_outcome (sw_decls uc cfg pd) (Proofs.C12MultiSwift.sw_multi_decls uc cfg st pd).
Proof. exact Proofs.MultiSameDecls.sw_multi_single_both. Qed.
Print Assumptions C01_multi_same_decls_swift.

Theorem C01_multi_same_decls_go :
  forall uc cfg st pd,
    Proofs.MultiSameDecls.same_outcome (Proofs.C12MultiGo.go_multi_decls uc cfg st pd) (go_decls uc cfg pd) /\
    Proofs.MultiSameDecls.same_outcome (go_decls uc cfg pd) (Proofs.C12MultiGo.go_multi_decls uc cfg st pd).
Proof. exact Proofs.MultiSameDecls.go_multi_single_both. Qed.
Print Assumptions C01_multi_same_decls_go.

Theorem C01_multi_same_decls_python :
  forall uc cfg st pd,
    Proofs.MultiSameDecls.same_outcome (Proofs.C12Multi.py_multi_decls uc cfg st pd) (py_decls uc cfg pd) /\
    Proofs.MultiSameDecls.same_outcome (py_decls uc cfg pd) (Proofs.C12Multi.py_multi_decls uc cfg st pd).
Proof. exact Proofs.MultiSameDecls.py_multi_single_both. Qed.
Print Assumptions C01_multi_same_decls_python.

(* ... and the language-independent observation <l>_file_decls every single-file theorem of C01 .. C09 speaks about:
   its declaration list is the observation of the folder-mode declarations - next to (Swift) the CodableVoid helper
   single-file mode appends when () was translated, which folder mode writes to Codable.swift, and (Python) the
   helper entries for the header's TypeVar lines and translation functions, which folder mode writes from the
   state REACHED (Props/C12.v) *)
Theorem C01_multi_file_decls_typescript :
  forall uc cfg st pd ds st', Proofs.C12MultiTS.ts_multi_decls uc cfg st pd = Ok (ds, st') ->
    exists fd, ts_file_decls uc cfg pd = Ok fd /\ fd_decls fd = map ts_obs ds.
Proof. exact Proofs.MultiSameDecls.ts_multi_file_decls. Qed.
Print Assumptions C01_multi_file_decls_typescript.

Theorem C01_multi_file_decls_swift :
  forall uc cfg st pd ds st', Proofs.C12MultiSwift.sw_multi_decls uc cfg st pd = Ok (ds, st') ->
    exists fd st0, sw_file_decls uc cfg pd = Ok fd /\ sw_decls uc cfg pd = Ok (ds, st0) /\
                   fd_decls fd = flat_map sw_obs ds ++ flat_map sw_obs (sw_trailing_decls cfg st0).
Proof. exact Proofs.MultiSameDecls.sw_multi_file_decls. Qed.
Print Assumptions C01_multi_file_decls_swift.

Theorem C01_multi_file_decls_go :
  forall uc cfg st pd ds st', Proofs.C12MultiGo.go_multi_decls uc cfg st pd = Ok (ds, st') ->
    exists fd, go_file_decls uc cfg pd = Ok fd /\ fd_decls fd = flat_map go_obs ds.
Proof. exact Proofs.MultiSameDecls.go_multi_file_decls. Qed.
Print Assumptions C01_multi_file_decls_go.

Theorem C01_multi_file_decls_python :
  forall uc cfg st pd ds st', Proofs.C12Multi.py_multi_decls uc cfg st pd = Ok (ds, st') ->
    exists fd helpers, py_file_decls uc cfg pd = Ok fd /\
                       fd_decls fd = map py_helper_decl helpers ++ flat_map py_obs ds.
Proof. exact Proofs.MultiSameDecls.py_multi_file_decls. Qed.
Print Assumptions C01_multi_file_decls_python.

Theorem C01_multi_file_decls_kotlin :
  forall uc cfg c im pd text, kt_generate_multi uc cfg c im pd = Ok text ->
    exists ds fd, kt_decls uc cfg pd = Ok ds /\ kt_file_decls uc cfg pd = Ok fd /\ fd_decls fd = map kt_obs ds.
Proof. exact Proofs.MultiSameProps.kt_multi_decls. Qed.
Print Assumptions C01_multi_file_decls_kotlin.

Theorem C01_multi_file_decls_scala :
  forall uc cfg pd text, sc_generate uc cfg pd = Ok text ->
    exists objs pkgs fd, sc_decls uc cfg pd = Ok (objs, pkgs) /\ sc_file_decls uc cfg pd = Ok fd /\
                         fd_decls fd = flat_map sc_obs (objs ++ pkgs).
Proof. exact Proofs.MultiSameProps.sc_multi_decls. Qed.
Print Assumptions C01_multi_file_decls_scala.

(* item by item: every declaration of a folder-mode file is what the item writer returns on the corresponding item
   of the sorted crate FROM EVERY STATE: the form in which the per-item theorems (C01_back_<l> above, C02_back,
   C03_item, C04_back_.._alias, C05_site_..), which speak about <l>_decl_of from an arbitrary state, apply *)
Theorem C01_multi_decls_items_typescript :
  forall uc cfg st pd ds st', Proofs.C12MultiTS.ts_multi_decls uc cfg st pd = Ok (ds, st') ->
    exists items, Model.Topsort.topsort (items_of pd) = Ok items /\
      Forall2 (fun it d => forall s, exists s', ts_decl_of uc cfg it s = Ok (d, s')) items ds.
Proof. exact Proofs.MultiSameDecls.ts_multi_decls_items. Qed.
Print Assumptions C01_multi_decls_items_typescript.

Theorem C01_multi_decls_items_swift :
  forall uc cfg st pd ds st', Proofs.C12MultiSwift.sw_multi_decls uc cfg st pd = Ok (ds, st') ->
    exists items, Model.Topsort.topsort (items_of pd) = Ok items /\
      Forall2 (fun it d => forall s, exists s', sw_decl_of uc cfg it s = Ok (d, s')) items ds.
Proof. exact Proofs.MultiSameDecls.sw_multi_decls_items. Qed.
Print Assumptions C01_multi_decls_items_swift.

Theorem C01_multi_decls_items_go :
  forall uc cfg st pd ds st', Proofs.C12MultiGo.go_multi_decls uc cfg st pd = Ok (ds, st') ->
    exists items dss, Model.Topsort.topsort (items_of pd) = Ok items /\ ds = List.concat dss /\
      Forall2 (fun it d => forall s, exists s', go_decl_of uc cfg (go_types_mapping_to_struct items) it s = Ok (d, s')) items dss.
Proof. exact Proofs.MultiSameDecls.go_multi_decls_items. Qed.
Print Assumptions C01_multi_decls_items_go.

Theorem C01_multi_decls_items_python :
  forall uc cfg st pd ds st', Proofs.C12Multi.py_multi_decls uc cfg st pd = Ok (ds, st') ->
    exists items dss, Model.Topsort.topsort (items_of pd) = Ok items /\ ds = List.concat dss /\
      Forall2 (fun it d => forall s, exists s', py_decl_of uc cfg it s = Ok (d, s')) items dss.
Proof. exact Proofs.MultiSameDecls.py_multi_decls_items. Qed.
Print Assumptions C01_multi_decls_items_python.

(* C01 in folder mode: the member lists a crate's folder-mode file declares are, in output order, the member lists of
   a permutation of the crate's items, every member binding the IR's key - the conclusion of C01_file_<l>, for the
   file generated from ANY state *)
Theorem C01_multi_file_typescript :
  forall uc cfg st pd ds st', Proofs.C12MultiTS.ts_multi_decls uc cfg st pd = Ok (ds, st') ->
    exists items, Permutation items (items_of pd) /\
                  Proofs.C01.groups_fit TypeScript (flat_map ir_groups items) (obs_groups (map ts_obs ds)).
Proof. exact Proofs.MultiSameProps.c01_multi_file_ts. Qed.
Print Assumptions C01_multi_file_typescript.

Theorem C01_multi_file_kotlin :
  forall uc cfg c im pd text, kt_generate_multi uc cfg c im pd = Ok text ->
    exists ds, kt_decls uc cfg pd = Ok ds /\
      exists items, Permutation items (items_of pd) /\
                    Proofs.C01.groups_fit Kotlin (flat_map ir_groups items) (obs_groups (map kt_obs ds)).
Proof. exact Proofs.MultiSameProps.c01_multi_file_kt. Qed.
Print Assumptions C01_multi_file_kotlin.

Theorem C01_multi_file_swift :
  forall uc cfg st pd ds st', Proofs.C12MultiSwift.sw_multi_decls uc cfg st pd = Ok (ds, st') ->
    exists items, Permutation items (items_of pd) /\
                  Proofs.C01.groups_fit Swift (flat_map ir_groups items) (obs_groups (flat_map sw_obs ds)).
Proof. exact Proofs.MultiSameProps.c01_multi_file_sw. Qed.
Print Assumptions C01_multi_file_swift.

Theorem C01_multi_file_scala :
  forall uc cfg pd text, sc_generate uc cfg pd = Ok text ->
    exists objs pkgs, sc_decls uc cfg pd = Ok (objs, pkgs) /\
      Proofs.C01.groups_fit Scala
        (flat_map ir_groups (map ItAlias (p_aliases pd) ++ map ItStruct (p_structs pd) ++ map ItEnum (p_enums pd)))
        (obs_groups (flat_map sc_obs (objs ++ pkgs))).
Proof. exact Proofs.MultiSameProps.c01_multi_file_sc. Qed.
Print Assumptions C01_multi_file_scala.

Theorem C01_multi_file_go :
  forall uc cfg st pd ds st', Proofs.C12MultiGo.go_multi_decls uc cfg st pd = Ok (ds, st') ->
    exists items, Permutation items (items_of pd) /\
                  Proofs.C01.groups_fit Go (flat_map ir_groups items) (obs_groups (flat_map go_obs ds)).
Proof. exact Proofs.MultiSameProps.c01_multi_file_go. Qed.
Print Assumptions C01_multi_file_go.

Theorem C01_multi_file_python :
  forall uc cfg st pd ds st', Proofs.C12Multi.py_multi_decls uc cfg st pd = Ok (ds, st') ->
    exists items, Permutation items (items_of pd) /\
                  Proofs.C01.groups_fit Python (flat_map ir_groups items) (obs_groups (flat_map py_obs ds)).
Proof. exact Proofs.MultiSameProps.c01_multi_file_py. Qed.
Print Assumptions C01_multi_file_python.

(* the run: EVERY file a folder-mode TypeScript run generates (from whatever state st_i the earlier crates of the
   plan left, the run started from ANY st0) is the layout around declarations ds that are the single-file
   declarations of its crate and bind, member list by member list, the keys of the crate's IR *)
Theorem C01_multi_run_typescript :
  forall uc cfg st0 plan files fin,
    generate_crates (Proofs.C12MultiTS.ts_multi_gen uc cfg) st0 plan = (files, fin) ->
    forall i fname text,
      nth_error files i = Some (fname, Writer.Generated text) ->
      exists p st_i st_i' ds,
        nth_error plan i = Some p /\ fname = op_file p /\
        ts_generate_multi uc cfg st_i (op_imports p) (op_data p) = Ok (text, st_i') /\
        Proofs.C12MultiTS.ts_multi_decls uc cfg st_i (op_data p) = Ok (ds, st_i') /\
        text = ts_begin_file cfg ++ ts_write_imports (op_imports p) ++ List.concat (map ts_render_decl ds) ++ ts_end_file st_i' /\
        (exists st1, ts_decls uc cfg (op_data p) = Ok (ds, st1)) /\
        exists items, Permutation items (items_of (op_data p)) /\
                      Proofs.C01.groups_fit TypeScript (flat_map ir_groups items) (obs_groups (map ts_obs ds)).
Proof. exact Proofs.MultiSameProps.c01_multi_run_ts. Qed.
Print Assumptions C01_multi_run_typescript.

(* the same for Python, whose state is the richest (import table, type variables, translated types): neither the state
   invariant nor the domain hypotheses of C12_multi_python are needed for the declarations and their keys *)
Theorem C01_multi_run_python :
  forall uc cfg st0 plan files fin,
    generate_crates (Proofs.C12Multi.py_multi_gen uc cfg) st0 plan = (files, fin) ->
    forall i fname text,
      nth_error files i = Some (fname, Writer.Generated text) ->
      exists p st_i st_i' ds,
        nth_error plan i = Some p /\ fname = op_file p /\
        py_generate_multi uc cfg st_i (op_data p) = Ok (text, st_i') /\
        Proofs.C12Multi.py_multi_decls uc cfg st_i (op_data p) = Ok (ds, st_i') /\
        text = py_begin_file cfg ++ py_write_all_imports st_i' ++ py_write_custom_translations st_i' ++
               List.concat (map py_render_decl ds) /\
        (exists st1, py_decls uc cfg (op_data p) = Ok (ds, st1)) /\
        exists items, Permutation items (items_of (op_data p)) /\
                      Proofs.C01.groups_fit Python (flat_map ir_groups items) (obs_groups (flat_map py_obs ds)).
Proof. exact Proofs.MultiSameProps.c01_multi_run_py. Qed.
Print Assumptions C01_multi_run_python.

(* non-vacuity: the two-crate workspace ws_py_again of Proofs/C12MultiWitness.v; the second crate's file is generated
   from the non-initial state the first left, with the declarations it has when generated alone *)
Theorem C01_multi_same_decls_nonvacuous :
  exists pa pb dsa st_a dsb st_b st_b0 fd,
    Proofs.C12MultiWitness.y_plan Python Proofs.C12MultiWitness.ws_py_again = Some [pa; pb] /\
    map op_crate [pa; pb] = [lit "alpha"; lit "beta"] /\
    Proofs.C12Multi.py_multi_decls uc_exec Proofs.C12MultiWitness.y_py_cfg py_empty_state (op_data pa) = Ok (dsa, st_a) /\
    py_type_variables st_a = [lit "T"] /\ py_custom_types st_a = [lit "datetime"] /\
    Proofs.C12Multi.py_multi_decls uc_exec Proofs.C12MultiWitness.y_py_cfg st_a (op_data pb) = Ok (dsb, st_b) /\
    Proofs.C12Multi.py_multi_decls uc_exec Proofs.C12MultiWitness.y_py_cfg py_empty_state (op_data pb) = Ok (dsb, st_b0) /\
    py_decls uc_exec Proofs.C12MultiWitness.y_py_cfg (op_data pb) = Ok (dsb, st_b0) /\
    List.length dsb = 1%nat /\
    map (fun g => map mb_key g) (obs_groups (flat_map py_obs dsb)) = [[lit "item"; lit "at"]] /\
    py_type_variables st_b = [lit "T"; lit "U"] /\ py_type_variables st_b0 = [lit "U"] /\
    py_file_decls uc_exec Proofs.C12MultiWitness.y_py_cfg (op_data pb) = Ok fd /\
    fd_decls fd = map py_helper_decl [lit "U"; lit "serialize_datetime_data"; lit "parse_rfc3339"] ++ flat_map py_obs dsb.
Proof. exact Proofs.MultiSameWitness.multi_same_decls_python_nonvacuous. Qed.
Print Assumptions C01_multi_same_decls_nonvacuous.

(* ... and for TypeScript, Swift and Go: crate beta's declarations from the state crate alpha left (Date registered for the
   member `at`; the CodableVoid flag set; time imported) are its declarations from the initial state; the states differ *)
Theorem C01_multi_same_decls_nonvacuous_ts_sw_go :
  (exists pa pb dsa dsb,
     Proofs.C12MultiWitness.y_plan TypeScript Proofs.C12MultiWitness.ws_py_plain = Some [pa; pb] /\
     Proofs.C12MultiTS.ts_multi_decls uc_exec Proofs.C12MultiWitness.y_ts_cfg [] (op_data pa) = Ok (dsa, [(lit "Date", [lit "at"])]) /\
     Proofs.C12MultiTS.ts_multi_decls uc_exec Proofs.C12MultiWitness.y_ts_cfg [(lit "Date", [lit "at"])] (op_data pb) = Ok (dsb, [(lit "Date", [lit "at"])]) /\
     Proofs.C12MultiTS.ts_multi_decls uc_exec Proofs.C12MultiWitness.y_ts_cfg [] (op_data pb) = Ok (dsb, []) /\ List.length dsb = 1%nat) /\
  (exists pa pb dsa dsb,
     Proofs.C12MultiWitness.y_plan Swift Proofs.C12MultiWitness.ws_sw_unit = Some [pa; pb] /\
     Proofs.C12MultiSwift.sw_multi_decls uc_exec Proofs.C12MultiWitness.y_sw_cfg false (op_data pa) = Ok (dsa, true) /\
     Proofs.C12MultiSwift.sw_multi_decls uc_exec Proofs.C12MultiWitness.y_sw_cfg true (op_data pb) = Ok (dsb, true) /\
     Proofs.C12MultiSwift.sw_multi_decls uc_exec Proofs.C12MultiWitness.y_sw_cfg false (op_data pb) = Ok (dsb, false) /\ List.length dsb = 1%nat) /\
  (exists pa pb dsa dsb,
     Proofs.C12MultiWitness.y_plan Go Proofs.C12MultiWitness.ws_py_plain = Some [pa; pb] /\
     Proofs.C12MultiGo.go_multi_decls uc_exec Proofs.C12MultiWitness.y_go_cfg [] (op_data pa) = Ok (dsa, [lit "encoding/json"; lit "time"]) /\
     Proofs.C12MultiGo.go_multi_decls uc_exec Proofs.C12MultiWitness.y_go_cfg [lit "encoding/json"; lit "time"] (op_data pb) = Ok (dsb, [lit "encoding/json"; lit "time"]) /\
     Proofs.C12MultiGo.go_multi_decls uc_exec Proofs.C12MultiWitness.y_go_cfg [] (op_data pb) = Ok (dsb, [lit "encoding/json"]) /\ List.length dsb = 1%nat).
Proof. exact Proofs.MultiSameWitness.multi_same_decls_ts_sw_go_nonvacuous. Qed.
Print Assumptions C01_multi_same_decls_nonvacuous_ts_sw_go.
