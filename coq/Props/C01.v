(* C01 property theorems: statements only; proofs live in Proofs/C01*.v. *)
From Coq Require Import List.
From TS Require Import Model.Str Model.Outcome Model.Unicode Model.Syntax Model.Attrs Model.Types Model.Parse
                       Model.Lang.Common Model.Lang.Decl Model.Lang.TypeScript Model.Lang.Kotlin Model.Lang.Swift
                       Model.Lang.Scala Model.Lang.Go Model.Lang.Python.
From TS Require Import Spec.SerdeCase Spec.C16Spec Spec.Serde Spec.C03Spec Spec.C01Spec.
From TS Require Proofs.C01.

(* [Proofs.C01.groups_fit l expected gs]: the observed member lists gs correspond one to one, in order,
   to the expected key lists, every member binds its key (Scala: declares the key with '-' replaced
   by '_' as its name) and a member without explicit binding is named by its key.  On the property's
   domain (keys over [A-Za-z0-9_-], non-empty; Scala: no '-') this is the verdict the check evaluates. *)
Theorem C01_fit_is_good :
  forall (l : lang) (expected : list (list str)) (gs : list (list member)),
    Proofs.C01.groups_fit l expected gs -> dom_C01 l expected = true -> good_groups_C01 expected gs = true.
Proof. exact Proofs.C01.groups_good. Qed.
Print Assumptions C01_fit_is_good.

(* Back ends, decision layer: for EVERY IR item (struct, enum with struct variants, alias, const), every
   configuration (prefix, package, type mappings, acronyms ...) and every printer state, whatever
   declarations the back end decides on bind, member by member and in order, the keys the IR carries -
   for structs and for the helper struct (TypeScript: inline object) of every struct variant. *)
Theorem C01_back_typescript :
  forall (uc : unicode) (cfg : ts_config) (it : ritem) st d st',
    ts_decl_of uc cfg it st = Ok (d, st') ->
    Proofs.C01.groups_fit TypeScript (ir_groups it) (obs_groups [ts_obs d]).
Proof. exact Proofs.C01.ts_decl_fits. Qed.
Print Assumptions C01_back_typescript.

Theorem C01_back_kotlin :
  forall (cfg : kt_config) (it : ritem) ds,
    kt_decl_of cfg it = Ok ds ->
    Proofs.C01.groups_fit Kotlin (ir_groups it) (obs_groups (map kt_obs ds)).
Proof. exact Proofs.C01.kt_decl_fits. Qed.
Print Assumptions C01_back_kotlin.

Theorem C01_back_swift :
  forall (uc : unicode) (cfg : sw_config) (it : ritem) st d st',
    sw_decl_of uc cfg it st = Ok (d, st') ->
    Proofs.C01.groups_fit Swift (ir_groups it) (obs_groups (sw_obs d)).
Proof. exact Proofs.C01.sw_decl_fits. Qed.
Print Assumptions C01_back_swift.

Theorem C01_back_scala :
  forall (cfg : sc_config) (it : ritem) ds,
    sc_decl_of cfg it = Ok ds ->
    Proofs.C01.groups_fit Scala (ir_groups it) (obs_groups (flat_map sc_obs ds)).
Proof. exact Proofs.C01.sc_decl_fits. Qed.
Print Assumptions C01_back_scala.

Theorem C01_back_go :
  forall (uc : unicode) (cfg : go_config) (custom_structs : list str) (it : ritem) st ds st',
    go_decl_of uc cfg custom_structs it st = Ok (ds, st') ->
    Proofs.C01.groups_fit Go (ir_groups it) (obs_groups (flat_map go_obs ds)).
Proof. exact Proofs.C01.go_decl_fits. Qed.
Print Assumptions C01_back_go.

Theorem C01_back_python :
  forall (uc : unicode) (cfg : py_config) (it : ritem) st ds st',
    py_decl_of uc cfg it st = Ok (ds, st') ->
    Proofs.C01.groups_fit Python (ir_groups it) (obs_groups (flat_map py_obs ds)).
Proof. exact Proofs.C01.py_decl_fits. Qed.
Print Assumptions C01_back_python.
