(* C09 property theorems: statements only; proofs live in Proofs/C09*.v *)
From Coq Require Import List Bool String.
From TS Require Import Model.Str Model.Outcome Model.Unicode Model.Types Model.Parse Model.Reconcile Model.Lang.Decl
                       Model.Lang.TypeScript Model.Lang.Kotlin Model.Lang.Scala Model.Lang.Go Spec.C09Spec.
From TS Require Import Model.Lang.Swift Model.Lang.Python.
From TS Require Proofs.C09Common Proofs.C09Recon Proofs.C09Refs Proofs.C09_KotlinFile Proofs.C09Witness Proofs.C09Final.
From TS Require Proofs.C09_TypeScript Proofs.C09_Scala Proofs.C09_Python Proofs.C09_Swift Proofs.C09_Go Proofs.GoAcronyms Proofs.C09_GoAcr.
From TS Require Import Model.Lang.Common Model.Collect Model.MultiFile Spec.C09MultiSpec.
From TS Require Spec.C14Spec Proofs.C14Main Proofs.C14Front Proofs.C14Witness Proofs.C09Multi Proofs.C09MultiWitness Proofs.C09MultiTS Proofs.C09MultiC14.
From TS Require Import Spec.C09MultiLangSpec.
From TS Require Spec.C14KotlinSpec Proofs.C12MultiStateless Proofs.C09MultiLang Proofs.C09MultiKotlin Proofs.C09MultiKotlinC14 Proofs.C09MultiLangWitness.
From TS Require Proofs.C12MultiSwift Proofs.C12Multi Proofs.C12MultiGo Proofs.C09MultiSwift Proofs.C09MultiScala Proofs.C09MultiPython Proofs.C09MultiGo.
Import ListNotations.

(* the program the back ends receive in single-file mode is Proofs.C09Recon.c09_reconciled of the parsed one *)
Theorem C09_reconcile_single :
  forall pd : parsed, reconcile_aliases [([], pd)] = [([], Proofs.C09Recon.c09_reconciled pd)].
Proof. exact Proofs.C09Recon.c09_reconcile_single. Qed.
Print Assumptions C09_reconcile_single.

(* reconcile.rs, all languages: inside dom_C09 every name mentioned by the type a back end receives for
   a type position of the program - field, payload, alias target and (since the repair of reconcile_aliases)
   const type - is either an untouched generic parameter of the owner, or the RENAMED identifier of a
   typeshared item, whether it is written as a Simple id or (since the repair of check_type) as the id of a
   Generic: the table c09_type_ref_which of Spec/C09Spec.v is constantly C9Ren *)
Theorem C09_reconciled_mentions :
  forall (pd : parsed) (L : lang) (pfx : str), dom_C09 L pfx pd = true ->
  forall (tp : c09_tpos) (form : c09_form) (i' : str), In tp (c09_tposs pd) ->
    In (form, i') (c09_type_ids (check_type [] (Proofs.C09Recon.c09_rn pd) [] (c9t_type tp))) ->
    (In i' (c9t_generics tp) /\ In (form, i') (c09_type_ids (c9t_type tp))) \/
    (exists i e, In (form, i) (c09_type_ids (c9t_type tp)) /\ c09_lookup pd i = Some e /\
                 i' = Proofs.C09Common.c09_pick (c09_type_ref_which form (c9t_pos tp)) (c9e_id e)).
Proof. exact Proofs.C09Recon.c09_mention. Qed.
Print Assumptions C09_reconciled_mentions.

(* ... said without the table: the mentioned name is the item's renamed id *)
Theorem C09_reconciled_mentions_renamed :
  forall (pd : parsed) (L : lang) (pfx : str), dom_C09 L pfx pd = true ->
  forall (tp : c09_tpos) (form : c09_form) (i' : str), In tp (c09_tposs pd) ->
    In (form, i') (c09_type_ids (check_type [] (Proofs.C09Recon.c09_rn pd) [] (c9t_type tp))) ->
    (In i' (c9t_generics tp) /\ In (form, i') (c09_type_ids (c9t_type tp))) \/
    (exists i e, In (form, i) (c09_type_ids (c9t_type tp)) /\ c09_lookup pd i = Some e /\ i' = renamed (c9e_id e)).
Proof. exact Proofs.C09Recon.c09_mention. Qed.
Print Assumptions C09_reconciled_mentions_renamed.

(* the consts of the reconciled program are the consts of the program with their types reconciled *)
Theorem C09_reconciled_consts :
  forall pd : parsed, p_imports pd = [] -> forall c' : rconst,
    In c' (p_consts (Proofs.C09Recon.c09_reconciled pd)) <->
    exists c, In c (p_consts pd) /\
              c' = {| cid := cid c; ctype := check_type [] (Proofs.C09Recon.c09_rn pd) [] (ctype c); cvalue := cvalue c |}.
Proof. exact Proofs.C09Recon.c09_consts'. Qed.
Print Assumptions C09_reconciled_consts.

(* all six languages, the language-independent half: an observation in which every definition is
   declared under the table's name and every reference is a generic parameter of its owner, the
   reconciled name of a mentioned item, the sealed parent or the helper struct (c09_shape) satisfies
   the judgement outside the recorded classes.  That *_file_decls HAS this shape is proved for Kotlin,
   TypeScript, Scala, Python and Swift in every configuration (C09_Kotlin .. C09_Swift below) and for Go
   with an empty uppercase_acronyms list (C09_Go_partial); Go with a non-empty acronym list declares and
   spells CONVERTED names, a different shape with a language-level theorem of its own (C09_Go_shape_good)
   that go_file_decls is proved to have for every alphanumeric acronym list (C09_Go).  (The name keeps its
   historical _partial suffix; nothing is missing any more.)
   A back end declares the <Enum><Variant>Inner entities only if c09_has_inner (all but TypeScript,
   which inlines struct variants); the shape asks for the definitions of the declared entities only. *)
Theorem C09_all_languages_partial :
  forall (L : lang) (pfx : str) (acrs : list str) (pd : parsed) (obs : c09_obs),
    dom_C09 L pfx pd = true -> known_C09 L pfx acrs pd = None ->
    Proofs.C09Common.c09_shape L pfx pd obs -> good_C09 L pfx pd obs = true.
Proof. exact Proofs.C09Common.c09_shape_good. Qed.
Print Assumptions C09_all_languages_partial.

(* Kotlin, every program, every prefix, every package / type mapping configuration: outside the recorded
   classes every reference the generated file spells is either a generic parameter of the item it stands
   in (verbatim, unprefixed) or exactly the name a generated definition is declared under *)
Theorem C09_Kotlin :
  forall (uc : unicode) (cfg : kt_config) (acrs : list str) (pd : parsed),
    dom_C09 Kotlin (kt_prefix cfg) pd = true -> known_C09 Kotlin (kt_prefix cfg) acrs pd = None ->
    forall fd : file_decls, kt_file_decls uc cfg (Proofs.C09Recon.c09_reconciled pd) = Ok fd ->
      good_C09 Kotlin (kt_prefix cfg) pd (c09_observe Kotlin fd) = true.
Proof. exact Proofs.C09_KotlinFile.c09_kotlin. Qed.
Print Assumptions C09_Kotlin.

(* the regression net for prefix bugs: when no type carries serde(rename) the statement needs no
   known-class hypothesis, for every prefix (the one prefix defect of the unchanged tree, the generic
   parameter of a JvmInline value class, is excluded by name) *)
Theorem C09_no_rename_Kotlin :
  forall (uc : unicode) (cfg : kt_config) (pd : parsed),
    dom_C09 Kotlin (kt_prefix cfg) pd = true ->
    (forall e, In e (c09_entities pd) -> c09_renamed_away (c9e_id e) = false) ->
    (forall a, In a (p_aliases pd) -> c09_inline_generic_class Kotlin (kt_prefix cfg) a = None) ->
    forall fd : file_decls, kt_file_decls uc cfg (Proofs.C09Recon.c09_reconciled pd) = Ok fd ->
      good_C09 Kotlin (kt_prefix cfg) pd (c09_observe Kotlin fd) = true.
Proof. exact Proofs.C09Final.c09_no_rename_kotlin. Qed.
Print Assumptions C09_no_rename_Kotlin.

(* TypeScript (no prefix), every program, every type-mapping configuration: outside the recorded classes
   every name the generated file spells in a type position (member types - those of inlined struct
   variants included -, variant payloads, alias targets, const types, generic arguments) is a generic
   parameter of the item it stands in or exactly the name a generated definition is declared under *)
Theorem C09_TypeScript :
  forall (uc : unicode) (cfg : ts_config) (acrs : list str) (pd : parsed),
    dom_C09 TypeScript [] pd = true -> known_C09 TypeScript [] acrs pd = None ->
    forall fd : file_decls, ts_file_decls uc cfg (Proofs.C09Recon.c09_reconciled pd) = Ok fd ->
      good_C09 TypeScript [] pd (c09_observe TypeScript fd) = true.
Proof. exact Proofs.C09_TypeScript.c09_typescript_all. Qed.
Print Assumptions C09_TypeScript.

Theorem C09_no_rename_TypeScript :
  forall (uc : unicode) (cfg : ts_config) (pd : parsed),
    dom_C09 TypeScript [] pd = true ->
    (forall e, In e (c09_entities pd) -> c09_renamed_away (c9e_id e) = false) ->
    forall fd : file_decls, ts_file_decls uc cfg (Proofs.C09Recon.c09_reconciled pd) = Ok fd ->
      good_C09 TypeScript [] pd (c09_observe TypeScript fd) = true.
Proof. exact Proofs.C09Final.c09_no_rename_typescript. Qed.
Print Assumptions C09_no_rename_TypeScript.

(* Scala (no prefix; no topsort; consts are never written), every program, package and type-mapping
   configuration: outside the recorded classes every name spelled in a type position (case-class
   parameter types, variant payloads, alias targets, the name after `extends`, the ...Inner helper class
   and its type arguments) is a generic parameter of the item it stands in or exactly the name a
   generated definition is declared under *)
Theorem C09_Scala :
  forall (uc : unicode) (cfg : sc_config) (acrs : list str) (pd : parsed),
    dom_C09 Scala [] pd = true -> known_C09 Scala [] acrs pd = None ->
    forall fd : file_decls, sc_file_decls uc cfg (Proofs.C09Recon.c09_reconciled pd) = Ok fd ->
      good_C09 Scala [] pd (c09_observe Scala fd) = true.
Proof. exact Proofs.C09_Scala.c09_scala_all. Qed.
Print Assumptions C09_Scala.

Theorem C09_no_rename_Scala :
  forall (uc : unicode) (cfg : sc_config) (pd : parsed),
    dom_C09 Scala [] pd = true ->
    (forall e, In e (c09_entities pd) -> c09_renamed_away (c9e_id e) = false) ->
    forall fd : file_decls, sc_file_decls uc cfg (Proofs.C09Recon.c09_reconciled pd) = Ok fd ->
      good_C09 Scala [] pd (c09_observe Scala fd) = true.
Proof. exact Proofs.C09Final.c09_no_rename_scala. Qed.
Print Assumptions C09_no_rename_Scala.

(* Python (no prefix), every program, every type-mapping configuration: outside the recorded classes every
   name spelled in a type position (attribute types, variant content types, alias targets, const types,
   the ...Inner helper class of a struct variant, generic arguments) is a generic parameter of the item it
   stands in or exactly the name a generated definition is declared under *)
Theorem C09_Python :
  forall (uc : unicode) (cfg : py_config) (acrs : list str) (pd : parsed),
    dom_C09 Python [] pd = true -> known_C09 Python [] acrs pd = None ->
    forall fd : file_decls, py_file_decls uc cfg (Proofs.C09Recon.c09_reconciled pd) = Ok fd ->
      good_C09 Python [] pd (c09_observe Python fd) = true.
Proof. exact Proofs.C09_Python.c09_python_all. Qed.
Print Assumptions C09_Python.

Theorem C09_no_rename_Python :
  forall (uc : unicode) (cfg : py_config) (pd : parsed),
    dom_C09 Python [] pd = true ->
    (forall e, In e (c09_entities pd) -> c09_renamed_away (c9e_id e) = false) ->
    forall fd : file_decls, py_file_decls uc cfg (Proofs.C09Recon.c09_reconciled pd) = Ok fd ->
      good_C09 Python [] pd (c09_observe Python fd) = true.
Proof. exact Proofs.C09Final.c09_no_rename_python. Qed.
Print Assumptions C09_no_rename_Python.

(* Swift, every program, every prefix, type-mapping, decorator and generic-constraint configuration: outside the
   recorded classes every name spelled in a type position (stored-property types, case payloads, typealias
   targets, the ...Inner helper struct of a struct variant and its type arguments, generic arguments) is a
   generic parameter of the item it stands in (verbatim, unprefixed) or exactly the name a generated
   definition is declared under (after serde(rename), after the prefix) *)
Theorem C09_Swift :
  forall (uc : unicode) (cfg : sw_config) (acrs : list str) (pd : parsed),
    dom_C09 Swift (sw_prefix cfg) pd = true -> known_C09 Swift (sw_prefix cfg) acrs pd = None ->
    forall fd : file_decls, sw_file_decls uc cfg (Proofs.C09Recon.c09_reconciled pd) = Ok fd ->
      good_C09 Swift (sw_prefix cfg) pd (c09_observe Swift fd) = true.
Proof. exact Proofs.C09_Swift.c09_swift_all. Qed.
Print Assumptions C09_Swift.

Theorem C09_no_rename_Swift :
  forall (uc : unicode) (cfg : sw_config) (pd : parsed),
    dom_C09 Swift (sw_prefix cfg) pd = true ->
    (forall e, In e (c09_entities pd) -> c09_renamed_away (c9e_id e) = false) ->
    forall fd : file_decls, sw_file_decls uc cfg (Proofs.C09Recon.c09_reconciled pd) = Ok fd ->
      good_C09 Swift (sw_prefix cfg) pd (c09_observe Swift fd) = true.
Proof. exact Proofs.C09Final.c09_no_rename_swift. Qed.
Print Assumptions C09_no_rename_Swift.

(* Go, every program, package and type-mapping configuration WITH AN EMPTY uppercase_acronyms LIST: outside
   the recorded classes every name spelled in a type position (field types, variant content types, alias
   targets, const types, the ...Inner helper struct, generic arguments) is a generic parameter of the item
   it stands in or exactly the name a generated definition is declared under.
   PARTIAL only in its acronym hypothesis: non-empty (alphanumeric) acronym lists are C09_Go below; this
   statement remains as the one that needs no ASCII hypothesis on the program. *)
Theorem C09_Go_partial :
  forall (uc : unicode) (cfg : go_config) (pd : parsed),
    go_uppercase_acronyms cfg = [] ->
    dom_C09 Go [] pd = true -> known_C09 Go [] (go_uppercase_acronyms cfg) pd = None ->
    forall fd : file_decls, go_file_decls uc cfg (Proofs.C09Recon.c09_reconciled pd) = Ok fd ->
      good_C09 Go [] pd (c09_observe Go fd) = true.
Proof. exact Proofs.C09_Go.c09_go_no_acronyms. Qed.
Print Assumptions C09_Go_partial.

Theorem C09_no_rename_Go_partial :
  forall (uc : unicode) (cfg : go_config) (pd : parsed),
    go_uppercase_acronyms cfg = [] ->
    dom_C09 Go [] pd = true ->
    (forall e, In e (c09_entities pd) -> c09_renamed_away (c9e_id e) = false) ->
    forall fd : file_decls, go_file_decls uc cfg (Proofs.C09Recon.c09_reconciled pd) = Ok fd ->
      good_C09 Go [] pd (c09_observe Go fd) = true.
Proof. exact Proofs.C09Final.c09_no_rename_go_no_acronyms. Qed.
Print Assumptions C09_no_rename_Go_partial.

(* ---- Go under EVERY alphanumeric uppercase_acronyms list ----
   acronyms_to_uppercase (go.rs:579) rewrites the names of definitions and the printed types of fields and payloads,
   but not alias targets and const types, and not the generic parameter list of a struct.  Spec/C09Spec.v reads it as
   c09_acr_conv (PascalCase form of each acronym - id, Id, ID all give Id -, leftmost non-overlapping occurrences in
   the ORIGINAL name not followed by a lower-case letter are upper-cased). *)

(* the Spec's conversion IS the model's (the real code's) on ASCII input, where it never panics *)
Theorem C09_go_conv_is_model :
  forall (uc : unicode), unicode_ok uc -> forall (acrs : list str) (name : str),
    forallb (forallb is_ascii) acrs = true -> forallb is_ascii name = true ->
    go_convert_acronyms_to_uppercase uc acrs name = Ok (c09_acr_conv acrs name).
Proof. exact Proofs.C09_GoAcr.c09_conv_is_model. Qed.
Print Assumptions C09_go_conv_is_model.

(* it only changes the ASCII case of letters: a converted name is linked to the same item (c09_name_eqb Go) *)
Theorem C09_go_conv_case_only :
  forall (acrs : list str) (s : str), c09_name_eqb Go (c09_acr_conv acrs s) s = true.
Proof. exact Proofs.C09_GoAcr.c09_conv_name_eqb. Qed.
Print Assumptions C09_go_conv_case_only.

(* language-level half for Go with acronyms (every acronym list, no ASCII hypothesis): an observation in which
   every definition is declared under the CONVERTED table name (two passes for the <Enum><Variant>Inner helper:
   c09_go_dn), every name mentioned in a field / payload is the converted name of a generic parameter of the owner
   or of the mentioned item, every name mentioned in an alias target / const type the unconverted one (c09_go_rw),
   and the helper is referred to as conv (conv (Enum ++ conv Variant ++ Inner)) (c09_go_shape) satisfies the
   judgement outside the recorded classes: C09-go-acronym-target (the conversion changes the definition name of an
   item an alias target / const type mentions), C09-go-acronym-generic (it changes a generic parameter a field /
   payload mentions), C09-go-acronym-inner (the extra pass at the helper's use changes the name), and the rename
   classes of the other theorems *)
Theorem C09_Go_shape_good :
  forall (acrs : list str) (pd : parsed) (obs : c09_obs),
    dom_C09 Go [] pd = true -> known_C09 Go [] acrs pd = None ->
    Proofs.C09_GoAcr.c09_go_shape acrs pd obs -> good_C09 Go [] pd obs = true.
Proof. exact Proofs.C09_GoAcr.c09_go_shape_good_all. Qed.
Print Assumptions C09_Go_shape_good.

(* Go, every program, package, type-mapping and no_pointer_slice configuration, EVERY alphanumeric
   uppercase_acronyms list ([A-Za-z0-9]*: what an acronym is; ga_alnum), on an ASCII program (c09_go_ascii: the
   type_mappings values, the names of the typeshared items and of the struct variants with a helper struct, and
   the type names mentioned in type positions; a Unicode table agreeing with ASCII below 128): outside the
   recorded classes every name spelled in a type position (field types, variant content types, alias targets, const
   types, the ...Inner helper struct, generic arguments) is a generic parameter of the item it stands in, verbatim,
   or exactly the - acronym-converted - name a generated definition is declared under.
   Outside the hypotheses (a non-alphanumeric acronym could straddle `]` or `*` of a printed type; on non-ASCII text
   the byte and char offsets of go.rs:579 drift apart, C07) the conversion has no closed form and nothing is claimed. *)
Theorem C09_Go :
  forall (uc : unicode), unicode_ok uc ->
  forall (cfg : go_config) (pd : parsed),
    forallb (forallb Proofs.GoAcronyms.ga_alnum) (go_uppercase_acronyms cfg) = true ->
    Proofs.C09_GoAcr.c09_go_ascii cfg pd = true ->
    dom_C09 Go [] pd = true -> known_C09 Go [] (go_uppercase_acronyms cfg) pd = None ->
    forall fd : file_decls, go_file_decls uc cfg (Proofs.C09Recon.c09_reconciled pd) = Ok fd ->
      good_C09 Go [] pd (c09_observe Go fd) = true.
Proof. exact Proofs.C09_GoAcr.c09_go_all. Qed.
Print Assumptions C09_Go.

(* its hypotheses are satisfiable on a program whose names the conversion really rewrites, consistently:
   struct UserId; struct Holder<T> { u: Vec<UserId>, t: T, e: ApiEvent }; enum ApiEvent { V1 { a: UserId },
   V2(Option<UserId>) } under [ID, api] declares UserID, APIEvent, APIEventV1Inner, Holder; >= 4 references; good *)
Theorem C09_Go_nonvacuous_acronyms :
  forallb (forallb Proofs.GoAcronyms.ga_alnum) Proofs.C09Witness.w_acr_list = true /\
  Proofs.C09_GoAcr.c09_go_ascii (Proofs.C09Witness.w_go Proofs.C09Witness.w_acr_list) Proofs.C09Witness.w_acr_clean = true /\
  Proofs.C09Witness.c09_nonvacuous_go Proofs.C09Witness.w_acr_list Proofs.C09Witness.w_acr_clean
    (go_file_decls uc_exec (Proofs.C09Witness.w_go Proofs.C09Witness.w_acr_list) (Proofs.C09Recon.c09_reconciled Proofs.C09Witness.w_acr_clean))
    [lit "UserID"; lit "APIEvent"; lit "APIEventV1Inner"; lit "Holder"] = true.
Proof. exact Proofs.C09_GoAcr.c09_go_all_nonvacuous. Qed.
Print Assumptions C09_Go_nonvacuous_acronyms.

(* nothing renamed => no recorded class applies, all languages (with an empty Go acronym list) *)
Theorem C09_no_rename_no_class :
  forall (L : lang) (pfx : str) (pd : parsed),
    (forall e, In e (c09_entities pd) -> c09_renamed_away (c9e_id e) = false) ->
    (forall a, In a (p_aliases pd) -> c09_inline_generic_class L pfx a = None) ->
    known_C09 L pfx [] pd = None.
Proof. exact Proofs.C09Witness.c09_no_rename_known. Qed.
Print Assumptions C09_no_rename_no_class.

(* regression pins of the two classes repaired in core/src/reconcile.rs (former `_refuted` witnesses, same
   programs).  c09_pinned L pfx acrs pd out r := dom_C09 L pfx pd /\ known_C09 L pfx acrs pd = None /\
   out = Ok fd with r among the references of the file /\ good_C09 of the whole file *)

(* struct S (SRen); struct G<T> (GRen) { t: T }; struct H { g: G<S>, .. }: formerly C09-generic-ref
   (`g: G<SRen>` against `interface GRen<T>`); now `g: GRen<SRen>` *)
Theorem C09_generic_ref_fixed :
  Proofs.C09Witness.c09_pinned TypeScript [] [] Proofs.C09Witness.w_prog
    (ts_file_decls uc_exec Proofs.C09Witness.w_ts (Proofs.C09Recon.c09_reconciled Proofs.C09Witness.w_prog))
    {| c9_in := lit "H"; c9_pos := C9Field; c9_name := lit "GRen" |} = true.
Proof. exact Proofs.C09Witness.c09_generic_ref_fixed. Qed.
Print Assumptions C09_generic_ref_fixed.

Theorem C09_generic_ref_fixed_python :
  Proofs.C09Witness.c09_pinned Python [] [] Proofs.C09Witness.w_prog
    (py_file_decls uc_exec {| py_type_mappings := []; py_no_version_header := true; py_version := [] |}
                   (Proofs.C09Recon.c09_reconciled Proofs.C09Witness.w_prog))
    {| c9_in := lit "H"; c9_pos := C9Field; c9_name := lit "GRen" |} = true.
Proof. exact Proofs.C09Witness.c09_generic_ref_fixed_python. Qed.
Print Assumptions C09_generic_ref_fixed_python.

(* the same under the Swift prefix OP: `let g: OPGRen<OPSRen>` *)
Theorem C09_generic_ref_fixed_swift :
  Proofs.C09Witness.c09_pinned Swift (lit "OP") [] Proofs.C09Witness.w_prog
    (sw_file_decls uc_exec {| sw_prefix := lit "OP"; sw_type_mappings := []; sw_default_decorators := []; sw_default_generic_constraints := [];
                              sw_codablevoid_constraints := []; sw_no_version_header := true; sw_version := [] |}
                   (Proofs.C09Recon.c09_reconciled Proofs.C09Witness.w_prog))
    {| c9_in := lit "OPH"; c9_pos := C9Field; c9_name := lit "OPGRen" |} = true.
Proof. exact Proofs.C09Witness.c09_generic_ref_fixed_swift. Qed.
Print Assumptions C09_generic_ref_fixed_swift.

(* type A (ARen) = u32; const LIMIT: A = 5: formerly C09-const-type (`export const LIMIT: A` against
   `export type ARen`); now `LIMIT: ARen` *)
Theorem C09_const_type_fixed :
  Proofs.C09Witness.c09_pinned TypeScript [] [] Proofs.C09Witness.w_prog_const
    (ts_file_decls uc_exec Proofs.C09Witness.w_ts (Proofs.C09Recon.c09_reconciled Proofs.C09Witness.w_prog_const))
    {| c9_in := lit "LIMIT"; c9_pos := C9Const; c9_name := lit "ARen" |} = true.
Proof. exact Proofs.C09Witness.c09_const_type_fixed. Qed.
Print Assumptions C09_const_type_fixed.

Theorem C09_const_type_fixed_python :
  Proofs.C09Witness.c09_pinned Python [] [] Proofs.C09Witness.w_prog_const
    (py_file_decls uc_exec {| py_type_mappings := []; py_no_version_header := true; py_version := [] |}
                   (Proofs.C09Recon.c09_reconciled Proofs.C09Witness.w_prog_const))
    {| c9_in := lit "LIMIT"; c9_pos := C9Const; c9_name := lit "ARen" |} = true.
Proof. exact Proofs.C09Witness.c09_const_type_fixed_python. Qed.
Print Assumptions C09_const_type_fixed_python.

(* refutation witnesses: on the faithful model each recorded class has a program inside dom_C09 whose
   generated file fails the judgement at a reference that the class explains *)

Theorem C09_kotlin_enum_parent_refuted :
  Proofs.C09Witness.c09_witness Kotlin (lit "KP") [] Proofs.C09Witness.w_prog
    (kt_file_decls uc_exec Proofs.C09Witness.w_kt (Proofs.C09Recon.c09_reconciled Proofs.C09Witness.w_prog)) "C09-kotlin-enum-parent" = true.
Proof. exact Proofs.C09Witness.c09_kotlin_enum_parent_refuted. Qed.
Print Assumptions C09_kotlin_enum_parent_refuted.

Theorem C09_kotlin_inner_refuted :
  Proofs.C09Witness.c09_witness Kotlin (lit "KP") [] Proofs.C09Witness.w_prog
    (kt_file_decls uc_exec Proofs.C09Witness.w_kt (Proofs.C09Recon.c09_reconciled Proofs.C09Witness.w_prog)) "C09-kotlin-inner" = true.
Proof. exact Proofs.C09Witness.c09_kotlin_inner_refuted. Qed.
Print Assumptions C09_kotlin_inner_refuted.

Theorem C09_kotlin_alias_refuted :
  Proofs.C09Witness.c09_witness Kotlin (lit "KP") [] Proofs.C09Witness.w_prog
    (kt_file_decls uc_exec Proofs.C09Witness.w_kt (Proofs.C09Recon.c09_reconciled Proofs.C09Witness.w_prog)) "C09-kotlin-alias" = true.
Proof. exact Proofs.C09Witness.c09_kotlin_alias_refuted. Qed.
Print Assumptions C09_kotlin_alias_refuted.

Theorem C09_kotlin_inline_generic_refuted :
  Proofs.C09Witness.c09_witness Kotlin (lit "KP") [] Proofs.C09Witness.w_prog_inline
    (kt_file_decls uc_exec Proofs.C09Witness.w_kt (Proofs.C09Recon.c09_reconciled Proofs.C09Witness.w_prog_inline)) "C09-kotlin-inline-generic" = true.
Proof. exact Proofs.C09Witness.c09_kotlin_inline_generic_refuted. Qed.
Print Assumptions C09_kotlin_inline_generic_refuted.

Theorem C09_scala_enum_parent_refuted :
  Proofs.C09Witness.c09_witness Scala [] [] Proofs.C09Witness.w_prog
    (sc_file_decls uc_exec Proofs.C09Witness.w_sc (Proofs.C09Recon.c09_reconciled Proofs.C09Witness.w_prog)) "C09-scala-enum-parent" = true.
Proof. exact Proofs.C09Witness.c09_scala_enum_parent_refuted. Qed.
Print Assumptions C09_scala_enum_parent_refuted.

Theorem C09_scala_inner_refuted :
  Proofs.C09Witness.c09_witness Scala [] [] Proofs.C09Witness.w_prog
    (sc_file_decls uc_exec Proofs.C09Witness.w_sc (Proofs.C09Recon.c09_reconciled Proofs.C09Witness.w_prog)) "C09-scala-inner" = true.
Proof. exact Proofs.C09Witness.c09_scala_inner_refuted. Qed.
Print Assumptions C09_scala_inner_refuted.

Theorem C09_scala_alias_refuted :
  Proofs.C09Witness.c09_witness Scala [] [] Proofs.C09Witness.w_prog
    (sc_file_decls uc_exec Proofs.C09Witness.w_sc (Proofs.C09Recon.c09_reconciled Proofs.C09Witness.w_prog)) "C09-scala-alias" = true.
Proof. exact Proofs.C09Witness.c09_scala_alias_refuted. Qed.
Print Assumptions C09_scala_alias_refuted.

Theorem C09_go_alias_refuted :
  Proofs.C09Witness.c09_witness Go [] [] Proofs.C09Witness.w_prog
    (go_file_decls uc_exec (Proofs.C09Witness.w_go []) (Proofs.C09Recon.c09_reconciled Proofs.C09Witness.w_prog)) "C09-go-alias" = true.
Proof. exact Proofs.C09Witness.c09_go_alias_refuted. Qed.
Print Assumptions C09_go_alias_refuted.

Theorem C09_go_enum_refuted :
  Proofs.C09Witness.c09_witness Go [] [] Proofs.C09Witness.w_prog
    (go_file_decls uc_exec (Proofs.C09Witness.w_go []) (Proofs.C09Recon.c09_reconciled Proofs.C09Witness.w_prog)) "C09-go-enum" = true.
Proof. exact Proofs.C09Witness.c09_go_enum_refuted. Qed.
Print Assumptions C09_go_enum_refuted.

Theorem C09_go_acronym_target_refuted :
  Proofs.C09Witness.c09_witness Go [] [lit "id"] Proofs.C09Witness.w_prog
    (go_file_decls uc_exec (Proofs.C09Witness.w_go [lit "id"]) (Proofs.C09Recon.c09_reconciled Proofs.C09Witness.w_prog)) "C09-go-acronym-target" = true.
Proof. exact Proofs.C09Witness.c09_go_acronym_target_refuted. Qed.
Print Assumptions C09_go_acronym_target_refuted.

(* Go's acronym conversion is not idempotent and the ...Inner helper gets a different number of passes at
   its definition and at its use: definition EXYZWQrInner, reference EXYZWQRInner *)
Theorem C09_go_acronym_inner_refuted :
  Proofs.C09Witness.c09_witness Go [] Proofs.C09Witness.w_acrs Proofs.C09Witness.w_prog_acr
    (go_file_decls uc_exec (Proofs.C09Witness.w_go Proofs.C09Witness.w_acrs) (Proofs.C09Recon.c09_reconciled Proofs.C09Witness.w_prog_acr))
    "C09-go-acronym-inner" = true.
Proof. exact Proofs.C09Witness.c09_go_acronym_inner_refuted. Qed.
Print Assumptions C09_go_acronym_inner_refuted.

(* a generic parameter is declared unconverted (`type Foo[TId any] struct`) and converted where a field mentions it
   (`X TID`): struct Foo<TId> { x: TId, v: Vec<UserId> } under uppercase_acronyms = [ID] *)
Theorem C09_go_acronym_generic_refuted :
  Proofs.C09Witness.c09_witness Go [] [lit "ID"] Proofs.C09Witness.w_prog_gen
    (go_file_decls uc_exec (Proofs.C09Witness.w_go [lit "ID"]) (Proofs.C09Recon.c09_reconciled Proofs.C09Witness.w_prog_gen))
    "C09-go-acronym-generic" = true.
Proof. exact Proofs.C09Witness.c09_go_acronym_generic_refuted. Qed.
Print Assumptions C09_go_acronym_generic_refuted.

(* the hypotheses of C09_Kotlin are satisfiable on a non-trivial program (mutual references, generic
   struct, tagged enum with a struct variant, alias, one renamed struct, prefix KP) *)
Theorem C09_Kotlin_nonvacuous :
  dom_C09 Kotlin (lit "KP") Proofs.C09Witness.w_clean = true /\ known_C09 Kotlin (lit "KP") [] Proofs.C09Witness.w_clean = None /\
  exists fd, kt_file_decls uc_exec Proofs.C09Witness.w_kt (Proofs.C09Recon.c09_reconciled Proofs.C09Witness.w_clean) = Ok fd /\
             Nat.leb 8 (List.length (c9_refs (c09_observe Kotlin fd))) = true /\
             good_C09 Kotlin (lit "KP") Proofs.C09Witness.w_clean (c09_observe Kotlin fd) = true.
Proof. exact Proofs.C09Witness.C09_Kotlin_nonvacuous_ex. Qed.
Print Assumptions C09_Kotlin_nonvacuous.

(* the hypotheses of the five other theorems are satisfiable on the same non-trivial program: inside
   dom_C09, in no recorded class, generated by the model with at least 8 references (Swift under the
   prefix OP, Go with an empty acronym list), and the judgement holds *)
Theorem C09_TypeScript_nonvacuous :
  Proofs.C09Witness.c09_nonvacuous TypeScript [] Proofs.C09Witness.w_clean
    (ts_file_decls uc_exec Proofs.C09Witness.w_ts (Proofs.C09Recon.c09_reconciled Proofs.C09Witness.w_clean)) = true.
Proof. exact Proofs.C09Witness.C09_TypeScript_nonvacuous_ex. Qed.
Print Assumptions C09_TypeScript_nonvacuous.

Theorem C09_Scala_nonvacuous :
  Proofs.C09Witness.c09_nonvacuous Scala [] Proofs.C09Witness.w_clean
    (sc_file_decls uc_exec Proofs.C09Witness.w_sc (Proofs.C09Recon.c09_reconciled Proofs.C09Witness.w_clean)) = true.
Proof. exact Proofs.C09Witness.C09_Scala_nonvacuous_ex. Qed.
Print Assumptions C09_Scala_nonvacuous.

Theorem C09_Python_nonvacuous :
  Proofs.C09Witness.c09_nonvacuous Python [] Proofs.C09Witness.w_clean
    (py_file_decls uc_exec Proofs.C09Witness.w_py (Proofs.C09Recon.c09_reconciled Proofs.C09Witness.w_clean)) = true.
Proof. exact Proofs.C09Witness.C09_Python_nonvacuous_ex. Qed.
Print Assumptions C09_Python_nonvacuous.

Theorem C09_Swift_nonvacuous :
  Proofs.C09Witness.c09_nonvacuous Swift (lit "OP") Proofs.C09Witness.w_clean
    (sw_file_decls uc_exec Proofs.C09Witness.w_sw (Proofs.C09Recon.c09_reconciled Proofs.C09Witness.w_clean)) = true.
Proof. exact Proofs.C09Witness.C09_Swift_nonvacuous_ex. Qed.
Print Assumptions C09_Swift_nonvacuous.

Theorem C09_Go_nonvacuous :
  Proofs.C09Witness.c09_nonvacuous Go [] Proofs.C09Witness.w_clean
    (go_file_decls uc_exec (Proofs.C09Witness.w_go []) (Proofs.C09Recon.c09_reconciled Proofs.C09Witness.w_clean)) = true.
Proof. exact Proofs.C09Witness.C09_Go_nonvacuous_ex. Qed.
Print Assumptions C09_Go_nonvacuous.


(* ================================================================ FOLDER MODE (`--output-folder`, one file per crate) *)

(* Vocabulary (Spec/C09MultiSpec.v; the specification never calls the model).
   arrivals                   what the per-file front end sends to the collector: (crate, the file's annotated items and the
                              import candidates that survive in it - (d, N): the file says `use d::..::N` or the path d::..::N
                              and mentions N; (d, GLOB): a glob import `use d::..::GLOB`.  parse_workspace uc T ign ho_file ws = Ok arrivals for
                              every workspace (Props/C07.C07_workspace_parse_total).
   multi_crates ho arrivals   collector + reconcile_aliases, the per-crate import set iterated in the order ho (any order)
   c9m_denotes ws b f n       the crate whose type a mention of the Rust name n in file f of crate b denotes: the crate f imports
                              n from explicitly, else b itself if it has a type n, else the first crate f glob-imports that has one
   c9m_emitted_name ws c n    the name crate c's generated file defines its type n under (after serde(rename), before the prefix)
   c9m_spelling ws b f gs n   what the mention must be spelled with: n itself if it is one of the generic parameters gs of the
                              owner, the emitted name of the denoted definition if n denotes a typeshared type, None otherwise
   c9m_known ws b f gs n      the decidable class of the mention, None outside all of them: C09-multi-generic-shadow (a generic
                              parameter named like a serde-renamed type of the workspace), C09-multi-split-scope (the files of
                              crate b do not agree on an explicit import of n: the tool looks names up in the import set of the
                              whole crate), C09-multi-import-over-own (n imported explicitly from a crate that leaves it alone
                              while b serde-renames a type n of its own: the tool falls back to the own rename),
                              C09-multi-glob-renamed (n reached only through `use d::*;` and d generates it under another name:
                              a glob import is never a rename candidate), C09-multi-two-names (the denoted crate generates two
                              types of the Rust name n under different names)
   c9m_ids_wf                 an item that is not serde-renamed is generated under its Rust name (true of every parsed source) *)

(* check_type (reconcile.rs:126) rewrites the ids a type mentions - Simple ids and the id of a Generic, at any nesting
   depth - through resolve_renamed and changes nothing else: same mentions, same forms, same order *)
Theorem C09_multi_reconciled_ids :
  forall (cn : str) (rn : renames) (im : list imported) (t : rtype),
    c09_type_ids (check_type cn rn im t) =
    map (fun fi => (fst fi, match resolve_renamed cn rn im (snd fi) with Some r => r | None => snd fi end)) (c09_type_ids t).
Proof. exact Proofs.C09Multi.c9m_check_type_ids. Qed.
Print Assumptions C09_multi_reconciled_ids.

(* reconcile_aliases in folder mode, all languages, every workspace, every iteration order of the per-crate import sets:
   every name (form, i') mentioned by a type the back end receives for a type position tp' of crate b - field, variant
   payload, struct-variant field, alias target, const type; Simple id or id of a Generic, at any nesting depth - stands
   at a type position tp (same owner, generic parameters, position kind) of a source file of b, for a mention (form, i)
   there; and for EVERY source file f of b that has this type position: if the mention is in no class (c9m_known) and
   the specification has a spelling s for it (c9m_spelling: i is a generic parameter of the owner - then s = i - or
   denotes a typeshared type of crate d = c9m_denotes .. - b itself or another crate - then s = c9m_emitted_name ws d i),
   then i' = s.  Mentions denoting own types and imported ones alike. *)
Theorem C09_multi_reconciled_mentions :
  forall (ho : list imported -> list imported) (arrivals : list (str * parsed)),
    Proofs.C14Front.oracle_ok ho -> c9m_ids_wf arrivals = true ->
    forall (b : str) (pd' : parsed), In (b, pd') (multi_crates ho arrivals) ->
    forall (tp' : c09_tpos) (form : c09_form) (i' : str),
      In tp' (c09_tposs pd') -> In (form, i') (c09_type_ids (c9t_type tp')) ->
      exists (tp : c09_tpos) (i : str),
        c9t_owner tp' = c9t_owner tp /\ c9t_generics tp' = c9t_generics tp /\ c9t_pos tp' = c9t_pos tp /\
        In (form, i) (c09_type_ids (c9t_type tp)) /\
        (exists f, In (b, f) arrivals /\ In tp (c09_tposs f)) /\
        (forall f, In (b, f) arrivals -> In tp (c09_tposs f) ->
           c9m_known arrivals b f (c9t_generics tp) i = None ->
           forall s, c9m_spelling arrivals b f (c9t_generics tp) i = Some s -> i' = s).
Proof. exact Proofs.C09Multi.c9m_multi_reconciled_mentions. Qed.
Print Assumptions C09_multi_reconciled_mentions.

(* regression pin and non-vacuity (fix 23's former witness, by `use a::A2;` and by the path `a::A2`; A2 is
   #[serde(rename = "A2Renamed")] in crate a): the workspace is well-formed and in no class (wm_dom = (c9m_ids_wf,
   c9m_known_ws)), the mention of A2 in my_crate denotes crate a's type and must be spelled A2Renamed, and my_crate.ts says
   exactly `import { A2Renamed } from "./a";` and `f: A2Renamed;` - reference AND import; a.ts defines A2Renamed *)
Theorem C09_multi_renamed_import_pin :
  Proofs.C09MultiWitness.wm_dom Proofs.C14Witness.ws_renamed = Some (true, None) /\
  Proofs.C09MultiWitness.wm_dom Proofs.C14Witness.ws_renamed_path = Some (true, None) /\
  Proofs.C09MultiWitness.wm_spec Proofs.C14Witness.ws_renamed Proofs.C14Witness.MY (lit "A2") = [(Some (lit "a"), Some (lit "A2Renamed"), None)] /\
  Proofs.C09MultiWitness.wm_spec Proofs.C14Witness.ws_renamed_path Proofs.C14Witness.MY (lit "A2") = [(Some (lit "a"), Some (lit "A2Renamed"), None)] /\
  Proofs.C09MultiWitness.wm_ts_text Proofs.C14Witness.ws_renamed Proofs.C14Witness.MY = Some Proofs.C09MultiWitness.MY_TS /\
  Proofs.C09MultiWitness.wm_ts_text Proofs.C14Witness.ws_renamed_path Proofs.C14Witness.MY = Some Proofs.C09MultiWitness.MY_TS /\
  match Proofs.C09MultiWitness.wm_ts_text Proofs.C14Witness.ws_renamed (lit "a") with
  | Some t => contains_sub (lit "export interface A2Renamed {") t | None => false end = true.
Proof. exact Proofs.C09MultiWitness.renamed_import_pin. Qed.
Print Assumptions C09_multi_renamed_import_pin.

(* the pinned text, spelled out *)
Theorem C09_multi_renamed_import_text :
  Proofs.C09MultiWitness.MY_TS =
    (lit "import { A2Renamed } from ""./a"";" ++ [10%N; 10%N] ++
     lit "export interface B1 {" ++ [10%N; 9%N] ++ lit "f: A2Renamed;" ++ [10%N] ++ lit "}" ++ [10%N; 10%N])%list.
Proof. reflexivity. Qed.
Print Assumptions C09_multi_renamed_import_text.

(* regression pin, the workspace of seeded change C09_d (crate a: A2 renamed A2Renamed; crate b: `use a::*;`, its OWN
   struct A2, struct B1 { f: A2 }): in no class; the mention denotes b's own type (a local definition shadows a glob
   import) and must be spelled A2; the exact text of b.ts - `f: A2;` under `export interface A2` *)
Theorem C09_multi_local_shadows_glob_pin :
  Proofs.C09MultiWitness.wm_dom Proofs.C09MultiWitness.ws_c09d = Some (true, None) /\
  Proofs.C09MultiWitness.wm_spec Proofs.C09MultiWitness.ws_c09d (lit "b") (lit "A2") = [(Some (lit "b"), Some (lit "A2"), None)] /\
  Proofs.C09MultiWitness.wm_ts_text Proofs.C09MultiWitness.ws_c09d (lit "b") =
    Some (lit "import { A1, A2Renamed, A3 } from ""./a"";" ++ [10%N; 10%N] ++
          lit "export interface A2 {" ++ [10%N; 9%N] ++ lit "z: number;" ++ [10%N] ++ lit "}" ++ [10%N; 10%N] ++
          lit "export interface B1 {" ++ [10%N; 9%N] ++ lit "f: A2;" ++ [10%N] ++ lit "}" ++ [10%N; 10%N])%list.
Proof. exact Proofs.C09MultiWitness.c09d_pin. Qed.
Print Assumptions C09_multi_local_shadows_glob_pin.

(* the class C09-multi-glob-renamed is needed (and is a defect of the unchanged tree): `use a::*;` and a reference to a's
   renamed A2, no A2 in the crate itself - the mention denotes a's type, defined (and imported) as A2Renamed; the model,
   like the tool, writes `f: A2;` *)
Theorem C09_multi_glob_renamed_refuted :
  Proofs.C09MultiWitness.wm_dom Proofs.C14Witness.ws_glob_renamed = Some (true, Some "C09-multi-glob-renamed"%string) /\
  Proofs.C09MultiWitness.wm_spec Proofs.C14Witness.ws_glob_renamed Proofs.C14Witness.MY (lit "A2") =
    [(Some (lit "a"), Some (lit "A2Renamed"), Some "C09-multi-glob-renamed"%string)] /\
  Proofs.C09MultiWitness.wm_ts_text Proofs.C14Witness.ws_glob_renamed Proofs.C14Witness.MY =
    Some (lit "import { A1, A2Renamed, A3 } from ""./a"";" ++ [10%N; 10%N] ++
          lit "export interface B1 {" ++ [10%N; 9%N] ++ lit "f: A2;" ++ [10%N] ++ lit "}" ++ [10%N; 10%N])%list.
Proof. exact Proofs.C09MultiWitness.glob_renamed_refuted. Qed.
Print Assumptions C09_multi_glob_renamed_refuted.

(* Kotlin on fix 23's former witness: without a prefix reference, import and definition agree (exact text); under the
   prefix KP the reference is KPA2Renamed - what a.kt declares - and the import line names KPA2Renamed as well (exact text;
   before fix 26 of /repo, kotlin.rs:301 write_imports, it named the unprefixed A2Renamed, which a.kt does not declare) *)
Theorem C09_multi_renamed_import_kotlin_pin :
  Proofs.C09MultiWitness.wm_kt_text [] Proofs.C14Witness.ws_renamed Proofs.C14Witness.MY =
    Some (lit "package p.my_crate" ++ [10%N; 10%N] ++ lit "import kotlinx.serialization.Serializable" ++ [10%N] ++
          lit "import kotlinx.serialization.SerialName" ++ [10%N; 10%N] ++ lit "import p.a.A2Renamed" ++ [10%N; 10%N] ++
          lit "@Serializable" ++ [10%N] ++ lit "data class B1 (" ++ [10%N; 9%N] ++ lit "val f: A2Renamed" ++ [10%N] ++ lit ")" ++ [10%N; 10%N])%list /\
  Proofs.C09MultiWitness.wm_kt_text (lit "KP") Proofs.C14Witness.ws_renamed Proofs.C14Witness.MY =
    Some (lit "package p.my_crate" ++ [10%N; 10%N] ++ lit "import kotlinx.serialization.Serializable" ++ [10%N] ++
          lit "import kotlinx.serialization.SerialName" ++ [10%N; 10%N] ++ lit "import p.a.KPA2Renamed" ++ [10%N; 10%N] ++
          lit "@Serializable" ++ [10%N] ++ lit "data class KPB1 (" ++ [10%N; 9%N] ++ lit "val f: KPA2Renamed" ++ [10%N] ++ lit ")" ++ [10%N; 10%N])%list /\
  match Proofs.C09MultiWitness.wm_kt_text (lit "KP") Proofs.C14Witness.ws_renamed Proofs.C14Witness.MY with
  | Some t => negb (contains_sub (lit "import p.a.A2Renamed") t)
  | None => false
  end = true /\
  match Proofs.C09MultiWitness.wm_kt_text (lit "KP") Proofs.C14Witness.ws_renamed (lit "a") with
  | Some t => contains_sub (lit "data class KPA2Renamed (") t | None => false end = true.
Proof. exact Proofs.C09MultiWitness.renamed_import_kotlin_pin. Qed.
Print Assumptions C09_multi_renamed_import_kotlin_pin.

(* TypeScript in folder mode (no prefix), every workspace, every iteration order, every type-mapping configuration, EVERY
   state the TypeScript value is in when crate b is reached (it only collects the types that need a reviver): the file
   of crate b is header, import lines, one rendered declaration per item of the reconciled crate, trailer; every
   struct / enum / alias among them is declared under the emitted name of a type of b (c9m_def_ok), and every name spelled
   in a type position - member types (those of inlined struct variants included), variant payloads, alias targets, const
   types, generic ids and arguments - stands for a mention in a source file of b and, outside the classes of c9m_known, is
   spelled as the specification says (c9m_ref_ok with the empty prefix): a generic parameter of the owner verbatim, a
   typeshared type - of b or of another crate - under the name the file of the crate it denotes defines it under.
   (Names the type mappings replace are not names of the file: they are printed as raw text.) *)
Theorem C09_multi_TypeScript :
  forall (uc : unicode) (cfg : ts_config) (ho : list imported -> list imported) (arrivals : list (str * parsed)),
    Proofs.C14Front.oracle_ok ho -> c9m_ids_wf arrivals = true ->
    forall (b : str) (pd' : parsed), In (b, pd') (multi_crates ho arrivals) ->
    forall (st : ts_state) (im : scoped) (text : str) (st' : ts_state),
      ts_generate_multi uc cfg st im pd' = Ok (text, st') ->
      exists ds : list ts_decl,
        text = (ts_begin_file cfg ++ ts_write_imports im ++ List.concat (map ts_render_decl ds) ++ ts_end_file st')%list /\
        Forall (fun d => (c09_is_def (ts_obs d) = true -> c9m_def_ok arrivals b [] (d_name (ts_obs d))) /\
                         (forall r, In r (c09_decl_refs TypeScript (ts_obs d)) -> c9m_ref_ok arrivals b [] r)) ds.
Proof. exact Proofs.C09MultiTS.c9m_ts_file. Qed.
Print Assumptions C09_multi_TypeScript.

(* the decision layer alone: one item of the reconciled crate, any printer state *)
Theorem C09_multi_TypeScript_item :
  forall (uc : unicode) (cfg : ts_config) (ho : list imported -> list imported) (arrivals : list (str * parsed)),
    Proofs.C14Front.oracle_ok ho -> c9m_ids_wf arrivals = true ->
    forall (b : str) (pd' : parsed), In (b, pd') (multi_crates ho arrivals) ->
    forall (it' : ritem) (d : ts_decl) (s1 s2 : ts_state),
      In it' (items_of pd') -> ts_decl_of uc cfg it' s1 = Ok (d, s2) ->
      (c09_is_def (ts_obs d) = true -> c9m_def_ok arrivals b [] (d_name (ts_obs d))) /\
      (forall r, In r (c09_decl_refs TypeScript (ts_obs d)) -> c9m_ref_ok arrivals b [] r).
Proof. exact Proofs.C09MultiTS.c9m_ts_item. Qed.
Print Assumptions C09_multi_TypeScript_item.

(* the name C14's specification expects a type N of crate d to be imported under (renamed_in, Spec/C14Spec.v, on the syntax-level
   view of the workspace) is the name d's generated file defines it under (c9m_emitted_name, on the arrivals), whenever d
   generates its types of the Rust name N under one name *)
Theorem C09_multi_emitted_name_is_import_name :
  forall (uc : unicode) (T ign : list str) (ho_file : list imported -> list imported) (ws : list ws_entry) (arrivals : list (str * parsed)),
    parse_workspace uc T ign ho_file ws = Ok arrivals ->
    forall d n, c9m_two_names arrivals d n = false ->
      Spec.C14Spec.renamed_in (Proofs.C14Main.c14_infos uc T ws) d n = c9m_emitted_name arrivals d n.
Proof. exact Proofs.C09MultiC14.c9m_renamed_in_emitted. Qed.
Print Assumptions C09_multi_emitted_name_is_import_name.

(* C09 composed with C14_imports_complete, TypeScript, the whole folder-mode pipeline (every workspace, --target-os list,
   type-mapping configuration, all iteration orders of the three hash containers, every state of the TypeScript value):
   the file generated for crate c (a) spells every reference as C09_multi_TypeScript says - own types and imported ones under
   the name the defining file declares - and (b) for every cross-crate reference v that C14's specification finds in a source
   file of c and that lies in dom_C14 (named by `use` / path, or covered by a glob), the import lines - which are part of
   this very text - import it from its crate (rv_from v) under rv_generated_name v, and that name is c9m_emitted_name of the
   target: spelled as in the defining file AND imported from it. *)
Theorem C09_multi_TypeScript_spelled_and_imported :
  forall (uc : unicode), unicode_ok uc ->
  forall (cfg : ts_config) (T ign : list str) (ho_file ho_crate : list imported -> list imported) (hc : crate_types -> crate_types)
         (ws : list ws_entry) (arrivals : list (str * parsed)),
    parse_workspace uc T ign ho_file ws = Ok arrivals ->
    Proofs.C14Front.oracle_ok ho_file -> Proofs.C14Front.oracle_ok ho_crate -> Proofs.C14Front.oracle_ok hc ->
    c9m_ids_wf arrivals = true ->
    forall c pd, In (c, pd) (multi_crates ho_crate arrivals) ->
    let imports := crate_imports hc (multi_crates ho_crate arrivals) c pd in
    forall st text st', ts_generate_multi uc cfg st imports pd = Ok (text, st') ->
      (exists ds : list ts_decl,
         text = (ts_begin_file cfg ++ ts_write_imports imports ++ List.concat (map ts_render_decl ds) ++ ts_end_file st')%list /\
         Forall (fun d => (c09_is_def (ts_obs d) = true -> c9m_def_ok arrivals c [] (d_name (ts_obs d))) /\
                          (forall r, In r (c09_decl_refs TypeScript (ts_obs d)) -> c9m_ref_ok arrivals c [] r)) ds) /\
      (forall v, In v (Spec.C14Spec.judge_crate (Proofs.C14Main.c14_infos uc T ws) ign c (scoped_pairs imports)) ->
         Spec.C14Spec.rv_dom v = true ->
         Spec.C14Spec.rv_imported v = true /\
         (c9m_two_names arrivals (Spec.C14Spec.rv_from v) (Spec.C14Spec.rv_name v) = false ->
          Spec.C14Spec.rv_generated_name v = c9m_emitted_name arrivals (Spec.C14Spec.rv_from v) (Spec.C14Spec.rv_name v))).
Proof. exact Proofs.C09MultiC14.c9m_ts_spelled_and_imported. Qed.
Print Assumptions C09_multi_TypeScript_spelled_and_imported.


(* ================================================================ FOLDER MODE, the other languages (Spec/C09MultiLangSpec.v)

   Vocabulary on top of Spec/C09MultiSpec.v.
   c9m_entities ws b          the things the file of crate b defines: one per struct / enum / alias of b's source files, one
                              <Enum><Variant>Inner helper per struct variant
   c9m_def_name L pfx e       the name the tool declares e under: prefix ++ (generated name | Rust name: table c09_def_which,
                              Kotlin / Scala typealias, Go alias and enum) ++ suffix
   c9m_lknown L pfx ws b f tp i   the class of the mention i at the type position tp of file f: those of c9m_known, then
                              C09-multi-emitted-generic (NEW, a defect under a prefix: the name the mention must be spelled with
                              is the name of a generic parameter of the owner - the printer decides "generic parameter or
                              prefixed name" on the REWRITTEN name and prints it bare), then C09-kotlin-inline-generic (the
                              single-file finding: a generic parameter inside a JvmInline value class gets the prefix)
   c9m_lref_ok L ws b pfx r   a reference r of the file of crate b is (a) a MENTION: it stands for a mention (form, i) at a type
                              position tp (same position kind) of a source file f of b and, when that mention is in no class
                              and the specification has a spelling s for it, is spelled s (generic parameter, verbatim) or
                              pfx ++ s (the emitted name of the denoted definition - of b or of another crate - with the prefix);
                              or (b) the SEALED PARENT of an enum e of b: it stands in the declaration of e and - outside
                              c09_parent_site_class, the single-file finding C09-<lang>-enum-parent - is spelled with that
                              declaration's name; or (c) the HELPER of a struct variant of b, spelled - outside
                              c09_inner_site_class, C09-<lang>-inner - with the name the helper is declared under; or (d) a
                              TYPE ARGUMENT of the helper: a generic parameter of the enum, verbatim
   c9m_ldef_ok L ws b pfx d   a definition d of the file of crate b is c9m_def_name of an entity of b that L declares
   good_C09_multi L pfx ws b obs   the BOOLEAN judgement on the observation of a generated file (c09_observe): every definition
                              c9m_ldef_okb, every reference c9m_lref_okb
   c9m_lknown_ws L pfx ws     the first class of any mention / definition / parent / helper of the workspace *)

(* the boolean judgement IS the Prop-level one *)
Theorem C09_multi_good_reflect :
  forall (L : lang) (pfx : str) (ws : c9m_ws) (b : str) (obs : c09_obs),
    good_C09_multi L pfx ws b obs = true <->
    (forall d, In d (c9_defs obs) -> c9m_ldef_ok L ws b pfx d) /\ (forall r, In r (c9_refs obs) -> c9m_lref_ok L ws b pfx r).
Proof. exact Proofs.C09MultiLang.good_C09_multi_reflect. Qed.
Print Assumptions C09_multi_good_reflect.

Theorem C09_multi_ref_reflect :
  forall (L : lang) (ws : c9m_ws) (b pfx : str) (r : c09_ref), c9m_lref_okb L ws b pfx r = true <-> c9m_lref_ok L ws b pfx r.
Proof. exact Proofs.C09MultiLang.c9m_lref_reflect. Qed.
Print Assumptions C09_multi_ref_reflect.

Theorem C09_multi_def_reflect :
  forall (L : lang) (ws : c9m_ws) (b pfx d : str), c9m_ldef_okb L ws b pfx d = true <-> c9m_ldef_ok L ws b pfx d.
Proof. exact Proofs.C09MultiLang.c9m_ldef_reflect. Qed.
Print Assumptions C09_multi_def_reflect.

(* with the empty prefix and no class of its own the mention clause is c9m_ref_ok of the TypeScript theorem: outside the own-crate
   class of definitions (c9m_def_class: a serde-renamed type declared under its Rust name, the findings C09-kotlin-alias,
   C09-scala-alias, C09-go-alias, C09-go-enum) a type is declared under prefix ++ generated name *)
Theorem C09_multi_def_name_wanted :
  forall (L : lang) (pfx : str) (e : c09_entity), c9e_kind e <> C9KInner -> c9m_def_class L e = None ->
    c9m_def_name L pfx e = (pfx ++ renamed (c9e_id e) ++ c9e_suffix e)%list.
Proof. exact Proofs.C09MultiLang.c9m_def_name_wanted. Qed.
Print Assumptions C09_multi_def_name_wanted.

(* all languages, the language-independent half: if every declaration of the file generated for crate b from the reconciled
   data pd' has the SHAPE c9l_decl_ok - declared under the table's name of an entity of pd'; every reference (a) the id i' a type
   position of pd' mentions, verbatim if i' is a generic parameter of the owner, else prefix ++ i', (b) the parent, (c) the helper,
   (d) a generic parameter passed to the helper, as the table says - then the file is good.  That the declarations HAVE this shape
   is a fact about the back end alone, proved per language for EVERY program pd' *)
Theorem C09_multi_shape_good :
  forall (L : lang) (pfx : str) (ho : list imported -> list imported) (arrivals : list (str * parsed)) (b : str) (pd' : parsed) (fd : file_decls),
    Proofs.C14Front.oracle_ok ho -> c9m_ids_wf arrivals = true -> In (b, pd') (multi_crates ho arrivals) ->
    (forall d, In d (fd_decls fd) -> Proofs.C09MultiLang.c9l_decl_ok L pfx pd' d) ->
    good_C09_multi L pfx arrivals b (c09_observe L fd) = true.
Proof. exact Proofs.C09MultiLang.c9l_file_good. Qed.
Print Assumptions C09_multi_shape_good.

(* Kotlin in folder mode, every workspace, every iteration order, every configuration (prefix, package, type mappings): the file
   kt_generate_multi writes for crate b is the header of the crate's package, the import lines and the rendered declarations of
   kt_decls - those single-file mode observes (kt_file_decls) -; every definition and every reference of every declaration is
   judged good (c9m_ldef_ok / c9m_lref_ok under kt_prefix cfg), and so is the observation of the file by the boolean judgement.
   No hypothesis on classes: they are inside the judgement, mention by mention. *)
Theorem C09_multi_Kotlin :
  forall (uc : unicode) (cfg : kt_config) (ho : list imported -> list imported) (arrivals : list (str * parsed)),
    Proofs.C14Front.oracle_ok ho -> c9m_ids_wf arrivals = true ->
    forall (b : str) (pd' : parsed), In (b, pd') (multi_crates ho arrivals) ->
    forall (c : str) (im : scoped) (text : str), kt_generate_multi uc cfg c im pd' = Ok text ->
    exists (ds : list kt_decl) (fd : file_decls),
      kt_decls uc cfg pd' = Ok ds /\ kt_file_decls uc cfg pd' = Ok fd /\ fd_decls fd = map kt_obs ds /\
      text = (kt_render_header (Proofs.C12MultiStateless.kt_header_multi cfg c) ++ kt_write_imports cfg im ++ List.concat (map kt_render_decl ds))%list /\
      Forall (fun d => (c09_is_def (kt_obs d) = true -> c9m_ldef_ok Kotlin arrivals b (kt_prefix cfg) (d_name (kt_obs d))) /\
                       (forall r, In r (c09_decl_refs Kotlin (kt_obs d)) -> c9m_lref_ok Kotlin arrivals b (kt_prefix cfg) r)) ds /\
      good_C09_multi Kotlin (kt_prefix cfg) arrivals b (c09_observe Kotlin fd) = true.
Proof. exact Proofs.C09MultiKotlin.c9m_kt_file. Qed.
Print Assumptions C09_multi_Kotlin.

(* the back-end half for Kotlin alone: the declarations of ANY program have the shape *)
Theorem C09_multi_Kotlin_shape :
  forall (uc : unicode) (cfg : kt_config) (pd' : parsed) (ds : list kt_decl), kt_decls uc cfg pd' = Ok ds ->
    forall d, In d ds -> Proofs.C09MultiLang.c9l_decl_ok Kotlin (kt_prefix cfg) pd' (kt_obs d).
Proof. exact Proofs.C09MultiKotlin.ktl_decls. Qed.
Print Assumptions C09_multi_Kotlin_shape.

(* C09 composed with C14, Kotlin, the whole folder-mode pipeline (every workspace, --target-os list, configuration, prefix, all
   iteration orders of the three hash containers): the file generated for crate c (a) is good - own types and imported ones are
   spelled prefix ++ the name the defining file declares -, its import block being c14_kt_import_block of the import pairs;
   (b) every cross-crate reference v that C14's specification finds in a source file of c and that lies in dom_C14 is among those
   pairs, from its crate (rv_from v) under rv_generated_name v = c9m_emitted_name of the target; and (c) every pair (k, n) - printed
   `import <package>.<k>.<prefix><n>` - names a type item of crate k that k's file, whatever its imports, declares under
   kt_prefix ++ n (outside the open finding C09-kotlin-alias): spelled as in the defining file AND imported from it, prefix
   included (since fix 26 of /repo). *)
Theorem C09_multi_Kotlin_spelled_and_imported :
  forall (uc : unicode), unicode_ok uc ->
  forall (cfg : kt_config) (T ign : list str) (ho_file ho_crate : list imported -> list imported) (hc : crate_types -> crate_types)
         (ws : list ws_entry) (arrivals : list (str * parsed)),
    parse_workspace uc T ign ho_file ws = Ok arrivals ->
    Proofs.C14Front.oracle_ok ho_file -> Proofs.C14Front.oracle_ok ho_crate -> Proofs.C14Front.oracle_ok hc ->
    c9m_ids_wf arrivals = true ->
    forall c pd, In (c, pd) (multi_crates ho_crate arrivals) ->
    let imports := crate_imports hc (multi_crates ho_crate arrivals) c pd in
    forall text, kt_generate_multi uc cfg c imports pd = Ok text ->
      (exists ds fd,
         kt_decls uc cfg pd = Ok ds /\ kt_file_decls uc cfg pd = Ok fd /\ fd_decls fd = map kt_obs ds /\
         text = (kt_render_header (Proofs.C12MultiStateless.kt_header_multi cfg c) ++
                 Spec.C14KotlinSpec.c14_kt_import_block (kt_package cfg) (kt_prefix cfg) (scoped_pairs imports) ++
                 List.concat (map kt_render_decl ds))%list /\
         good_C09_multi Kotlin (kt_prefix cfg) arrivals c (c09_observe Kotlin fd) = true) /\
      (forall v, In v (Spec.C14Spec.judge_crate (Proofs.C14Main.c14_infos uc T ws) ign c (scoped_pairs imports)) ->
         Spec.C14Spec.rv_dom v = true ->
         Spec.C14Spec.rv_imported v = true /\
         (c9m_two_names arrivals (Spec.C14Spec.rv_from v) (Spec.C14Spec.rv_name v) = false ->
          Spec.C14Spec.rv_generated_name v = c9m_emitted_name arrivals (Spec.C14Spec.rv_from v) (Spec.C14Spec.rv_name v))) /\
      (forall k n, In (k, n) (scoped_pairs imports) ->
         k <> c /\
         exists pdk, In (k, pdk) (multi_crates ho_crate arrivals) /\
           (exists it, In it (items_of pdk) /\ Spec.C14Spec.is_type14 it = true /\ renamed (item_id it) = n) /\
           forall imk textk, kt_generate_multi uc cfg k imk pdk = Ok textk ->
             forall it, In it (items_of pdk) -> Spec.C14Spec.is_type14 it = true -> renamed (item_id it) = n ->
               exists ds pre post,
                 kt_decl_of cfg it = Ok ds /\
                 textk = (kt_begin_file_multi cfg k ++ Spec.C14KotlinSpec.c14_kt_import_block (kt_package cfg) (kt_prefix cfg) (scoped_pairs imk) ++
                          pre ++ List.concat (map kt_render_decl ds) ++ post)%list /\
                 (Spec.C14KotlinSpec.c14_kt_alias_class it = false -> exists d, In d ds /\ d_name (kt_obs d) = (kt_prefix cfg ++ n)%list)).
Proof. exact Proofs.C09MultiKotlinC14.c9m_kt_spelled_and_imported. Qed.
Print Assumptions C09_multi_Kotlin_spelled_and_imported.

(* non-vacuity and sensitivity, Kotlin: a (A1, A2 serde-renamed A2Renamed, A3) and my_crate (`use a::A2; use a::A1;`,
   struct G<T> { t: T, a: A2, v: Vec<A1> }, tagged enum E<T> { V { x: A2, y: T }, W(A2), U }, type Al = Vec<A2>,
   struct H { g: G<A2>, e: E<A1> }) - well-formed, in no class of c9m_lknown_ws under the prefix KP and under no prefix; the
   file of my_crate has 5 definitions and 16 references and is good; respelling the references to a's A2 as KPA2 or A2Renamed,
   the generic parameter T as KPT, or the helper KPEVInner as KPEV makes the judgement false *)
Theorem C09_multi_Kotlin_nonvacuous :
  Proofs.C09MultiLangWitness.wl_dom Kotlin (lit "KP") Proofs.C09MultiLangWitness.ws_rich = Some (true, None) /\
  Proofs.C09MultiLangWitness.wl_dom Kotlin [] Proofs.C09MultiLangWitness.ws_rich = Some (true, None) /\
  Proofs.C09MultiLangWitness.wl_kt (lit "KP") Proofs.C09MultiLangWitness.ws_rich Proofs.C14Witness.MY = Some (5, 16, true)%nat /\
  Proofs.C09MultiLangWitness.wl_kt [] Proofs.C09MultiLangWitness.ws_rich Proofs.C14Witness.MY = Some (5, 16, true)%nat /\
  Proofs.C09MultiLangWitness.wl_kt (lit "KP") Proofs.C09MultiLangWitness.ws_rich (lit "a") = Some (3, 0, true)%nat /\
  Proofs.C09MultiLangWitness.wl_kt_respelled (lit "KP") Proofs.C09MultiLangWitness.ws_rich Proofs.C14Witness.MY (lit "KPA2Renamed") (lit "KPA2") = Some false /\
  Proofs.C09MultiLangWitness.wl_kt_respelled (lit "KP") Proofs.C09MultiLangWitness.ws_rich Proofs.C14Witness.MY (lit "KPA2Renamed") (lit "A2Renamed") = Some false /\
  Proofs.C09MultiLangWitness.wl_kt_respelled (lit "KP") Proofs.C09MultiLangWitness.ws_rich Proofs.C14Witness.MY (lit "T") (lit "KPT") = Some false /\
  Proofs.C09MultiLangWitness.wl_kt_respelled (lit "KP") Proofs.C09MultiLangWitness.ws_rich Proofs.C14Witness.MY (lit "KPEVInner") (lit "KPEV") = Some false.
Proof. exact Proofs.C09MultiLangWitness.kt_multi_nonvacuous. Qed.
Print Assumptions C09_multi_Kotlin_nonvacuous.

(* the class C09-multi-emitted-generic is needed, and is a defect of the unchanged tree under a prefix: crate a
   `#[serde(rename = "X2")] struct A2`; my_crate `use a::A2; struct G<X2> { f: A2, g: X2 }` with --kotlin-prefix KP: the mention
   of A2 denotes a's type, which a.kt declares - and my_crate.kt imports - as KPX2, and is printed `val f: X2` (exact text of
   my_crate.kt); without a prefix the workspace is in no class *)
Theorem C09_multi_emitted_generic_refuted :
  Proofs.C09MultiLangWitness.wl_dom Kotlin (lit "KP") Proofs.C09MultiLangWitness.ws_emitted_generic = Some (true, Some "C09-multi-emitted-generic"%string) /\
  Proofs.C09MultiLangWitness.wl_dom Kotlin [] Proofs.C09MultiLangWitness.ws_emitted_generic = Some (true, None) /\
  Proofs.C09MultiWitness.wm_spec Proofs.C09MultiLangWitness.ws_emitted_generic Proofs.C14Witness.MY (lit "A2") = [(Some (lit "a"), Some (lit "X2"), None)] /\
  Proofs.C09MultiWitness.wm_kt_text (lit "KP") Proofs.C09MultiLangWitness.ws_emitted_generic Proofs.C14Witness.MY =
    Some (lit "package p.my_crate" ++ [10%N; 10%N] ++ lit "import kotlinx.serialization.Serializable" ++ [10%N] ++
          lit "import kotlinx.serialization.SerialName" ++ [10%N; 10%N] ++ lit "import p.a.KPX2" ++ [10%N; 10%N] ++
          lit "@Serializable" ++ [10%N] ++ lit "data class KPG<X2> (" ++ [10%N; 9%N] ++ lit "val f: X2," ++ [10%N; 9%N] ++ lit "val g: X2" ++ [10%N] ++
          lit ")" ++ [10%N; 10%N])%list /\
  match Proofs.C09MultiWitness.wm_kt_text (lit "KP") Proofs.C09MultiLangWitness.ws_emitted_generic (lit "a") with
  | Some t => contains_sub (lit "data class KPX2 (") t | None => false end = true.
Proof. exact Proofs.C09MultiLangWitness.emitted_generic_refuted. Qed.
Print Assumptions C09_multi_emitted_generic_refuted.

(* the same judgement on a list of declarations (a folder-mode file of the stateful back ends has no file_decls of its own:
   c09_observe L fd = c9m_observe_decls L (fd_decls fd)) *)
Theorem C09_multi_observe_decls :
  forall (L : lang) (fd : file_decls), c09_observe L fd = c9m_observe_decls L (fd_decls fd).
Proof. exact Proofs.C09MultiLang.c9l_observe_decls. Qed.
Print Assumptions C09_multi_observe_decls.

(* Swift in folder mode, every workspace, iteration order, configuration (prefix, type mappings, decorators, constraints),
   EVERY state of the CodableVoid flag when crate b is reached: the file of crate b is begin_file's text and the rendered
   declarations sw_multi_decls returns; every definition (structs, enums, typealiases, the ...Inner helper structs) and every
   reference (stored-property types, case payloads, typealias targets, the helper and its type arguments) is judged good under
   sw_prefix cfg, and so is the observation of the file by the boolean judgement *)
Theorem C09_multi_Swift :
  forall (uc : unicode) (cfg : sw_config) (ho : list imported -> list imported) (arrivals : list (str * parsed)),
    Proofs.C14Front.oracle_ok ho -> c9m_ids_wf arrivals = true ->
    forall (b : str) (pd' : parsed), In (b, pd') (multi_crates ho arrivals) ->
    forall (st : sw_state) (text : str) (st' : sw_state), sw_generate_multi uc cfg st pd' = Ok (text, st') ->
    exists ds : list sw_decl,
      Proofs.C12MultiSwift.sw_multi_decls uc cfg st pd' = Ok (ds, st') /\
      text = (sw_begin_file cfg ++ List.concat (map sw_render_decl ds))%list /\
      Forall (fun d => (c09_is_def d = true -> c9m_ldef_ok Swift arrivals b (sw_prefix cfg) (d_name d)) /\
                       (forall r, In r (c09_decl_refs Swift d) -> c9m_lref_ok Swift arrivals b (sw_prefix cfg) r)) (flat_map sw_obs ds) /\
      good_C09_multi Swift (sw_prefix cfg) arrivals b (c9m_observe_decls Swift (flat_map sw_obs ds)) = true.
Proof. exact Proofs.C09MultiSwift.c9m_sw_file. Qed.
Print Assumptions C09_multi_Swift.

Theorem C09_multi_Swift_shape :
  forall (uc : unicode) (cfg : sw_config) (pd' : parsed) (st : sw_state) (ds : list sw_decl) (st' : sw_state),
    Proofs.C12MultiSwift.sw_multi_decls uc cfg st pd' = Ok (ds, st') ->
    forall o, In o (flat_map sw_obs ds) -> Proofs.C09MultiLang.c9l_decl_ok Swift (sw_prefix cfg) pd' o.
Proof. exact Proofs.C09MultiSwift.swl_decls. Qed.
Print Assumptions C09_multi_Swift_shape.

(* Scala in folder mode (no prefix, no state: the file of a crate is sc_generate on the crate's data, whose declarations are
   those of sc_file_decls - Props/C01.v C01_multi_file_decls_scala): every definition and every reference (case-class parameter
   types, variant payloads, alias targets, the name after `extends`, the ...Inner helper class and its type arguments) of the
   file of crate b is judged good, and so is the observation of the file *)
Theorem C09_multi_Scala :
  forall (uc : unicode) (cfg : sc_config) (ho : list imported -> list imported) (arrivals : list (str * parsed)),
    Proofs.C14Front.oracle_ok ho -> c9m_ids_wf arrivals = true ->
    forall (b : str) (pd' : parsed), In (b, pd') (multi_crates ho arrivals) ->
    forall fd : file_decls, sc_file_decls uc cfg pd' = Ok fd ->
      Forall (fun d => (c09_is_def d = true -> c9m_ldef_ok Scala arrivals b [] (d_name d)) /\
                       (forall r, In r (c09_decl_refs Scala d) -> c9m_lref_ok Scala arrivals b [] r)) (fd_decls fd) /\
      good_C09_multi Scala [] arrivals b (c09_observe Scala fd) = true.
Proof. exact Proofs.C09MultiScala.c9m_sc_file. Qed.
Print Assumptions C09_multi_Scala.

Theorem C09_multi_Scala_shape :
  forall (uc : unicode) (cfg : sc_config) (pd' : parsed) (objs pkgs : list sc_decl), sc_decls uc cfg pd' = Ok (objs, pkgs) ->
    forall o, In o (flat_map sc_obs (objs ++ pkgs)) -> Proofs.C09MultiLang.c9l_decl_ok Scala [] pd' o.
Proof. exact Proofs.C09MultiScala.scl_decls. Qed.
Print Assumptions C09_multi_Scala_shape.

(* Python in folder mode (no prefix), EVERY printer state when crate b is reached (it only collects imports, TypeVars and
   translated types): the file of crate b is the header written from the state REACHED and the rendered declarations
   py_multi_decls returns; every definition and every reference (attribute types, variant content types, alias targets, const
   types, the ...Inner helper class) is judged good, and so is the observation of the file *)
Theorem C09_multi_Python :
  forall (uc : unicode) (cfg : py_config) (ho : list imported -> list imported) (arrivals : list (str * parsed)),
    Proofs.C14Front.oracle_ok ho -> c9m_ids_wf arrivals = true ->
    forall (b : str) (pd' : parsed), In (b, pd') (multi_crates ho arrivals) ->
    forall (st : py_state) (text : str) (st' : py_state), py_generate_multi uc cfg st pd' = Ok (text, st') ->
    exists ds : list py_decl,
      Proofs.C12Multi.py_multi_decls uc cfg st pd' = Ok (ds, st') /\
      text = (py_begin_file cfg ++ py_write_all_imports st' ++ py_write_custom_translations st' ++ List.concat (map py_render_decl ds))%list /\
      Forall (fun d => (c09_is_def d = true -> c9m_ldef_ok Python arrivals b [] (d_name d)) /\
                       (forall r, In r (c09_decl_refs Python d) -> c9m_lref_ok Python arrivals b [] r)) (flat_map py_obs ds) /\
      good_C09_multi Python [] arrivals b (c9m_observe_decls Python (flat_map py_obs ds)) = true.
Proof. exact Proofs.C09MultiPython.c9m_py_file. Qed.
Print Assumptions C09_multi_Python.

Theorem C09_multi_Python_shape :
  forall (uc : unicode) (cfg : py_config) (pd' : parsed) (st : py_state) (ds : list py_decl) (st' : py_state),
    Proofs.C12Multi.py_multi_decls uc cfg st pd' = Ok (ds, st') ->
    forall o, In o (flat_map py_obs ds) -> Proofs.C09MultiLang.c9l_decl_ok Python [] pd' o.
Proof. exact Proofs.C09MultiPython.pyl_decls. Qed.
Print Assumptions C09_multi_Python_shape.

(* non-vacuity and sensitivity, Swift (prefix OP) / Scala / Python on the workspace of C09_multi_Kotlin_nonvacuous: in no class;
   the file of my_crate is good (5 definitions; 13 / 16 / 12 references) - the 4-tuples are (definitions, references, the
   judgement, the judgement after respelling) - and respelling a's A2 by its Rust name, prefixing the generic parameter T (Swift),
   misspelling the sealed parent (Scala) or the helper class (Python) makes the judgement false *)
Theorem C09_multi_Swift_Scala_Python_nonvacuous :
  Proofs.C09MultiLangWitness.wl_dom Swift (lit "OP") Proofs.C09MultiLangWitness.ws_rich = Some (true, None) /\
  Proofs.C09MultiLangWitness.wl_dom Scala [] Proofs.C09MultiLangWitness.ws_rich = Some (true, None) /\
  Proofs.C09MultiLangWitness.wl_dom Python [] Proofs.C09MultiLangWitness.ws_rich = Some (true, None) /\
  Proofs.C09MultiLangWitness.wl_sw (lit "OP") Proofs.C09MultiLangWitness.ws_rich Proofs.C14Witness.MY (lit "OPA2Renamed") (lit "OPA2") = Some (5, 13, true, false)%nat /\
  Proofs.C09MultiLangWitness.wl_sw (lit "OP") Proofs.C09MultiLangWitness.ws_rich Proofs.C14Witness.MY (lit "T") (lit "OPT") = Some (5, 13, true, false)%nat /\
  Proofs.C09MultiLangWitness.wl_sc Proofs.C09MultiLangWitness.ws_rich Proofs.C14Witness.MY (lit "A2Renamed") (lit "A2") = Some (5, 16, true, false)%nat /\
  Proofs.C09MultiLangWitness.wl_sc Proofs.C09MultiLangWitness.ws_rich Proofs.C14Witness.MY (lit "E") (lit "E2") = Some (5, 16, true, false)%nat /\
  Proofs.C09MultiLangWitness.wl_py Proofs.C09MultiLangWitness.ws_rich Proofs.C14Witness.MY (lit "A2Renamed") (lit "A2") = Some (5, 12, true, false)%nat /\
  Proofs.C09MultiLangWitness.wl_py Proofs.C09MultiLangWitness.ws_rich Proofs.C14Witness.MY (lit "EVInner") (lit "EV") = Some (5, 12, true, false)%nat.
Proof. exact Proofs.C09MultiLangWitness.sw_sc_py_multi_nonvacuous. Qed.
Print Assumptions C09_multi_Swift_Scala_Python_nonvacuous.

(* the own-crate findings about definitions carry over to folder mode: crate a `#[serde(rename = "AlR")] type Al = u32`, my_crate
   `use a::Al; struct B1 { f: Al }` is in class C09-kotlin-alias / C09-scala-alias / C09-go-alias (the alias is declared under
   its Rust name while my_crate refers to AlR) and in no class for Swift and Python *)
Theorem C09_multi_alias_classes :
  Proofs.C09MultiLangWitness.wl_dom Kotlin [] Proofs.C09MultiLangWitness.ws_alias_renamed = Some (true, Some "C09-kotlin-alias"%string) /\
  Proofs.C09MultiLangWitness.wl_dom Scala [] Proofs.C09MultiLangWitness.ws_alias_renamed = Some (true, Some "C09-scala-alias"%string) /\
  Proofs.C09MultiLangWitness.wl_dom Go [] Proofs.C09MultiLangWitness.ws_alias_renamed = Some (true, Some "C09-go-alias"%string) /\
  Proofs.C09MultiLangWitness.wl_dom Swift [] Proofs.C09MultiLangWitness.ws_alias_renamed = Some (true, None) /\
  Proofs.C09MultiLangWitness.wl_dom Python [] Proofs.C09MultiLangWitness.ws_alias_renamed = Some (true, None).
Proof. exact Proofs.C09MultiLangWitness.alias_renamed_classes. Qed.
Print Assumptions C09_multi_alias_classes.

(* Go in folder mode WITH AN EMPTY uppercase_acronyms LIST, every workspace, iteration order, package / type-mapping /
   no_pointer_slice configuration, EVERY import set the Go value holds when crate b is reached: the file of crate b is the header,
   the import block of the set REACHED and the rendered declarations go_multi_decls returns; every definition (structs under the
   generated name; enums, aliases and ...Inner helper structs under the Rust name - the findings C09-go-enum / C09-go-alias are the
   class c9m_def_class) and every reference (field types, variant content types, alias targets, const types, the helper) is judged
   good, and so is the observation of the file.
   PARTIAL in its acronym hypothesis only: under a non-empty acronym list definitions and field / payload types are printed
   acronym-converted (single-file: C09_Go with the shape c09_go_shape of Proofs/C09_GoAcr.v and the three C09-go-acronym classes);
   that shape and those classes are not carried over to the folder-mode judgement yet *)
Theorem C09_multi_Go_partial :
  forall (uc : unicode) (cfg : go_config) (ho : list imported -> list imported) (arrivals : list (str * parsed)),
    go_uppercase_acronyms cfg = [] ->
    Proofs.C14Front.oracle_ok ho -> c9m_ids_wf arrivals = true ->
    forall (b : str) (pd' : parsed), In (b, pd') (multi_crates ho arrivals) ->
    forall (st : go_state) (text : str) (st' : go_state), go_generate_multi uc cfg st pd' = Ok (text, st') ->
    exists (ds : list go_decl) (header : str) (st1 : go_state),
      Proofs.C12MultiGo.go_multi_decls uc cfg st pd' = Ok (ds, st') /\ go_begin_file cfg st = Ok (header, st1) /\
      text = (header ++ go_write_all_imports st' ++ List.concat (map go_render_decl ds))%list /\
      Forall (fun d => (c09_is_def d = true -> c9m_ldef_ok Go arrivals b [] (d_name d)) /\
                       (forall r, In r (c09_decl_refs Go d) -> c9m_lref_ok Go arrivals b [] r)) (flat_map go_obs ds) /\
      good_C09_multi Go [] arrivals b (c9m_observe_decls Go (flat_map go_obs ds)) = true.
Proof. exact Proofs.C09MultiGo.c9m_go_file_no_acronyms. Qed.
Print Assumptions C09_multi_Go_partial.

Theorem C09_multi_Go_shape_partial :
  forall (uc : unicode) (cfg : go_config), go_uppercase_acronyms cfg = [] ->
  forall (pd' : parsed) (st : go_state) (ds : list go_decl) (st' : go_state),
    Proofs.C12MultiGo.go_multi_decls uc cfg st pd' = Ok (ds, st') ->
    forall o, In o (flat_map go_obs ds) -> Proofs.C09MultiLang.c9l_decl_ok Go [] pd' o.
Proof. exact Proofs.C09MultiGo.gol_decls. Qed.
Print Assumptions C09_multi_Go_shape_partial.

(* non-vacuity and sensitivity, Go with an empty acronym list, the workspace of C09_multi_Kotlin_nonvacuous: in no class, the file
   of my_crate is good (5 definitions, 12 references); a's A2 under its Rust name or a misnamed helper struct is rejected *)
Theorem C09_multi_Go_nonvacuous :
  Proofs.C09MultiLangWitness.wl_dom Go [] Proofs.C09MultiLangWitness.ws_rich = Some (true, None) /\
  Proofs.C09MultiLangWitness.wl_go Proofs.C09MultiLangWitness.ws_rich Proofs.C14Witness.MY (lit "A2Renamed") (lit "A2") = Some (5, 12, true, false)%nat /\
  Proofs.C09MultiLangWitness.wl_go Proofs.C09MultiLangWitness.ws_rich Proofs.C14Witness.MY (lit "EVInner") (lit "EV") = Some (5, 12, true, false)%nat.
Proof. exact Proofs.C09MultiLangWitness.go_multi_nonvacuous. Qed.
Print Assumptions C09_multi_Go_nonvacuous.

(* a workspace in no class of c9m_lknown_ws (what the witnesses above evaluate): no mention of any source file, no definition, no
   sealed parent, no helper of any crate is in a class - every conditional clause of c9m_lref_ok then applies: each reference IS
   spelled as the specification demands *)
Theorem C09_multi_no_class :
  forall (L : lang) (pfx : str) (ws : c9m_ws), c9m_lknown_ws L pfx ws = None ->
  forall b f, In (b, f) ws ->
    (forall tp form i, In tp (c09_tposs f) -> In (form, i) (c09_type_ids (c9t_type tp)) -> c9m_lknown L pfx ws b f tp i = None) /\
    (forall e, In e (c9m_entities ws b) ->
       match c9e_kind e with
       | C9KInner => c09_inner_site_class L e = None
       | _ => c9m_def_class L e = None /\ c09_parent_site_class L e = None
       end).
Proof. exact Proofs.C09MultiLang.c9m_lknown_ws_none. Qed.
Print Assumptions C09_multi_no_class.
