(* C16 property theorems: statements only; proofs live in Proofs/C16.v. *)
From Coq Require Import String.
From TS Require Import Model.Str Model.Outcome Model.Unicode Model.Rename Spec.SerdeCase Spec.C16Spec.
From TS Require Proofs.C16.

(* For every Unicode table agreeing with ASCII below 128, every position, every rule string
   (known, unknown or absent) and every identifier outside the recorded finding classes - of any
   length - typeshare's computed name equals serde_derive's. *)
Theorem C16_rename_all_agrees_with_serde :
  forall (uc : unicode), unicode_ok uc ->
  forall (p : position) (rule_str : option str) (s : str),
    known_C16 p s = None ->
    good_C16 uc p rule_str s (rename_all_to_case uc s rule_str) = true.
Proof. exact Proofs.C16.C16_main. Qed.
Print Assumptions C16_rename_all_agrees_with_serde.

Theorem C16_field :
  forall (uc : unicode), unicode_ok uc ->
  forall rs r s, rule_from_str rs = Some r -> forallb snake_char s = true ->
    rename_all_to_case uc s (Some rs) = Proofs.C16.as_outcome (apply_to_field r s).
Proof. exact Proofs.C16.field_agree. Qed.
Print Assumptions C16_field.

Theorem C16_variant :
  forall (uc : unicode), unicode_ok uc ->
  forall rs r s, rule_from_str rs = Some r -> conv_variant s = true -> allcaps s = false ->
    rename_all_to_case uc s (Some rs) = Proofs.C16.as_outcome (apply_to_variant uc r s).
Proof. exact Proofs.C16.variant_agree. Qed.
Print Assumptions C16_variant.

Theorem C16_unknown_rule :
  forall (uc : unicode) rs s, rule_from_str rs = None -> rename_all_to_case uc s (Some rs) = Ok s.
Proof. exact Proofs.C16.unknown_rule. Qed.
Print Assumptions C16_unknown_rule.

(* The unrestricted statement is false of the faithful model: one witness per finding class. *)
Theorem C16_field_has_upper_refuted : Proofs.C16.refuted PField (lit "snake_case") (lit "fooBar").
Proof. exact Proofs.C16.C16_field_has_upper_refuted. Qed.
Theorem C16_variant_allcaps_refuted : Proofs.C16.refuted PVariant (lit "snake_case") (lit "URL").
Proof. exact Proofs.C16.C16_variant_allcaps_refuted. Qed.
Theorem C16_variant_has_underscore_refuted : Proofs.C16.refuted PVariant (lit "PascalCase") (lit "Foo_Bar").
Proof. exact Proofs.C16.C16_variant_has_underscore_refuted. Qed.
Theorem C16_variant_nonascii_refuted : Proofs.C16.refuted PVariant (lit "lowercase") [201%N; 97%N].
Proof. exact Proofs.C16.C16_variant_nonascii_refuted. Qed.
Theorem C16_variant_lower_first_refuted : Proofs.C16.refuted PVariant (lit "PascalCase") (lit "aB").
Proof. exact Proofs.C16.C16_variant_lower_first_refuted. Qed.
Theorem C16_field_nonascii_refuted : Proofs.C16.refuted PField (lit "UPPERCASE") [233%N; 97%N].
Proof. exact Proofs.C16.C16_field_nonascii_refuted. Qed.
Print Assumptions C16_field_has_upper_refuted.
