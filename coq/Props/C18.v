(* C18 property theorems: statements only; proofs live in Proofs/C18.v. *)
From Coq Require Import ZArith Bool Reals.
From Flocq Require Import Core.Core IEEE754.BinarySingleNaN.
From TS Require Import Model.Str Model.Integer Spec.JsSafe.
From TS Require Proofs.C18.
Local Open Scope Z_scope.

Theorem C18_constants : U53_MAX = 2^53 - 1 /\ I54_MAX = 2^53 - 1 /\ I54_MIN = -(2^53 - 1).
Proof. exact Proofs.C18.consts. Qed.
Print Assumptions C18_constants.

(* construction succeeds exactly on the safe range and never changes the value - for ALL integers,
   in particular all u64 / i64 *)
Theorem C18_u53_range : forall v : Z, u53_try_from v = (if js_safe_unsigned v then Some v else None).
Proof. exact Proofs.C18.u53_range. Qed.
Print Assumptions C18_u53_range.
Theorem C18_i54_range : forall v : Z, i54_try_from v = (if js_safe v then Some v else None).
Proof. exact Proofs.C18.i54_range. Qed.
Print Assumptions C18_i54_range.

Theorem C18_u53_back : forall v x, u53_try_from v = Some x ->
  u53_into_u64 x = v /\ u53_try_from (u53_into_u64 x) = Some x.
Proof. exact Proofs.C18.u53_into_back. Qed.
Theorem C18_i54_back : forall v x, i54_try_from v = Some x ->
  i54_into_i64 x = v /\ i54_try_from (i54_into_i64 x) = Some x.
Proof. exact Proofs.C18.i54_into_back. Qed.
Print Assumptions C18_i54_back.

(* narrowing back succeeds exactly when the value fits; the `as` cast (modelled as wrap-around)
   then leaves it unchanged *)
Theorem C18_narrow_unsigned : forall bits x, 0 < bits ->
  narrow_unsigned bits x = (if (0 <=? x) && (x <=? 2^bits - 1) then Some x else None).
Proof. exact Proofs.C18.narrow_unsigned_spec. Qed.
Theorem C18_narrow_signed : forall bits x, 0 < bits ->
  narrow_signed bits x = (if (-(2^(bits-1)) <=? x) && (x <=? 2^(bits-1) - 1) then Some x else None).
Proof. exact Proofs.C18.narrow_signed_spec. Qed.
Print Assumptions C18_narrow_signed.
Theorem C18_widen_unsigned : forall bits v, 0 < bits <= 32 -> 0 <= v < 2^bits ->
  u53_try_from (widen v) = Some v /\ narrow_unsigned bits (widen v) = Some v.
Proof. exact Proofs.C18.widen_u_accepted. Qed.
Theorem C18_widen_signed : forall bits v, 0 < bits <= 32 -> -(2^(bits-1)) <= v < 2^(bits-1) ->
  i54_try_from (widen v) = Some v /\ narrow_signed bits (widen v) = Some v.
Proof. exact Proofs.C18.widen_s_accepted. Qed.
Print Assumptions C18_widen_signed.
Theorem C18_usize_saturated : forall ptr_bits x, 0 < ptr_bits <= 64 -> 0 <= x ->
  usize_from_u53_saturated ptr_bits x = Z.min x (2^ptr_bits - 1).
Proof. exact Proofs.C18.usize_saturated. Qed.
Print Assumptions C18_usize_saturated.

(* serde JSON: round trip on the safe range; nothing outside it, and no float literal, is accepted *)
Theorem C18_u53_serde_roundtrip : forall x, js_safe_unsigned x = true -> deser_u53 (ser_int x) = Some x.
Proof. exact Proofs.C18.u53_serde_roundtrip. Qed.
Theorem C18_i54_serde_roundtrip : forall x, js_safe x = true -> deser_i54 (ser_int x) = Some x.
Proof. exact Proofs.C18.i54_serde_roundtrip. Qed.
Print Assumptions C18_i54_serde_roundtrip.
Theorem C18_u53_deser_sound : forall l x, 0 <= j_int l -> deser_u53 l = Some x ->
  j_float l = false /\ x = Proofs.C18.lit_value l /\ js_safe_unsigned x = true.
Proof. exact Proofs.C18.u53_deser_sound. Qed.
Theorem C18_i54_deser_sound : forall l x, 0 <= j_int l -> deser_i54 l = Some x ->
  j_float l = false /\ x = Proofs.C18.lit_value l /\ js_safe x = true.
Proof. exact Proofs.C18.i54_deser_sound. Qed.
Print Assumptions C18_i54_deser_sound.

Theorem C18_order : forall a b, int_cmp a b = Z.compare a b /\ int_eqb a b = Z.eqb a b.
Proof. exact Proofs.C18.order_agrees. Qed.

(* IEEE-754 binary64 (Flocq): every safe integer converts to a double exactly, distinct safe
   integers stay distinct, and directly above the range they no longer do *)
Theorem C18_safe_through_double : forall z, js_safe z = true ->
  B2R (of_Z z) = IZR z /\ is_finite (of_Z z) = true.
Proof. exact Proofs.C18.safe_through_double. Qed.
Print Assumptions C18_safe_through_double.
Theorem C18_safe_double_injective : forall a b, js_safe a = true -> js_safe b = true -> of_Z a = of_Z b -> a = b.
Proof. exact Proofs.C18.safe_double_injective. Qed.
Print Assumptions C18_safe_double_injective.
Theorem C18_unsafe_collapses :
  B2SF (of_Z (2^53 + 1)) = B2SF (of_Z (2^53)) /\ js_safe (2^53) = false /\ js_safe (2^53 - 1) = true
  /\ js_safe (-(2^53 - 1)) = true /\ js_safe (-(2^53)) = false.
Proof. exact Proofs.C18.unsafe_collapses. Qed.
Print Assumptions C18_unsafe_collapses.
