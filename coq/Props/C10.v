(* C10 property theorems: statements only; proofs live in Proofs/C10Lex.v, Proofs/C10_*.v and Proofs/C10.v.
   "balanced" = the lexer of the language (Spec/C10Spec.v), started in code with an empty bracket stack, ends in code
   with an empty stack and never reaches the error state: every bracket, string literal and comment opened is closed. *)
From Coq Require Import String.
From TS Require Import Model.Str Model.Outcome Model.Unicode Model.Types Model.Parse Model.Lang.Common Model.Lang.Decl
                       Model.Lang.TypeScript Model.Lang.Kotlin Model.Lang.Swift Model.Lang.Scala Model.Lang.Go Model.Lang.Python.
From TS Require Import Spec.C10Spec.
From TS Require Proofs.C10Lex Proofs.C10_TS Proofs.C10_TSFile Proofs.C10_KT Proofs.C10_SC Proofs.C10_GO Proofs.C10_GOFile
                Proofs.C10_SW Proofs.C10_SWFile Proofs.C10_PY Proofs.C10_PYFile Proofs.C10_KW Proofs.C10.
From TS Require Import Spec.C10PyKeys.
From TS Require Proofs.C10_PYKeys.
From TS Require Import Spec.C10TsGrammar.
From TS Require Proofs.C10_TSGrammarTok Proofs.C10_TSGrammarParse Proofs.C10_TSGrammar Proofs.C10_TSGrammarFile.
From TS Require Import Spec.C10KtGrammar.
From TS Require Proofs.C10_KTGrammarTok Proofs.C10_KTGrammarParse Proofs.C10_KTGrammar Proofs.C10_KTGrammarFile Proofs.C10_KTGrammarMulti.
From TS Require Import Model.MultiFile Spec.C10MultiSpec.
From TS Require Model.Writer Proofs.C10Multi Proofs.C10MultiWitness.
From TS Require Import Spec.C10GoGrammar.
From TS Require Proofs.C10_GOGrammarTok Proofs.C10_GOGrammarSemi Proofs.C10_GOGrammarParse Proofs.C10_GOGrammar Proofs.C10_GOGrammarFile.
From TS Require Import Spec.C10SwGrammar.
From TS Require Proofs.C10_SWGrammarTok Proofs.C10_SWGrammarParse Proofs.C10_SWGrammarDecl Proofs.C10_SWGrammar Proofs.C10_SWGrammarFile.
From TS Require Import Spec.C10ScGrammar.
From TS Require Proofs.C10_SCGrammarTok Proofs.C10_SCGrammarParse Proofs.C10_SCGrammar Proofs.C10_SCGrammarFile.
From TS Require Proofs.C10_GOGrammarTagged Proofs.C10_GOGrammarIR Proofs.C10_GOGrammarIR2.

(* ---------------------------------------------------------------- the lexers *)
(* the lexer never looks below the bracket stack it started with: a text that is balanced on its own
   is a neutral fragment wherever it is pasted into code (this is what makes verbatim user text -
   type overrides, type_mappings values, decorators - a hole like any other) *)
Theorem C10_balanced_text_is_neutral :
  forall (cfg : c10_lexcfg) (t : str), c10_balanced cfg t = true ->
  forall st, c10_lex_run cfg (C10LCode, st) t = (C10LCode, st).
Proof. exact Proofs.C10Lex.balanced_bal. Qed.
Print Assumptions C10_balanced_text_is_neutral.

(* `{:?}` of ANY string is one complete string literal in a language without triple quotes ... *)
Theorem C10_debug_string_closed :
  forall (cfg : c10_lexcfg) (s : str), c10_lc_triple cfg = false ->
  forall st, c10_lex_run cfg (C10LCode, st) (debug_str s) = (C10LCode, st).
Proof. exact Proofs.C10Lex.debug_str_bal. Qed.
Print Assumptions C10_debug_string_closed.

(* ... and of any NON-EMPTY string in every one of the six languages *)
Theorem C10_debug_string_closed_nonempty :
  forall (cfg : c10_lexcfg) (s : str), s <> [] ->
  forall st, c10_lex_run cfg (C10LCode, st) (debug_str s) = (C10LCode, st).
Proof. exact Proofs.C10Lex.debug_str_bal_triple. Qed.
Print Assumptions C10_debug_string_closed_nonempty.

(* ---------------------------------------------------------------- (1) whole files, from the IR *)
(* TypeScript: for every program of the domain (identifier-shaped names, key-shaped renames, safe doc lines,
   balanced type overrides) and every admissible configuration (balanced type_mappings values, a version string
   that is a safe comment line), the generated file - header, every declaration, ReviverFunc/ReplacerFunc
   trailer - is balanced *)
Theorem C10_lex_typescript :
  forall (uc : unicode) (cfg : ts_config) (pd : parsed) (text : str),
    unicode_ok uc -> Proofs.C10_TSFile.c10_ts_cfg_ok cfg = true -> dom_C10 CTS pd = true ->
    ts_generate uc cfg pd = Ok text -> good_C10_lex CTS text = true.
Proof. exact Proofs.C10.lex_typescript. Qed.
Print Assumptions C10_lex_typescript.

(* Kotlin: the same (package and version made of [A-Za-z0-9_.+-], identifier-shaped prefix) *)
Theorem C10_lex_kotlin :
  forall (uc : unicode) (cfg : kt_config) (pd : parsed) (text : str),
    Proofs.C10_KT.c10_kt_cfg_ok cfg = true -> dom_C10 CKT pd = true ->
    kt_generate uc cfg pd = Ok text -> good_C10_lex CKT text = true.
Proof. exact Proofs.C10.lex_kotlin. Qed.
Print Assumptions C10_lex_kotlin.

(* Scala: the same for every admissible package name (made of [A-Za-z0-9_.+-]), with or without a dot: the package
   object / package block is opened (named by the last segment of the package name) and closed whatever the name
   (/repo fixes of C10-scala-package-brace and of C10-scala-toplevel-alias), so the statement has no carve-out (the
   empty package is begin_file's error: no text) *)
Theorem C10_lex_scala :
  forall (uc : unicode) (cfg : sc_config) (pd : parsed) (text : str),
    Proofs.C10_SC.c10_sc_cfg_ok cfg = true -> dom_C10 CSC pd = true ->
    sc_generate uc cfg pd = Ok text -> good_C10_lex CSC text = true.
Proof. exact Proofs.C10.lex_scala. Qed.
Print Assumptions C10_lex_scala.

(* Go: the same, for alphanumeric uppercase_acronyms (names and printed types go through the textual
   match_indices / replace_range conversion of go.rs:579, which then only replaces letters and digits by letters and
   digits) *)
Theorem C10_lex_go :
  forall (uc : unicode) (cfg : go_config) (pd : parsed) (text : str),
    unicode_ok uc -> Proofs.C10_GOFile.c10_go_cfg_ok cfg = true -> dom_C10 CGO pd = true ->
    go_generate uc cfg pd = Ok text -> good_C10_lex CGO text = true.
Proof. exact Proofs.C10.lex_go. Qed.
Print Assumptions C10_lex_go.

(* Swift: every program of the domain (the Swift generic-constraint strings neutral tokens, every other decorator
   balanced on its own), every admissible configuration (identifier-shaped prefix, balanced default decorators and
   CodableVoid constraints, default generic constraints neutral tokens). The finding class C10-swift-label is a
   grammar defect: the text is lexically balanced there too. *)
Theorem C10_lex_swift :
  forall (uc : unicode) (cfg : sw_config) (pd : parsed) (text : str),
    Proofs.C10_SWFile.c10_sw_cfg_ok cfg = true -> dom_C10 CSW pd = true ->
    sw_generate uc cfg pd = Ok text -> good_C10_lex CSW text = true.
Proof. exact Proofs.C10.lex_swift. Qed.
Print Assumptions C10_lex_swift.

(* Python: header docstring, import lines, TypeVars, helper functions, every declaration *)
Theorem C10_lex_python :
  forall (uc : unicode) (cfg : py_config) (pd : parsed) (text : str),
    unicode_ok uc -> Proofs.C10_PYFile.c10_py_cfg_ok cfg = true -> dom_C10 CPY pd = true ->
    py_generate uc cfg pd = Ok text -> good_C10_lex CPY text = true.
Proof. exact Proofs.C10.lex_python. Qed.
Print Assumptions C10_lex_python.

(* ---------------------------------------------------------------- (1') layout layer, all declarations *)
(* the text of EVERY declaration whose names are neutral tokens, whose doc lines are safe and whose verbatim
   parts are balanced closes every bracket, string literal and comment it opens - whatever the bracket stack *)
Theorem C10_ts_layout_balanced :
  forall d : ts_decl, Proofs.C10_TS.c10_ts_decl_ok d = true ->
  forall st, c10_lex_run c10_lex_ts (C10LCode, st) (ts_render_decl d) = (C10LCode, st).
Proof. exact Proofs.C10_TS.ts_render_decl_bal. Qed.
Print Assumptions C10_ts_layout_balanced.

Theorem C10_kotlin_layout_balanced :
  forall d : kt_decl, Proofs.C10_KT.c10_kt_decl_ok d = true ->
  forall st, c10_lex_run c10_lex_kt (C10LCode, st) (kt_render_decl d) = (C10LCode, st).
Proof. exact Proofs.C10_KT.kt_render_decl_bal. Qed.
Print Assumptions C10_kotlin_layout_balanced.

Theorem C10_scala_layout_balanced :
  forall d : sc_decl, Proofs.C10_SC.c10_sc_decl_ok d = true ->
  forall st, c10_lex_run c10_lex_sc (C10LCode, st) (sc_render_decl d) = (C10LCode, st).
Proof. exact Proofs.C10_SC.sc_render_decl_bal. Qed.
Print Assumptions C10_scala_layout_balanced.

(* Go: struct tags are raw strings, so the JSON keys must not contain a back-tick *)
Theorem C10_go_layout_balanced :
  forall d : go_decl, Proofs.C10_GO.c10_go_decl_ok d = true ->
  forall st, c10_lex_run c10_lex_go (C10LCode, st) (go_render_decl d) = (C10LCode, st).
Proof. exact Proofs.C10_GO.go_render_decl_bal. Qed.
Print Assumptions C10_go_layout_balanced.

(* Swift: structs with their CodingKeys and init, String-backed and algebraic enums with their Codable
   implementation, type aliases, CodableVoid *)
Theorem C10_swift_layout_balanced :
  forall d : sw_decl, Proofs.C10_SW.c10_sw_decl_ok d = true ->
  forall st, c10_lex_run c10_lex_sw (C10LCode, st) (sw_render_decl d) = (C10LCode, st).
Proof. exact Proofs.C10_SW.sw_render_decl_bal. Qed.
Print Assumptions C10_swift_layout_balanced.

(* Python: classes with docstrings, (str, Enum) classes, variant classes, Union lines, aliases, consts. A docstring
   line may contain double quotes, but not three in a row, and no backslash. *)
Theorem C10_python_layout_balanced :
  forall d : py_decl, Proofs.C10_PY.c10_py_decl_ok d = true ->
  forall st, c10_lex_run c10_lex_py (C10LCode, st) (py_render_decl d) = (C10LCode, st).
Proof. exact Proofs.C10_PY.py_render_decl_bal. Qed.
Print Assumptions C10_python_layout_balanced.

(* ---------------------------------------------------------------- (2) keyword escapes, all programs *)
(* Swift: every definition name and property name of the generated file that is in SWIFT_KEYWORDS is written in
   back-ticks where it is declared *)
Theorem C10_kw_swift :
  forall (uc : unicode) (cfg : sw_config) (pd : parsed) (fd : file_decls),
    sw_file_decls uc cfg pd = Ok fd -> good_C10_kw CSW (fd_decls fd) = true.
Proof. exact Proofs.C10_KW.kw_swift. Qed.
Print Assumptions C10_kw_swift.

(* Python: no attribute of a generated class is a Python keyword, and an attribute the back end escaped ends in `_` *)
Theorem C10_kw_python :
  forall (uc : unicode) (cfg : py_config) (pd : parsed) (fd : file_decls),
    py_file_decls uc cfg pd = Ok fd -> good_C10_kw CPY (fd_decls fd) = true.
Proof. exact Proofs.C10_KW.kw_python. Qed.
Print Assumptions C10_kw_python.

(* ---------------------------------------------------------------- regression pin of the repaired class *)
(* C10-scala-package-brace (fixed in /repo): under the dotless package `onepassword` the former witness
   `struct A { x: String }` is in no finding class and gives exactly `package onepassword {`, the documented case class,
   `}` - the bytes since the /repo fix of C10-scala-toplevel-alias, which opens the blocks under a dotless name as well;
   between the two fixes the case class stood at top level with no brace at all - which is balanced; a program that
   fills both the package object (unsigned aliases, an alias: inside `package object onepassword {`) and the package
   (a struct, an enum) is balanced as well *)
Theorem C10_scala_package_brace_fixed :
  Proofs.C10_SC.c10_sc_cfg_ok Proofs.C10.w_brace_cfg = true /\ contains_char sc_ch_dot (sc_package Proofs.C10.w_brace_cfg) = false /\
  dom_C10 CSC Proofs.C10.w_brace_pd = true /\ c10_has_items Proofs.C10.w_brace_pd = true /\
  known_C10 CSC (sc_package Proofs.C10.w_brace_cfg) Proofs.C10.w_brace_pd = [] /\
  sc_generate uc_exec Proofs.C10.w_brace_cfg Proofs.C10.w_brace_pd = Ok Proofs.C10.w_brace_text /\
  contains_sub (lit "case class A (") Proofs.C10.w_brace_text = true /\ contains_sub (lit "package onepassword {") Proofs.C10.w_brace_text = true /\
  good_C10_lex CSC Proofs.C10.w_brace_text = true /\
  exists text, dom_C10 CSC Proofs.C10.w_prog = true /\ known_C10 CSC (sc_package Proofs.C10.w_brace_cfg) Proofs.C10.w_prog = [] /\
    sc_generate uc_exec Proofs.C10.w_brace_cfg Proofs.C10.w_prog = Ok text /\ contains_sub (lit "type ULong = Int") text = true /\
    contains_sub (lit "package object onepassword {") text = true /\
    contains_sub (lit "case class A (") text = true /\ good_C10_lex CSC text = true.
Proof. exact Proofs.C10.scala_package_brace_fixed. Qed.
Print Assumptions C10_scala_package_brace_fixed.

(* C10-python-generic-alias (fixed in /repo): the former witness `type Al<T> = Vec<T>` is in no finding class and
   gives exactly the file w_py_alias_text: `T = TypeVar("T")` declared (TypeVar imported), the alias the plain
   assignment `Al = List[T]` - no subscript on the left-hand side -, lexically good.  (That CPython imports the real
   file is what the check runs: checks/c10.py WITNESSES.) *)
Theorem C10_python_generic_alias_fixed :
  dom_C10 CPY (Proofs.C10.w_pd [] [] [Proofs.C10.w_alias]) = true /\
  known_C10 CPY [] (Proofs.C10.w_pd [] [] [Proofs.C10.w_alias]) = [] /\
  py_generate uc_exec Proofs.C10.w_py_cfg (Proofs.C10.w_pd [] [] [Proofs.C10.w_alias]) = Ok Proofs.C10.w_py_alias_text /\
  contains_sub (lit "Al = List[T]") Proofs.C10.w_py_alias_text = true /\
  contains_sub (lit "Al[T]") Proofs.C10.w_py_alias_text = false /\
  contains_sub (lit "T = TypeVar(""T"")") Proofs.C10.w_py_alias_text = true /\
  good_C10_lex CPY Proofs.C10.w_py_alias_text = true.
Proof. exact Proofs.C10.python_generic_alias_fixed. Qed.
Print Assumptions C10_python_generic_alias_fixed.

(* ---------------------------------------------------------------- the finding classes are real *)
Theorem C10_scala_default_refuted :
  exists cfg pd text, dom_C10 CSC pd = true /\ known_C10 CSC (sc_package cfg) pd = ["C10-scala-default"%string] /\
    sc_generate uc_exec cfg pd = Ok text /\ contains_sub (lit "x: String = _") text = true.
Proof. exact Proofs.C10.scala_default_refuted. Qed.
Print Assumptions C10_scala_default_refuted.

Theorem C10_swift_label_refuted :
  exists cfg pd text, dom_C10 CSW pd = true /\ known_C10 CSW [] pd = ["C10-swift-label"%string] /\
    sw_generate uc_exec cfg pd = Ok text /\ contains_sub (lit "public let `let`: String") text = true /\
    contains_sub (lit "public init(let: String)") text = true /\ good_C10_swift_labels [lit "let"] = false.
Proof. exact Proofs.C10.swift_label_refuted. Qed.
Print Assumptions C10_swift_label_refuted.

Theorem C10_python_generic_enum_arg_refuted :
  exists cfg pd text, dom_C10 CPY pd = true /\ known_C10 CPY [] pd = ["C10-python-generic-enum-arg"%string] /\
    py_generate uc_exec cfg pd = Ok text /\ contains_sub (lit "Al = List[G[int]]") text = true /\
    contains_sub (lit "G = GV") text = true.
Proof. exact Proofs.C10.python_generic_enum_arg_refuted. Qed.
Print Assumptions C10_python_generic_enum_arg_refuted.

Theorem C10_python_digit_name_refuted :
  exists cfg pd text, dom_C10 CPY pd = true /\ known_C10 CPY [] pd = ["C10-python-digit-name"%string] /\
    py_generate uc_exec cfg pd = Ok text /\ contains_sub (lit "    1_A = ""1a""") text = true.
Proof. exact Proofs.C10.python_digit_name_refuted. Qed.
Print Assumptions C10_python_digit_name_refuted.

Theorem C10_kotlin_digit_name_refuted :
  exists cfg pd text, dom_C10 CKT pd = true /\ known_C10 CKT [] pd = ["C10-digit-name"%string] /\
    kt_generate uc_exec cfg pd = Ok text /\ contains_sub (lit "val 1st: String") text = true.
Proof. exact Proofs.C10.kotlin_digit_name_refuted. Qed.
Print Assumptions C10_kotlin_digit_name_refuted.

Theorem C10_go_digit_name_refuted :
  exists cfg pd text, dom_C10 CGO pd = true /\ known_C10 CGO [] pd = ["C10-digit-name"%string] /\
    go_generate uc_exec cfg pd = Ok text /\ contains_sub (lit "1x string `json:") text = true.
Proof. exact Proofs.C10.go_digit_name_refuted. Qed.
Print Assumptions C10_go_digit_name_refuted.

(* reachable from the IR only (the parser rejects tag/content on an enum without data-carrying variants) *)
Theorem C10_python_empty_union_refuted :
  exists cfg pd text, known_C10 CPY [] pd = ["C10-python-empty-union"%string] /\
    py_generate uc_exec cfg pd = Ok text /\ contains_sub (lit "E = Union[]") text = true.
Proof. exact Proofs.C10.python_empty_union_refuted. Qed.
Print Assumptions C10_python_empty_union_refuted.

(* ---------------------------------------------------------------- (3) the GRAMMAR half, TypeScript *)
(* "the recogniser" = c10_ts_recognise of Spec/C10TsGrammar.v, the tokenizer + recursive-descent parser of the TypeScript
   declaration subset that checks/c10.py runs on every real and every modelled TypeScript file (driver command
   c10_ts_parse); Some n = the text is n well-formed declarations.

   The tokenizer is compositional at token boundaries: if the text b does not start with an identifier character or a
   star, or the text a ends with a character that is neither an identifier character nor a slash (glue a b), the tokens
   of a ++ b are the tokens of a followed by the tokens of b - with exactly the fuel the recogniser gives it. *)
Theorem C10_ts_tokens_frame :
  forall (a : str) (ta : list c10_tok) (b : str) (tb : list c10_tok),
    c10_ts_tokens (S (List.length a)) a = Some ta -> c10_ts_tokens (S (List.length b)) b = Some tb ->
    Proofs.C10_TSGrammarTok.glue a b = true ->
    c10_ts_tokens (S (List.length (a ++ b))) (a ++ b) = Some (ta ++ tb).
Proof. exact Proofs.C10_TSGrammarTok.tokens_frame. Qed.
Print Assumptions C10_ts_tokens_frame.

(* The parser is complete for the declarative grammar Gr of Proofs/C10_TSGrammarParse.v (the grammar of the header
   comment of Spec/C10TsGrammar.v as an inductive family over token lists: primary, postfix, union, type, type list,
   object body, member): the tokens of a type followed by anything that does not start with [<], [|] or [[] are consumed
   exactly, with the fuel the recogniser gives itself. *)
Theorem C10_ts_type_grammar_complete :
  forall (t rest : list c10_tok),
    Proofs.C10_TSGrammarParse.Gr Proofs.C10_TSGrammarParse.STy t -> Proofs.C10_TSGrammarParse.fol rest ->
    c10_ts_type (t ++ rest) = Some rest.
Proof. exact Proofs.C10_TSGrammarParse.ts_type_ok. Qed.
Print Assumptions C10_ts_type_grammar_complete.

(* Layout layer, all declarations: the concatenated text of ANY list of declarations (interfaces, aliases, constants,
   unit enums, tagged unions) that are well-formed for the grammar - names, generic parameters, case names, tag and
   content keys identifiers; property keys identifiers or dashed (then quoted); wire names key-shaped; doc lines safe;
   every type tree made of identifier names and of verbatim leaves that are types of the grammar; at least one variant
   in a union; a decimal constant value - is accepted, as exactly that many declarations. *)
Theorem C10_ts_layout_grammar :
  forall ds : list ts_decl, Forall Proofs.C10_TSGrammar.c10_tsg_decl_ok ds ->
    c10_ts_recognise (List.concat (map ts_render_decl ds)) = Some (List.length ds).
Proof. exact Proofs.C10_TSGrammarFile.ts_decls_recognised. Qed.
Print Assumptions C10_ts_layout_grammar.

(* Whole files, from the IR: for every program of dom_C10 and every admissible configuration (the hypotheses of
   C10_lex_typescript), strengthened by what the grammar needs -
     c10_tsg_cfg_ok: every type_mappings value is the text of a type of the grammar (TyText: it tokenises, as an open
       fragment, to a union type of Gr);
     c10_tsg_dom: every property key (renamed field name) is an identifier unless it contains a dash (the finding class
       C10-digit-name is outside), every TypeScript type override is the text of a type of the grammar, the tag and
       content keys of a tagged union are identifiers (they are printed unquoted) and a tagged union has at least one
       variant (`export type E = ;` is not a declaration) -
   the recogniser accepts the generated file: version header, every declaration, ReviverFunc / ReplacerFunc trailer;
   it finds at least one declaration per item. *)
Theorem C10_grammar_typescript :
  forall (uc : unicode) (cfg : ts_config) (pd : parsed) (text : str),
    unicode_ok uc -> Proofs.C10_TSFile.c10_ts_cfg_ok cfg = true -> Proofs.C10_TSGrammarFile.c10_tsg_cfg_ok cfg ->
    dom_C10 CTS pd = true -> Proofs.C10_TSGrammarFile.c10_tsg_dom pd ->
    ts_generate uc cfg pd = Ok text ->
    exists n : nat, c10_ts_recognise text = Some n /\ (List.length (items_of pd) <= n)%nat.
Proof. exact Proofs.C10_TSGrammarFile.ts_generate_recognised. Qed.
Print Assumptions C10_grammar_typescript.

(* The same with COMPUTABLE extra hypotheses: every type_mappings value and every TypeScript type override is
   identifier-shaped (string, Date, Uint8Array, MyType ...), keys / tags / variants as above *)
Theorem C10_grammar_typescript_simple :
  forall (uc : unicode) (cfg : ts_config) (pd : parsed) (text : str),
    unicode_ok uc -> Proofs.C10_TSFile.c10_ts_cfg_ok cfg = true -> Proofs.C10_TSGrammarFile.c10_tsg_cfg_simple cfg = true ->
    dom_C10 CTS pd = true -> Proofs.C10_TSGrammarFile.c10_tsg_dom_simple pd = true ->
    ts_generate uc cfg pd = Ok text ->
    exists n : nat, c10_ts_recognise text = Some n /\ (List.length (items_of pd) <= n)%nat.
Proof. exact Proofs.C10_TSGrammarFile.ts_generate_recognised_simple. Qed.
Print Assumptions C10_grammar_typescript_simple.

(* The hypotheses are satisfiable and acceptance means something: a program with a documented generic interface (string,
   optional, array, tuple, Date, mapped Uint8Array and string, Record of a generic application, a readonly dashed
   doubly-optional key, a verbatim override `Array<string | number>[] | null`), a doubly-optional generic alias, a unit
   enum, a tagged union with unit / tuple / optional-tuple / struct variants and two constants (one negative) is in the
   domain, in no finding class, and its file - with version header and Date / Uint8Array reviver and replacer - is
   accepted as 8 declarations; the same text without its last three characters, without its first opening brace, or
   with its first `=` turned into `:` is rejected. *)
Theorem C10_grammar_typescript_witness :
  Proofs.C10_TSFile.c10_ts_cfg_ok Proofs.C10_TSGrammarFile.g_cfg = true /\ Proofs.C10_TSGrammarFile.c10_tsg_cfg_ok Proofs.C10_TSGrammarFile.g_cfg /\
  dom_C10 CTS Proofs.C10_TSGrammarFile.g_prog = true /\ Proofs.C10_TSGrammarFile.c10_tsg_dom Proofs.C10_TSGrammarFile.g_prog /\
  known_C10 CTS [] Proofs.C10_TSGrammarFile.g_prog = [] /\
  ts_generate uc_exec Proofs.C10_TSGrammarFile.g_cfg Proofs.C10_TSGrammarFile.g_prog = Ok Proofs.C10_TSGrammarFile.g_text /\
  c10_ts_recognise Proofs.C10_TSGrammarFile.g_text = Some 8%nat /\
  contains_sub (lit "export interface Person<T, U> {") Proofs.C10_TSGrammarFile.g_text = true /\
  contains_sub (lit "readonly ""first-name""?: string | null;") Proofs.C10_TSGrammarFile.g_text = true /\
  contains_sub (lit "| { type: ""Opt"", content?: number | null }") Proofs.C10_TSGrammarFile.g_text = true /\
  contains_sub (lit "export const ReplacerFunc = ") Proofs.C10_TSGrammarFile.g_text = true /\
  c10_ts_recognise (firstn (List.length Proofs.C10_TSGrammarFile.g_text - 3) Proofs.C10_TSGrammarFile.g_text) = None /\
  c10_ts_recognise (Proofs.C10_TSGrammarFile.g_drop_first 123 Proofs.C10_TSGrammarFile.g_text) = None /\
  c10_ts_recognise (Proofs.C10_TSGrammarFile.g_subst_first 61 58 Proofs.C10_TSGrammarFile.g_text) = None.
Proof. exact Proofs.C10_TSGrammarFile.grammar_witness. Qed.
Print Assumptions C10_grammar_typescript_witness.
(* ================================================================ MULTI-FILE (folder output, `-d`) MODE
   Every crate gets its own file, written by the multi-file generators of Model/MultiFile.v.  They differ from the
   single-file generators by (a) what is printed from the WORKSPACE: TypeScript's `import { A, B } from "./crate";`
   lines, Kotlin's `import <package>.<crate>.<A>` lines and its per-crate `package <package>.<crate>` line, rendered from
   the import map of the crate (sorted map crate -> sorted set of type names) and the crate's name; (b) the printer state,
   which is threaded from one crate to the next and never cleared (TypeScript: the property names collected for the
   Date reviver; Go: the import paths; Python: imports, TypeVars, custom translations; Swift: "CodableVoid needed").
   Domain: that of the single-file theorems for the crate's data, plus (Spec/C10MultiSpec.v, decidable)
     c10_crate_ok c     the crate name is made of [A-Za-z0-9_-];
     c10_imports_ok im  every crate name of the import map is c10_crate_ok, every imported type name identifier-shaped.
   Excluded real inputs: a crate directory named with a quote, backslash, bracket, slash, dot, blank or non-ASCII letter,
   an imported type whose generated name is not identifier-shaped.  C10_multi_imports_from_type_table /
   C10_multi_plan_in_domain derive c10_imports_ok from the type table of the workspace. *)

(* TypeScript, one crate's file, from ANY printer state the previous crates may have left whose collected property
   names are printable between double quotes (c10_ts_state_ok; the empty initial state is): header, import lines, every
   declaration, the reviver / replacer trailer are balanced, and the state handed to the next crate is printable again *)
Theorem C10_lex_multi_typescript :
  forall (uc : unicode) (cfg : ts_config) (st : ts_state) (im : scoped) (pd : parsed) (text : str) (st' : ts_state),
    unicode_ok uc -> Proofs.C10_TSFile.c10_ts_cfg_ok cfg = true -> dom_C10 CTS pd = true -> c10_imports_ok im = true ->
    Proofs.C10_TSFile.c10_ts_state_ok st = true ->
    ts_generate_multi uc cfg st im pd = Ok (text, st') ->
    good_C10_lex CTS text = true /\ Proofs.C10_TSFile.c10_ts_state_ok st' = true.
Proof. exact Proofs.C10Multi.lex_multi_typescript. Qed.
Print Assumptions C10_lex_multi_typescript.

(* Kotlin (stateless), one crate's file: version comment, `package <package>.<crate>`, the fixed imports, one import line
   per imported type, every declaration *)
Theorem C10_lex_multi_kotlin :
  forall (uc : unicode) (cfg : kt_config) (c : str) (im : scoped) (pd : parsed) (text : str),
    Proofs.C10_KT.c10_kt_cfg_ok cfg = true -> dom_C10 CKT pd = true -> c10_crate_ok c = true -> c10_imports_ok im = true ->
    kt_generate_multi uc cfg c im pd = Ok text -> good_C10_lex CKT text = true.
Proof. exact Proofs.C10Multi.lex_multi_kotlin. Qed.
Print Assumptions C10_lex_multi_kotlin.

(* Swift, one crate's file (no import lines, no CodableVoid trailer in this mode), from any printer state ... *)
Theorem C10_lex_multi_swift :
  forall (uc : unicode) (cfg : sw_config) (st : sw_state) (pd : parsed) (text : str) (st' : sw_state),
    Proofs.C10_SWFile.c10_sw_cfg_ok cfg = true -> dom_C10 CSW pd = true ->
    sw_generate_multi uc cfg st pd = Ok (text, st') -> good_C10_lex CSW text = true.
Proof. exact Proofs.C10Multi.lex_multi_swift. Qed.
Print Assumptions C10_lex_multi_swift.

(* ... and Codable.swift, the extra output file post_generation writes when some file needed CodableVoid *)
Theorem C10_lex_multi_swift_codable :
  forall (cfg : sw_config), Proofs.C10_SWFile.c10_sw_cfg_ok cfg = true -> good_C10_lex CSW (sw_codable_contents cfg) = true.
Proof. exact Proofs.C10Multi.sw_codable_contents_balanced. Qed.
Print Assumptions C10_lex_multi_swift_codable.

(* Go, one crate's file, from any table of import paths printable between double quotes (go_inv; the empty one is): the
   import block printed is that of the state reached after the crate's last item, which still holds the paths the
   previous crates registered *)
Theorem C10_lex_multi_go :
  forall (uc : unicode) (cfg : go_config) (st : go_state) (pd : parsed) (text : str) (st' : go_state),
    unicode_ok uc -> Proofs.C10_GOFile.c10_go_cfg_ok cfg = true -> dom_C10 CGO pd = true -> Proofs.C10_GOFile.go_inv st ->
    go_generate_multi uc cfg st pd = Ok (text, st') -> good_C10_lex CGO text = true /\ Proofs.C10_GOFile.go_inv st'.
Proof. exact Proofs.C10Multi.lex_multi_go. Qed.
Print Assumptions C10_lex_multi_go.

(* Python, one crate's file, from any printer state whose import table holds neutral tokens and whose TypeVars are
   identifier-shaped (py_inv; the empty state is): header docstring, the import lines, TypeVars and helper functions of
   the state reached after the last item (previous crates included), every declaration *)
Theorem C10_lex_multi_python :
  forall (uc : unicode) (cfg : py_config) (st : py_state) (pd : parsed) (text : str) (st' : py_state),
    unicode_ok uc -> Proofs.C10_PYFile.c10_py_cfg_ok cfg = true -> dom_C10 CPY pd = true -> Proofs.C10_PYFile.py_inv st ->
    py_generate_multi uc cfg st pd = Ok (text, st') -> good_C10_lex CPY text = true /\ Proofs.C10_PYFile.py_inv st'.
Proof. exact Proofs.C10Multi.lex_multi_python. Qed.
Print Assumptions C10_lex_multi_python.

(* THE WHOLE RUN (generate_crates, Model/MultiFile.v: the crates of the plan one after the other, the printer state
   threaded from the language's initial state, stopping at the first failure): for a plan all of whose entries are in
   the domain (Proofs.C10Multi.c10_plan_ok: dom_C10 of the data, c10_crate_ok of the crate name, c10_imports_ok of the
   import map), EVERY file that is generated is balanced - no hypothesis on any intermediate state is left.
   Scala's generate_types override is one function for both modes (no import lines, no state): its multi-file
   statement is the run-level one. *)
Theorem C10_lex_multi_typescript_run :
  forall (uc : unicode) (cfg : ts_config) (plan : list out_plan) files fin,
    unicode_ok uc -> Proofs.C10_TSFile.c10_ts_cfg_ok cfg = true -> Proofs.C10Multi.c10_plan_ok CTS plan = true ->
    generate_crates (fun st (_ : str) im pd => ts_generate_multi uc cfg st im pd) [] plan = (files, fin) ->
    forall f text, In (f, Model.Writer.Generated text) files -> good_C10_lex CTS text = true.
Proof. exact Proofs.C10Multi.ts_run_balanced. Qed.
Print Assumptions C10_lex_multi_typescript_run.

Theorem C10_lex_multi_kotlin_run :
  forall (uc : unicode) (cfg : kt_config) (plan : list out_plan) files fin,
    Proofs.C10_KT.c10_kt_cfg_ok cfg = true -> Proofs.C10Multi.c10_plan_ok CKT plan = true ->
    generate_crates (fun (st : unit) c im pd => Proofs.C10Multi.wrap_unit st (kt_generate_multi uc cfg c im pd)) tt plan = (files, fin) ->
    forall f text, In (f, Model.Writer.Generated text) files -> good_C10_lex CKT text = true.
Proof. exact Proofs.C10Multi.kt_run_balanced. Qed.
Print Assumptions C10_lex_multi_kotlin_run.

Theorem C10_lex_multi_swift_run :
  forall (uc : unicode) (cfg : sw_config) (plan : list out_plan) files fin,
    Proofs.C10_SWFile.c10_sw_cfg_ok cfg = true -> Proofs.C10Multi.c10_plan_ok CSW plan = true ->
    generate_crates (fun st (_ : str) (_ : scoped) pd => sw_generate_multi uc cfg st pd) false plan = (files, fin) ->
    (forall f text, In (f, Model.Writer.Generated text) files -> good_C10_lex CSW text = true) /\
    good_C10_lex CSW (sw_codable_contents cfg) = true.
Proof. exact Proofs.C10Multi.sw_run_balanced. Qed.
Print Assumptions C10_lex_multi_swift_run.

Theorem C10_lex_multi_go_run :
  forall (uc : unicode) (cfg : go_config) (plan : list out_plan) files fin,
    unicode_ok uc -> Proofs.C10_GOFile.c10_go_cfg_ok cfg = true -> Proofs.C10Multi.c10_plan_ok CGO plan = true ->
    generate_crates (fun st (_ : str) (_ : scoped) pd => go_generate_multi uc cfg st pd) [] plan = (files, fin) ->
    forall f text, In (f, Model.Writer.Generated text) files -> good_C10_lex CGO text = true.
Proof. exact Proofs.C10Multi.go_run_balanced. Qed.
Print Assumptions C10_lex_multi_go_run.

Theorem C10_lex_multi_python_run :
  forall (uc : unicode) (cfg : py_config) (plan : list out_plan) files fin,
    unicode_ok uc -> Proofs.C10_PYFile.c10_py_cfg_ok cfg = true -> Proofs.C10Multi.c10_plan_ok CPY plan = true ->
    generate_crates (fun st (_ : str) (_ : scoped) pd => py_generate_multi uc cfg st pd) py_empty_state plan = (files, fin) ->
    forall f text, In (f, Model.Writer.Generated text) files -> good_C10_lex CPY text = true.
Proof. exact Proofs.C10Multi.py_run_balanced. Qed.
Print Assumptions C10_lex_multi_python_run.

Theorem C10_lex_multi_scala :
  forall (uc : unicode) (cfg : sc_config) (plan : list out_plan) files fin,
    Proofs.C10_SC.c10_sc_cfg_ok cfg = true -> Proofs.C10Multi.c10_plan_ok CSC plan = true ->
    generate_crates (fun (st : unit) (_ : str) (_ : scoped) pd => Proofs.C10Multi.wrap_unit st (sc_generate uc cfg pd)) tt plan = (files, fin) ->
    forall f text, In (f, Model.Writer.Generated text) files -> good_C10_lex CSC text = true.
Proof. exact Proofs.C10Multi.sc_run_balanced. Qed.
Print Assumptions C10_lex_multi_scala.

(* where the import maps come from: used_imports (mod.rs:430) only inserts (crate, name) pairs taken from the type
   table of the workspace - on the direct path, the fallback path and for a wildcard - so if the table's crate names
   and type names have the shapes above, every import map has, whatever the import set and its iteration order *)
Theorem C10_multi_imports_from_type_table :
  forall (hc_types : crate_types) (own : str) (imports_iter : list imported),
    c10_crate_types_ok hc_types = true -> c10_imports_ok (used_imports hc_types own imports_iter) = true.
Proof. exact Proofs.C10Multi.used_imports_ok. Qed.
Print Assumptions C10_multi_imports_from_type_table.

(* hence the plan multi_plan builds for a workspace whose crates are in dom_C10, with crate names of [A-Za-z0-9_-] and
   identifier-shaped type tables, is in the domain of the run-level theorems, for every iteration order [hc] of the type
   table that invents no entry *)
Theorem C10_multi_plan_in_domain :
  forall (lg : lang) (l : c10_lang) (hc : crate_types -> crate_types) (cs : list (str * parsed)),
    (forall m kv, In kv (hc m) -> In kv m) ->
    forallb (fun c => dom_C10 l (snd c) && c10_crate_ok (fst c) && forallb c10_ident_ok (p_type_names (snd c))) cs = true ->
    Proofs.C10Multi.c10_plan_ok l (multi_plan lg hc cs) = true.
Proof. exact Proofs.C10Multi.multi_plan_ok. Qed.
Print Assumptions C10_multi_plan_in_domain.

(* the hypothesis on the import map cannot be dropped: a crate directory named with a double quote in it ends the TypeScript module string
   early and the import line is not balanced *)
Theorem C10_multi_imports_hypothesis_needed :
  c10_imports_ok [(lit "al""pha", [lit "Item"])] = false /\
  good_C10_lex CTS (ts_write_imports [(lit "al""pha", [lit "Item"])]) = false /\
  c10_imports_ok [(lit "alpha", [lit "Item"])] = true /\
  good_C10_lex CTS (ts_write_imports [(lit "alpha", [lit "Item"])]) = true.
Proof. exact Proofs.C10MultiWitness.C10_multi_imports_hypothesis_needed. Qed.
Print Assumptions C10_multi_imports_hypothesis_needed.

(* ---------------------------------------------------------------- (3') the GRAMMAR half, Go *)
(* "the recogniser" = c10_go_recognise of Spec/C10GoGrammar.v: the tokenizer of the Go lexical grammar (comments, identifiers,
   numbers, interpreted / raw string and rune literals with the escapes of the language, one-character punctuation; line ends
   as tokens), the semicolon insertion of the language, and a recursive-descent parser of SourceFile / PackageClause / ImportDecl /
   TypeDecl (with type parameters) / ConstDecl / FunctionDecl / MethodDecl / Type / StructType with field tags; function BODIES
   are only recognised as balanced token runs.  checks/c10.py runs it on every real Go file (driver command c10_go_parse);
   Some n = a source file with n top-level declarations.

   The tokenizer is compositional at token boundaries: if the text b does not start with an identifier / number character, a
   star or a slash, or the text a ends with a character that is none of these (gglue a b), and a opens no line comment or b
   starts a new line (lcok a b), the raw tokens of a ++ b are those of a followed by those of b - with exactly the fuel the
   recogniser gives it. *)
Theorem C10_go_tokens_frame :
  forall (a : str) (ta : list c10_gtok) (b : str) (tb : list c10_gtok),
    c10_go_tokens (S (List.length a)) a = Some ta -> c10_go_tokens (S (List.length b)) b = Some tb ->
    Proofs.C10_GOGrammarTok.gglue a b = true -> Proofs.C10_GOGrammarTok.lcok a b = true ->
    c10_go_tokens (S (List.length (a ++ b))) (a ++ b) = Some (ta ++ tb).
Proof. exact Proofs.C10_GOGrammarTok.go_tokens_frame. Qed.
Print Assumptions C10_go_tokens_frame.

(* Semicolon insertion distributes over concatenation: the stream of a ++ b is the stream of a followed by the stream of b
   started with the flag a ends with ("a line end here becomes a semicolon") *)
Theorem C10_go_semis_app :
  forall (a : list c10_gtok) (fl : bool) (b : list c10_gtok),
    c10_go_semis fl (a ++ b) = c10_go_semis fl a ++ c10_go_semis (Proofs.C10_GOGrammarSemi.endfl fl a) b.
Proof. exact Proofs.C10_GOGrammarSemi.semis_app. Qed.
Print Assumptions C10_go_semis_app.

(* The parser is complete for the declarative grammar GGr of Proofs/C10_GOGrammarParse.v (Type, TypeArgs, StructType, FieldDecl of
   the header comment of Spec/C10GoGrammar.v as an inductive family over token lists): the tokens of a type followed by
   anything that does not start with a dot or an opening bracket are consumed exactly, with the fuel the recogniser gives itself *)
Theorem C10_go_type_grammar_complete :
  forall (t rest : list c10_gtok),
    Proofs.C10_GOGrammarParse.GGr Proofs.C10_GOGrammarParse.GTy t -> Proofs.C10_GOGrammarParse.folt rest ->
    c10_go_type (t ++ rest) = Some rest.
Proof. exact Proofs.C10_GOGrammarParse.go_type_ok. Qed.
Print Assumptions C10_go_type_grammar_complete.

(* ... and for whole source files: a package clause, import declarations (none, one, or a group of n) and any sequence of
   declarations each of which the declaration parser consumes up to its semicolon (DeclToks; shown for type declarations with type
   parameters, single and grouped constants, functions and methods with balanced bodies) is accepted, as exactly that many
   declarations *)
Theorem C10_go_file_grammar_complete :
  forall (pkg : str) (n : nat) (ds : list (list c10_gtok)),
    c10_go_kw pkg = false -> Forall Proofs.C10_GOGrammarParse.DeclToks ds ->
    c10_go_file (QId (lit "package") :: QId pkg :: QP 59 :: Proofs.C10_GOGrammarParse.imports_toks n ++ Proofs.C10_GOGrammarParse.decls_toks ds)
      = Some (List.length ds).
Proof. exact Proofs.C10_GOGrammarParse.go_file_ok. Qed.
Print Assumptions C10_go_file_grammar_complete.

(* Layout layer, whole files (the name is kept from the time when tagged enums were missing: since c10_gog_decl_ok (GOTagged e) is
   c10_gog_tagged_ok e and no longer False, this IS the complete layout theorem, restated as C10_go_layout_grammar below; covered:
   version comment, package clause, the import declaration in its three forms, structs with type parameters and tagged members,
   aliases, constants, unit enums = a type and a constant group, tagged enums; the step from the IR (go_decl_of) to these
   declarations is C10_grammar_go_partial): under any version line without a line end, any package name that is an identifier and
   not a keyword, any import paths printable between double quotes, the text of ANY list of such declarations that are well-formed
   for the grammar - names identifiers that are not keywords; doc lines without a line end; JSON keys and wire names key-shaped;
   type trees whose applied names are such names and whose leaves / verbatim parts are types of the grammar (TyText); a decimal
   constant - is accepted, with at least one declaration per item. *)
Theorem C10_go_layout_grammar_partial :
  forall (nv : bool) (version package : str) (imports : list str) (ds : list go_decl),
    Proofs.C10Lex.c10_line_ok version = true -> Proofs.C10_GOGrammarSemi.c10_go_name_ok package = true ->
    forallb c10_instr_ok imports = true -> Forall Proofs.C10_GOGrammar.c10_gog_decl_ok ds ->
    exists n : nat,
      c10_go_recognise (Proofs.C10_GOGrammarFile.go_header nv version package ++ go_write_all_imports imports ++
                        List.concat (map go_render_decl ds)) = Some n /\ (List.length ds <= n)%nat.
Proof. exact Proofs.C10_GOGrammarFile.go_decls_recognised. Qed.
Print Assumptions C10_go_layout_grammar_partial.

(* The hypotheses are satisfiable and acceptance means something: the program of the TypeScript witness (a documented generic struct
   with string, optional, slice, array, DateTime, mapped and map-of-generic-application members and a dashed key, a generic alias, a
   unit enum, a tagged enum with unit / tuple / optional-tuple / struct variants, two constants) is in dom_C10, in no finding class
   (neither known_C10 nor the keyword class of the Go grammar), and its Go file - version comment, package clause, an import group,
   every declaration with its UnmarshalJSON / MarshalJSON / accessors / constructors - is accepted as 19 declarations; the same
   text without its first opening brace, with its first `=` turned into `:`, or without its first back-tick is rejected; two
   struct fields on two lines are accepted, on one line (no separator) rejected; `type struct {}` (no name) is rejected. *)
Theorem C10_grammar_go_witness :
  Proofs.C10_GOFile.c10_go_cfg_ok Proofs.C10_GOGrammarFile.gg_cfg = true /\ dom_C10 CGO Proofs.C10_GOGrammarFile.gg_prog = true /\
  known_C10 CGO [] Proofs.C10_GOGrammarFile.gg_prog = [] /\ known_C10_go_grammar Proofs.C10_GOGrammarFile.gg_prog = [] /\
  go_generate uc_exec Proofs.C10_GOGrammarFile.gg_cfg Proofs.C10_GOGrammarFile.gg_prog = Ok Proofs.C10_GOGrammarFile.gg_text /\
  c10_go_recognise Proofs.C10_GOGrammarFile.gg_text = Some 19%nat /\
  contains_sub (lit "type Person[T any, U any] struct {") Proofs.C10_GOGrammarFile.gg_text = true /\
  contains_sub (lit "import (") Proofs.C10_GOGrammarFile.gg_text = true /\
  contains_sub (lit "func (e *E) UnmarshalJSON(data []byte) error {") Proofs.C10_GOGrammarFile.gg_text = true /\
  contains_sub (lit "const MaxRetries int = -12") Proofs.C10_GOGrammarFile.gg_text = true /\
  c10_go_recognise (Proofs.C10_TSGrammarFile.g_drop_first 123 Proofs.C10_GOGrammarFile.gg_text) = None /\
  c10_go_recognise (Proofs.C10_TSGrammarFile.g_subst_first 61 58 Proofs.C10_GOGrammarFile.gg_text) = None /\
  c10_go_recognise (Proofs.C10_TSGrammarFile.g_drop_first 96 Proofs.C10_GOGrammarFile.gg_text) = None /\
  c10_go_recognise Proofs.C10_GOGrammarFile.gg_two_fields_two_lines = Some 1%nat /\
  c10_go_recognise Proofs.C10_GOGrammarFile.gg_two_fields_one_line = None /\
  c10_go_recognise Proofs.C10_GOGrammarFile.gg_type_without_name = None.
Proof. exact Proofs.C10_GOGrammarFile.C10_go_grammar_nonvacuous. Qed.
Print Assumptions C10_grammar_go_witness.

(* the finding class the recogniser exposed is real: the Go back end escapes no keyword - an algebraic enum `switch` with a variant
   `default` is in dom_C10, in no class of known_C10, in the class C10-go-keyword-name, and its file (`type switch struct{`,
   `func (s switch) default() ...`) is rejected by the recogniser *)
Theorem C10_go_keyword_name_refuted :
  exists cfg pd text, dom_C10 CGO pd = true /\ known_C10 CGO [] pd = [] /\ known_C10_go_grammar pd = ["C10-go-keyword-name"%string] /\
    go_generate uc_exec cfg pd = Ok text /\ contains_sub (lit "type switch struct{") text = true /\ c10_go_recognise text = None.
Proof. exact Proofs.C10_GOGrammarFile.go_keyword_name_refuted. Qed.
Print Assumptions C10_go_keyword_name_refuted.
(* ================================================================ (3') the GRAMMAR half, Kotlin
   "the recogniser" = c10_kt_recognise of Spec/C10KtGrammar.v: a tokenizer (identifiers incl. back-ticked ones, string
   literals with the language's escapes, line comments, nesting block comments, annotations glued to their at-sign) and a
   recursive-descent parser, with explicit fuel, of the Kotlin declaration subset written from the Kotlin grammar
   (kotlinFile, packageHeader, importHeader, typeAlias, classDeclaration, objectDeclaration, functionDeclaration,
   primaryConstructor, classParameter, delegationSpecifier, classBody, enumClassBody, enumEntry, typeParameters, type,
   userType, typeArguments, modifiers, annotation, valueArguments).  checks/c10.py runs its extraction (driver command
   c10_kt_parse) on every real Kotlin file, single-file and folder mode; Some n = package header, imports and n
   well-formed top-level declarations.

   The tokenizer is compositional at token boundaries: if the text b does not start with an identifier character, a star,
   a slash or a double quote, or the text a ends with a character that is none of identifier character, slash, double
   quote (glue a b), the tokens of a ++ b are the tokens of a followed by the tokens of b - with exactly the fuel the
   recogniser gives it. *)
Theorem C10_kt_tokens_frame :
  forall (a : str) (ta : list c10_tok) (b : str) (tb : list c10_tok),
    c10k_tokens (S (List.length a)) a = Some ta -> c10k_tokens (S (List.length b)) b = Some tb ->
    Proofs.C10_KTGrammarTok.glue a b = true ->
    c10k_tokens (S (List.length (a ++ b))) (a ++ b) = Some (ta ++ tb).
Proof. exact Proofs.C10_KTGrammarTok.tokens_frame. Qed.
Print Assumptions C10_kt_tokens_frame.

(* The type parser is complete for the declarative grammar Gr of Proofs/C10_KTGrammarParse.v (simpleUserType, userType
   with dots, type with any number of nullable marks, typeArguments, as an inductive family over token lists): the
   tokens of a type followed by anything that does not start with [<], [.] or [?] are consumed exactly, with the fuel
   the recogniser gives itself. *)
Theorem C10_kt_type_grammar_complete :
  forall (t rest : list c10_tok),
    Proofs.C10_KTGrammarParse.Gr Proofs.C10_KTGrammarParse.STy t -> Proofs.C10_KTGrammarParse.fol rest ->
    c10k_type (t ++ rest) = Some rest.
Proof. exact Proofs.C10_KTGrammarParse.type_ok. Qed.
Print Assumptions C10_kt_type_grammar_complete.

(* The declaration parser is complete for class declarations given by their parts: modifiers (annotations with or
   without arguments, modifier keywords), name, typeParameters, an optional primaryConstructor (each parameter one the
   parameter recogniser consumes), an optional delegation `: UserType(args)`, an optional body that is enum entries
   (exactly when `enum` is among the modifiers) or member declarations (each, recursively, a declaration the recogniser
   consumes): the recogniser consumes exactly these tokens (DeclToks: whatever follows, provided it starts like a
   declaration or closes a body, with every fuel from length + 2 on). *)
Theorem C10_kt_class_grammar_complete :
  forall (ms : list Proofs.C10_KTGrammarParse.kmod) (name : str) (gs : list str)
         (ctor : option (list (list c10_tok))) (d : option (list c10_tok * list c10_tok)) (b : Proofs.C10_KTGrammarParse.kbody2),
    Forall (Proofs.C10_KTGrammarParse.mod_wf c10k_is_mod) ms ->
    match ctor with Some ps => Forall Proofs.C10_KTGrammarParse.ParamToks ps | None => True end ->
    match d with
    | Some (u, l) => Proofs.C10_KTGrammarParse.Gr Proofs.C10_KTGrammarParse.SUser u /\ Forall Proofs.C10_KTGrammarParse.expr_tok l
    | None => True
    end ->
    match b with
    | Proofs.C10_KTGrammarParse.B2None => True
    | Proofs.C10_KTGrammarParse.B2Entries es =>
      Proofs.C10_KTGrammarParse.mods_enum ms = true /\ Forall Proofs.C10_KTGrammarParse.EntryToks es
    | Proofs.C10_KTGrammarParse.B2Members mts =>
      Proofs.C10_KTGrammarParse.mods_enum ms = false /\ Forall Proofs.C10_KTGrammarParse.DeclToks mts
    end ->
    Proofs.C10_KTGrammarParse.DeclToks
      (Proofs.C10_KTGrammarParse.mods_toks ms ++ Proofs.C10_KTGrammarParse.kw "class" :: KIdent name ::
       Proofs.C10_KTGrammarParse.gens_toks gs ++ Proofs.C10_KTGrammarParse.octor_toks ctor ++
       Proofs.C10_KTGrammarParse.odeleg_toks d ++ Proofs.C10_KTGrammarParse.body_toks (Proofs.C10_KTGrammarParse.body2 b)).
Proof. exact Proofs.C10_KTGrammarParse.decltoks_class. Qed.
Print Assumptions C10_kt_class_grammar_complete.

(* Layout layer, all declarations: the concatenated text of ANY list of Kotlin declarations (object, data class with or
   without the redacted toString body, typealias, value class with or without the redacted body, enum class, sealed class
   with object / data class variants) that are well-formed for the grammar - names, generic parameters, parameter names,
   entry names and the content key identifiers; doc lines without a line end; serial names key-shaped and not empty; the
   wire name of a variant not empty and free of quote, backslash and line end; every type tree made of identifier names,
   nullable marks and verbatim leaves that are types of the grammar - is accepted, as exactly that many declarations. *)
Theorem C10_kt_layout_grammar :
  forall ds : list kt_decl, Forall Proofs.C10_KTGrammar.c10_ktg_decl_ok ds ->
    c10_kt_recognise (List.concat (map kt_render_decl ds)) = Some (List.length ds).
Proof. exact Proofs.C10_KTGrammarFile.kt_decls_recognised. Qed.
Print Assumptions C10_kt_layout_grammar.

(* Whole files, from the IR: for every program of dom_C10 and every admissible configuration (the hypotheses of
   C10_lex_kotlin), strengthened by what the grammar needs -
     c10_ktg_cfg_ok: every type_mappings value is the text of a type of the grammar (TyText: it tokenises, as an open
       fragment, to a type of Gr - `String`, `java.net.URI`, `Map<String, List<Int>?>`); the prefix, if any, is
       identifier-shaped (it heads every declared name: a prefix starting with a digit is excluded); the package, if any,
       is a dotted sequence of identifiers (a package segment with a dash or a plus, admitted by the lexical theorem, is
       excluded);
     c10_ktg_dom: every constructor parameter name (renamed field name, dashes replaced) is an identifier (the finding
       class C10-digit-name is outside), every Kotlin type override is the text of a type of the grammar, the content
       key of an algebraic enum is an identifier (it is printed as a parameter name: a dashed content key is excluded)
       and the PascalCase of each of its variant names is not empty (a variant named with underscores only, whose class
       would have no name, is excluded) -
   the recogniser accepts the generated file: version header, package line, fixed imports, every declaration; it finds
   at least one top-level declaration per item.  (kt_generate never succeeds on a constant: the statement is about
   structs, enums and aliases.) *)
Theorem C10_grammar_kotlin :
  forall (uc : unicode) (cfg : kt_config) (pd : parsed) (text : str),
    Proofs.C10_KT.c10_kt_cfg_ok cfg = true -> Proofs.C10_KTGrammarFile.c10_ktg_cfg_ok cfg ->
    dom_C10 CKT pd = true -> Proofs.C10_KTGrammarFile.c10_ktg_dom pd ->
    kt_generate uc cfg pd = Ok text ->
    exists n : nat, c10_kt_recognise text = Some n /\ (List.length (items_of pd) <= n)%nat.
Proof. exact Proofs.C10_KTGrammarFile.kt_generate_recognised. Qed.
Print Assumptions C10_grammar_kotlin.

(* The same with COMPUTABLE extra hypotheses: every type_mappings value and every Kotlin type override is
   identifier-shaped (String, Instant, MyType ...), the prefix empty or identifier-shaped, the package empty or split by
   its dots into identifiers; parameter names, content keys and variant names as above *)
Theorem C10_grammar_kotlin_simple :
  forall (uc : unicode) (cfg : kt_config) (pd : parsed) (text : str),
    Proofs.C10_KT.c10_kt_cfg_ok cfg = true -> Proofs.C10_KTGrammarFile.c10_ktg_cfg_simple cfg = true ->
    dom_C10 CKT pd = true -> Proofs.C10_KTGrammarFile.c10_ktg_dom_simple pd = true ->
    kt_generate uc cfg pd = Ok text ->
    exists n : nat, c10_kt_recognise text = Some n /\ (List.length (items_of pd) <= n)%nat.
Proof. exact Proofs.C10_KTGrammarFile.kt_generate_recognised_simple. Qed.
Print Assumptions C10_grammar_kotlin_simple.

(* The hypotheses are satisfiable and acceptance means something: a program with a documented, redacted generic data class
   (String, nullable, List, a type mapped to the qualified java.net.URI, HashMap of a generic application, a dashed key
   printed with @SerialName and a doubly nullable defaulted type, a defaulted non-optional field, a verbatim override
   `Map<String, List<Int>?>`), an empty struct (object), a generic typealias, a redacted @JvmInline value class, an enum
   class and a generic sealed class with object / data class variants (one named after a digit-initial variant, one
   referring to its generic Inner helper class) under a prefix, a dotted package and a version header is in the domain,
   in no finding class, and its file is accepted as 7 declarations; the same text without its last three characters,
   without its first opening parenthesis, with its first `=` turned into `:`, or without its first comma is rejected;
   and so are `object Tag<T>`, `object Tag(val x: Int)`, `typealias A<> = Int`, `typealias A Int`, a constructor
   parameter without a type, a class without a name and an unterminated string (while `object Tag` is one declaration). *)
Theorem C10_grammar_kotlin_witness :
  Proofs.C10_KT.c10_kt_cfg_ok Proofs.C10_KTGrammarFile.kg_cfg = true /\ Proofs.C10_KTGrammarFile.c10_ktg_cfg_ok Proofs.C10_KTGrammarFile.kg_cfg /\
  dom_C10 CKT Proofs.C10_KTGrammarFile.kg_prog = true /\ Proofs.C10_KTGrammarFile.c10_ktg_dom Proofs.C10_KTGrammarFile.kg_prog /\
  known_C10 CKT [] Proofs.C10_KTGrammarFile.kg_prog = [] /\
  kt_generate uc_exec Proofs.C10_KTGrammarFile.kg_cfg Proofs.C10_KTGrammarFile.kg_prog = Ok Proofs.C10_KTGrammarFile.kg_text /\
  c10_kt_recognise Proofs.C10_KTGrammarFile.kg_text = Some 7%nat /\
  contains_sub (lit "data class OPPerson<T, U> (") Proofs.C10_KTGrammarFile.kg_text = true /\
  contains_sub (lit "val first_name: String?? = null,") Proofs.C10_KTGrammarFile.kg_text = true /\
  contains_sub (lit "typealias OPAl<T> = List<T>?") Proofs.C10_KTGrammarFile.kg_text = true /\
  contains_sub (lit "enum class OPColor(val string: String) {") Proofs.C10_KTGrammarFile.kg_text = true /\
  contains_sub (lit "data class S<T>(val content: OPESInner<T>): OPE<T>()") Proofs.C10_KTGrammarFile.kg_text = true /\
  c10_kt_recognise (firstn (List.length Proofs.C10_KTGrammarFile.kg_text - 3) Proofs.C10_KTGrammarFile.kg_text) = None /\
  c10_kt_recognise (Proofs.C10_KTGrammarFile.kg_drop_first 40 Proofs.C10_KTGrammarFile.kg_text) = None /\
  c10_kt_recognise (Proofs.C10_KTGrammarFile.kg_subst_first 61 58 Proofs.C10_KTGrammarFile.kg_text) = None /\
  c10_kt_recognise (Proofs.C10_KTGrammarFile.kg_drop_first 44 Proofs.C10_KTGrammarFile.kg_text) = None /\
  c10_kt_recognise (lit "@Serializable" ++ nl ++ lit "object Tag" ++ nl) = Some 1%nat /\
  c10_kt_recognise (lit "@Serializable" ++ nl ++ lit "object Tag<T>" ++ nl) = None /\
  c10_kt_recognise (lit "@Serializable" ++ nl ++ lit "object Tag(val x: Int)" ++ nl) = None /\
  c10_kt_recognise (lit "typealias A<> = Int" ++ nl) = None /\
  c10_kt_recognise (lit "typealias A Int" ++ nl) = None /\
  c10_kt_recognise (lit "@Serializable" ++ nl ++ lit "data class A(val x)" ++ nl) = None /\
  c10_kt_recognise (lit "@Serializable" ++ nl ++ lit "data class (val x: Int)" ++ nl) = None /\
  c10_kt_recognise (lit "@SerialName(""a) object A" ++ nl) = None.
Proof. exact Proofs.C10_KTGrammarFile.kt_grammar_witness. Qed.
Print Assumptions C10_grammar_kotlin_witness.

(* Kotlin, MULTI-FILE (folder output) mode, one crate's file (kt_generate_multi: `package <package>.<crate>`, the fixed
   imports, one `import <package>.<crate>.<prefix><Type>` per imported type, every declaration): under the hypotheses of
   C10_grammar_kotlin, a package that is not empty (the real CLI demands one for Kotlin; without it the import lines would
   start with a dot), a crate name that is an identifier (c10_crate_ok of the lexical theorem also admits a leading digit
   - a Cargo package `3d-tools` gives `package p.3d_tools`, which is not a package header - and dashes, which
   find_crate_name replaces: both excluded) and an import map of identifier-shaped crate and type names, the recogniser
   accepts the file and finds at least one top-level declaration per item. *)
Theorem C10_grammar_kotlin_multi :
  forall (uc : unicode) (cfg : kt_config) (c : str) (im : scoped) (pd : parsed) (text : str),
    Proofs.C10_KT.c10_kt_cfg_ok cfg = true -> Proofs.C10_KTGrammarFile.c10_ktg_cfg_ok cfg -> kt_package cfg <> [] ->
    dom_C10 CKT pd = true -> Proofs.C10_KTGrammarFile.c10_ktg_dom pd ->
    Proofs.C10_KTGrammarTok.c10k_ident_ok c = true -> Proofs.C10_KTGrammarMulti.c10_ktg_imports_ok im ->
    kt_generate_multi uc cfg c im pd = Ok text ->
    exists n : nat, c10_kt_recognise text = Some n /\ (List.length (items_of pd) <= n)%nat.
Proof. exact Proofs.C10_KTGrammarMulti.kt_generate_multi_recognised. Qed.
Print Assumptions C10_grammar_kotlin_multi.

(* its hypotheses are satisfiable: the witness program above as the crate app_core importing two types of lib_crate is
   accepted as 7 declarations with its package and import lines (the imported names carry the prefix OP of the configuration); a package segment that starts with a digit and an import
   of a crate named with a dash are rejected *)
Theorem C10_grammar_kotlin_multi_witness :
  Proofs.C10_KTGrammarTok.c10k_ident_ok (lit "app_core") = true /\
  Proofs.C10_KTGrammarMulti.c10_ktg_imports_ok Proofs.C10_KTGrammarMulti.kgm_imports /\
  kt_package Proofs.C10_KTGrammarFile.kg_cfg <> [] /\
  kt_generate_multi uc_exec Proofs.C10_KTGrammarFile.kg_cfg (lit "app_core") Proofs.C10_KTGrammarMulti.kgm_imports Proofs.C10_KTGrammarFile.kg_prog
    = Ok Proofs.C10_KTGrammarMulti.kgm_text /\
  c10_kt_recognise Proofs.C10_KTGrammarMulti.kgm_text = Some 7%nat /\
  contains_sub (lit "package com.agilebits.onepassword.app_core") Proofs.C10_KTGrammarMulti.kgm_text = true /\
  contains_sub (lit "import com.agilebits.onepassword.lib_crate.OPNode") Proofs.C10_KTGrammarMulti.kgm_text = true /\
  c10_kt_recognise (lit "package com.p.3d_tools" ++ nl) = None /\
  c10_kt_recognise (lit "package com.p.lib" ++ nl ++ lit "import com.p.lib-crate.Item" ++ nl) = None.
Proof. exact Proofs.C10_KTGrammarMulti.C10_kt_grammar_multi_nonvacuous. Qed.
Print Assumptions C10_grammar_kotlin_multi_witness.

(* ---------------------------------------------------------------- (3'') the GRAMMAR half, Swift *)

(* "the recogniser" = c10_sw_recognise of Spec/C10SwGrammar.v: the tokenizer of the Swift lexical structure (nested multiline comments,
   line comments, identifiers and back-ticked identifiers, numbers, static string literals with the escapes of the language,
   one-character punctuation; line breaks as tokens) and a recursive-descent parser of import / let / var / typealias / struct /
   enum (raw-value and union style, indirect) / extension / init / func declarations with generic-parameter clauses, protocol
   compositions, type-inheritance clauses, parameter clauses and the type grammar; the BODIES of init / func are only recognised
   as balanced token runs.  checks/c10.py runs it on every real Swift file (driver command c10_sw_parse); Some n = a file with n
   top-level declarations.

   The tokenizer is compositional at token boundaries: if the text b does not start with an identifier / number character, a star
   or a slash, or the text a ends with a character that is none of these (glue a b), and a opens no line comment or b starts a
   new line (lcok a b), the tokens of a ++ b are those of a followed by those of b - with exactly the fuel the recogniser gives it. *)
Theorem C10_sw_tokens_frame :
  forall (a : str) (ta : list c10_wtok) (b : str) (tb : list c10_wtok),
    c10_sw_tokens (S (List.length a)) a = Some ta -> c10_sw_tokens (S (List.length b)) b = Some tb ->
    Proofs.C10_SWGrammarTok.glue a b = true -> Proofs.C10_SWGrammarTok.lcok a b = true ->
    c10_sw_tokens (S (List.length (a ++ b))) (a ++ b) = Some (ta ++ tb).
Proof. exact Proofs.C10_SWGrammarTok.sw_tokens_frame. Qed.
Print Assumptions C10_sw_tokens_frame.

(* The parser is complete for the declarative grammar WGr of Proofs/C10_SWGrammarParse.v (type-identifier with generic arguments and
   dots, array / dictionary / tuple / optional types, argument lists - the type productions of the header comment of
   Spec/C10SwGrammar.v as an inductive family over token lists): the tokens of a type followed by anything that does not start
   with [<], [.] or [?] are consumed exactly, with the fuel the recogniser gives itself *)
Theorem C10_sw_type_grammar_complete :
  forall (t rest : list c10_wtok),
    Proofs.C10_SWGrammarParse.WGr Proofs.C10_SWGrammarParse.STy t -> Proofs.C10_SWGrammarParse.fol rest ->
    c10_sw_type (t ++ rest) = Some rest.
Proof. exact Proofs.C10_SWGrammarParse.sw_type_ok. Qed.
Print Assumptions C10_sw_type_grammar_complete.

(* ... for the bodies of structs and enums: a sequence of members, each followed by a line break, up to the closing brace (Body P:
   every member - a declaration or a case clause of the enum's style - is accepted from every place of P and ends in a place of P;
   shown for stored properties, aliases, nested structs / enums, initializers and functions with balanced bodies, case clauses)
   is consumed exactly ... *)
Theorem C10_sw_body_grammar_complete :
  forall (P : c10_sw_ctx -> Prop) (b : list c10_wtok), Proofs.C10_SWGrammarDecl.Body P b ->
  forall ctx, P ctx -> forall rest f, (2 * List.length b + 2 <= f)%nat -> c10_sw_d f (WMembers ctx) (b ++ rest) = Some rest.
Proof. exact Proofs.C10_SWGrammarDecl.body_ok. Qed.
Print Assumptions C10_sw_body_grammar_complete.

(* ... and for whole files: any sequence of declarations each of which the declaration parser consumes up to its line break
   (FileToks; DeclOk is shown for import, let, typealias, struct, enum, indirect enum, init, func) is accepted, as exactly that
   many declarations *)
Theorem C10_sw_file_grammar_complete :
  forall (n : nat) (ts : list c10_wtok), Proofs.C10_SWGrammarDecl.FileToks n ts ->
  forall f, (List.length ts < f)%nat -> c10_sw_decls f ts = Some n.
Proof. exact Proofs.C10_SWGrammarDecl.file_ok. Qed.
Print Assumptions C10_sw_file_grammar_complete.

(* Layout layer, whole files, PARTIAL (covered: version comment, import line, type aliases with parameters, String-backed enums
   with generic constraints / conformance list / documented cases with and without raw value, the CodableVoid helper; MISSING: the
   text of structs - stored properties, CodingKeys, init - and of algebraic enums - cases, CodingKeys, init(from:), encode(to:),
   helper structs: their parser side is proved (C10_sw_body_grammar_complete and the lemmas decl_struct_ok, decl_init_ok,
   decl_func_ok, clause_ok, block_ok of Proofs/C10_SWGrammarDecl.v), their text is only validated by the check and by the witness
   below - and the step from the IR (sw_decl_of) to these declarations): under any version made of [A-Za-z0-9_.+-], the header
   followed by the text of ANY list of such declarations that are well-formed for the grammar - declared names identifiers of the
   language, back-ticked or not reserved; doc lines without a line break; raw values key-shaped; conformances and constraints
   type-identifiers of the grammar (IdText); type trees whose names are type names and whose verbatim leaves are types of the
   grammar (TyText) - is accepted, as one declaration (the import) more than the list is long. *)
Theorem C10_swift_layout_grammar_partial :
  forall (nv : bool) (version : str) (ds : list sw_decl),
    c10_dotted_ok version = true -> Forall Proofs.C10_SWGrammar.c10_swg_decl_ok ds ->
    c10_sw_recognise (Proofs.C10_SWGrammarFile.sw_header nv version ++ List.concat (map sw_render_decl ds)) = Some (S (List.length ds)).
Proof. exact Proofs.C10_SWGrammarFile.sw_decls_recognised. Qed.
Print Assumptions C10_swift_layout_grammar_partial.

(* The hypotheses are satisfiable and acceptance means something: a program with a documented generic struct (string, optional,
   array, unit, mapped, dictionary-of-generic-application members, a keyword-named property, a dashed key with CodingKeys, Swift
   decorators and generic constraints), a generic alias, a String-backed enum (one case named default), an indirect generic
   algebraic enum with unit / tuple / optional-tuple / struct variants is in dom_C10, in no finding class, and its file - version
   comment, import, every declaration with CodingKeys / init / init(from:) / encode(to:), the helper struct, CodableVoid - is
   accepted as 7 declarations; the same text without its last three characters, without its first opening brace, with its first
   `=` turned into `:`, or without its first back-tick is rejected; two stored properties on two lines are accepted, on one line
   rejected; `struct : Codable` (no name), `struct A<>` (empty parameter list), `let a` (no type), an enum with a raw value and a
   payload are rejected; `init(class:)` is accepted, `init(let:)` rejected; the last conjuncts: the hypotheses of
   C10_swift_layout_grammar_partial hold of a list with an alias, a generic String-backed enum named `default` and CodableVoid. *)
Theorem C10_grammar_swift_witness :
  Proofs.C10_SWFile.c10_sw_cfg_ok Proofs.C10_SWGrammarFile.w_cfg = true /\ dom_C10 CSW Proofs.C10_SWGrammarFile.w_prog = true /\
  known_C10 CSW [] Proofs.C10_SWGrammarFile.w_prog = [] /\
  sw_generate uc_exec Proofs.C10_SWGrammarFile.w_cfg Proofs.C10_SWGrammarFile.w_prog = Ok Proofs.C10_SWGrammarFile.w_text /\
  c10_sw_recognise Proofs.C10_SWGrammarFile.w_text = Some 7%nat /\
  contains_sub (lit "public struct OPPerson<T: Codable & Equatable & Hashable & Sendable, U: Codable & Sendable>: Codable, Sendable, Equatable {") Proofs.C10_SWGrammarFile.w_text = true /\
  contains_sub (lit "public let `class`: Unicode.Scalar") Proofs.C10_SWGrammarFile.w_text = true /\
  contains_sub (lit "public let index: [String: OPBox<U, [Bool]>]") Proofs.C10_SWGrammarFile.w_text = true /\
  contains_sub (lit "public typealias OPAl<T> = [T]?") Proofs.C10_SWGrammarFile.w_text = true /\
  contains_sub (lit "case `default` = ""Default""") Proofs.C10_SWGrammarFile.w_text = true /\
  contains_sub (lit "public indirect enum OPE<T: Codable & Sendable>: Codable, Sendable {") Proofs.C10_SWGrammarFile.w_text = true /\
  contains_sub (lit "public init(from decoder: Decoder) throws {") Proofs.C10_SWGrammarFile.w_text = true /\
  contains_sub (lit "public struct CodableVoid: Codable, Sendable, Equatable {}") Proofs.C10_SWGrammarFile.w_text = true /\
  c10_sw_recognise (firstn (List.length Proofs.C10_SWGrammarFile.w_text - 3) Proofs.C10_SWGrammarFile.w_text) = None /\
  c10_sw_recognise (Proofs.C10_TSGrammarFile.g_drop_first 123 Proofs.C10_SWGrammarFile.w_text) = None /\
  c10_sw_recognise (Proofs.C10_TSGrammarFile.g_subst_first 61 58 Proofs.C10_SWGrammarFile.w_text) = None /\
  c10_sw_recognise (Proofs.C10_TSGrammarFile.g_drop_first 96 Proofs.C10_SWGrammarFile.w_text) = None /\
  c10_sw_recognise Proofs.C10_SWGrammarFile.w_two_members_two_lines = Some 1%nat /\
  c10_sw_recognise Proofs.C10_SWGrammarFile.w_two_members_one_line = None /\
  c10_sw_recognise Proofs.C10_SWGrammarFile.w_struct_without_name = None /\
  c10_sw_recognise Proofs.C10_SWGrammarFile.w_empty_generics = None /\
  c10_sw_recognise Proofs.C10_SWGrammarFile.w_member_without_type = None /\
  c10_sw_recognise Proofs.C10_SWGrammarFile.w_raw_and_payload = None /\
  c10_sw_recognise Proofs.C10_SWGrammarFile.w_label_class = Some 1%nat /\
  c10_sw_recognise Proofs.C10_SWGrammarFile.w_label_let = None /\
  c10_dotted_ok (sw_version Proofs.C10_SWGrammarFile.w_cfg) = true /\
  Forall Proofs.C10_SWGrammar.c10_swg_decl_ok
    [Proofs.C10_SWGrammarFile.w_alias_decl; Proofs.C10_SWGrammarFile.w_unit_decl; SWCodableVoid [lit "Codable"; lit "Equatable"]].
Proof. exact Proofs.C10_SWGrammarFile.C10_swift_grammar_nonvacuous. Qed.
Print Assumptions C10_grammar_swift_witness.

(* the finding class C10-swift-label is a defect of the GRAMMAR, and the recogniser sees it: a struct with a property named `let`
   is in dom_C10 and in the class, its file is lexically balanced, contains `public init(let: String)` and is rejected *)
Theorem C10_swift_label_rejected :
  exists text, dom_C10 CSW Proofs.C10_SWGrammarFile.w_label_prog = true /\
    known_C10 CSW [] Proofs.C10_SWGrammarFile.w_label_prog = ["C10-swift-label"%string] /\
    sw_generate uc_exec Proofs.C10_SWGrammarFile.w_cfg Proofs.C10_SWGrammarFile.w_label_prog = Ok text /\
    contains_sub (lit "public init(let: String)") text = true /\ good_C10_lex CSW text = true /\ c10_sw_recognise text = None.
Proof. exact Proofs.C10_SWGrammarFile.swift_label_rejected. Qed.
Print Assumptions C10_swift_label_rejected.

(* ---------------------------------------------------------------- (3'') the GRAMMAR half, Scala *)
(* "the recogniser" = c10_sc_recognise of Spec/C10ScGrammar.v: the tokenizer of the Scala lexical syntax (identifiers, back-quoted
   identifiers, string literals with the escapes of the language, // comments and NESTED block comments, one raw token per line
   end), the newline rule of SLS 1.2 as a left-to-right automaton (c10_sc_nls: a line end becomes the token nl when the token
   before it can end a statement, the token after it can begin one and the region is one where newlines are enabled), and the
   recursive-descent parser of the declaration subset of SLS chapter 13 (compilation units, package clauses, packagings, package
   objects, class / object / trait definitions with type-parameter and parameter clauses, templates, type / val / def members),
   written from the language specification; checks/c10.py runs its extraction on every real and every modelled Scala file (driver
   command c10_sc_parse); Some n = the text is a compilation unit with n definitions.

   The tokenizer is compositional at token boundaries: if b does not start with an identifier / number character, a star or a
   slash, or a ends with a character that is none of these, and a line comment of a, if there is one, is closed by a's final line
   end (glue a b), the raw tokens of a ++ b are those of a followed by those of b - with exactly the fuel the recogniser gives it. *)
Theorem C10_sc_tokens_frame :
  forall (a : str) (ta : list c10_utok) (b : str) (tb : list c10_utok),
    c10_sc_tokens (S (List.length a)) a = Some ta -> c10_sc_tokens (S (List.length b)) b = Some tb ->
    Proofs.C10_SCGrammarTok.glue a b = true ->
    c10_sc_tokens (S (List.length (a ++ b))) (a ++ b) = Some (ta ++ tb).
Proof. exact Proofs.C10_SCGrammarTok.tokens_frame. Qed.
Print Assumptions C10_sc_tokens_frame.

(* The newline automaton is compositional: NR regs ce pend a a' regs' ce' pend' says that from the state (region stack, "the last
   token can end a statement", "a line end is pending") the raw tokens a are turned into a' and leave the automaton in the second
   state, WHATEVER follows; two such runs compose. *)
Theorem C10_sc_newlines_compose :
  forall r0 c0 p0 a a' r1 c1 p1 b b' r2 c2 p2,
    Proofs.C10_SCGrammarParse.NR r0 c0 p0 a a' r1 c1 p1 -> Proofs.C10_SCGrammarParse.NR r1 c1 p1 b b' r2 c2 p2 ->
    Proofs.C10_SCGrammarParse.NR r0 c0 p0 (a ++ b) (a' ++ b') r2 c2 p2.
Proof. exact Proofs.C10_SCGrammarParse.nr_app. Qed.
Print Assumptions C10_sc_newlines_compose.

(* The parser is complete for the declarative token grammar Gt of Proofs/C10_SCGrammarParse.v (types: a name that is not a
   reserved word, a name applied to a non-empty comma-separated list of types in square brackets, a parenthesised list of types):
   the tokens of a type followed by anything that does not start with a dot or an opening square bracket are consumed exactly, with
   the fuel the recogniser gives itself. *)
Theorem C10_sc_type_grammar_complete :
  forall (t rest : list c10_utok),
    Proofs.C10_SCGrammarParse.Gt Proofs.C10_SCGrammarParse.TTy t -> Proofs.C10_SCGrammarParse.tfol rest ->
    c10_sc_type (t ++ rest) = Some rest.
Proof. exact Proofs.C10_SCGrammarParse.sc_type_ok. Qed.
Print Assumptions C10_sc_type_grammar_complete.

(* Statement sequences: if every token list of ds is a statement the parser accepts whatever follows it (StatOk: it starts with a
   keyword and c10_sq in mode UStat consumes exactly it, before the end, a closing brace or a line end and the next keyword - proved
   for type aliases, [case] classes with parameter clauses and templates, plain classes, [case] objects, sealed traits, val / def
   members, packagings and package objects), then the statements separated by ONE nl each, followed by the closing brace of the
   block (or the end of the unit), are consumed exactly and the definitions counted are the sum. *)
Theorem C10_sc_stats_grammar_complete :
  forall (top cl : bool) (ds : list (list c10_utok)) (ns : list nat),
    Forall2 (Proofs.C10_SCGrammarParse.StatOk top) ds ns ->
    forall (f : nat) (rest : list c10_utok), (2 * List.length (Proofs.C10_SCGrammarParse.seq_toks ds) + 5 <= f)%nat ->
      c10_sq f (UStats top cl) (Proofs.C10_SCGrammarParse.seq_toks ds ++ Proofs.C10_SCGrammarParse.tail_toks cl rest) =
      Some (fold_right plus O ns, Proofs.C10_SCGrammarParse.tail_rest cl rest).
Proof. exact Proofs.C10_SCGrammarParse.stats_ok. Qed.
Print Assumptions C10_sc_stats_grammar_complete.

(* Layout layer, every declaration form: the text of a declaration that is well-formed for the grammar (c10_scg_decl_ok: names,
   type parameters, parameter names, case names, parents and content keys are identifier-shaped and not reserved words; doc lines
   without a line end; wire names key-shaped; every type tree made of such names and of verbatim leaves that are types of the
   grammar; a case class has at least one member and no member carries the `= _` default) is a PIECE: a closed fragment whose raw
   tokens the newline automaton turns - after an opening brace as well as after a previous statement - into one or more statements
   separated by one nl, each accepted by the parser and counting at least one definition; aliases and the helper-alias block as
   members of a template (top = false), classes and enums as top-level statements as well (top = true). *)
Theorem C10_sc_layout_pieces :
  forall d : sc_decl, Proofs.C10_SCGrammar.c10_scg_decl_ok d ->
    Proofs.C10_SCGrammar.PSd (Proofs.C10_SCGrammar.decl_top d) (sc_render_decl d).
Proof. exact Proofs.C10_SCGrammar.sc_render_decl_gram. Qed.
Print Assumptions C10_sc_layout_pieces.

(* Layout layer, whole texts: the concatenated text of ANY list of well-formed class / enum declarations is accepted as a
   compilation unit with at least that many definitions (they stand at the top level; the generator wrote this form under a
   package name without a dot until the /repo fix of C10-scala-toplevel-alias) ... *)
Theorem C10_sc_layout_grammar_top :
  forall ds : list sc_decl, Forall (fun d => Proofs.C10_SCGrammar.c10_scg_decl_ok d /\ Proofs.C10_SCGrammar.decl_top d = true) ds ->
    exists n : nat, c10_sc_recognise (List.concat (map sc_render_decl ds)) = Some n /\ (List.length ds <= n)%nat.
Proof. exact Proofs.C10_SCGrammarFile.sc_top_decls_recognised. Qed.
Print Assumptions C10_sc_layout_grammar_top.

(* ... and under a dotted package name a.b.c: the package clause `package a.b`, the package object c with ANY list of well-formed
   aliases / helper-alias blocks, the packaging c with ANY list of well-formed classes and enums. *)
Theorem C10_sc_layout_grammar :
  forall (init : list str) (last : str) (das dps : list sc_decl),
    init <> [] -> Forall Proofs.C10_SCGrammar.gname init -> Proofs.C10_SCGrammar.gname last ->
    Forall (fun d => Proofs.C10_SCGrammar.c10_scg_decl_ok d /\ Proofs.C10_SCGrammar.decl_top d = false) das ->
    Forall (fun d => Proofs.C10_SCGrammar.c10_scg_decl_ok d /\ Proofs.C10_SCGrammar.decl_top d = true) dps ->
    exists n : nat,
      c10_sc_recognise (lit "package " ++ join [46%N] init ++ sc_nl ++ sc_nl ++
                        lit "package object " ++ last ++ lit " {" ++ sc_nl ++ sc_nl ++ List.concat (map sc_render_decl das) ++ lit "}" ++ sc_nl ++
                        lit "package " ++ last ++ lit " {" ++ sc_nl ++ sc_nl ++ List.concat (map sc_render_decl dps) ++ lit "}" ++ sc_nl) = Some n /\
      (List.length das + List.length dps <= n)%nat.
Proof. exact Proofs.C10_SCGrammarFile.sc_packaged_decls_recognised. Qed.
Print Assumptions C10_sc_layout_grammar.

(* ... and under a package name c without a dot (scala.rs after the /repo fix of C10-scala-toplevel-alias): no package clause, the
   package object c with ANY list of well-formed aliases / helper-alias blocks, the packaging c with ANY list of well-formed classes
   and enums. *)
Theorem C10_sc_layout_grammar_dotless :
  forall (last : str) (das dps : list sc_decl),
    Proofs.C10_SCGrammar.gname last ->
    Forall (fun d => Proofs.C10_SCGrammar.c10_scg_decl_ok d /\ Proofs.C10_SCGrammar.decl_top d = false) das ->
    Forall (fun d => Proofs.C10_SCGrammar.c10_scg_decl_ok d /\ Proofs.C10_SCGrammar.decl_top d = true) dps ->
    exists n : nat,
      c10_sc_recognise (lit "package object " ++ last ++ lit " {" ++ sc_nl ++ sc_nl ++ List.concat (map sc_render_decl das) ++ lit "}" ++ sc_nl ++
                        lit "package " ++ last ++ lit " {" ++ sc_nl ++ sc_nl ++ List.concat (map sc_render_decl dps) ++ lit "}" ++ sc_nl) = Some n /\
      (List.length das + List.length dps <= n)%nat.
Proof. exact Proofs.C10_SCGrammarFile.sc_dotless_decls_recognised. Qed.
Print Assumptions C10_sc_layout_grammar_dotless.

(* Whole files, from the IR: for every program of dom_C10 and every admissible configuration (the hypotheses of C10_lex_scala),
   strengthened by what the grammar needs -
     c10_scg_cfg_ok: every type_mappings value is the text of a type of the grammar (TyText), and the package name is a QualId:
       identifiers that are not reserved words, separated by dots (excluded: `com.my-app`, `a..b`, `com.type.x`);
     c10_scg_dom: no declared or referenced name is a reserved word (struct / enum serde names, the enum's and the alias's Rust
       name, type parameters, variant names, referenced types: the finding class C10-scala-keyword-name is outside); every
       case-class parameter - the renamed field with its dashes replaced - is identifier-shaped and not a reserved word
       (C10-digit-name and C10-scala-keyword-name are outside); every Scala type override is the text of a type of the grammar;
       serde(default) stands only on Option fields (the finding class C10-scala-default, `x: T = _`, is outside); the content key of
       a tagged enum, printed as the parameter name of every variant with a payload, is an identifier that is not a reserved word
       (the finding classes C10-scala-content-key, content = "my-key", and C10-scala-keyword-name are outside);
   (no hypothesis on the shape of the package name any more: since the /repo fix of C10-scala-toplevel-alias a name without a dot
   opens `package object <name> {` / `package <name> {` as well, only the package clause `package <parent>` is missing) -
   the recogniser accepts the generated file: version header, package clause (when the name has a parent), package object with
   the helper aliases and the aliases, packaging with the case classes, plain classes, sealed traits and companion objects; it
   finds at least one definition per written item (Scala writes no constants). *)
Theorem C10_grammar_scala :
  forall (uc : unicode) (cfg : sc_config) (pd : parsed) (text : str),
    Proofs.C10_SC.c10_sc_cfg_ok cfg = true -> Proofs.C10_SCGrammarFile.c10_scg_cfg_ok cfg ->
    dom_C10 CSC pd = true -> Proofs.C10_SCGrammarFile.c10_scg_dom pd ->
    sc_generate uc cfg pd = Ok text ->
    exists n : nat, c10_sc_recognise text = Some n /\
                    (List.length (p_aliases pd) + List.length (p_structs pd) + List.length (p_enums pd) <= n)%nat.
Proof. exact Proofs.C10_SCGrammarFile.sc_generate_recognised. Qed.
Print Assumptions C10_grammar_scala.

(* The same with the grammar domain spelled as "in no recorded finding class": for every program of dom_C10 that is in no class of
   known_C10 (C10-scala-default, C10-digit-name) and in no class of known_C10_sc_grammar (C10-scala-keyword-name,
   C10-scala-content-key; C10-scala-toplevel-alias is repaired and no class any more) - the two class functions the check evaluates
   on every case - and whose Scala
   type overrides are types of the grammar (c10_scg_overrides_ok), under an admissible configuration whose type_mappings values are
   types of the grammar and whose package name is a QualId, the recogniser accepts the generated file. *)
Theorem C10_grammar_scala_classes :
  forall (uc : unicode) (cfg : sc_config) (pd : parsed) (text : str),
    Proofs.C10_SC.c10_sc_cfg_ok cfg = true -> Proofs.C10_SCGrammarFile.c10_scg_cfg_ok cfg -> dom_C10 CSC pd = true ->
    known_C10 CSC (sc_package cfg) pd = [] -> known_C10_sc_grammar (sc_package cfg) pd = [] ->
    Proofs.C10_SCGrammarFile.c10_scg_overrides_ok pd ->
    sc_generate uc cfg pd = Ok text ->
    exists n : nat, c10_sc_recognise text = Some n /\
                    (List.length (p_aliases pd) + List.length (p_structs pd) + List.length (p_enums pd) <= n)%nat.
Proof. exact Proofs.C10_SCGrammarFile.sc_generate_recognised_classes. Qed.
Print Assumptions C10_grammar_scala_classes.

(* The same with COMPUTABLE hypotheses only: every type_mappings value and every Scala type override is a name of the grammar
   (identifier-shaped, not a reserved word: String, Instant, BigInt ...), the package name splits at its dots into such names; the
   program is in dom_C10 and in none of the four finding classes. *)
Theorem C10_grammar_scala_simple :
  forall (uc : unicode) (cfg : sc_config) (pd : parsed) (text : str),
    Proofs.C10_SC.c10_sc_cfg_ok cfg = true -> Proofs.C10_SCGrammarFile.c10_scg_cfg_simple cfg = true -> dom_C10 CSC pd = true ->
    known_C10 CSC (sc_package cfg) pd = [] -> known_C10_sc_grammar (sc_package cfg) pd = [] ->
    Proofs.C10_SCGrammarFile.c10_scg_overrides_simple pd = true ->
    sc_generate uc cfg pd = Ok text ->
    exists n : nat, c10_sc_recognise text = Some n /\
                    (List.length (p_aliases pd) + List.length (p_structs pd) + List.length (p_enums pd) <= n)%nat.
Proof. exact Proofs.C10_SCGrammarFile.sc_generate_recognised_simple. Qed.
Print Assumptions C10_grammar_scala_simple.

(* The hypotheses are satisfiable and acceptance means something: a program with a documented generic case class (String, an
   Option with its `= None` default, Vector, a mapped Url, Map of a generic application, a dashed doubly-optional key, a verbatim
   override `Map[String, Vector[Int]]`), a struct without fields, a generic alias, a unit enum and a tagged enum with unit / tuple /
   struct variants, under the package com.agilebits.onepassword with the version header, is in the domain, in no finding class
   (neither known_C10 nor known_C10_sc_grammar), and its file - header comment, `package com.agilebits`, package object with the
   four helper aliases and the alias, packaging with three classes, two sealed traits and two companion objects - is accepted as
   12 definitions; the same text without its last three characters, without its first opening parenthesis, with its first `=`
   turned into `:`, without its first comma, or without its first opening square bracket is rejected. *)
Theorem C10_grammar_scala_witness :
  Proofs.C10_SC.c10_sc_cfg_ok Proofs.C10_SCGrammarFile.g_cfg = true /\ Proofs.C10_SCGrammarFile.c10_scg_cfg_ok Proofs.C10_SCGrammarFile.g_cfg /\
  dom_C10 CSC Proofs.C10_SCGrammarFile.g_prog = true /\ Proofs.C10_SCGrammarFile.c10_scg_dom Proofs.C10_SCGrammarFile.g_prog /\
  known_C10 CSC (sc_package Proofs.C10_SCGrammarFile.g_cfg) Proofs.C10_SCGrammarFile.g_prog = [] /\
  known_C10_sc_grammar (sc_package Proofs.C10_SCGrammarFile.g_cfg) Proofs.C10_SCGrammarFile.g_prog = [] /\
  sc_generate uc_exec Proofs.C10_SCGrammarFile.g_cfg Proofs.C10_SCGrammarFile.g_prog = Ok Proofs.C10_SCGrammarFile.g_text /\
  c10_sc_recognise Proofs.C10_SCGrammarFile.g_text = Some 12%nat /\
  contains_sub (lit "package object onepassword {") Proofs.C10_SCGrammarFile.g_text = true /\
  contains_sub (lit "case class Person[T, U] (") Proofs.C10_SCGrammarFile.g_text = true /\
  contains_sub (lit "first_name: Option[Option[String]] = None,") Proofs.C10_SCGrammarFile.g_text = true /\
  contains_sub (lit "case class S[T](content: ESInner[T]) extends E[T] {") Proofs.C10_SCGrammarFile.g_text = true /\
  c10_sc_recognise (firstn (List.length Proofs.C10_SCGrammarFile.g_text - 3) Proofs.C10_SCGrammarFile.g_text) = None /\
  c10_sc_recognise (Proofs.C10_SCGrammarFile.g_drop_first 40 Proofs.C10_SCGrammarFile.g_text) = None /\
  c10_sc_recognise (Proofs.C10_SCGrammarFile.g_subst_first 61 58 Proofs.C10_SCGrammarFile.g_text) = None /\
  c10_sc_recognise (Proofs.C10_SCGrammarFile.g_drop_first 44 Proofs.C10_SCGrammarFile.g_text) = None /\
  c10_sc_recognise (Proofs.C10_SCGrammarFile.g_drop_first 91 Proofs.C10_SCGrammarFile.g_text) = None.
Proof. exact Proofs.C10_SCGrammarFile.grammar_witness. Qed.
Print Assumptions C10_grammar_scala_witness.

(* the finding classes the recogniser exposed are real.  C10-scala-keyword-name: the Scala back end escapes no reserved word - a
   struct with the fields r#type and val is in dom_C10, in no class of known_C10, in the class C10-scala-keyword-name, its file
   (`type: String,` / `val: Int` as case-class parameters) is lexically balanced and rejected by the recogniser *)
Theorem C10_scala_keyword_name_refuted :
  exists text, dom_C10 CSC Proofs.C10_SCGrammarFile.k_prog = true /\
    known_C10 CSC (sc_package Proofs.C10_SCGrammarFile.g_cfg) Proofs.C10_SCGrammarFile.k_prog = [] /\
    known_C10_sc_grammar (sc_package Proofs.C10_SCGrammarFile.g_cfg) Proofs.C10_SCGrammarFile.k_prog = ["C10-scala-keyword-name"%string] /\
    sc_generate uc_exec Proofs.C10_SCGrammarFile.g_cfg Proofs.C10_SCGrammarFile.k_prog = Ok text /\
    contains_sub (lit "type: String,") text = true /\ contains_sub (lit "val: Int") text = true /\
    good_C10_lex CSC text = true /\ c10_sc_recognise text = None.
Proof. exact Proofs.C10_SCGrammarFile.scala_keyword_name_refuted. Qed.
Print Assumptions C10_scala_keyword_name_refuted.

(* C10-scala-toplevel-alias (fixed in /repo: scala.rs begin_package_object / begin_package always open a block named by the last
   segment of the package name, end_package_object / end_package always close it) as a regression pin: under the package name `p`
   (no dot; the configuration meets the computable hypotheses of C10_grammar_scala_simple) the former witness - an alias and a
   struct with an unsigned field - is in dom_C10 and in no finding class, and gives exactly the file t_text: `package object p {`
   around the four helper aliases and `type Al = Vector[UInt]`, `package p {` around the case class; it is lexically balanced and
   the recogniser accepts it with 6 definitions *)
Theorem C10_scala_toplevel_alias_fixed :
  Proofs.C10_SC.c10_sc_cfg_ok Proofs.C10_SCGrammarFile.t_cfg = true /\ Proofs.C10_SCGrammarFile.c10_scg_cfg_simple Proofs.C10_SCGrammarFile.t_cfg = true /\
  contains_char sc_ch_dot (sc_package Proofs.C10_SCGrammarFile.t_cfg) = false /\
  dom_C10 CSC Proofs.C10_SCGrammarFile.t_prog = true /\
  known_C10 CSC (sc_package Proofs.C10_SCGrammarFile.t_cfg) Proofs.C10_SCGrammarFile.t_prog = [] /\
  known_C10_sc_grammar (sc_package Proofs.C10_SCGrammarFile.t_cfg) Proofs.C10_SCGrammarFile.t_prog = [] /\
  Proofs.C10_SCGrammarFile.c10_scg_overrides_simple Proofs.C10_SCGrammarFile.t_prog = true /\
  sc_generate uc_exec Proofs.C10_SCGrammarFile.t_cfg Proofs.C10_SCGrammarFile.t_prog = Ok Proofs.C10_SCGrammarFile.t_text /\
  good_C10_lex CSC Proofs.C10_SCGrammarFile.t_text = true /\ c10_sc_recognise Proofs.C10_SCGrammarFile.t_text = Some 6%nat.
Proof. exact Proofs.C10_SCGrammarFile.scala_toplevel_alias_fixed. Qed.
Print Assumptions C10_scala_toplevel_alias_fixed.

(* C10-scala-content-key: a tagged enum with content = "my-content" and a tuple variant is in dom_C10 (the key is key-shaped), in
   no class of known_C10, in the class C10-scala-content-key; its file has `case class A(my-content: String) extends E {`, is
   lexically balanced and rejected by the recogniser (the key is printed as the parameter name as it is) *)
Theorem C10_scala_content_key_refuted :
  exists text, dom_C10 CSC Proofs.C10_SCGrammarFile.c_prog = true /\
    known_C10 CSC (sc_package Proofs.C10_SCGrammarFile.g_cfg) Proofs.C10_SCGrammarFile.c_prog = [] /\
    known_C10_sc_grammar (sc_package Proofs.C10_SCGrammarFile.g_cfg) Proofs.C10_SCGrammarFile.c_prog = ["C10-scala-content-key"%string] /\
    sc_generate uc_exec Proofs.C10_SCGrammarFile.g_cfg Proofs.C10_SCGrammarFile.c_prog = Ok text /\
    contains_sub (lit "case class A(my-content: String) extends E {") text = true /\
    good_C10_lex CSC text = true /\ c10_sc_recognise text = None.
Proof. exact Proofs.C10_SCGrammarFile.scala_content_key_refuted. Qed.
Print Assumptions C10_scala_content_key_refuted.

(* the recorded class C10-scala-default is seen by the recogniser too: `x: String = _` is not a ClassParam (`_` is not an Expr) *)
Theorem C10_scala_default_rejected :
  exists text, dom_C10 CSC Proofs.C10_SCGrammarFile.d_prog = true /\
    known_C10 CSC (sc_package Proofs.C10_SCGrammarFile.g_cfg) Proofs.C10_SCGrammarFile.d_prog = ["C10-scala-default"%string] /\
    known_C10_sc_grammar (sc_package Proofs.C10_SCGrammarFile.g_cfg) Proofs.C10_SCGrammarFile.d_prog = [] /\
    sc_generate uc_exec Proofs.C10_SCGrammarFile.g_cfg Proofs.C10_SCGrammarFile.d_prog = Ok text /\
    contains_sub (lit "x: String = _") text = true /\ c10_sc_recognise text = None.
Proof. exact Proofs.C10_SCGrammarFile.scala_default_rejected. Qed.
Print Assumptions C10_scala_default_rejected.

(* Layout layer, ONE declaration of ANY form, tagged enums included: the text of a declaration that is well-formed for the grammar
   (c10_gog_decl_ok; for a tagged enum, c10_gog_tagged_ok: the struct name, the key type, the two field names, the receiver name,
   every variant constant, the accessor method of every variant that carries something and every helper-struct reference are
   identifiers that are no Go keyword; wire names, tag and content keys are key-shaped; a tuple variant's content type is a type
   tree of the grammar; doc lines have no line end) is, from a line start and up to a line start, the token stream of at least one
   declaration each of which the declaration parser consumes up to its semicolon: for a tagged enum the key type, the constant
   group, the struct with its raw-string tag and its `interface{}` field, UnmarshalJSON and MarshalJSON (bodies: balanced token
   runs, with the raw-string tags of the anonymous structs and one `case` per variant), one accessor per variant with content,
   one constructor per variant. *)
Theorem C10_go_decl_layout_grammar :
  forall d : go_decl, Proofs.C10_GOGrammar.c10_gog_decl_ok d ->
    exists tds : list (list c10_gtok),
      Proofs.C10_GOGrammarSemi.CSeg false (go_render_decl d) (Proofs.C10_GOGrammarParse.decls_toks tds) false /\
      Forall Proofs.C10_GOGrammarParse.DeclToks tds /\ (1 <= List.length tds)%nat.
Proof. exact Proofs.C10_GOGrammarTagged.go_render_decl_gram. Qed.
Print Assumptions C10_go_decl_layout_grammar.

(* Layout layer, whole files, ALL declaration forms (the statement of C10_go_layout_grammar_partial, whose predicate now covers
   tagged enums): header, imports and the text of any list of well-formed declarations are accepted, with at least one declaration
   per item.  Proofs/C10_GOGrammarFile.v: C10_go_layout_nonvacuous / C10_go_layout_tagged_text exhibit five such declarations, one
   of them a tagged enum with a unit, two tuple (one by pointer) and a struct variant, accepted as 17 declarations. *)
Theorem C10_go_layout_grammar :
  forall (nv : bool) (version package : str) (imports : list str) (ds : list go_decl),
    Proofs.C10Lex.c10_line_ok version = true -> Proofs.C10_GOGrammarSemi.c10_go_name_ok package = true ->
    forallb c10_instr_ok imports = true -> Forall Proofs.C10_GOGrammar.c10_gog_decl_ok ds ->
    exists n : nat,
      c10_go_recognise (Proofs.C10_GOGrammarFile.go_header nv version package ++ go_write_all_imports imports ++
                        List.concat (map go_render_decl ds)) = Some n /\ (List.length ds <= n)%nat.
Proof. exact Proofs.C10_GOGrammarFile.go_decls_recognised. Qed.
Print Assumptions C10_go_layout_grammar.

(* Whole files, from the IR, PARTIAL (superseded by C10_grammar_go below, which adds (a); covered: structs, aliases, constants, unit
   enums, any type_mappings / type overrides that are
   types of the grammar; MISSING: (a) algebraic = tagged enums at the decision layer - c10_gog_item_ok is False for them; their
   layout is C10_go_decl_layout_grammar, what is not proved is that go_enum_decls_of yields a c10_gog_tagged_ok declaration - and
   (b) non-empty uppercase_acronyms): for every program of dom_C10 and every admissible configuration (the hypotheses of
   C10_lex_go), strengthened by what the grammar needs -
     c10_gog_cfg_ok: uppercase_acronyms is empty; every type_mappings value is the text of a type of the grammar (TyText: it
       tokenises, as an open fragment after which a line end becomes a semicolon, to a Type of GGr); the package name is an
       identifier and no keyword (c10_go_cfg_ok allows `a.b-c`, which is no PackageClause);
     c10_gog_dom: no printed name is a Go keyword - struct (serde name), generic parameters, alias and enum (Rust name), unit-enum
       constants (enum ++ variant), every type name referred to (the finding class C10-go-keyword-name is outside); the exported
       field name to_pascal_case(field) and the constant name to_pascal_case(const) are identifiers (a name made of underscores
       and digits is outside: C10-digit-name); a Go type override is the text of a type of the grammar; a unit enum has unit
       variants only (anything else is go.rs:301's panic: no text) -
   the recogniser accepts the generated file and finds at least one declaration per item. *)
Theorem C10_grammar_go_partial :
  forall (uc : unicode) (cfg : go_config) (pd : parsed) (text : str),
    unicode_ok uc -> Proofs.C10_GOFile.c10_go_cfg_ok cfg = true -> Proofs.C10_GOGrammarIR.c10_gog_cfg_ok cfg ->
    dom_C10 CGO pd = true -> Proofs.C10_GOGrammarIR.c10_gog_dom pd ->
    go_generate uc cfg pd = Ok text ->
    exists n : nat, c10_go_recognise text = Some n /\ (List.length (items_of pd) <= n)%nat.
Proof. exact Proofs.C10_GOGrammarIR.go_generate_recognised_partial. Qed.
Print Assumptions C10_grammar_go_partial.

(* its hypotheses are satisfiable: the program of the witness without its algebraic enum (a documented generic struct with string,
   optional, slice, array, DateTime, mapped and map-of-generic-application members and a dashed key, a generic alias, a unit enum,
   two constants) under the configuration of the witness (type_mappings to `string` and `[]byte`) meets them, and its file is
   accepted as 6 declarations *)
Theorem C10_grammar_go_partial_witness :
  unicode_ok uc_exec /\ Proofs.C10_GOFile.c10_go_cfg_ok Proofs.C10_GOGrammarFile.gg_cfg = true /\
  Proofs.C10_GOGrammarIR.c10_gog_cfg_ok Proofs.C10_GOGrammarFile.gg_cfg /\ dom_C10 CGO Proofs.C10_GOGrammarIR.gi_prog = true /\
  Proofs.C10_GOGrammarIR.c10_gog_dom Proofs.C10_GOGrammarIR.gi_prog /\
  go_generate uc_exec Proofs.C10_GOGrammarFile.gg_cfg Proofs.C10_GOGrammarIR.gi_prog = Ok Proofs.C10_GOGrammarIR.gi_text /\
  c10_go_recognise Proofs.C10_GOGrammarIR.gi_text = Some 6%nat /\
  contains_sub (lit "type Person[T any, U any] struct {") Proofs.C10_GOGrammarIR.gi_text = true /\
  contains_sub (lit "ColorDarkBlue Color = ""dark-blue""") Proofs.C10_GOGrammarIR.gi_text = true.
Proof. exact Proofs.C10_GOGrammarIR.C10_grammar_go_partial_nonvacuous. Qed.
Print Assumptions C10_grammar_go_partial_witness.

(* Whole files, from the IR, ALL items (algebraic enums included), for an EMPTY uppercase_acronyms list (what remains open is the
   extension to alphanumeric acronym lists with the letter-case relation of Proofs/C10_GOAcr.v): the hypotheses of
   C10_grammar_go_partial, with c10_gog_dom2 = c10_gog_dom on structs / aliases / constants / unit enums and, for an algebraic
   enum E with tag key t and content key c (P = to_pascal_case t):
     E is no keyword; the tag field P and the content field to_camel_case c are identifiers that are no keyword (excluded: a tag
       key made of underscores / digits / dashes; a CONTENT KEY THAT IS A GO KEYWORD - `content = "type"` prints the field
       `type interface{}`: the finding class C10-go-keyword-name extends to it, the computable class c10_go_kw_class of
       Spec/C10GoGrammar.v does not look at the content key); the key type E ++ P ++ "s" and every variant constant
       E ++ P ++ "Variant" ++ V are names (always so when E, P, V are identifiers: stated, not derived);
     a variant V that carries something is no keyword (it names the accessor `func (e E) V() ...`); a tuple variant's type refers
       to no keyword; a struct variant's helper struct E ++ V ++ "Inner" is a name, its generic parameters are no keywords and its
       fields are as the fields of a struct;
   the receiver name (first character of E, lower-cased) is derived: a one-letter identifier is no keyword.
   The recogniser accepts the generated file - version comment, package clause, import declaration(s), every declaration with its
   helper structs, UnmarshalJSON / MarshalJSON, accessors and constructors - and finds at least one declaration per item. *)
Theorem C10_grammar_go :
  forall (uc : unicode) (cfg : go_config) (pd : parsed) (text : str),
    unicode_ok uc -> Proofs.C10_GOFile.c10_go_cfg_ok cfg = true -> Proofs.C10_GOGrammarIR.c10_gog_cfg_ok cfg ->
    dom_C10 CGO pd = true -> Proofs.C10_GOGrammarIR2.c10_gog_dom2 pd ->
    go_generate uc cfg pd = Ok text ->
    exists n : nat, c10_go_recognise text = Some n /\ (List.length (items_of pd) <= n)%nat.
Proof. exact Proofs.C10_GOGrammarIR2.go_generate_recognised. Qed.
Print Assumptions C10_grammar_go.

(* its hypotheses are satisfiable: the whole program of C10_grammar_go_witness (generic struct, generic alias, unit enum, algebraic
   enum with unit / tuple / optional-tuple / struct variants, two constants) under the configuration of that witness is in the
   domain of C10_grammar_go; its file is the one accepted there as 19 declarations *)
Theorem C10_grammar_go_in_domain :
  unicode_ok uc_exec /\ Proofs.C10_GOFile.c10_go_cfg_ok Proofs.C10_GOGrammarFile.gg_cfg = true /\
  Proofs.C10_GOGrammarIR.c10_gog_cfg_ok Proofs.C10_GOGrammarFile.gg_cfg /\ dom_C10 CGO Proofs.C10_GOGrammarFile.gg_prog = true /\
  Proofs.C10_GOGrammarIR2.c10_gog_dom2 Proofs.C10_GOGrammarFile.gg_prog /\
  go_generate uc_exec Proofs.C10_GOGrammarFile.gg_cfg Proofs.C10_GOGrammarFile.gg_prog = Ok Proofs.C10_GOGrammarFile.gg_text /\
  c10_go_recognise Proofs.C10_GOGrammarFile.gg_text = Some 19%nat.
Proof. exact Proofs.C10_GOGrammarIR2.C10_grammar_go_nonvacuous. Qed.
Print Assumptions C10_grammar_go_in_domain.

(* the hypothesis of C10_grammar_go on the content key excludes real inputs: an algebraic enum with `tag = "kind", content = "type"`
   is in dom_C10 and in no class of known_C10, its Go struct has the field `type interface{}`, and the recogniser rejects the file.
   Found by the proof of C10_grammar_go as a gap of the finding class C10-go-keyword-name; the computable class
   known_C10_go_grammar has been extended by the content key since and predicts the input. *)
Theorem C10_go_keyword_content_key_refuted :
  exists cfg pd text, dom_C10 CGO pd = true /\ known_C10 CGO [] pd = [] /\ known_C10_go_grammar pd = ["C10-go-keyword-name"%string] /\
    go_generate uc_exec cfg pd = Ok text /\ contains_sub (lit "type interface{}") text = true /\ c10_go_recognise text = None.
Proof. exact Proofs.C10_GOGrammarIR2.go_keyword_content_key_refuted. Qed.
Print Assumptions C10_go_keyword_content_key_refuted.
(* ---------------------------------------------------------------- Swift: the tag / content key of an algebraic enum (fix 29 of /repo) *)
From TS Require Proofs.C10_SWKeys.

(* swift.rs write_enum / write_enum_variants pass the tag key and the content key through swift_keyword_aware_rename before they are
   printed as the two cases of ContainerCodingKeys (and as `forKey: .key`): the text of EVERY algebraic enum contains the block
   `private enum ContainerCodingKeys: String, CodingKey { case <tag>, <content> }` spelled with the keys after that renaming ... *)
Theorem C10_swift_container_keys_block :
  forall (e : sw_enum) (tag content : str), swe_tagged e = Some (tag, content) ->
  exists pre post, sw_render_enum e = (pre ++ Proofs.C10_SWKeys.sw_keys_block tag content ++ post)%list.
Proof. exact Proofs.C10_SWKeys.sw_render_enum_keys_block. Qed.
Print Assumptions C10_swift_container_keys_block.

(* ... and for ALL keys that are identifiers and, when they are reserved words of the language, are among SWIFT_KEYWORDS
   (c10_swg_key_ok; `case`, `default`, `class`, `in` ... included: they are back-ticked - only the reserved words the back end
   does not list, precedencegroup and the wildcard `_`, are outside), that block followed by a line break is accepted by the
   recogniser of the Swift declaration grammar as one declaration (an enum with an inheritance clause and one case clause of two
   cases).  The rest of an algebraic enum's text is not covered by a grammar theorem (C10_swift_layout_grammar_partial). *)
Theorem C10_swift_container_keys_grammar :
  forall tag content : str, Proofs.C10_SWKeys.c10_swg_key_ok tag = true -> Proofs.C10_SWKeys.c10_swg_key_ok content = true ->
  c10_sw_recognise (Proofs.C10_SWKeys.sw_keys_block tag content ++ sw_nl)%list = Some 1%nat.
Proof. exact Proofs.C10_SWKeys.sw_keys_block_recognised. Qed.
Print Assumptions C10_swift_container_keys_grammar.

(* regression pin of fix 29 (the class C10-swift-key-keyword - a tag or content key that is a Swift keyword was printed bare: `case case,
   default`, `forKey: .case` - is FIXED in /repo).  The former witness `#[serde(tag = "case", content = "default")] enum E { A(u8), B }`
   is in dom_C10 and in no finding class; the model prints exactly k_text (``case `case`, `default` ``, ``forKey: .`case` ``,
   ``forKey: .`default` ``), which is lexically good and accepted by the recogniser as 2 declarations; the keyword judgement holds of its
   declarations; the observation reports the BARE keys (the wire keys: the raw value of a back-ticked case is the name without back
   ticks): tag key 4 times, content key 3 times; the text contains the block of the two theorems above.  The text the unrepaired code
   printed (the same bytes without back ticks) is lexically good but REJECTED by the recogniser. *)
Theorem C10_swift_key_keyword_fixed :
  exists fd,
    Proofs.C10_SWFile.c10_sw_cfg_ok Proofs.C10_SWKeys.k_cfg = true /\ dom_C10 CSW Proofs.C10_SWKeys.k_prog = true /\
    known_C10 CSW [] Proofs.C10_SWKeys.k_prog = [] /\
    sw_generate uc_exec Proofs.C10_SWKeys.k_cfg Proofs.C10_SWKeys.k_prog = Ok Proofs.C10_SWKeys.k_text /\
    good_C10_lex CSW Proofs.C10_SWKeys.k_text = true /\ c10_sw_recognise Proofs.C10_SWKeys.k_text = Some 2%nat /\
    sw_file_decls uc_exec Proofs.C10_SWKeys.k_cfg Proofs.C10_SWKeys.k_prog = Ok fd /\ good_C10_kw CSW (fd_decls fd) = true /\
    List.map d_tag_keys (fd_decls fd) = [[lit "case"; lit "case"; lit "case"; lit "case"]]%list /\
    List.map d_content_keys (fd_decls fd) = [[lit "default"; lit "default"; lit "default"]]%list /\
    contains_sub (Proofs.C10_SWKeys.sw_keys_block (lit "case") (lit "default")) Proofs.C10_SWKeys.k_text = true /\
    good_C10_lex CSW Proofs.C10_SWKeys.k_text_before = true /\ c10_sw_recognise Proofs.C10_SWKeys.k_text_before = None.
Proof. exact Proofs.C10_SWKeys.swift_key_keyword_fixed. Qed.
Print Assumptions C10_swift_key_keyword_fixed.

(* ---------------------------------------------------------------- Swift: case names of String-backed enums (fix 31) *)
From TS Require Proofs.C10_SWUnitDigit.

(* From the IR, String-backed (unit) enums: under ANY Unicode tables, for ANY variant whose Rust name is identifier-shaped
   (a letter or `_`, then letters, digits, `_`), the case name the model gives it (swift.rs write_enum_variants, the `RustEnum::Unit` arm: the
   camelCased name, with `_` in front when it starts with a digit - fix 31) is an identifier of the Swift grammar (identifier-head
   identifier-characters) whenever it is not empty (a name made of underscores only camelCases to the empty string).  Before
   fix 31 this failed for `_1st` (case name `1st`). *)
Theorem C10_swift_unit_case_ident :
  forall (uc : unicode) (v : rvariant) (st : sw_state) (sv : sw_variant) (st' : sw_state),
    c10_ident_ok (original (vid (variant_shared v))) = true ->
    sw_unit_variant_of uc v st = Ok (sv, st') -> swv_name sv <> []%list ->
    Proofs.C10_SWGrammarTok.c10_sw_ident_ok (swv_name sv) = true.
Proof. exact Proofs.C10_SWUnitDigit.sw_unit_case_ident. Qed.
Print Assumptions C10_swift_unit_case_ident.

(* the hypotheses are satisfiable: `_1st` gives the case name `_1st`, `FirstOne` gives `firstOne`; `1st` is no identifier *)
Theorem C10_swift_unit_case_ident_nonvacuous :
  exists sv sv' st st',
    c10_ident_ok (lit "_1st") = true /\
    sw_unit_variant_of uc_exec (VUnit {| vid := Proofs.C10_SWGrammarFile.w_id "_1st"; vcomments := []%list |}) false = Ok (sv, st) /\
    swv_name sv = lit "_1st" /\
    sw_unit_variant_of uc_exec (VUnit {| vid := Proofs.C10_SWGrammarFile.w_id "FirstOne"; vcomments := []%list |}) false = Ok (sv', st') /\
    swv_name sv' = lit "firstOne" /\
    Proofs.C10_SWGrammarTok.c10_sw_ident_ok (lit "1st") = false.
Proof. exact Proofs.C10_SWUnitDigit.sw_unit_case_ident_nonvacuous. Qed.
Print Assumptions C10_swift_unit_case_ident_nonvacuous.

(* regression pin of fix 31 (the finding C10-swift-unit-digit-case - a variant of a String-backed enum whose camelCased name starts
   with a digit was printed bare: `case 1st = "_1st"` - is FIXED in /repo).  The former witness `pub enum U { _1st, _2nd }` is in
   dom_C10 and in no finding class; the model prints exactly u_text (`case _1st`, `case _2nd`: the case name equals the wire name
   again, no raw value), which is lexically good and accepted by the recogniser as 2 declarations; the observation reports the case
   names `_1st`, `_2nd` and the same wire names; with `#[serde(rename = "x")]` on the first variant the model prints exactly
   u_text_renamed (`case _1st = "x"`), accepted as well, wire names `x`, `_2nd`.  The text the unrepaired code printed
   (`case 1st = "_1st"`, `case 2nd = "_2nd"`) is lexically good but REJECTED by the recogniser. *)
Theorem C10_swift_unit_digit_fixed :
  exists fd fdr,
    Proofs.C10_SWFile.c10_sw_cfg_ok Proofs.C10_SWUnitDigit.u_cfg = true /\ dom_C10 CSW Proofs.C10_SWUnitDigit.u_prog = true /\
    known_C10 CSW [] Proofs.C10_SWUnitDigit.u_prog = [] /\
    sw_generate uc_exec Proofs.C10_SWUnitDigit.u_cfg Proofs.C10_SWUnitDigit.u_prog = Ok Proofs.C10_SWUnitDigit.u_text /\
    good_C10_lex CSW Proofs.C10_SWUnitDigit.u_text = true /\ c10_sw_recognise Proofs.C10_SWUnitDigit.u_text = Some 2%nat /\
    sw_file_decls uc_exec Proofs.C10_SWUnitDigit.u_cfg Proofs.C10_SWUnitDigit.u_prog = Ok fd /\
    List.map (fun d => List.map vd_name (d_variants d)) (fd_decls fd) = [[lit "_1st"; lit "_2nd"]]%list /\
    List.map (fun d => List.map vd_wire (d_variants d)) (fd_decls fd) = [[lit "_1st"; lit "_2nd"]]%list /\
    dom_C10 CSW Proofs.C10_SWUnitDigit.u_prog_renamed = true /\ known_C10 CSW [] Proofs.C10_SWUnitDigit.u_prog_renamed = [] /\
    sw_generate uc_exec Proofs.C10_SWUnitDigit.u_cfg Proofs.C10_SWUnitDigit.u_prog_renamed = Ok Proofs.C10_SWUnitDigit.u_text_renamed /\
    good_C10_lex CSW Proofs.C10_SWUnitDigit.u_text_renamed = true /\ c10_sw_recognise Proofs.C10_SWUnitDigit.u_text_renamed = Some 2%nat /\
    sw_file_decls uc_exec Proofs.C10_SWUnitDigit.u_cfg Proofs.C10_SWUnitDigit.u_prog_renamed = Ok fdr /\
    List.map (fun d => List.map vd_wire (d_variants d)) (fd_decls fdr) = [[lit "x"; lit "_2nd"]]%list /\
    good_C10_lex CSW Proofs.C10_SWUnitDigit.u_text_before = true /\ c10_sw_recognise Proofs.C10_SWUnitDigit.u_text_before = None.
Proof. exact Proofs.C10_SWUnitDigit.swift_unit_digit_fixed. Qed.
Print Assumptions C10_swift_unit_digit_fixed.

(* ---------------------------------------------------------------- Python: tag / content keys that are keywords (open finding) *)
(* The class of the open finding C10-python-key-keyword is the computable predicate Spec.C10PyKeys.known_C10_py_keys (an adjacently
   tagged enum whose tag key is a Python keyword, or whose content key is one and some variant carries data); checks/c10.py evaluates
   its extraction on the IR the real parser produced.  Witness: `#[serde(tag = "class", content = "in")] enum E { A(u8), B }` is in
   dom_C10, in no class of known_C10, in this class, and the model - byte-equal to the real generator on every run of the check -
   declares both keys verbatim as class attributes, although both are in the keyword list the back end promises to escape. *)
Theorem C10_python_key_keyword_refuted :
  exists cfg pd text, dom_C10 CPY pd = true /\ known_C10 CPY [] pd = [] /\ known_C10_py_keys pd = ["C10-python-key-keyword"%string] /\
    py_generate uc_exec cfg pd = Ok text /\
    contains_sub (lit "    class: Literal[ETypes.A] = ETypes.A") text = true /\ contains_sub (lit "    in: int") text = true /\
    mem_str (lit "class") c10_python_keywords = true /\ mem_str (lit "in") c10_python_keywords = true.
Proof. exact Proofs.C10_PYKeys.python_key_keyword_refuted. Qed.
Print Assumptions C10_python_key_keyword_refuted.

(* the boundaries of the class: the same enum with the keys `t` / `c` is outside; so is a keyword CONTENT key on an enum without a
   data-carrying variant, which is never printed *)
Theorem C10_python_key_keyword_class_boundaries :
  known_C10_py_keys Proofs.C10_PYKeys.pk_plain = [] /\ known_C10_py_keys Proofs.C10_PYKeys.pk_unit_only = [] /\
  (exists text, py_generate uc_exec Proofs.C10.w_py_cfg Proofs.C10_PYKeys.pk_unit_only = Ok text /\ contains_sub (lit "    in:") text = false).
Proof. exact Proofs.C10_PYKeys.python_key_keyword_class_boundaries. Qed.
Print Assumptions C10_python_key_keyword_class_boundaries.
