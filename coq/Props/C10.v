(* C10 property theorems: statements only; proofs live in Proofs/C10Lex.v, Proofs/C10_*.v and Proofs/C10.v.
   "balanced" = the lexer of the language (Spec/C10Spec.v), started in code with an empty bracket stack, ends in code
   with an empty stack and never reaches the error state: every bracket, string literal and comment opened is closed. *)
From Coq Require Import String.
From TS Require Import Model.Str Model.Outcome Model.Unicode Model.Types Model.Parse Model.Lang.Common Model.Lang.Decl
                       Model.Lang.TypeScript Model.Lang.Kotlin Model.Lang.Swift Model.Lang.Scala Model.Lang.Go Model.Lang.Python.
From TS Require Import Spec.C10Spec.
From TS Require Proofs.C10Lex Proofs.C10_TS Proofs.C10_TSFile Proofs.C10_KT Proofs.C10_SC Proofs.C10_GO Proofs.C10_GOFile
                Proofs.C10_SW Proofs.C10_SWFile Proofs.C10_PY Proofs.C10_PYFile Proofs.C10_KW Proofs.C10.
From TS Require Import Spec.C10TsGrammar.
From TS Require Proofs.C10_TSGrammarTok Proofs.C10_TSGrammarParse Proofs.C10_TSGrammar Proofs.C10_TSGrammarFile.

(* ---------------------------------------------------------------- the lexers *)
(* the lexer never looks below the bracket stack it started with: a text that is balanced on its own
   is a neutral fragment wherever it is pasted into code (this is what makes verbatim user text -
   type overrides, type_mappings values, decorators - a hole like any other) *)
Theorem C10_balanced_text_is_neutral :
  forall (cfg : c10_lexcfg) (t : str), c10_balanced cfg t = true ->
  forall st, c10_lex_run cfg (C10LCode, st) t = (C10LCode, st).
Proof. exact Proofs.C10Lex.balanced_bal. Qed.
Print Assumptions C10_balanced_text_is_neutral.

(* `{:?}` of ANY string is one complete string literal in a language without triple quotes ... *)
Theorem C10_debug_string_closed :
  forall (cfg : c10_lexcfg) (s : str), c10_lc_triple cfg = false ->
  forall st, c10_lex_run cfg (C10LCode, st) (debug_str s) = (C10LCode, st).
Proof. exact Proofs.C10Lex.debug_str_bal. Qed.
Print Assumptions C10_debug_string_closed.

(* ... and of any NON-EMPTY string in every one of the six languages *)
Theorem C10_debug_string_closed_nonempty :
  forall (cfg : c10_lexcfg) (s : str), s <> [] ->
  forall st, c10_lex_run cfg (C10LCode, st) (debug_str s) = (C10LCode, st).
Proof. exact Proofs.C10Lex.debug_str_bal_triple. Qed.
Print Assumptions C10_debug_string_closed_nonempty.

(* ---------------------------------------------------------------- (1) whole files, from the IR *)
(* TypeScript: for every program of the domain (identifier-shaped names, key-shaped renames, safe doc lines,
   balanced type overrides) and every admissible configuration (balanced type_mappings values, a version string
   that is a safe comment line), the generated file - header, every declaration, ReviverFunc/ReplacerFunc
   trailer - is balanced *)
Theorem C10_lex_typescript :
  forall (uc : unicode) (cfg : ts_config) (pd : parsed) (text : str),
    unicode_ok uc -> Proofs.C10_TSFile.c10_ts_cfg_ok cfg = true -> dom_C10 CTS pd = true ->
    ts_generate uc cfg pd = Ok text -> good_C10_lex CTS text = true.
Proof. exact Proofs.C10.lex_typescript. Qed.
Print Assumptions C10_lex_typescript.

(* Kotlin: the same (package and version made of [A-Za-z0-9_.+-], identifier-shaped prefix) *)
Theorem C10_lex_kotlin :
  forall (uc : unicode) (cfg : kt_config) (pd : parsed) (text : str),
    Proofs.C10_KT.c10_kt_cfg_ok cfg = true -> dom_C10 CKT pd = true ->
    kt_generate uc cfg pd = Ok text -> good_C10_lex CKT text = true.
Proof. exact Proofs.C10.lex_kotlin. Qed.
Print Assumptions C10_lex_kotlin.

(* Scala: the same for every admissible package name (made of [A-Za-z0-9_.+-]), with or without a dot: since the
   /repo fix of C10-scala-package-brace the closing brace of the package object / package block is printed exactly
   when its opener is, so the statement has no carve-out (the empty package is begin_file's error: no text) *)
Theorem C10_lex_scala :
  forall (uc : unicode) (cfg : sc_config) (pd : parsed) (text : str),
    Proofs.C10_SC.c10_sc_cfg_ok cfg = true -> dom_C10 CSC pd = true ->
    sc_generate uc cfg pd = Ok text -> good_C10_lex CSC text = true.
Proof. exact Proofs.C10.lex_scala. Qed.
Print Assumptions C10_lex_scala.

(* Go: the same, for alphanumeric uppercase_acronyms (names and printed types go through the textual
   match_indices / replace_range conversion of go.rs:579, which then only replaces letters and digits by letters and
   digits) *)
Theorem C10_lex_go :
  forall (uc : unicode) (cfg : go_config) (pd : parsed) (text : str),
    unicode_ok uc -> Proofs.C10_GOFile.c10_go_cfg_ok cfg = true -> dom_C10 CGO pd = true ->
    go_generate uc cfg pd = Ok text -> good_C10_lex CGO text = true.
Proof. exact Proofs.C10.lex_go. Qed.
Print Assumptions C10_lex_go.

(* Swift: every program of the domain (the Swift generic-constraint strings neutral tokens, every other decorator
   balanced on its own), every admissible configuration (identifier-shaped prefix, balanced default decorators and
   CodableVoid constraints, default generic constraints neutral tokens). The finding class C10-swift-label is a
   grammar defect: the text is lexically balanced there too. *)
Theorem C10_lex_swift :
  forall (uc : unicode) (cfg : sw_config) (pd : parsed) (text : str),
    Proofs.C10_SWFile.c10_sw_cfg_ok cfg = true -> dom_C10 CSW pd = true ->
    sw_generate uc cfg pd = Ok text -> good_C10_lex CSW text = true.
Proof. exact Proofs.C10.lex_swift. Qed.
Print Assumptions C10_lex_swift.

(* Python: header docstring, import lines, TypeVars, helper functions, every declaration *)
Theorem C10_lex_python :
  forall (uc : unicode) (cfg : py_config) (pd : parsed) (text : str),
    unicode_ok uc -> Proofs.C10_PYFile.c10_py_cfg_ok cfg = true -> dom_C10 CPY pd = true ->
    py_generate uc cfg pd = Ok text -> good_C10_lex CPY text = true.
Proof. exact Proofs.C10.lex_python. Qed.
Print Assumptions C10_lex_python.

(* ---------------------------------------------------------------- (1') layout layer, all declarations *)
(* the text of EVERY declaration whose names are neutral tokens, whose doc lines are safe and whose verbatim
   parts are balanced closes every bracket, string literal and comment it opens - whatever the bracket stack *)
Theorem C10_ts_layout_balanced :
  forall d : ts_decl, Proofs.C10_TS.c10_ts_decl_ok d = true ->
  forall st, c10_lex_run c10_lex_ts (C10LCode, st) (ts_render_decl d) = (C10LCode, st).
Proof. exact Proofs.C10_TS.ts_render_decl_bal. Qed.
Print Assumptions C10_ts_layout_balanced.

Theorem C10_kotlin_layout_balanced :
  forall d : kt_decl, Proofs.C10_KT.c10_kt_decl_ok d = true ->
  forall st, c10_lex_run c10_lex_kt (C10LCode, st) (kt_render_decl d) = (C10LCode, st).
Proof. exact Proofs.C10_KT.kt_render_decl_bal. Qed.
Print Assumptions C10_kotlin_layout_balanced.

Theorem C10_scala_layout_balanced :
  forall d : sc_decl, Proofs.C10_SC.c10_sc_decl_ok d = true ->
  forall st, c10_lex_run c10_lex_sc (C10LCode, st) (sc_render_decl d) = (C10LCode, st).
Proof. exact Proofs.C10_SC.sc_render_decl_bal. Qed.
Print Assumptions C10_scala_layout_balanced.

(* Go: struct tags are raw strings, so the JSON keys must not contain a back-tick *)
Theorem C10_go_layout_balanced :
  forall d : go_decl, Proofs.C10_GO.c10_go_decl_ok d = true ->
  forall st, c10_lex_run c10_lex_go (C10LCode, st) (go_render_decl d) = (C10LCode, st).
Proof. exact Proofs.C10_GO.go_render_decl_bal. Qed.
Print Assumptions C10_go_layout_balanced.

(* Swift: structs with their CodingKeys and init, String-backed and algebraic enums with their Codable
   implementation, type aliases, CodableVoid *)
Theorem C10_swift_layout_balanced :
  forall d : sw_decl, Proofs.C10_SW.c10_sw_decl_ok d = true ->
  forall st, c10_lex_run c10_lex_sw (C10LCode, st) (sw_render_decl d) = (C10LCode, st).
Proof. exact Proofs.C10_SW.sw_render_decl_bal. Qed.
Print Assumptions C10_swift_layout_balanced.

(* Python: classes with docstrings, (str, Enum) classes, variant classes, Union lines, aliases, consts. A docstring
   line may contain double quotes, but not three in a row, and no backslash. *)
Theorem C10_python_layout_balanced :
  forall d : py_decl, Proofs.C10_PY.c10_py_decl_ok d = true ->
  forall st, c10_lex_run c10_lex_py (C10LCode, st) (py_render_decl d) = (C10LCode, st).
Proof. exact Proofs.C10_PY.py_render_decl_bal. Qed.
Print Assumptions C10_python_layout_balanced.

(* ---------------------------------------------------------------- (2) keyword escapes, all programs *)
(* Swift: every definition name and property name of the generated file that is in SWIFT_KEYWORDS is written in
   back-ticks where it is declared *)
Theorem C10_kw_swift :
  forall (uc : unicode) (cfg : sw_config) (pd : parsed) (fd : file_decls),
    sw_file_decls uc cfg pd = Ok fd -> good_C10_kw CSW (fd_decls fd) = true.
Proof. exact Proofs.C10_KW.kw_swift. Qed.
Print Assumptions C10_kw_swift.

(* Python: no attribute of a generated class is a Python keyword, and an attribute the back end escaped ends in `_` *)
Theorem C10_kw_python :
  forall (uc : unicode) (cfg : py_config) (pd : parsed) (fd : file_decls),
    py_file_decls uc cfg pd = Ok fd -> good_C10_kw CPY (fd_decls fd) = true.
Proof. exact Proofs.C10_KW.kw_python. Qed.
Print Assumptions C10_kw_python.

(* ---------------------------------------------------------------- regression pin of the repaired class *)
(* C10-scala-package-brace (fixed in /repo): under the dotless package `onepassword` the former witness
   `struct A { x: String }` is in no finding class and gives exactly the documented case class at top level - no
   closing brace after it - which is balanced; a program that fills both the package object (unsigned aliases, an
   alias) and the package (a struct, an enum) is balanced as well *)
Theorem C10_scala_package_brace_fixed :
  Proofs.C10_SC.c10_sc_cfg_ok Proofs.C10.w_brace_cfg = true /\ contains_char sc_ch_dot (sc_package Proofs.C10.w_brace_cfg) = false /\
  dom_C10 CSC Proofs.C10.w_brace_pd = true /\ c10_has_items Proofs.C10.w_brace_pd = true /\
  known_C10 CSC (sc_package Proofs.C10.w_brace_cfg) Proofs.C10.w_brace_pd = [] /\
  sc_generate uc_exec Proofs.C10.w_brace_cfg Proofs.C10.w_brace_pd = Ok Proofs.C10.w_brace_text /\
  contains_sub (lit "case class A (") Proofs.C10.w_brace_text = true /\ contains_sub (lit "}") Proofs.C10.w_brace_text = false /\
  good_C10_lex CSC Proofs.C10.w_brace_text = true /\
  exists text, dom_C10 CSC Proofs.C10.w_prog = true /\ known_C10 CSC (sc_package Proofs.C10.w_brace_cfg) Proofs.C10.w_prog = [] /\
    sc_generate uc_exec Proofs.C10.w_brace_cfg Proofs.C10.w_prog = Ok text /\ contains_sub (lit "type ULong = Int") text = true /\
    contains_sub (lit "case class A (") text = true /\ good_C10_lex CSC text = true.
Proof. exact Proofs.C10.scala_package_brace_fixed. Qed.
Print Assumptions C10_scala_package_brace_fixed.

(* ---------------------------------------------------------------- the finding classes are real *)
Theorem C10_scala_default_refuted :
  exists cfg pd text, dom_C10 CSC pd = true /\ known_C10 CSC (sc_package cfg) pd = ["C10-scala-default"%string] /\
    sc_generate uc_exec cfg pd = Ok text /\ contains_sub (lit "x: String = _") text = true.
Proof. exact Proofs.C10.scala_default_refuted. Qed.
Print Assumptions C10_scala_default_refuted.

Theorem C10_swift_label_refuted :
  exists cfg pd text, dom_C10 CSW pd = true /\ known_C10 CSW [] pd = ["C10-swift-label"%string] /\
    sw_generate uc_exec cfg pd = Ok text /\ contains_sub (lit "public let `let`: String") text = true /\
    contains_sub (lit "public init(let: String)") text = true /\ good_C10_swift_labels [lit "let"] = false.
Proof. exact Proofs.C10.swift_label_refuted. Qed.
Print Assumptions C10_swift_label_refuted.

Theorem C10_python_generic_alias_refuted :
  exists cfg pd text, dom_C10 CPY pd = true /\ known_C10 CPY [] pd = ["C10-python-generic-alias"%string] /\
    py_generate uc_exec cfg pd = Ok text /\ contains_sub (lit "Al[T] = List[T]") text = true.
Proof. exact Proofs.C10.python_generic_alias_refuted. Qed.
Print Assumptions C10_python_generic_alias_refuted.

Theorem C10_python_generic_enum_arg_refuted :
  exists cfg pd text, dom_C10 CPY pd = true /\ known_C10 CPY [] pd = ["C10-python-generic-enum-arg"%string] /\
    py_generate uc_exec cfg pd = Ok text /\ contains_sub (lit "Al = List[G[int]]") text = true /\
    contains_sub (lit "G = GV") text = true.
Proof. exact Proofs.C10.python_generic_enum_arg_refuted. Qed.
Print Assumptions C10_python_generic_enum_arg_refuted.

Theorem C10_python_digit_name_refuted :
  exists cfg pd text, dom_C10 CPY pd = true /\ known_C10 CPY [] pd = ["C10-python-digit-name"%string] /\
    py_generate uc_exec cfg pd = Ok text /\ contains_sub (lit "    1_A = ""1a""") text = true.
Proof. exact Proofs.C10.python_digit_name_refuted. Qed.
Print Assumptions C10_python_digit_name_refuted.

Theorem C10_kotlin_digit_name_refuted :
  exists cfg pd text, dom_C10 CKT pd = true /\ known_C10 CKT [] pd = ["C10-digit-name"%string] /\
    kt_generate uc_exec cfg pd = Ok text /\ contains_sub (lit "val 1st: String") text = true.
Proof. exact Proofs.C10.kotlin_digit_name_refuted. Qed.
Print Assumptions C10_kotlin_digit_name_refuted.

Theorem C10_go_digit_name_refuted :
  exists cfg pd text, dom_C10 CGO pd = true /\ known_C10 CGO [] pd = ["C10-digit-name"%string] /\
    go_generate uc_exec cfg pd = Ok text /\ contains_sub (lit "1x string `json:") text = true.
Proof. exact Proofs.C10.go_digit_name_refuted. Qed.
Print Assumptions C10_go_digit_name_refuted.

(* reachable from the IR only (the parser rejects tag/content on an enum without data-carrying variants) *)
Theorem C10_python_empty_union_refuted :
  exists cfg pd text, known_C10 CPY [] pd = ["C10-python-empty-union"%string] /\
    py_generate uc_exec cfg pd = Ok text /\ contains_sub (lit "E = Union[]") text = true.
Proof. exact Proofs.C10.python_empty_union_refuted. Qed.
Print Assumptions C10_python_empty_union_refuted.

(* ---------------------------------------------------------------- (3) the GRAMMAR half, TypeScript *)
(* "the recogniser" = c10_ts_recognise of Spec/C10TsGrammar.v, the tokenizer + recursive-descent parser of the TypeScript
   declaration subset that checks/c10.py runs on every real and every modelled TypeScript file (driver command
   c10_ts_parse); Some n = the text is n well-formed declarations.

   The tokenizer is compositional at token boundaries: if the text b does not start with an identifier character or a
   star, or the text a ends with a character that is neither an identifier character nor a slash (glue a b), the tokens
   of a ++ b are the tokens of a followed by the tokens of b - with exactly the fuel the recogniser gives it. *)
Theorem C10_ts_tokens_frame :
  forall (a : str) (ta : list c10_tok) (b : str) (tb : list c10_tok),
    c10_ts_tokens (S (List.length a)) a = Some ta -> c10_ts_tokens (S (List.length b)) b = Some tb ->
    Proofs.C10_TSGrammarTok.glue a b = true ->
    c10_ts_tokens (S (List.length (a ++ b))) (a ++ b) = Some (ta ++ tb).
Proof. exact Proofs.C10_TSGrammarTok.tokens_frame. Qed.
Print Assumptions C10_ts_tokens_frame.

(* The parser is complete for the declarative grammar Gr of Proofs/C10_TSGrammarParse.v (the grammar of the header
   comment of Spec/C10TsGrammar.v as an inductive family over token lists: primary, postfix, union, type, type list,
   object body, member): the tokens of a type followed by anything that does not start with [<], [|] or [[] are consumed
   exactly, with the fuel the recogniser gives itself. *)
Theorem C10_ts_type_grammar_complete :
  forall (t rest : list c10_tok),
    Proofs.C10_TSGrammarParse.Gr Proofs.C10_TSGrammarParse.STy t -> Proofs.C10_TSGrammarParse.fol rest ->
    c10_ts_type (t ++ rest) = Some rest.
Proof. exact Proofs.C10_TSGrammarParse.ts_type_ok. Qed.
Print Assumptions C10_ts_type_grammar_complete.

(* Layout layer, all declarations: the concatenated text of ANY list of declarations (interfaces, aliases, constants,
   unit enums, tagged unions) that are well-formed for the grammar - names, generic parameters, case names, tag and
   content keys identifiers; property keys identifiers or dashed (then quoted); wire names key-shaped; doc lines safe;
   every type tree made of identifier names and of verbatim leaves that are types of the grammar; at least one variant
   in a union; a decimal constant value - is accepted, as exactly that many declarations. *)
Theorem C10_ts_layout_grammar :
  forall ds : list ts_decl, Forall Proofs.C10_TSGrammar.c10_tsg_decl_ok ds ->
    c10_ts_recognise (List.concat (map ts_render_decl ds)) = Some (List.length ds).
Proof. exact Proofs.C10_TSGrammarFile.ts_decls_recognised. Qed.
Print Assumptions C10_ts_layout_grammar.

(* Whole files, from the IR: for every program of dom_C10 and every admissible configuration (the hypotheses of
   C10_lex_typescript), strengthened by what the grammar needs -
     c10_tsg_cfg_ok: every type_mappings value is the text of a type of the grammar (TyText: it tokenises, as an open
       fragment, to a union type of Gr);
     c10_tsg_dom: every property key (renamed field name) is an identifier unless it contains a dash (the finding class
       C10-digit-name is outside), every TypeScript type override is the text of a type of the grammar, the tag and
       content keys of a tagged union are identifiers (they are printed unquoted) and a tagged union has at least one
       variant (`export type E = ;` is not a declaration) -
   the recogniser accepts the generated file: version header, every declaration, ReviverFunc / ReplacerFunc trailer;
   it finds at least one declaration per item. *)
Theorem C10_grammar_typescript :
  forall (uc : unicode) (cfg : ts_config) (pd : parsed) (text : str),
    unicode_ok uc -> Proofs.C10_TSFile.c10_ts_cfg_ok cfg = true -> Proofs.C10_TSGrammarFile.c10_tsg_cfg_ok cfg ->
    dom_C10 CTS pd = true -> Proofs.C10_TSGrammarFile.c10_tsg_dom pd ->
    ts_generate uc cfg pd = Ok text ->
    exists n : nat, c10_ts_recognise text = Some n /\ (List.length (items_of pd) <= n)%nat.
Proof. exact Proofs.C10_TSGrammarFile.ts_generate_recognised. Qed.
Print Assumptions C10_grammar_typescript.

(* The same with COMPUTABLE extra hypotheses: every type_mappings value and every TypeScript type override is
   identifier-shaped (string, Date, Uint8Array, MyType ...), keys / tags / variants as above *)
Theorem C10_grammar_typescript_simple :
  forall (uc : unicode) (cfg : ts_config) (pd : parsed) (text : str),
    unicode_ok uc -> Proofs.C10_TSFile.c10_ts_cfg_ok cfg = true -> Proofs.C10_TSGrammarFile.c10_tsg_cfg_simple cfg = true ->
    dom_C10 CTS pd = true -> Proofs.C10_TSGrammarFile.c10_tsg_dom_simple pd = true ->
    ts_generate uc cfg pd = Ok text ->
    exists n : nat, c10_ts_recognise text = Some n /\ (List.length (items_of pd) <= n)%nat.
Proof. exact Proofs.C10_TSGrammarFile.ts_generate_recognised_simple. Qed.
Print Assumptions C10_grammar_typescript_simple.

(* The hypotheses are satisfiable and acceptance means something: a program with a documented generic interface (string,
   optional, array, tuple, Date, mapped Uint8Array and string, Record of a generic application, a readonly dashed
   doubly-optional key, a verbatim override `Array<string | number>[] | null`), a doubly-optional generic alias, a unit
   enum, a tagged union with unit / tuple / optional-tuple / struct variants and two constants (one negative) is in the
   domain, in no finding class, and its file - with version header and Date / Uint8Array reviver and replacer - is
   accepted as 8 declarations; the same text without its last three characters, without its first opening brace, or
   with its first `=` turned into `:` is rejected. *)
Theorem C10_grammar_typescript_witness :
  Proofs.C10_TSFile.c10_ts_cfg_ok Proofs.C10_TSGrammarFile.g_cfg = true /\ Proofs.C10_TSGrammarFile.c10_tsg_cfg_ok Proofs.C10_TSGrammarFile.g_cfg /\
  dom_C10 CTS Proofs.C10_TSGrammarFile.g_prog = true /\ Proofs.C10_TSGrammarFile.c10_tsg_dom Proofs.C10_TSGrammarFile.g_prog /\
  known_C10 CTS [] Proofs.C10_TSGrammarFile.g_prog = [] /\
  ts_generate uc_exec Proofs.C10_TSGrammarFile.g_cfg Proofs.C10_TSGrammarFile.g_prog = Ok Proofs.C10_TSGrammarFile.g_text /\
  c10_ts_recognise Proofs.C10_TSGrammarFile.g_text = Some 8%nat /\
  contains_sub (lit "export interface Person<T, U> {") Proofs.C10_TSGrammarFile.g_text = true /\
  contains_sub (lit "readonly ""first-name""?: string | null;") Proofs.C10_TSGrammarFile.g_text = true /\
  contains_sub (lit "| { type: ""Opt"", content?: number | null }") Proofs.C10_TSGrammarFile.g_text = true /\
  contains_sub (lit "export const ReplacerFunc = ") Proofs.C10_TSGrammarFile.g_text = true /\
  c10_ts_recognise (firstn (List.length Proofs.C10_TSGrammarFile.g_text - 3) Proofs.C10_TSGrammarFile.g_text) = None /\
  c10_ts_recognise (Proofs.C10_TSGrammarFile.g_drop_first 123 Proofs.C10_TSGrammarFile.g_text) = None /\
  c10_ts_recognise (Proofs.C10_TSGrammarFile.g_subst_first 61 58 Proofs.C10_TSGrammarFile.g_text) = None.
Proof. exact Proofs.C10_TSGrammarFile.grammar_witness. Qed.
Print Assumptions C10_grammar_typescript_witness.
