(* C10 property theorems: statements only; proofs live in Proofs/C10Lex.v and Proofs/C10_*.v *)
From Coq Require Import String.
From TS Require Import Model.Str Model.Outcome Model.Unicode Model.Types Model.Parse Model.Lang.Common Model.Lang.Decl Model.Lang.TypeScript.
From TS Require Import Spec.C10Spec.
From TS Require Proofs.C10Lex Proofs.C10_TS.

(* the lexer never looks below the bracket stack it started with: a text that is balanced on its own
   is a neutral fragment wherever it is pasted into code (this is what makes verbatim user text -
   type overrides, type_mappings values, decorators - a hole like any other) *)
Theorem C10_balanced_text_is_neutral :
  forall (cfg : c10_lexcfg) (t : str), c10_balanced cfg t = true ->
  forall st, c10_lex_run cfg (C10LCode, st) t = (C10LCode, st).
Proof. exact Proofs.C10Lex.balanced_bal. Qed.
Print Assumptions C10_balanced_text_is_neutral.

(* `{:?}` of ANY string is one complete string literal in a language without triple quotes ... *)
Theorem C10_debug_string_closed :
  forall (cfg : c10_lexcfg) (s : str), c10_lc_triple cfg = false ->
  forall st, c10_lex_run cfg (C10LCode, st) (debug_str s) = (C10LCode, st).
Proof. exact Proofs.C10Lex.debug_str_bal. Qed.
Print Assumptions C10_debug_string_closed.

(* ... and of any NON-EMPTY string in every one of the six languages *)
Theorem C10_debug_string_closed_nonempty :
  forall (cfg : c10_lexcfg) (s : str), s <> [] ->
  forall st, c10_lex_run cfg (C10LCode, st) (debug_str s) = (C10LCode, st).
Proof. exact Proofs.C10Lex.debug_str_bal_triple. Qed.
Print Assumptions C10_debug_string_closed_nonempty.

(* TypeScript, layout layer: the text of EVERY declaration whose names are neutral tokens, whose doc lines
   are safe and whose verbatim parts are balanced closes every bracket, string literal and comment it opens *)
Theorem C10_ts_layout_balanced :
  forall d : ts_decl, Proofs.C10_TS.c10_ts_decl_ok d = true ->
  forall st, c10_lex_run c10_lex_ts (C10LCode, st) (ts_render_decl d) = (C10LCode, st).
Proof. exact Proofs.C10_TS.ts_render_decl_bal. Qed.
Print Assumptions C10_ts_layout_balanced.
