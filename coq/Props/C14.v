(* C14 property theorems: statements only; proofs live in Proofs/C14.v *)
From Coq Require Import List Permutation String.
From TS Require Import Model.Str Model.Outcome Model.Unicode Model.Syntax Model.Types Model.Parse Model.Reconcile Model.Collect Model.MultiFile.
From TS Require Import Spec.C14Spec.
From TS Require Proofs.C14.
Import ListNotations.

(* find_crate_name: for every path with a component `src` that has something above it, the crate is the
   component above the LAST `src`, with dashes replaced by underscores *)
Theorem C14_find_crate_name_last_src :
  forall pre above post, ~ In SRC post ->
    find_crate_name (pre ++ above :: SRC :: post) = Some (replace_char ch_dash ch_us above).
Proof. exact Proofs.C14.find_crate_name_last_src. Qed.
Print Assumptions C14_find_crate_name_last_src.
