(* C14 property theorems: statements only; proofs live in Proofs/C14*.v *)
From Coq Require Import List Permutation String.
From TS Require Import Model.Str Model.Outcome Model.Unicode Model.Syntax Model.Rename Model.Types Model.Parse Model.Reconcile Model.Collect Model.Lang.Common Model.MultiFile.
From TS Require Model.Writer.
From TS Require Import Spec.C14Spec.
From TS Require Import Model.Lang.Decl Model.Lang.Kotlin Spec.C14KotlinSpec.
From TS Require Proofs.C14 Proofs.C14Front Proofs.C14Main Proofs.C14Imports Proofs.C14Order Proofs.C14Witness Proofs.C14Kotlin.
Import ListNotations.
Local Open Scope string_scope.

(* Vocabulary.
   ws : list ws_entry       the .rs files the walker found: path components, syn-level AST, syn::parse_str
   ho_file ho_crate hc      iteration orders of the three hash containers that can reach the output (per-file
                            import set, per-crate import set, CrateTypes); `oracle_ok h` = h rearranges its argument.
                            Every theorem holds for every such order.
   arrivals                 what the per-file parsers sent to the collector (parse_workspace = Ok arrivals: no
                            syn error; since the /repo fix of visitors.rs:401 the parsers never panic and the
                            hypothesis holds for every workspace: Props/C07.C07_workspace_parse_total)
   multi_crates             collector + reconcile_aliases: the BTreeMap<CrateName, ParsedData> of main.rs
   multi_plan               one (file name, crate, import list, data) per crate: what write_multiple_files generates
   c14_infos uc T ws        (Proofs.C14Main) what the specification is told about each file: its path, its syntax,
                            and its annotated items as the SINGLE-FILE front end parses them
   ign                      ParseContext::ignored_types = the language's ignored_reference_types (the keys of
                            type_mappings for TypeScript and Kotlin) = the specification's `mapped` *)

(* ---------------------------------------------------------------- crate names and file names *)

(* find_crate_name: for every path with a component `src` that has something above it, the crate is the
   component above the LAST `src`, with dashes replaced by underscores *)
Theorem C14_find_crate_name_last_src :
  forall pre above post, ~ In SRC post ->
    find_crate_name (pre ++ above :: SRC :: post) = Some (replace_char ch_dash ch_us above).
Proof. exact Proofs.C14.find_crate_name_last_src. Qed.
Print Assumptions C14_find_crate_name_last_src.

(* on EVERY path the model's reverse scan is the specification's crate_of ... *)
Theorem C14_find_crate_name_spec :
  forall components, find_crate_name components = crate_of components.
Proof. exact Proofs.C14.find_crate_name_spec. Qed.
Print Assumptions C14_find_crate_name_spec.

(* ... which is the relational definition: some `above :: src :: post` split with no further `src` in post *)
Theorem C14_crate_of_iff :
  forall components c, crate_of components = Some c <-> is_crate_of components c.
Proof. exact Proofs.C14.crate_of_iff. Qed.
Print Assumptions C14_crate_of_iff.

(* no path outside every `src` directory belongs to a crate *)
Theorem C14_find_crate_name_no_src :
  forall components, ~ In SRC components -> find_crate_name components = None.
Proof. exact Proofs.C14.find_crate_name_no_src. Qed.
Print Assumptions C14_find_crate_name_no_src.

(* a crate name never contains a dash *)
Theorem C14_find_crate_name_dashes :
  forall components c, find_crate_name components = Some c -> ~ In ch_dash c.
Proof. exact Proofs.C14.find_crate_name_dashes. Qed.
Print Assumptions C14_find_crate_name_dashes.

(* output_file_name: <crate>.<ext> outside Swift, PascalCase of the crate for Swift (for crate names with a
   lowercase letter: to_pascal_case treats all-uppercase words specially) *)
Theorem C14_output_file_name_spec :
  forall l c, l <> Swift -> output_file_name l c = file_name14 l c.
Proof. exact Proofs.C14.output_file_name_spec. Qed.
Print Assumptions C14_output_file_name_spec.

Theorem C14_swift_file_name_spec :
  forall c, conventional_crate c = true -> output_file_name Swift c = file_name14 Swift c.
Proof. exact Proofs.C14.swift_file_name_spec. Qed.
Print Assumptions C14_swift_file_name_spec.

Theorem C14_output_file_name_injective :
  forall l a b, l <> Swift -> output_file_name l a = output_file_name l b -> a = b.
Proof. exact Proofs.C14.output_file_name_injective. Qed.
Print Assumptions C14_output_file_name_injective.

(* finding C14-swift-file-collision: two crates, one Swift file name *)
Theorem C14_swift_file_collision_refuted :
  lit "a_b" <> lit "a__b" /\ output_file_name Swift (lit "a_b") = output_file_name Swift (lit "a__b").
Proof. exact Proofs.C14.swift_file_collision_refuted. Qed.
Print Assumptions C14_swift_file_collision_refuted.

(* ---------------------------------------------------------------- (1) partition *)

(* For every workspace, every --target-os list, every language and all iteration orders:
   there is one output file per crate and the crates are pairwise different; each file is named
   output_file_name of its crate; a crate has a file iff one of the source files whose path lies in it
   (find_crate_name) yields something; and the file of crate c holds exactly (as a multiset of declarations:
   kind, Rust name, generated name) the annotated items of the source files of crate c - so every parsed type
   lies in the file named from its crate and in no other. *)
Theorem C14_partition :
  forall (uc : unicode) (T ign : list str) (ho_file ho_crate : list imported -> list imported)
         (hc : crate_types -> crate_types) (l : lang) (ws : list ws_entry) (arrivals : list (str * parsed)),
    parse_workspace uc T ign ho_file ws = Ok arrivals ->
    let plan := multi_plan l hc (multi_crates ho_crate arrivals) in
    NoDup (map op_crate plan) /\
    (forall p, In p plan -> op_file p = output_file_name l (op_crate p)) /\
    (forall c, In c (map op_crate plan) <->
       exists e pd0, In e ws /\ find_crate_name (we_path e) = Some c /\ parse_file uc (we_tstr e) T (we_file e) = Ok (Some pd0)) /\
    (forall p, In p plan ->
       Permutation (map c14_decl (items_of (op_data p)))
                   (map c14_decl (crate_items (Proofs.C14Main.c14_infos uc T ws) (op_crate p)))).
Proof. intros uc T ign ho_file ho_crate hc l ws arrivals H. exact (Proofs.C14Main.partition_plan uc T ign ho_file l ho_crate hc ws arrivals H). Qed.
Print Assumptions C14_partition.

(* outside Swift no two crates share an output file (for Swift see C14_swift_file_collision_refuted) *)
Theorem C14_partition_files_distinct :
  forall (uc : unicode) (T ign : list str) (ho_file ho_crate : list imported -> list imported)
         (hc : crate_types -> crate_types) (l : lang) (ws : list ws_entry) (arrivals : list (str * parsed)),
    parse_workspace uc T ign ho_file ws = Ok arrivals -> l <> Swift ->
    NoDup (map op_file (multi_plan l hc (multi_crates ho_crate arrivals))).
Proof. intros uc T ign ho_file ho_crate hc l ws arrivals H Hl. eapply Proofs.C14Main.plan_files_distinct; eassumption. Qed.
Print Assumptions C14_partition_files_distinct.

(* the declarations of all files together are those of the single-file run (`-o`) on the same sources
   (the files under some <crate>/src, parsed with multi_file = false, collected, reconciled) *)
Theorem C14_partition_same_as_single_file :
  forall (uc : unicode) (T ign : list str) (ho_file ho_crate : list imported -> list imported)
         (hc : crate_types -> crate_types) (l : lang) (ws : list ws_entry) (arrivals : list (str * parsed)) (singles : list parsed),
    parse_workspace uc T ign ho_file ws = Ok arrivals ->
    parse_workspace_single uc T (crate_entries ws) = Ok singles ->
    Permutation (flat_map (fun p => map c14_decl (items_of (op_data p))) (multi_plan l hc (multi_crates ho_crate arrivals)))
                (map c14_decl (items_of (single_file_input singles))).
Proof. intros uc T ign ho_file ho_crate hc l ws arrivals singles H HS. eapply Proofs.C14Main.partition_single; eassumption. Qed.
Print Assumptions C14_partition_same_as_single_file.

(* whenever the multi-file front end succeeds, so does the single-file front end on the same files, with the
   same items file by file (only the import candidates differ) *)
Theorem C14_single_file_front_end_agrees :
  forall (uc : unicode) (T ign : list str) (ho_file : list imported -> list imported) (ws : list ws_entry) (arrivals : list (str * parsed)),
    parse_workspace uc T ign ho_file ws = Ok arrivals ->
    parse_workspace_single uc T (crate_entries ws) = Ok (map (fun a => Proofs.C14Front.core (snd a)) arrivals).
Proof. exact Proofs.C14Main.parse_workspace_single_rel. Qed.
Print Assumptions C14_single_file_front_end_agrees.

(* what is handed to the writer when every crate generates: one text per plan entry, under the plan's file name *)
Theorem C14_files_written :
  forall (St : Type) (gen : St -> str -> scoped -> parsed -> outcome (str * St)) (plan : list out_plan) (st st' : St),
    snd (generate_crates gen st plan) = Ok st' ->
    map fst (fst (generate_crates gen st plan)) = map op_file plan /\
    Forall (fun r => exists text, snd r = Writer.Generated text) (fst (generate_crates gen st plan)).
Proof. intros St gen plan st st'. exact (Proofs.C14Main.generate_crates_files gen plan st st'). Qed.
Print Assumptions C14_files_written.

(* ---------------------------------------------------------------- (2) imports are sound, unconditionally *)

(* every imported (module, name): the module is another crate's and its type table holds the name; for any
   iteration order of CrateTypes that yields only entries of the map, any import set, any crates.
   Unconditional - in particular for glob imports: `use d::*;` imports every type of d, also those the file
   never uses; that is sound (completeness, below, is the clause about what MUST be imported). *)
Theorem C14_imports_sound :
  forall (hc : crate_types -> crate_types) (cs : crates) (cn : str) (pd : parsed) (k n : str),
    (forall l x, In x (hc l) -> In x l) ->
    In (k, n) (scoped_pairs (crate_imports hc cs cn pd)) ->
    k <> cn /\ exists names, In (k, names) (all_types cs) /\ In n names.
Proof. exact Proofs.C14.imports_sound. Qed.
Print Assumptions C14_imports_sound.

(* in the specification's terms: no import of any generated file names the file itself or a name that is not
   the generated name of an annotated TYPE (struct, enum, alias - not a const) of a source file of the module's
   crate.  Unconditional; an import brought in by a glob and not used by the file is sound. *)
Theorem C14_imports_sound_spec :
  forall (uc : unicode) (T ign : list str) (ho_file ho_crate : list imported -> list imported)
         (hc : crate_types -> crate_types) (ws : list ws_entry) (arrivals : list (str * parsed)),
    parse_workspace uc T ign ho_file ws = Ok arrivals ->
    forall c pd, (forall l x, In x (hc l) -> In x l) ->
      unsound_imports (Proofs.C14Main.c14_infos uc T ws) c
        (scoped_pairs (crate_imports hc (multi_crates ho_crate arrivals) c pd)) = [].
Proof. intros uc T ign ho_file ho_crate hc ws arrivals H c pd Hh. eapply Proofs.C14Imports.imports_sound_spec; eassumption. Qed.
Print Assumptions C14_imports_sound_spec.

(* ---------------------------------------------------------------- (3) imports are complete on dom_C14 *)

(* For every workspace and all iteration orders: every reference the specification finds in a source file of
   crate c to a type of another generated crate d (judge_crate) that lies in dom_C14 is imported from d, under
   the name the type is generated under, in c's generated file.  dom_C14 = dom_named || dom_glob:
   (a) named - introduced by a plain / grouped / nested `use d::..::N` or a path d::..::N, nothing else in the
       file brings in N from elsewhere, crate d generates its N under ONE name (one_generated_name: every type of
       d with the Rust name N has the same generated name - serde-renamed or not; since the /repo fix of finding
       C14-renamed-import the import names the generated name), the name unique across crates, d and N
       outside the ignore lists, N not type-mapped and not the name of a type of the file itself;
   (b) covered by a glob - the file says `use d::*;`, directly or nested (`use d::m::*;`, `use d::{m::*, X};`),
       d outside the ignore lists (no condition on the target: renamed and same-named types included; `*` is
       not the Rust name of a type of d - true of every parsed source).
   (uc agrees with ASCII below 128; ign is both ParseContext::ignored_types and the specification's `mapped`.) *)
Theorem C14_imports_complete :
  forall (uc : unicode), unicode_ok uc ->
  forall (T ign : list str) (ho_file ho_crate : list imported -> list imported) (hc : crate_types -> crate_types)
         (ws : list ws_entry) (arrivals : list (str * parsed)),
    parse_workspace uc T ign ho_file ws = Ok arrivals ->
    Proofs.C14Front.oracle_ok ho_file -> Proofs.C14Front.oracle_ok ho_crate -> Proofs.C14Front.oracle_ok hc ->
    forall c pd v,
      In (c, pd) (multi_crates ho_crate arrivals) ->
      In v (judge_crate (Proofs.C14Main.c14_infos uc T ws) ign c
              (scoped_pairs (crate_imports hc (multi_crates ho_crate arrivals) c pd))) ->
      rv_dom v = true -> rv_imported v = true.
Proof. intros uc Huc T ign ho_file ho_crate hc ws arrivals H H1 H2 H3 c pd v. eapply Proofs.C14Imports.imports_complete; eassumption. Qed.
Print Assumptions C14_imports_complete.

(* the predicate the check evaluates on the implementation's import lists holds of the model's, for every
   generated file of every workspace: sound, and complete on dom_C14 (the finding classes lie outside dom_C14) *)
Theorem C14_imports_good :
  forall (uc : unicode), unicode_ok uc ->
  forall (T ign : list str) (ho_file ho_crate : list imported -> list imported) (hc : crate_types -> crate_types)
         (ws : list ws_entry) (arrivals : list (str * parsed)),
    parse_workspace uc T ign ho_file ws = Ok arrivals ->
    Proofs.C14Front.oracle_ok ho_file -> Proofs.C14Front.oracle_ok ho_crate -> Proofs.C14Front.oracle_ok hc ->
    forall c pd,
      In (c, pd) (multi_crates ho_crate arrivals) ->
      good_C14 (Proofs.C14Main.c14_infos uc T ws) ign c
        (scoped_pairs (crate_imports hc (multi_crates ho_crate arrivals) c pd)) = true.
Proof. intros uc Huc T ign ho_file ho_crate hc ws arrivals H H1 H2 H3 c pd. eapply Proofs.C14Imports.imports_good; eassumption. Qed.
Print Assumptions C14_imports_good.

(* the domain of C14_imports_complete contains no input of a recorded finding class: a reference that is in
   dom_C14 and not imported is a NEW violation, never one of the known ones *)
Theorem C14_dom_excludes_known :
  forall ws mapped s c d n, dom_C14 ws mapped s c d n = true -> known_C14 ws mapped s c d n = None.
Proof. exact Proofs.C14Imports.dom_excludes_known. Qed.
Print Assumptions C14_dom_excludes_known.

(* the hypotheses are satisfiable: a/src/lib.rs defines A1, my-crate/src/lib.rs says `use a::A1;` and uses it -
   the reference is in dom_C14, in no finding class, and imported *)
Theorem C14_imports_complete_nonvacuous :
  exists arrivals pd v,
    parse_workspace uc_exec [] [] (fun l => l) Proofs.C14Witness.ws_plain = Ok arrivals /\
    In (lit "my_crate", pd) (multi_crates (fun l => l) arrivals) /\
    In v (judge_crate (Proofs.C14Main.c14_infos uc_exec [] Proofs.C14Witness.ws_plain) [] (lit "my_crate")
            (scoped_pairs (crate_imports (fun l => l) (multi_crates (fun l => l) arrivals) (lit "my_crate") pd))) /\
    rv_dom v = true /\ rv_known v = None /\ rv_imported v = true.
Proof. exact Proofs.C14Witness.imports_complete_nonvacuous. Qed.
Print Assumptions C14_imports_complete_nonvacuous.

(* the condition one_generated_name of (a) is needed: crate a with two types of the Rust name A2 (in two modules), generated
   as A2 and as A2Other; `use a::A2;` - the tool rewrites the reference to A2Other (its rename table knows bare names) and
   imports A2Other, the specification's renamed_in says A2: outside dom_C14, in no finding class, nothing claimed *)
Theorem C14_two_generated_names_outside_domain :
  one_generated_name (Proofs.C14Main.c14_infos uc_exec [] Proofs.C14Witness.ws_two_names) (lit "a") (lit "A2") = false /\
  renamed_in (Proofs.C14Main.c14_infos uc_exec [] Proofs.C14Witness.ws_two_names) (lit "a") (lit "A2") = lit "A2" /\
  Proofs.C14Witness.w_run (fun l => l) (fun l => l) Proofs.C14Witness.ws_two_names (lit "my_crate") =
    Some ([(lit "a", lit "A2Other")], [(lit "A2", lit "a", false, None, false)]) /\
  Proofs.C14Witness.w_field_types Proofs.C14Witness.ws_two_names (lit "my_crate") = [RSimple (lit "A2Other")].
Proof. exact Proofs.C14Witness.two_names_eval. Qed.
Print Assumptions C14_two_generated_names_outside_domain.

(* the (b) half of the domain is inhabited too: `use a::*;` and a reference to the serde-renamed A2 - in
   dom_C14, in no finding class, imported (rv_imported: under the generated name, here A2Renamed) *)
Theorem C14_imports_complete_glob_nonvacuous :
  renamed_in (Proofs.C14Main.c14_infos uc_exec [] Proofs.C14Witness.ws_glob_renamed) (lit "a") (lit "A2") = lit "A2Renamed" /\
  exists arrivals pd v,
    parse_workspace uc_exec [] [] (fun l => l) Proofs.C14Witness.ws_glob_renamed = Ok arrivals /\
    In (lit "my_crate", pd) (multi_crates (fun l => l) arrivals) /\
    In v (judge_crate (Proofs.C14Main.c14_infos uc_exec [] Proofs.C14Witness.ws_glob_renamed) [] (lit "my_crate")
            (scoped_pairs (crate_imports (fun l => l) (multi_crates (fun l => l) arrivals) (lit "my_crate") pd))) /\
    rv_name v = lit "A2" /\ rv_from v = lit "a" /\ rv_dom v = true /\ rv_known v = None /\ rv_imported v = true.
Proof. exact Proofs.C14Witness.glob_renamed_imported. Qed.
Print Assumptions C14_imports_complete_glob_nonvacuous.

(* ---------------------------------------------------------------- no iteration order of the import set reaches the pairs *)

(* used_imports (mod.rs:430) is a function of the SET of imports it iterates over: two lists with the same
   elements - two iteration orders of the per-crate HashSet<ImportedType> - yield the same (module, name) pairs,
   for any type table and any crate.  (Before the /repo fix of mod.rs:472 a glob import was effective only if an
   import of the same crate had been iterated earlier: finding C14-glob-order.)  What is left order-dependent is
   the fallback's choice among several crates, which goes through the CrateTypes order hc: C14-same-name. *)
Theorem C14_imports_iteration_order_irrelevant :
  forall (ct : crate_types) (own : str) (l1 l2 : list imported),
    (forall x, In x l1 <-> In x l2) ->
    forall k n, In (k, n) (scoped_pairs (used_imports ct own l1)) <-> In (k, n) (scoped_pairs (used_imports ct own l2)).
Proof. exact Proofs.C14Imports.used_imports_order_irrelevant. Qed.
Print Assumptions C14_imports_iteration_order_irrelevant.

(* ... and the same VALUE: the BTreeMap of BTreeSets that write_imports prints (keys in order, every set in order,
   an entry with an empty set included) is equal for two lists with the same elements; so for every oracle ho
   (oracle_ok: ho rearranges its argument) iterating the import set of a crate in the order ho gives the import
   list of the identity order - the import statements are the same bytes. *)
Theorem C14_import_list_order_irrelevant :
  (forall (ct : crate_types) (own : str) (l1 l2 : list imported),
     (forall x, In x l1 <-> In x l2) -> used_imports ct own l1 = used_imports ct own l2) /\
  (forall (hc : crate_types -> crate_types) (cs : crates) (cn : str) (pd : parsed) (ho : list imported -> list imported),
     Proofs.C14Front.oracle_ok ho ->
     crate_imports hc cs cn (with_imports pd (ho (p_imports pd))) = crate_imports hc cs cn pd).
Proof. split; [exact Proofs.C14Order.used_imports_order_irrelevant_eq|exact Proofs.C14Order.crate_imports_order_irrelevant]. Qed.
Print Assumptions C14_import_list_order_irrelevant.

(* ---------------------------------------------------------------- finding classes of the unchanged tree *)

(* C14-same-name: S in crates a and c, `use zz::S;` - under the reversed iteration order of CrateTypes the
   import comes from ./c, not from the first defining crate *)
Theorem C14_same_name_refuted :
  exists arrivals pd v,
    parse_workspace uc_exec [] [] (fun l => l) Proofs.C14Witness.ws_same_name = Ok arrivals /\
    In (lit "my_crate", pd) (multi_crates (fun l => l) arrivals) /\
    In v (judge_crate (Proofs.C14Main.c14_infos uc_exec [] Proofs.C14Witness.ws_same_name) [] (lit "my_crate")
            (scoped_pairs (crate_imports (@rev _) (multi_crates (fun l => l) arrivals) (lit "my_crate") pd))) /\
    rv_known v = Some "C14-same-name" /\ rv_imported v = false.
Proof. exact Proofs.C14Witness.same_name_refuted. Qed.
Print Assumptions C14_same_name_refuted.

(* C14-same-name: the import list is a function of the iteration order of CrateTypes.  w_run ho_crate hc ws c
   (Proofs.C14Witness) = the model's import pairs for crate c and the specification's verdicts on them
   (name, crate, in dom_C14, finding class, imported). *)
Theorem C14_same_name_order_refuted :
  Proofs.C14Witness.w_run (fun l => l) (fun l => l) Proofs.C14Witness.ws_same_name (lit "my_crate") =
    Some ([(lit "a", lit "S")], [(lit "S", lit "a", false, Some "C14-same-name", true)]) /\
  Proofs.C14Witness.w_run (fun l => l) (@rev _) Proofs.C14Witness.ws_same_name (lit "my_crate") =
    Some ([(lit "c", lit "S")], [(lit "S", lit "a", false, Some "C14-same-name", false)]).
Proof. exact Proofs.C14Witness.same_name_eval. Qed.
Print Assumptions C14_same_name_order_refuted.

(* ---------------------------------------------------------------- regression pins of the classes repaired in /repo *)

(* formerly C14-glob (`use a::*;` imported nothing - mod.rs:472 `and_modify` without `or_insert`): the former
   witness; the reference to A1 is in dom_C14, in no finding class, and imported *)
Theorem C14_glob_fixed :
  exists arrivals pd v,
    parse_workspace uc_exec [] [] (fun l => l) Proofs.C14Witness.ws_glob = Ok arrivals /\
    In (lit "my_crate", pd) (multi_crates (fun l => l) arrivals) /\
    In v (judge_crate (Proofs.C14Main.c14_infos uc_exec [] Proofs.C14Witness.ws_glob) [] (lit "my_crate")
            (scoped_pairs (crate_imports (fun l => l) (multi_crates (fun l => l) arrivals) (lit "my_crate") pd))) /\
    rv_dom v = true /\ rv_known v = None /\ rv_imported v = true.
Proof. exact Proofs.C14Witness.glob_fixed. Qed.
Print Assumptions C14_glob_fixed.

(* formerly C14-glob-order (`use a::*; use a::A1;`: `import { A1 }` or `import { A1, A2Renamed, A3 }` depending on
   the iteration order of the per-crate import set): the former witness gives the same list - every type of
   crate a - under both orders *)
Theorem C14_glob_order_fixed :
  Proofs.C14Witness.w_run (fun l => l) (fun l => l) Proofs.C14Witness.ws_glob_explicit (lit "my_crate") =
    Some ([(lit "a", lit "A1"); (lit "a", lit "A2Renamed"); (lit "a", lit "A3")], [(lit "A1", lit "a", true, None, true)]) /\
  Proofs.C14Witness.w_run (@rev _) (fun l => l) Proofs.C14Witness.ws_glob_explicit (lit "my_crate") =
    Some ([(lit "a", lit "A1"); (lit "a", lit "A2Renamed"); (lit "a", lit "A3")], [(lit "A1", lit "a", true, None, true)]).
Proof. exact Proofs.C14Witness.glob_order_eval. Qed.
Print Assumptions C14_glob_order_fixed.

(* formerly C14-renamed-import (`use a::A2;` with A2 #[serde(rename = "A2Renamed")]: the reference was written
   A2Renamed and nothing was imported - the import candidate kept the Rust name A2, which crate a's type table does
   not hold): reconcile_aliases puts the import set back with the generated names (reconcile.rs:71).  The former
   witness: the reference is in dom_C14 (the target is generated under one name, A2Renamed), in no finding class,
   and imported under that name ... *)
Theorem C14_renamed_import_fixed :
  renamed_in (Proofs.C14Main.c14_infos uc_exec [] Proofs.C14Witness.ws_renamed) (lit "a") (lit "A2") = lit "A2Renamed" /\
  exists arrivals pd v,
    parse_workspace uc_exec [] [] (fun l => l) Proofs.C14Witness.ws_renamed = Ok arrivals /\
    In (lit "my_crate", pd) (multi_crates (fun l => l) arrivals) /\
    In v (judge_crate (Proofs.C14Main.c14_infos uc_exec [] Proofs.C14Witness.ws_renamed) [] (lit "my_crate")
            (scoped_pairs (crate_imports (fun l => l) (multi_crates (fun l => l) arrivals) (lit "my_crate") pd))) /\
    rv_name v = lit "A2" /\ rv_from v = lit "a" /\ rv_dom v = true /\ rv_known v = None /\ rv_imported v = true.
Proof. exact Proofs.C14Witness.renamed_import_fixed. Qed.
Print Assumptions C14_renamed_import_fixed.

(* ... exactly: the import pairs of my_crate and the verdicts (name, crate, in dom_C14, finding class, imported) for
   the `use` form and for the qualified path `f: a::A2`; the field type handed to the back ends and the TypeScript
   import statement *)
Theorem C14_renamed_import_fixed_exact :
  Proofs.C14Witness.w_run (fun l => l) (fun l => l) Proofs.C14Witness.ws_renamed (lit "my_crate") =
    Some ([(lit "a", lit "A2Renamed")], [(lit "A2", lit "a", true, None, true)]) /\
  Proofs.C14Witness.w_run (fun l => l) (fun l => l) Proofs.C14Witness.ws_renamed_path (lit "my_crate") =
    Some ([(lit "a", lit "A2Renamed")], [(lit "A2", lit "a", true, None, true)]) /\
  Proofs.C14Witness.w_field_types Proofs.C14Witness.ws_renamed (lit "my_crate") = [RSimple (lit "A2Renamed")] /\
  Proofs.C14Witness.w_import_text Proofs.C14Witness.ws_renamed (lit "my_crate") = (lit "import { A2Renamed } from ""./a"";" ++ [10%N; 10%N])%list /\
  Proofs.C14Witness.w_field_types Proofs.C14Witness.ws_renamed_path (lit "my_crate") = [RSimple (lit "A2Renamed")] /\
  Proofs.C14Witness.w_import_text Proofs.C14Witness.ws_renamed_path (lit "my_crate") = (lit "import { A2Renamed } from ""./a"";" ++ [10%N; 10%N])%list.
Proof. exact (conj Proofs.C14Witness.renamed_eval (conj Proofs.C14Witness.renamed_path_eval Proofs.C14Witness.renamed_text_eval)). Qed.
Print Assumptions C14_renamed_import_fixed_exact.

(* formerly C14-glob-const (k defines K1 and `const MyConst`; `use k::*; use k::K1;` imported MyConst from ./k
   while TypeScript writes that const as MY_CONST): a const is no longer in the type table (parser.rs push) -
   under both iteration orders exactly K1 is imported, and the specification calls the old list unsound
   (MyConst is not the name of a TYPE of k; const_imports names the reason) *)
Theorem C14_glob_const_fixed :
  Proofs.C14Witness.w_run (fun l => l) (fun l => l) Proofs.C14Witness.ws_glob_const (lit "my_crate") =
    Some ([(lit "k", lit "K1")], [(lit "K1", lit "k", true, None, true)]) /\
  Proofs.C14Witness.w_run (@rev _) (fun l => l) Proofs.C14Witness.ws_glob_const (lit "my_crate") =
    Some ([(lit "k", lit "K1")], [(lit "K1", lit "k", true, None, true)]) /\
  unsound_imports (Proofs.C14Main.c14_infos uc_exec [] Proofs.C14Witness.ws_glob_const) (lit "my_crate")
    [(lit "k", lit "K1"); (lit "k", lit "MyConst")] = [(lit "k", lit "MyConst")] /\
  const_imports (Proofs.C14Main.c14_infos uc_exec [] Proofs.C14Witness.ws_glob_const) [(lit "k", lit "K1"); (lit "k", lit "MyConst")]
    = [(lit "k", lit "MyConst")].
Proof. exact Proofs.C14Witness.glob_const_fixed. Qed.
Print Assumptions C14_glob_const_fixed.

(* ---------------------------------------------------------------- Kotlin: the import names the class its module declares *)

(* The theorems above speak about import PAIRS (module, generated name); TypeScript prints them as they are.  Kotlin
   declares every class under kt_prefix ++ generated name in the package <package>.<crate>, so the pair (k, n) has to be
   printed `import <package>.<k>.<prefix><n>`.  write_imports (kotlin.rs:293) prints exactly that block: one such line
   per pair, in the order of the pairs, then an empty line - for every configuration and every import map.  (Before fix 26
   of /repo the line lacked the prefix: under a non-empty prefix EVERY import named a class no file declares.) *)
Theorem C14_kotlin_import_block :
  forall (cfg : kt_config) (im : scoped),
    kt_write_imports cfg im = c14_kt_import_block (kt_package cfg) (kt_prefix cfg) (scoped_pairs im).
Proof. exact Proofs.C14Kotlin.kt_write_imports_block. Qed.
Print Assumptions C14_kotlin_import_block.

(* the name a TYPE is declared under: every struct, every enum, every JvmInline alias and every alias that is not
   serde-renamed yields (as the last of its declarations - an algebraic enum's helper classes come first) a declaration
   named kt_prefix ++ generated name, for every configuration.  Outside: c14_kt_alias_class, a plain `typealias` of a
   serde-renamed alias (declared under prefix ++ RUST name: the open finding C09-kotlin-alias, which an import of such an
   alias inherits - see C14_kotlin_alias_class_needed). *)
Theorem C14_kotlin_declared_name :
  forall (cfg : kt_config) (it : ritem) (ds : list kt_decl),
    is_type14 it = true -> kt_decl_of cfg it = Ok ds -> c14_kt_alias_class it = false ->
    exists d, In d ds /\ d_name (kt_obs d) = (kt_prefix cfg ++ renamed (item_id it))%list.
Proof. exact Proofs.C14Kotlin.kt_decl_of_declares. Qed.
Print Assumptions C14_kotlin_declared_name.

(* For every workspace, every iteration order, every Kotlin configuration (every prefix, every package): every import pair
   (k, n) of the file of crate c - printed `import <package>.<k>.<prefix><n>` by C14_kotlin_import_block - names another
   crate k of the run and the generated name n of a TYPE item of k's data; and WHATEVER text the Kotlin generator writes
   for crate k (any import map), it is `package <package>.<k>` + fixed imports (kt_begin_file_multi), k's own import
   block, and a body in which every type item of k generated under n stands with its rendered declarations, one of them
   declared under kt_prefix ++ n - exactly the class the import line names, prefix included (outside
   c14_kt_alias_class, the open finding C09-kotlin-alias).  So no Kotlin import names a class that its module does not
   define - the clause C14_imports_sound states for pairs, now down to the printed names. *)
Theorem C14_kotlin_imports_name_declared_classes :
  forall (uc : unicode) (cfg : kt_config) (T ign : list str) (ho_file ho_crate : list imported -> list imported)
         (hc : crate_types -> crate_types) (ws : list ws_entry) (arrivals : list (str * parsed)),
    parse_workspace uc T ign ho_file ws = Ok arrivals ->
    (forall l x, In x (hc l) -> In x l) ->
    forall c pd k n,
      In (k, n) (scoped_pairs (crate_imports hc (multi_crates ho_crate arrivals) c pd)) ->
      k <> c /\
      exists pdk, In (k, pdk) (multi_crates ho_crate arrivals) /\
        (exists it, In it (items_of pdk) /\ is_type14 it = true /\ renamed (item_id it) = n) /\
        forall imk text, kt_generate_multi uc cfg k imk pdk = Ok text ->
          forall it, In it (items_of pdk) -> is_type14 it = true -> renamed (item_id it) = n ->
            exists ds pre post,
              kt_decl_of cfg it = Ok ds /\
              text = (kt_begin_file_multi cfg k ++ c14_kt_import_block (kt_package cfg) (kt_prefix cfg) (scoped_pairs imk) ++
                      pre ++ List.concat (map kt_render_decl ds) ++ post)%list /\
              (c14_kt_alias_class it = false -> exists d, In d ds /\ d_name (kt_obs d) = (kt_prefix cfg ++ n)%list).
Proof. exact Proofs.C14Kotlin.kt_imports_name_declared. Qed.
Print Assumptions C14_kotlin_imports_name_declared_classes.

(* its hypotheses are satisfiable: the former witness has the import pair (a, A1) in crate b *)
Theorem C14_kotlin_imports_nonvacuous :
  exists arrivals pd,
    parse_workspace uc_exec [] [] (fun l => l) Proofs.C14Kotlin.ws_kt_prefix = Ok arrivals /\
    In (lit "b", pd) (multi_crates (fun l => l) arrivals) /\
    scoped_pairs (crate_imports (fun l => l) (multi_crates (fun l => l) arrivals) (lit "b") pd) = [(lit "a", lit "A1")].
Proof. exact Proofs.C14Kotlin.kotlin_imports_nonvacuous. Qed.
Print Assumptions C14_kotlin_imports_nonvacuous.

(* formerly C14-kotlin-import-prefix (a/src/lib.rs `#[typeshare] pub struct A1 { pub x: u8 }`, b/src/lib.rs `use a::A1;
   #[typeshare] pub struct B1 { pub f: A1 }`, --lang kotlin --java-package p --kotlin-prefix KP: b.kt said `import p.a.A1`
   while a.kt declares `data class KPA1`): exact text of both files - the import names KPA1, a.kt (package p.a) declares
   KPA1; without a prefix the import line is what it was *)
Theorem C14_kotlin_import_prefix_fixed :
  Proofs.C14Kotlin.w_kt_text (lit "KP") Proofs.C14Kotlin.ws_kt_prefix (lit "b") =
    Some (lit "package p.b" ++ [10%N; 10%N] ++ lit "import kotlinx.serialization.Serializable" ++ [10%N] ++
          lit "import kotlinx.serialization.SerialName" ++ [10%N; 10%N] ++ lit "import p.a.KPA1" ++ [10%N; 10%N] ++
          lit "@Serializable" ++ [10%N] ++ lit "data class KPB1 (" ++ [10%N; 9%N] ++ lit "val f: KPA1" ++ [10%N] ++ lit ")" ++ [10%N; 10%N])%list /\
  Proofs.C14Kotlin.w_kt_text (lit "KP") Proofs.C14Kotlin.ws_kt_prefix (lit "a") =
    Some (lit "package p.a" ++ [10%N; 10%N] ++ lit "import kotlinx.serialization.Serializable" ++ [10%N] ++
          lit "import kotlinx.serialization.SerialName" ++ [10%N; 10%N; 10%N] ++
          lit "@Serializable" ++ [10%N] ++ lit "data class KPA1 (" ++ [10%N; 9%N] ++ lit "val x: UByte" ++ [10%N] ++ lit ")" ++ [10%N; 10%N])%list /\
  match Proofs.C14Kotlin.w_kt_text [] Proofs.C14Kotlin.ws_kt_prefix (lit "b") with
  | Some t => contains_sub (lit "import p.a.A1") t | None => false end = true.
Proof. exact Proofs.C14Kotlin.kotlin_import_prefix_fixed. Qed.
Print Assumptions C14_kotlin_import_prefix_fixed.

(* the class of C14_kotlin_declared_name is needed and is the open finding C09-kotlin-alias: `#[serde(rename = "UserId")]
   type Id = String` is in the class and declared `typealias KPId` under the prefix KP *)
Theorem C14_kotlin_alias_class_needed :
  let a := {| aid := {| original := lit "Id"; renamed := lit "UserId"; via_serde_rename := true |}; agenerics := [];
              atype := RPrim PString; acomments := []; adecs := []; aredacted := false |} in
  c14_kt_alias_class (ItAlias a) = true /\
  match kt_decl_of (Proofs.C14Kotlin.w_kt (lit "KP")) (ItAlias a) with
  | Ok [d] => str_eqb (d_name (kt_obs d)) (lit "KPId")
  | _ => false
  end = true.
Proof. exact Proofs.C14Kotlin.kotlin_alias_class_needed. Qed.
Print Assumptions C14_kotlin_alias_class_needed.
