(* C06 property theorems: statements only; proofs live in Proofs/{SortLemmas,C06,C06Multi,C06MultiWitness}.v *)
From Coq Require Import List Permutation String.
From TS Require Import Model.Str Model.Outcome Model.Unicode Model.Types Model.Parse Model.Reconcile Model.Collect.
From TS Require Import Model.Lang.TypeScript Model.Lang.Kotlin Model.Lang.Swift Model.Lang.Scala Model.Lang.Go Model.Lang.Python.
From TS Require Import Model.Lang.Common Model.MultiFile.
From TS Require Model.Writer.
From TS Require Import Spec.C06MultiSpec.
From TS Require Proofs.C06 Proofs.C14Front Proofs.C14Witness Proofs.C06Multi Proofs.C06MultiWitness.
Import ListNotations.

(* Single-file mode. For ANY number of per-file parse results, EVERY permutation of their arrival at
   the collector gives the back end the same four item lists, provided each item kind has pairwise
   distinct names (and, as always in single-file mode, no imports were collected). The scheduler,
   the thread count and the walk order only choose the permutation. *)
Theorem C06_arrival_order_irrelevant :
  forall a1 a2 : list parsed, Permutation a1 a2 ->
    Proofs.C06.names_distinct (collect_single a1) ->
    Forall (fun pd => p_imports pd = []) a1 ->
    Proofs.C06.same_items (single_file_input a1) (single_file_input a2).
Proof. exact Proofs.C06.arrival_order_irrelevant. Qed.
Print Assumptions C06_arrival_order_irrelevant.

(* single_file_input IS the pipeline: collector fold, then reconcile_aliases *)
Theorem C06_single_file_input_is_the_pipeline :
  forall a : list parsed, a <> [] ->
    reconcile_aliases (collect (map (fun pd => (@nil char, pd)) a)) = [([], single_file_input a)].
Proof. exact Proofs.C06.pipeline_single_file. Qed.
Print Assumptions C06_single_file_input_is_the_pipeline.

(* all six generators are functions of those four lists, so the emitted bytes coincide *)
Theorem C06_bytes_do_not_depend_on_arrival_order :
  forall (uc : unicode) (a1 a2 : list parsed), Permutation a1 a2 ->
    Proofs.C06.names_distinct (collect_single a1) -> Forall (fun pd => p_imports pd = []) a1 ->
    (forall c, ts_generate uc c (single_file_input a1) = ts_generate uc c (single_file_input a2)) /\
    (forall c, kt_generate uc c (single_file_input a1) = kt_generate uc c (single_file_input a2)) /\
    (forall c, sw_generate uc c (single_file_input a1) = sw_generate uc c (single_file_input a2)) /\
    (forall c, sc_generate uc c (single_file_input a1) = sc_generate uc c (single_file_input a2)) /\
    (forall c, go_generate uc c (single_file_input a1) = go_generate uc c (single_file_input a2)) /\
    (forall c, py_generate uc c (single_file_input a1) = py_generate uc c (single_file_input a2)).
Proof. exact Proofs.C06.bytes_arrival. Qed.
Print Assumptions C06_bytes_do_not_depend_on_arrival_order.

(* without the distinct-names hypothesis the statement is false of the faithful model: two items of
   one kind with the same name keep their arrival order (stable sort) *)
Theorem C06_equal_names_refuted :
  let a := Proofs.C06.mk_const (lit "X") (Zpos xH) in let b := Proofs.C06.mk_const (lit "X") (Zpos (xO xH)) in
  Permutation [a; b] [b; a] /\ p_consts (single_file_input [a; b]) <> p_consts (single_file_input [b; a]).
Proof. exact Proofs.C06.equal_names_refuted. Qed.
Print Assumptions C06_equal_names_refuted.

(* ---------------------------------------------------------------- multi-file (folder output, `-d`) mode *)

(* Vocabulary (Proofs/C06Multi.v, Spec/C06MultiSpec.v).
   l1 l2 : list (str * parsed)   what the per-file parsers sent to the collector, (crate, ParsedData) in ARRIVAL order
   collect l                     the BTreeMap<CrateName, ParsedData> the collector thread builds (cli/src/parse.rs)
   multi_crates ho l             ... with every crate's merged import set iterated in the order ho, after reconcile_aliases
   multi_plan lang hc cs         one (file name, crate, import list, data) per crate; hc = iteration order of CrateTypes
   all_distinct cs               in every crate, each item kind has pairwise distinct Rust names (the hypothesis of the
                                 single-file theorem, crate by crate; outside it: finding C06-equal-names)
   ws_ambiguity cs               Spec.C06MultiSpec.ws_imports_ambiguity (= checks/c06.py imports_ambiguity, for every
                                 importing crate) evaluated on the type table (all_types), the annotated types and the merged
                                 import sets the collector holds; None = in neither class of finding C06-ambiguous-imports
   cs_same cs1 cs2               the same crates in the same order; for each the same four item lists (EQUAL lists:
                                 Proofs.C06.same_items), the same type table and import set (as sets), the same errors (as a multiset)
   plan_same p q                 the same file name, crate, import list (equal BTreeMap of BTreeSets) and the same four item lists
   oracle_ok h                   h rearranges its argument (forall l x, In x (h l) <-> In x l): any iteration order
   oracle_set_determined h       h l depends only on the SET of elements of l (one hash seed; no insertion history) *)

(* Arrival order alone never matters.  For ANY number of per-file results and EVERY permutation of their arrival,
   with distinct item names per crate, and an iteration order of the import sets that is a function of the set iterated
   over: the BTreeMap of per-crate data after reconcile_aliases is the same (no hypothesis on the imports: whatever the
   iteration picks, it picks the same for both arrival orders). *)
Theorem C06_multi_arrival_order_irrelevant :
  forall l1 l2 : list (str * parsed), Permutation l1 l2 ->
    Proofs.C06Multi.all_distinct (collect l1) ->
    forall ho : list imported -> list imported, Proofs.C06Multi.oracle_set_determined ho ->
    Proofs.C06Multi.cs_same (multi_crates ho l1) (multi_crates ho l2).
Proof. exact Proofs.C06Multi.multi_arrival_order_irrelevant. Qed.
Print Assumptions C06_multi_arrival_order_irrelevant.

(* the collector itself, unconditionally: two arrival orders give the same crates, each with the same items up to order *)
Theorem C06_multi_collector_arrival_order :
  forall l1 l2 : list (str * parsed), Permutation l1 l2 -> Proofs.C06Multi.cs_rel (collect l1) (collect l2).
Proof. exact Proofs.C06Multi.collect_perm_rel. Qed.
Print Assumptions C06_multi_collector_arrival_order.

(* No hash iteration order matters outside the class.  For every pair of arrival orders of the same per-file results
   (l1 = l2 included), distinct item names per crate, the workspace outside imports_ambiguity, ALL pairs of iteration
   orders ho1 ho2 of the per-crate import sets (reconcile.rs:178 resolve_renamed; language/mod.rs:461 used_imports) and
   ALL pairs hc1 hc2 of iteration orders of CrateTypes (language/mod.rs:441, the fallback): the reconciled crates are
   the same, the plans are the same - import lists included - and every generator that reads only the four item lists
   of a crate's data writes the same files, byte for byte, leaves the same final state (Swift's Codable decision) and
   fails at the same crate if it fails.  The order of the per-FILE import set (visitors.rs:156) acts before the
   collector: C06_multi_file_hash_order_irrelevant below.  (Since the /repo fix of finding C14-renamed-import
   reconcile_aliases REBUILDS the per-crate import set with the generated names, reconcile.rs:71, and used_imports
   iterates that new HashSet in an order of its own: Props/C14.v C14_import_list_order_irrelevant - the list is a
   function of the set - makes that order irrelevant; cs_same compares the rebuilt sets as sets.) *)
Theorem C06_multi_hash_order_irrelevant :
  forall (lang : lang) (l1 l2 : list (str * parsed)) (ho1 ho2 : list imported -> list imported) (hc1 hc2 : crate_types -> crate_types),
    Permutation l1 l2 -> Proofs.C06Multi.all_distinct (collect l1) -> Proofs.C06Multi.ws_ambiguity (collect l1) = None ->
    Proofs.C14Front.oracle_ok ho1 -> Proofs.C14Front.oracle_ok ho2 -> Proofs.C14Front.oracle_ok hc1 -> Proofs.C14Front.oracle_ok hc2 ->
    Proofs.C06Multi.cs_same (multi_crates ho1 l1) (multi_crates ho2 l2) /\
    Forall2 Proofs.C06Multi.plan_same (multi_plan lang hc1 (multi_crates ho1 l1)) (multi_plan lang hc2 (multi_crates ho2 l2)) /\
    (forall (St : Type) (gen : St -> str -> scoped -> parsed -> outcome (str * St)), Proofs.C06Multi.reads_items gen ->
       forall st, generate_crates gen st (multi_plan lang hc1 (multi_crates ho1 l1)) =
                  generate_crates gen st (multi_plan lang hc2 (multi_crates ho2 l2))).
Proof. exact Proofs.C06Multi.multi_hash_order_irrelevant. Qed.
Print Assumptions C06_multi_hash_order_irrelevant.

(* the six back ends in multi-file mode are such generators (TypeScript, Swift, Go, Python thread their state from
   crate to crate; Kotlin and Scala are stateless) *)
Theorem C06_multi_generators_read_items :
  forall uc : unicode,
  (forall cfg, Proofs.C06Multi.reads_items (fun st (_ : str) im pd => ts_generate_multi uc cfg st im pd)) /\
  (forall cfg, Proofs.C06Multi.reads_items (fun (st : unit) c im pd => match kt_generate_multi uc cfg c im pd with
                                                       | Ok text => Ok (text, st) | Err e => Err e | Panic s => Panic s end)) /\
  (forall cfg, Proofs.C06Multi.reads_items (fun st (_ : str) (_ : scoped) pd => sw_generate_multi uc cfg st pd)) /\
  (forall cfg, Proofs.C06Multi.reads_items (fun (st : unit) (_ : str) (_ : scoped) pd => match sc_generate uc cfg pd with
                                                                         | Ok text => Ok (text, st) | Err e => Err e | Panic s => Panic s end)) /\
  (forall cfg, Proofs.C06Multi.reads_items (fun st (_ : str) (_ : scoped) pd => go_generate_multi uc cfg st pd)) /\
  (forall cfg, Proofs.C06Multi.reads_items (fun st (_ : str) (_ : scoped) pd => py_generate_multi uc cfg st pd)).
Proof. exact Proofs.C06Multi.multi_generators_read_items. Qed.
Print Assumptions C06_multi_generators_read_items.

(* the class is needed: the recorded witness of finding C06-ambiguous-imports (alpha and beta both define Item, renamed
   AlphaItem / BetaItem; app/src/m0.rs says `use alpha::Item;`, app/src/m1.rs `use beta::Item;`, both use Item) has
   distinct names, lies in class 1, and under the identity and the reversed iteration order of app's merged import set
   app.ts refers to AlphaItem resp. BetaItem: the generated files differ (TypeScript, m_run = the files of a run) *)
Theorem C06_ambiguous_imports_refuted :
  exists arrivals,
    parse_workspace uc_exec [] [] (fun l => l) Proofs.C06MultiWitness.ws_amb = Ok arrivals /\
    Proofs.C06Multi.all_distinct (collect arrivals) /\
    Proofs.C06Multi.ws_ambiguity (collect arrivals) = Some "one-name-imported-from-two-crates-that-rename-it-differently"%string /\
    Proofs.C14Front.oracle_ok (@Proofs.C14Witness.idl imported) /\ Proofs.C14Front.oracle_ok (@rev imported) /\
    Proofs.C06MultiWitness.app_field_types (multi_crates Proofs.C14Witness.idl arrivals) = [RSimple (lit "AlphaItem"); RSimple (lit "AlphaItem")] /\
    Proofs.C06MultiWitness.app_field_types (multi_crates (@rev _) arrivals) = [RSimple (lit "BetaItem"); RSimple (lit "BetaItem")] /\
    (exists a b, Proofs.C06MultiWitness.m_run Proofs.C14Witness.idl Proofs.C14Witness.idl Proofs.C06MultiWitness.ws_amb = Some a /\
                 Proofs.C06MultiWitness.m_run (@rev _) Proofs.C14Witness.idl Proofs.C06MultiWitness.ws_amb = Some b /\ a <> b).
Proof. exact Proofs.C06MultiWitness.ambiguous_imports_refuted. Qed.
Print Assumptions C06_ambiguous_imports_refuted.

(* the hypotheses of C06_multi_hash_order_irrelevant are satisfiable by a non-trivial workspace: three crates, `use alpha::Item;`,
   `use beta::*;`, `use alpha::Node;` with Node serde-renamed AlphaNode, two files in the importing crate; the arrival list and
   its reverse, the identity and the reversed iteration orders: in no class, app imports Item and AlphaNode (the
   name alpha generates Node under: the import set is put back with the generated names, reconcile.rs:71) from ./alpha and
   everything from ./beta, refers to AlphaNode, and the generated files coincide *)
Theorem C06_multi_nonvacuous :
  exists arrivals,
    parse_workspace uc_exec [] [] (fun l => l) Proofs.C06MultiWitness.ws_clean = Ok arrivals /\
    Permutation arrivals (rev arrivals) /\ Proofs.C06Multi.all_distinct (collect arrivals) /\ Proofs.C06Multi.ws_ambiguity (collect arrivals) = None /\
    Proofs.C14Front.oracle_ok (@Proofs.C14Witness.idl imported) /\ Proofs.C14Front.oracle_ok (@rev imported) /\
    Proofs.C14Front.oracle_ok (@Proofs.C14Witness.idl (str * list str)) /\ Proofs.C14Front.oracle_ok (@rev (str * list str)) /\
    map fst (multi_crates Proofs.C14Witness.idl arrivals) = [lit "alpha"; lit "app"; lit "beta"] /\
    Proofs.C06MultiWitness.app_field_types (multi_crates (@rev _) (rev arrivals)) = [RSimple (lit "Item"); RSimple (lit "Leaf"); RSimple (lit "AlphaNode")] /\
    Proofs.C06MultiWitness.app_imports (@rev _) (multi_crates (@rev _) (rev arrivals)) = [(lit "alpha", lit "AlphaNode"); (lit "alpha", lit "Item"); (lit "beta", lit "Edge"); (lit "beta", lit "Leaf")] /\
    generate_crates Proofs.C06MultiWitness.m_ts_gen [] (multi_plan TypeScript Proofs.C14Witness.idl (multi_crates Proofs.C14Witness.idl arrivals)) =
    generate_crates Proofs.C06MultiWitness.m_ts_gen [] (multi_plan TypeScript (@rev _) (multi_crates (@rev _) (rev arrivals))).
Proof. exact Proofs.C06MultiWitness.multi_nonvacuous. Qed.
Print Assumptions C06_multi_nonvacuous.

(* ---------------------------------------------------------------- the per-file import set (visitors.rs:156) *)

(* reconcile_referenced_types looks each mentioned, non-local type name up in the import candidates of ONE file by
   iterating a HashSet (`.iter().find(..)`).  Outside class 3 (Spec.C06MultiSpec.file_import_ambiguous: a mentioned non-local
   name that two candidates of the file bring in from two different crates) the data it returns is the same for ALL pairs of
   iteration orders ... *)
Theorem C06_multi_file_hash_order_irrelevant :
  forall (uc : unicode) (ho1 ho2 : list imported -> list imported) (pd : parsed),
    Proofs.C14Front.oracle_ok ho1 -> Proofs.C14Front.oracle_ok ho2 ->
    file_import_ambiguous (all_references uc pd) (p_type_names pd) (p_imports pd) = false ->
    reconcile_referenced_types uc ho1 pd = reconcile_referenced_types uc ho2 pd.
Proof. exact Proofs.C06Multi.rrt_order_irrelevant. Qed.
Print Assumptions C06_multi_file_hash_order_irrelevant.

(* ... hence so is everything the per-file parsers send to the collector, for every workspace none of whose source files is
   in class 3 (file_unambiguous uc T ign e: the class evaluated on the items and import candidates parse_file_multi has
   collected for e when it calls reconcile_referenced_types - Proofs.C06Multi.parse_file_pre, the front half of
   parse_file_multi; parse_file_multi_pre: parse_file_multi = that, then reconcile_referenced_types) *)
Theorem C06_multi_workspace_parse_hash_order_irrelevant :
  forall (uc : unicode) (T ign : list str) (ho1 ho2 : list imported -> list imported) (ws : list ws_entry),
    Proofs.C14Front.oracle_ok ho1 -> Proofs.C14Front.oracle_ok ho2 ->
    forallb (Proofs.C06Multi.file_unambiguous uc T ign) ws = true ->
    parse_workspace uc T ign ho1 ws = parse_workspace uc T ign ho2 ws.
Proof. exact Proofs.C06Multi.parse_workspace_order_irrelevant. Qed.
Print Assumptions C06_multi_workspace_parse_hash_order_irrelevant.

Theorem C06_multi_parse_file_front_half :
  forall (uc : unicode) (T ign : list str) tstr own ho f,
    parse_file_multi uc tstr T own ign ho f =
    match Proofs.C06Multi.parse_file_pre uc T ign tstr own f with
    | Ok o => Ok (option_map (reconcile_referenced_types uc ho) o) | Err e => Err e | Panic s => Panic s
    end.
Proof. exact Proofs.C06Multi.parse_file_multi_pre. Qed.
Print Assumptions C06_multi_parse_file_front_half.

(* From the source files to the generated files.  For every workspace, --target-os list, language and ignore list: if no source
   file is in class 3, the per-file parsers succeed (they always do: Props/C07 C07_workspace_parse_total), each crate has distinct
   item names per kind and the workspace is outside imports_ambiguity, then for ALL iteration orders of the three hash containers
   (per-file import set hf, per-crate import set ho, CrateTypes hc), EVERY arrival order a2 of the per-file results, and every
   generator that reads the four item lists: the parsers deliver the same results and the run generates the same files with the
   same bytes.  (What the model cannot exhibit - real threads, real RandomState - is sampled by checks/c06.py parts (b), (c).) *)
Theorem C06_multi_end_to_end :
  forall (uc : unicode) (T ign : list str) (lang : lang) (ws : list ws_entry)
         (hf1 hf2 ho1 ho2 : list imported -> list imported) (hc1 hc2 : crate_types -> crate_types) (a1 : list (str * parsed)),
    Proofs.C14Front.oracle_ok hf1 -> Proofs.C14Front.oracle_ok hf2 -> Proofs.C14Front.oracle_ok ho1 -> Proofs.C14Front.oracle_ok ho2 ->
    Proofs.C14Front.oracle_ok hc1 -> Proofs.C14Front.oracle_ok hc2 ->
    forallb (Proofs.C06Multi.file_unambiguous uc T ign) ws = true ->
    parse_workspace uc T ign hf1 ws = Ok a1 ->
    Proofs.C06Multi.all_distinct (collect a1) -> Proofs.C06Multi.ws_ambiguity (collect a1) = None ->
    parse_workspace uc T ign hf2 ws = Ok a1 /\
    forall a2, Permutation a1 a2 ->
      forall (St : Type) (gen : St -> str -> scoped -> parsed -> outcome (str * St)), Proofs.C06Multi.reads_items gen ->
        forall st, generate_crates gen st (multi_plan lang hc1 (multi_crates ho1 a1)) =
                   generate_crates gen st (multi_plan lang hc2 (multi_crates ho2 a2)).
Proof. exact Proofs.C06Multi.multi_end_to_end. Qed.
Print Assumptions C06_multi_end_to_end.

(* its hypotheses hold of the three-crate workspace of C06_multi_nonvacuous (under the reversed per-file order, say) *)
Theorem C06_multi_end_to_end_nonvacuous :
  forallb (Proofs.C06Multi.file_unambiguous uc_exec [] []) Proofs.C06MultiWitness.ws_clean = true /\
  exists arrivals, parse_workspace uc_exec [] [] (@rev _) Proofs.C06MultiWitness.ws_clean = Ok arrivals /\
                   Proofs.C06Multi.all_distinct (collect arrivals) /\ Proofs.C06Multi.ws_ambiguity (collect arrivals) = None.
Proof. exact Proofs.C06MultiWitness.multi_end_to_end_nonvacuous. Qed.
Print Assumptions C06_multi_end_to_end_nonvacuous.

(* class 3 is needed: app/src/m.rs says `use alpha::Item;`, also writes the path `beta::Item`, and has a member of type Item;
   the identity order keeps the import of alpha, the reversed order that of beta (kept_imports = the imports each per-file
   result carries to the collector) *)
Theorem C06_multi_file_ambiguous_refuted :
  forallb (Proofs.C06Multi.file_unambiguous uc_exec [] []) Proofs.C06MultiWitness.ws_file_amb = false /\
  Proofs.C06MultiWitness.kept_imports Proofs.C14Witness.idl Proofs.C06MultiWitness.ws_file_amb =
    [(lit "app", [{| base_crate := lit "alpha"; type_name := lit "Item" |}])] /\
  Proofs.C06MultiWitness.kept_imports (@rev _) Proofs.C06MultiWitness.ws_file_amb =
    [(lit "app", [{| base_crate := lit "beta"; type_name := lit "Item" |}])].
Proof. exact Proofs.C06MultiWitness.file_ambiguous_refuted. Qed.
Print Assumptions C06_multi_file_ambiguous_refuted.
