(* C06 property theorems: statements only; proofs live in Proofs/{SortLemmas,C06}.v *)
From Coq Require Import List Permutation.
From TS Require Import Model.Str Model.Outcome Model.Unicode Model.Types Model.Parse Model.Reconcile Model.Collect.
From TS Require Import Model.Lang.TypeScript Model.Lang.Kotlin Model.Lang.Swift Model.Lang.Scala Model.Lang.Go Model.Lang.Python.
From TS Require Proofs.C06.
Import ListNotations.

(* Single-file mode. For ANY number of per-file parse results, EVERY permutation of their arrival at
   the collector gives the back end the same four item lists, provided each item kind has pairwise
   distinct names (and, as always in single-file mode, no imports were collected). The scheduler,
   the thread count and the walk order only choose the permutation. *)
Theorem C06_arrival_order_irrelevant :
  forall a1 a2 : list parsed, Permutation a1 a2 ->
    Proofs.C06.names_distinct (collect_single a1) ->
    Forall (fun pd => p_imports pd = []) a1 ->
    Proofs.C06.same_items (single_file_input a1) (single_file_input a2).
Proof. exact Proofs.C06.arrival_order_irrelevant. Qed.
Print Assumptions C06_arrival_order_irrelevant.

(* single_file_input IS the pipeline: collector fold, then reconcile_aliases *)
Theorem C06_single_file_input_is_the_pipeline :
  forall a : list parsed, a <> [] ->
    reconcile_aliases (collect (map (fun pd => (@nil char, pd)) a)) = [([], single_file_input a)].
Proof. exact Proofs.C06.pipeline_single_file. Qed.
Print Assumptions C06_single_file_input_is_the_pipeline.

(* all six generators are functions of those four lists, so the emitted bytes coincide *)
Theorem C06_bytes_do_not_depend_on_arrival_order :
  forall (uc : unicode) (a1 a2 : list parsed), Permutation a1 a2 ->
    Proofs.C06.names_distinct (collect_single a1) -> Forall (fun pd => p_imports pd = []) a1 ->
    (forall c, ts_generate uc c (single_file_input a1) = ts_generate uc c (single_file_input a2)) /\
    (forall c, kt_generate uc c (single_file_input a1) = kt_generate uc c (single_file_input a2)) /\
    (forall c, sw_generate uc c (single_file_input a1) = sw_generate uc c (single_file_input a2)) /\
    (forall c, sc_generate uc c (single_file_input a1) = sc_generate uc c (single_file_input a2)) /\
    (forall c, go_generate uc c (single_file_input a1) = go_generate uc c (single_file_input a2)) /\
    (forall c, py_generate uc c (single_file_input a1) = py_generate uc c (single_file_input a2)).
Proof. exact Proofs.C06.bytes_arrival. Qed.
Print Assumptions C06_bytes_do_not_depend_on_arrival_order.

(* without the distinct-names hypothesis the statement is false of the faithful model: two items of
   one kind with the same name keep their arrival order (stable sort) *)
Theorem C06_equal_names_refuted :
  let a := Proofs.C06.mk_const (lit "X") (Zpos xH) in let b := Proofs.C06.mk_const (lit "X") (Zpos (xO xH)) in
  Permutation [a; b] [b; a] /\ p_consts (single_file_input [a; b]) <> p_consts (single_file_input [b; a]).
Proof. exact Proofs.C06.equal_names_refuted. Qed.
Print Assumptions C06_equal_names_refuted.
