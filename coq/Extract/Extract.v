(* Extraction of the executable model, specs and verdict predicates to OCaml.
   ExtrOcamlBasic only: bool/option/unit/list/prod/sumbool map to OCaml's; N, Z, positive, nat,
   ascii and string stay the Coq inductives. No Extract Constant. *)
From Coq Require Import Extraction ExtrOcamlBasic.
From TS Require Import Model.Str Model.Outcome Model.Unicode Model.Rename Spec.SerdeCase Spec.C16Spec
  Model.Types Model.Parse Model.Reconcile Model.Collect Model.Lang.Common Model.Lang.Decl Model.Lang.TypeScript Model.Lang.ConvertCase Model.Lang.Python Model.Lang.Swift Model.Lang.Go Model.Lang.Scala Model.Lang.Kotlin Model.TopsortAlgo Model.Topsort Spec.C11Spec Spec.Serde Spec.C08Spec Spec.C03Spec Model.Integer Spec.JsSafe Model.Syntax Model.Attrs Model.TargetOs Spec.TargetOsRule
  Model.Config Spec.C20Spec Model.Writer Spec.C17Spec.
Extraction Language OCaml.
Set Extraction AccessOpaque.
Extraction "model.ml"
  Str.lit Str.str_eqb Str.dec_of_N Str.dec_of_Z
  BinNat.N.add BinNat.N.mul BinNat.N.eqb BinInt.Z.opp BinInt.Z.of_N
  Unicode.uc_exec Unicode.uc_table
  Rename.rename_all_to_case Rename.to_pascal_case Rename.to_camel_case Rename.to_snake_case
  Rename.to_screaming_snake_case Rename.to_kebab_case Rename.to_screaming_kebab_case
  SerdeCase.serde_field_name SerdeCase.serde_variant_name SerdeCase.apply_to_field SerdeCase.apply_to_variant
  SerdeCase.rule_from_str
  C16Spec.known_C16 C16Spec.good_C16 C16Spec.serde_name
  Integer.u53_try_from Integer.i54_try_from Integer.u53_into_u64 Integer.i54_into_i64 Integer.widen
  Integer.narrow_unsigned Integer.narrow_signed Integer.usize_from_u53_saturated Integer.int_cmp Integer.int_eqb
  Integer.deser_u53 Integer.deser_i54 Integer.ser_int Integer.ser_text JsSafe.js_safe JsSafe.js_safe_unsigned
  BinInt.Z.eqb BinInt.Z.compare
  TopsortAlgo.toposort_impl TopsortAlgo.sort_by_indices Topsort.topsort Topsort.build_dag
  C11Spec.good_C11 C11Spec.known_C11 C11Spec.acyclic C11Spec.perm_ok C11Spec.topo_ok
  Types.parse_ty Types.rtype_display Types.item_id Parse.parse_file Reconcile.reconcile_aliases Collect.single_file_input Collect.collect TypeScript.ts_generate TypeScript.ts_file_decls Go.go_file_decls Python.py_file_decls Swift.sw_file_decls Scala.sc_file_decls Python.py_generate Swift.sw_generate Go.go_generate Scala.sc_generate Kotlin.kt_generate Kotlin.kt_file_decls
  C08Spec.item_unsupported C08Spec.known_C08 C03Spec.leaves_of C03Spec.expected_leaf C03Spec.expected_leaves C03Spec.leaf_ident
  C03Spec.expected_field_names C03Spec.expected_variant_names Parse.parse_struct Parse.parse_enum Parse.parse_type_alias Parse.parse_const
  TargetOs.accept_target_os TargetOsRule.os_rule TargetOsRule.cfg_parsable
  Config.default_config Config.config_of_file Config.present_config Config.override_configuration Config.language_params
  Config.find_loop Config.find_configuration_file Config.load_config Config.store_config
  Config.generate_types Config.generate_config Config.cli_main
  C20Spec.effective C20Spec.expected_config C20Spec.expected_backend C20Spec.nearest_config
  C20Spec.expected_generate C20Spec.expected_generate_config C20Spec.persisted
  Writer.run_full Writer.run_trace Writer.run_history Writer.content Writer.mtime_of
  C17Spec.succeeds C17Spec.responsible C17Spec.may_touch C17Spec.known_C17
  C17Spec.good_rerun C17Spec.good_fresh C17Spec.nonempty_outputs C17Spec.dom_C17.
