(* C10, Python: the class of the open finding C10-python-key-keyword, decided on the IR ([parsed]).

   python.rs write_algebraic_enum declares the tag key - and, for a variant that carries data, the content key - of an
   adjacently tagged enum VERBATIM as attributes of the variant classes (`class: Literal[ETypes.A] = ETypes.A`, `in: int`).
   Every FIELD name goes through python_property_aware_rename (a keyword gets `_` appended and an alias), these two keys do
   not: a key that is a Python keyword gives a SyntaxError.  The keyword list is the one of the language (CPython's
   keyword.kwlist), of which the back end's own list (python.rs:722, [c10_python_keywords]) is the hard-keyword part. *)
From Coq Require Import List Bool String.
From TS Require Import Model.Str Model.Types Model.Parse Spec.C10Spec.
Import ListNotations.

Definition c10_py_variant_has_data (v : rvariant) : bool :=
  match v with VUnit _ => false | VTuple _ _ => true | VAnon _ _ => true end.

Definition c10_py_key_keyword_enum (e : renum) : bool :=
  match e with
  | EUnit _ => false
  | EAlgebraic tag content sh =>
      mem_str tag c10_python_keywords || (mem_str content c10_python_keywords && existsb c10_py_variant_has_data (evariants sh))
  end.

Definition c10_py_key_keyword_class (pd : parsed) : bool := existsb c10_py_key_keyword_enum (p_enums pd).

Definition known_C10_py_keys (pd : parsed) : list string :=
  if c10_py_key_keyword_class pd then ["C10-python-key-keyword"%string] else [].
