(* C08: which annotated items use something typeshare documents as unsupported (declarative, over
   the syn-level AST).  The two finding classes of the unchanged tree (C08-const-expr,
   C08-flatten-variant) are fixed in /repo: there is no carve-out left. *)
From Coq Require Import String BinInt.
From TS Require Import Model.Str Model.Unicode Model.Syntax Model.Attrs Spec.Serde Spec.TargetOsRule.

Definition cls8 (s:string) : option string := Some s.

(* the integer a const initialiser denotes when it is an integer literal, possibly parenthesised and /
   or negated - the only initialisers typeshare can write out; None: not such a constant
   (a string / float / bool literal, 1 + 2, foo(7), 7 as u32, another const ...) *)
Fixpoint const_value8 (e : cexpr) : option Z :=
  match e with
  | CELit (CInt (Some z)) => Some z
  | CELit _ => None
  | CEParen x => const_value8 x
  | CENeg x => match const_value8 x with Some z => Some (Z.opp z) | None => None end
  | CEOther => None
  end.

Section U.
Variable uc : unicode.
Variable tstr : str -> option ty.     (* syn::parse_str::<Type> on a serialized_as string *)
Variable T : list str.

Definition skipped8 (attrs : list attr) : bool := skip_marked attrs || negb (os_rule attrs T).

(* the type typeshare is told to use: typeshare(serialized_as = "..") wins over the declared type;
   an override string that is not a type at all is itself unsupported *)
Definition override_of (attrs : list attr) : option str := get_serialized_as_type uc attrs.
Definition type_bad (attrs : list attr) (declared : ty) : bool :=
  match override_of attrs with
  | Some s => match tstr s with None => true | Some t => has_unsupported t end
  | None => has_unsupported declared
  end.

Definition field_bad (flatten_counts : bool) (f : field) : bool :=
  negb (skipped8 (f_attrs f)) && (type_bad (f_attrs f) (f_ty f) || (flatten_counts && bare_flatten (f_attrs f))).

Definition variant_bad (v : variant) : bool :=
  negb (skipped8 (v_attrs v)) &&
  match v_fields v with
  | FUnit => false
  | FUnnamed [f] => type_bad (f_attrs f) (f_ty f)
  | FUnnamed (_ :: _ :: _) => true              (* tuple variant with several fields *)
  | FUnnamed [] => false
  | FNamed l => existsb (field_bad true) l      (* serde(flatten) is unsupported here too *)
  end.

Definition carries_data (v : variant) : bool :=
  negb (skipped8 (v_attrs v)) && match v_fields v with FUnit => false | _ => true end.

Definition item_unsupported (it : item) : bool :=
  match it with
  | IStruct attrs _ _ fs =>
    match override_of attrs with
    | Some s => match tstr s with None => true | Some t => has_unsupported t end
    | None =>
      match fs with
      | FNamed l => existsb (field_bad true) l
      | FUnnamed [f] => type_bad (f_attrs f) (f_ty f)
      | FUnnamed (_ :: _ :: _) => true          (* tuple struct with several fields *)
      | _ => false
      end
    end
  | IEnum attrs _ _ vs =>
    match override_of attrs with
    | Some s => match tstr s with None => true | Some t => has_unsupported t end
    | None =>
      existsb variant_bad vs ||
      (if existsb carries_data vs
       then match serde_nv attrs (lit "tag"), serde_nv attrs (lit "content") with Some _, Some _ => false | _, _ => true end
       else match serde_nv attrs (lit "tag"), serde_nv attrs (lit "content") with None, None => false | _, _ => true end)
    end
  | IType attrs _ _ t => type_bad attrs t
  | IConst attrs _ t e => type_bad attrs t || match const_value8 e with Some _ => false | None => true end
  | _ => false
  end.

(* finding classes: none left.  C08-const-expr (the first literal anywhere in the initialiser was
   taken: -5 -> 5, 1 + 2 -> 1, foo(7) -> 7) and C08-flatten-variant (serde(flatten) on a struct-variant
   field was accepted) are fixed in /repo; kept as the constant the driver reports. *)
Definition known_C08 (it : item) : option string := None.
End U.
