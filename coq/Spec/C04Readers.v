(* C04 readers: what a declaration of each back end's abstract syntax (Model/Lang/*.v, the value the
   decision layer hands to the layout layer) SAYS about optionality at each of its positions - the
   parts of the language's optional idiom, TypeScript's `| null`, the type with the marker removed
   and the type as written.  10-20 lines per language; no decision of the model is re-made here, the
   readers only look at the declaration values and print types with the language's own [*_show].
   Cross-checked on every generated case against lib/extract.py run on the REAL tool's text
   (checks/c04.py: rows of the real output = rows read here), so a reader that misreads a
   declaration cannot go unnoticed. *)
From Coq Require Import String List Bool.
From TS Require Import Model.Str Model.Outcome Model.Unicode Model.Types Model.Parse Model.Lang.Common Model.Lang.Decl
                       Model.Lang.TypeScript Model.Lang.Kotlin Model.Lang.Swift Model.Lang.Scala Model.Lang.Go Model.Lang.Python.
From TS Require Import Spec.C04Spec.
Import ListNotations.

Definition c04_is_xopt (x : texp) : bool := match x with XOpt _ => true | _ => false end.
Definition c04_strip_xopt (x : texp) : texp := match x with XOpt e => e | _ => x end.
Definition c04_is_gptr (x : go_ty) : bool := match x with GPtr _ => true | _ => false end.
Definition c04_strip_gptr (x : go_ty) : go_ty := match x with GPtr e => e | _ => x end.

Definition c04_mk (decl member : str) (pos : c04_pos) (tmark imark nullu : bool) (base raw : str) : c04_row :=
  {| c04r_decl := decl; c04r_member := member; c04r_pos := pos;
     c04r_seen := {| c04s_type_mark := tmark; c04s_init_mark := imark; c04s_null_union := nullu; c04s_base := base |};
     c04r_raw := raw |}.

(* a position whose only marker can be the outermost optional constructor of its type (payloads and
   alias targets of every language but TypeScript) *)
Definition c04_typed (show : texp -> str) (decl member : str) (pos : c04_pos) (ty : texp) : c04_row :=
  c04_mk decl member pos (c04_is_xopt ty) (c04_is_xopt ty) false (show (c04_strip_xopt ty)) (show ty).

(* ---- TypeScript: `key?: T` (+ ` | null`), `content?: T` (+ ` | null`), `type A = T` (+ ` | null`) ` | undefined` ---- *)
Definition ts_c04_member (decl : str) (pos : c04_pos) (m : ts_member) : c04_row :=
  c04_mk decl (tm_key m) pos (tm_optional m) (tm_optional m) (tm_null_union m) (ts_show (tm_type m)) (ts_show (tm_type m)).
Definition ts_c04_rows (d : ts_decl) : list c04_row :=
  match d with
  | TSInterface _ name _ ms => map (ts_c04_member name C04Field) ms
  | TSAlias _ name _ ty undef nullu => [c04_mk name [] C04Alias undef undef nullu (ts_show ty) (ts_show ty)]
  | TSUnion _ name _ _ _ vs =>
    flat_map (fun v => match v with
                       | TVUnit _ _ => []
                       | TVTuple _ wire ty opt nullu => [c04_mk name wire C04Payload opt opt nullu (ts_show ty) (ts_show ty)]
                       | TVStruct _ wire ms => map (ts_c04_member name C04VariantField) ms
                       end) vs
  | _ => []
  end.

(* ---- Kotlin: `val x: T? = null`; payload / alias: `T?` ---- *)
Definition kt_c04_member (decl : str) (pos : c04_pos) (m : kt_member) : c04_row :=
  let own := match km_default m with KtNullableDefault => true | _ => false end in    (* the `?` of "? = null" *)
  c04_mk decl (km_name m) pos
         (own || c04_is_xopt (km_type m))
         (match km_default m with KtRequired => false | _ => true end)
         false
         (kt_show (if own then km_type m else c04_strip_xopt (km_type m)))
         (kt_show (km_type m) ++ (if own then lit "?" else [])).
Definition kt_c04_rows (d : kt_decl) : list c04_row :=
  match d with
  | KTDataClass _ name _ ms _ => map (kt_c04_member name C04Field) ms
  | KTTypeAlias _ name _ ty => [c04_typed kt_show name [] C04Alias ty]
  | KTValueClass _ name m _ => [kt_c04_member name C04Alias m]
  | KTSealedClass _ name _ _ vs =>
    flat_map (fun v => match kv_payload v with
                       | KTPNewtype ty => [c04_typed kt_show name (kv_name v) C04Payload ty]
                       | _ => []
                       end) vs
  | _ => []
  end.

(* ---- Swift: `let x: T?` and `init(x: T?)`; payload `case v(T?)` + the decodeNil branch; alias `T?` ---- *)
Definition sw_c04_member (decl : str) (m : sw_member) : c04_row :=
  let own := swm_default_opt m in
  c04_mk decl (swm_name m) C04Field
         (own || c04_is_xopt (swm_type m))
         (own || c04_is_xopt (swm_init_type m))
         false
         (sw_show (if own then swm_type m else c04_strip_xopt (swm_type m)))
         (sw_show (swm_type m) ++ (if own then lit "?" else [])).
Definition sw_c04_struct (s : sw_struct) : list c04_row := map (sw_c04_member (sws_name s)) (sws_members s).
Definition sw_c04_rows (d : sw_decl) : list c04_row :=
  match d with
  | SWStruct s => sw_c04_struct s
  | SWAlias _ name _ _ ty => [c04_typed sw_show name [] C04Alias ty]
  | SWEnum e =>
    flat_map sw_c04_struct (swe_inner e) ++
    flat_map (fun v => match swv_payload v with
                       | SWPTuple ty _ optional =>
                         [c04_mk (swe_name e) (swv_name v) C04Payload (c04_is_xopt ty) optional false
                                 (sw_show (c04_strip_xopt ty)) (sw_show ty)]
                       | _ => []
                       end) (swe_variants e)
  | SWCodableVoid _ => []
  end.

(* ---- Scala: `x: Option[T] = None`; payload / alias: `Option[T]` ---- *)
Definition sc_c04_member (decl : str) (m : sc_member) : c04_row :=
  c04_mk decl (scm_name m) C04Field
         (c04_is_xopt (scm_type m))
         (match scm_default m with SCDefNone => true | _ => false end)
         false
         (sc_show (c04_strip_xopt (scm_type m)))
         (sc_show (scm_type m)).
Definition sc_c04_rows (d : sc_decl) : list c04_row :=
  match d with
  | SCCaseClass _ name _ ms => map (sc_c04_member name) ms
  | SCAlias _ name _ ty => [c04_typed sc_show name [] C04Alias ty]
  | SCEnum _ name _ vs =>
    flat_map (fun v => match scv_payload v with
                       | SCPayTuple _ _ ty => [c04_typed sc_show name (scv_name v) C04Payload ty]
                       | _ => []
                       end) vs
  | _ => []
  end.

(* ---- Go: `X *T` + `,omitempty` in the tag; payload / alias: `*T` ---- *)
Definition go_c04_typed (decl member : str) (pos : c04_pos) (ty : go_ty) : c04_row :=
  c04_mk decl member pos (c04_is_gptr ty) (c04_is_gptr ty) false (go_show (c04_strip_gptr ty)) (go_show ty).
Definition go_c04_member (decl : str) (m : go_member) : c04_row :=
  let own := gm_star m in
  c04_mk decl (gm_name m) C04Field
         (own || c04_is_gptr (gm_type m))
         (gm_omitempty m)
         false
         (go_show (if own then gm_type m else c04_strip_gptr (gm_type m)))
         ((if own then lit "*" else []) ++ go_show (gm_type m)).
Definition go_c04_rows (d : go_decl) : list c04_row :=
  match d with
  | GOStruct _ name _ ms => map (go_c04_member name) ms
  | GOAlias _ name ty => [go_c04_typed name [] C04Alias ty]
  | GOTagged e =>
    flat_map (fun v => match gv_content v with
                       | GCType ty _ => [go_c04_typed (gt_name e) (gv_const v) C04Payload ty]
                       | _ => []
                       end) (gt_variants e)
  | _ => []
  end.

(* ---- Python: `x: Optional[T] = Field(default=None)`; payload / alias: `Optional[T]` ---- *)
Definition py_c04_member (decl : str) (m : py_member) : c04_row :=
  c04_mk decl (pym_name m) C04Field
         (c04_is_xopt (pym_type m))
         (pym_default_none m)
         false
         (py_show (c04_strip_xopt (pym_type m)))
         (py_show (pym_type m)).
Definition py_c04_rows (d : py_decl) : list c04_row :=
  match d with
  | PYClass _ name _ _ ms => map (py_c04_member name) ms
  | PYAlias _ name _ ty => [c04_typed py_show name [] C04Alias ty]
  | PYAlgebraic _ name _ _ _ _ vs =>
    flat_map (fun v => match pyv_content v with
                       | PYCType ty => [c04_typed py_show name (pyv_class v) C04Payload ty]
                       | _ => []
                       end) vs
  | _ => []
  end.

(* ---- whole files: the rows of every declaration, in output order ---- *)
Definition ts_c04_file (uc : unicode) (cfg : ts_config) (pd : parsed) : outcome (list c04_row) :=
  do r <- ts_decls uc cfg pd; Ok (flat_map ts_c04_rows (fst r)).
Definition kt_c04_file (uc : unicode) (cfg : kt_config) (pd : parsed) : outcome (list c04_row) :=
  do ds <- kt_decls uc cfg pd; Ok (flat_map kt_c04_rows ds).
Definition sw_c04_file (uc : unicode) (cfg : sw_config) (pd : parsed) : outcome (list c04_row) :=
  do r <- sw_decls uc cfg pd; Ok (flat_map sw_c04_rows (fst r)).
Definition sc_c04_file (uc : unicode) (cfg : sc_config) (pd : parsed) : outcome (list c04_row) :=
  do r <- sc_decls uc cfg pd; Ok (flat_map sc_c04_rows (fst r ++ snd r)).
Definition go_c04_file (uc : unicode) (cfg : go_config) (pd : parsed) : outcome (list c04_row) :=
  do r <- go_decls uc cfg pd; Ok (flat_map go_c04_rows (fst r)).
Definition py_c04_file (uc : unicode) (cfg : py_config) (pd : parsed) : outcome (list c04_row) :=
  do r <- py_decls uc cfg pd; Ok (flat_map py_c04_rows (fst r)).
