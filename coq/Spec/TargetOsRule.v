(* The documented --target-os rule (docs/src/usage/target_os.md, property C13), as structural
   recursion over the cfg predicate - no stack, no iteration order. *)
From TS Require Import Model.Str Model.Syntax Model.Attrs.

Definition is_not (m : meta) : bool := path_is_ident (meta_path m) (lit "not").

(* OS names appearing in `target_os = "name"` leaves, tagged with whether some enclosing (or the
   leaf's own) predicate is `not` *)
Fixpoint os_names (under_not : bool) (m : meta) : list (bool * str) :=
  let u := under_not || is_not m in
  match m with
  | MPath _ => []
  | MList _ (Some args) _ => flat_map (os_names u) args
  | MList _ None _ => []
  | MNV p v => if path_is_ident p (lit "target_os") then
                 match v with VStr s => [(u, s)] | VOther => [] end
               else []
  end.

Definition attrs_os_names (attrs : list attr) : list (bool * str) :=
  flat_map (os_names false) (flat_map (fun a => get_meta_items a (lit "cfg")) attrs).

Definition named_under_not (attrs : list attr) : list str :=
  map snd (filter (fun p => fst p) (attrs_os_names attrs)).
Definition named_outside_not (attrs : list attr) : list str :=
  map snd (filter (fun p => negb (fst p)) (attrs_os_names attrs)).

(* "generated exactly when no OS it names inside not(...) belongs to T and, if it names any OS
   outside not(...), at least one of those belongs to T"; without --target-os nothing is filtered *)
Definition os_rule (attrs : list attr) (T : list str) : bool :=
  match T with
  | [] => true
  | _ => negb (existsb (fun o => mem_str o T) (named_under_not attrs)) &&
         match named_outside_not attrs with
         | [] => true
         | outside => existsb (fun o => mem_str o T) outside
         end
  end.

(* every nested list of every cfg attribute parses as a meta list (what rustc itself requires
   of a cfg predicate, apart from exotic forms such as version("1.2")) *)
Fixpoint meta_parsable (m : meta) : bool :=
  match m with
  | MList _ (Some args) _ => forallb meta_parsable args
  | MList _ None _ => false
  | _ => true
  end.
Definition cfg_parsable (attrs : list attr) : bool :=
  forallb meta_parsable (flat_map (fun a => get_meta_items a (lit "cfg")) attrs).
