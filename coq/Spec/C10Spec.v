(* C10: generated files are syntactically well-formed - the LEXICAL half, declaratively.

   Six small lexers, one per target language, written as LEFT FOLDS of one step function over a
   state  (mode, stack of expected closing brackets) : the modes are ordinary code, "a slash was
   seen", line comment, block comment (with nesting depth where the language nests them), the
   string-literal states (single-line strings with backslash escapes, Python / Kotlin / Swift /
   Scala triple-quoted strings, Go raw strings, TypeScript template literals, back-ticked
   identifiers) and an absorbing error state.  In code mode an opening bracket pushes the closer it
   expects, a closing bracket must be the one on top of the stack.

     balanced_<l> text = true   iff   the fold ends in code mode with an empty stack and never
                                      reached the error state (a closer that does not match or
                                      finds the stack empty, a line end inside a single-line
                                      literal, a quote character the language does not have).

   What the lexers do NOT model (documented simplifications, all conservative for the text the six
   back ends print): angle brackets are operators, not delimiters; JavaScript regular-expression
   literals (the one regex typeshare prints is constant text whose brackets balance as code);
   `${..}` inside template literals; Swift `#"raw"#` strings; line continuations.

   Besides the lexers the file defines what the check evaluates (all extracted):
     dom_C10 l pd         the shape of names, keys, docs and verbatim text the property quantifies over;
     known_C10 l pkg pd   the finding classes of the unchanged tree, decided on the IR ([parsed], a type only);
     good_C10_lex / c10_lex   the judgement of one output file (with the place of the first error);
     good_C10_kw, good_C10_swift_labels   the promised keyword escapes, over the observation of Model/Lang/Decl.v.
   (The grammar recogniser for TypeScript is in Spec/C10TsGrammar.v.)

   This file never calls the back-end models. *)
From Coq Require Import String.
From TS Require Import Model.Str Model.Types Model.Parse Model.Lang.Decl.

(* ------------------------------------------------------------------ lexer configuration *)
Inductive c10_sq_mode := C10SqNone | C10SqString | C10SqChar.            (* what a single quote starts *)
Inductive c10_bt_mode := C10BtNone | C10BtRaw | C10BtTemplate | C10BtIdent. (* what a back-tick starts *)

Record c10_lexcfg := {
  c10_lc_slash : bool;      (* `//` line comments and `/* */` block comments *)
  c10_lc_nest : bool;       (* block comments nest *)
  c10_lc_hash : bool;       (* `#` starts a line comment *)
  c10_lc_triple : bool;     (* triple-quoted string literals *)
  c10_lc_sq : c10_sq_mode;
  c10_lc_bt : c10_bt_mode;
  c10_lc_cr : bool          (* a carriage return ends a line (everywhere but Go) *)
}.

Definition c10_lex_ts : c10_lexcfg := {| c10_lc_slash := true; c10_lc_nest := false; c10_lc_hash := false; c10_lc_triple := false;
                                 c10_lc_sq := C10SqString; c10_lc_bt := C10BtTemplate; c10_lc_cr := true |}.
Definition c10_lex_kt : c10_lexcfg := {| c10_lc_slash := true; c10_lc_nest := true; c10_lc_hash := false; c10_lc_triple := true;
                                 c10_lc_sq := C10SqChar; c10_lc_bt := C10BtIdent; c10_lc_cr := true |}.
Definition c10_lex_sw : c10_lexcfg := {| c10_lc_slash := true; c10_lc_nest := true; c10_lc_hash := false; c10_lc_triple := true;
                                 c10_lc_sq := C10SqNone; c10_lc_bt := C10BtIdent; c10_lc_cr := true |}.
Definition c10_lex_sc : c10_lexcfg := {| c10_lc_slash := true; c10_lc_nest := true; c10_lc_hash := false; c10_lc_triple := true;
                                 c10_lc_sq := C10SqChar; c10_lc_bt := C10BtIdent; c10_lc_cr := true |}.
Definition c10_lex_go : c10_lexcfg := {| c10_lc_slash := true; c10_lc_nest := false; c10_lc_hash := false; c10_lc_triple := false;
                                 c10_lc_sq := C10SqChar; c10_lc_bt := C10BtRaw; c10_lc_cr := false |}.
Definition c10_lex_py : c10_lexcfg := {| c10_lc_slash := false; c10_lc_nest := false; c10_lc_hash := true; c10_lc_triple := true;
                                 c10_lc_sq := C10SqString; c10_lc_bt := C10BtNone; c10_lc_cr := true |}.

(* ------------------------------------------------------------------ states *)
Inductive c10_lmode :=
| C10LCode                      (* ordinary code *)
| C10LSlash                     (* code; the previous character was `/` *)
| C10LLine                      (* line comment, up to the line end *)
| C10LBlock (d : nat)           (* block comment, d enclosing block comments *)
| C10LBlockStar (d : nat)       (* ... the previous character was `*` *)
| C10LBlockSlash (d : nat)      (* ... the previous character was `/` (nesting languages) *)
| C10LQ1 (q : char)             (* one quote q seen (triple-quote languages) *)
| C10LQ2 (q : char)             (* two quotes seen: the empty literal, or the start of a triple quote *)
| C10LStr (q : char)            (* single-line literal delimited by q *)
| C10LStrEsc (q : char)         (* ... after a backslash *)
| C10LTri (q : char)            (* triple-quoted literal *)
| C10LTriEsc (q : char)         (* ... after a backslash *)
| C10LTri1 (q : char)           (* ... one closing quote seen *)
| C10LTri2 (q : char)           (* ... two closing quotes seen *)
| C10LRaw                       (* Go raw string `..` *)
| C10LTpl                       (* TypeScript template literal *)
| C10LTplEsc
| C10LTick                      (* back-ticked identifier (Kotlin, Swift, Scala) *)
| C10LErr.                      (* absorbing *)

Definition c10_lstate := (c10_lmode * list char)%type.

Definition c10_c_lparen : char := 40.  Definition c10_c_rparen : char := 41.
Definition c10_c_lbrack : char := 91.  Definition c10_c_rbrack : char := 93.
Definition c10_c_lbrace : char := 123. Definition c10_c_rbrace : char := 125.
Definition c10_c_slash : char := 47.   Definition c10_c_star : char := 42.
Definition c10_c_hash : char := 35.    Definition c10_c_tick : char := 96.

(* the closer an opening bracket expects *)
Definition c10_closer_of (c : char) : option char :=
  if c =? c10_c_lparen then Some c10_c_rparen
  else if c =? c10_c_lbrack then Some c10_c_rbrack
  else if c =? c10_c_lbrace then Some c10_c_rbrace
  else None.
Definition c10_is_closer (c : char) : bool := (c =? c10_c_rparen) || (c =? c10_c_rbrack) || (c =? c10_c_rbrace).

Definition c10_is_line_end (cfg : c10_lexcfg) (c : char) : bool := (c =? ch_nl) || (c10_lc_cr cfg && (c =? ch_cr)).

(* one character in code mode *)
Definition c10_code_step (cfg : c10_lexcfg) (st : list char) (c : char) : c10_lstate :=
  match c10_closer_of c with
  | Some k => (C10LCode, k :: st)
  | None =>
    if c10_is_closer c then
      match st with
      | k :: r => if k =? c then (C10LCode, r) else (C10LErr, st)
      | [] => (C10LErr, st)
      end
    else if c =? ch_dq then (if c10_lc_triple cfg then C10LQ1 ch_dq else C10LStr ch_dq, st)
    else if c =? ch_sq then
      match c10_lc_sq cfg with
      | C10SqNone => (C10LErr, st)
      | C10SqString => (if c10_lc_triple cfg then C10LQ1 ch_sq else C10LStr ch_sq, st)
      | C10SqChar => (C10LStr ch_sq, st)
      end
    else if c =? c10_c_tick then
      match c10_lc_bt cfg with
      | C10BtNone => (C10LErr, st)
      | C10BtRaw => (C10LRaw, st)
      | C10BtTemplate => (C10LTpl, st)
      | C10BtIdent => (C10LTick, st)
      end
    else if (c =? c10_c_slash) && c10_lc_slash cfg then (C10LSlash, st)
    else if (c =? c10_c_hash) && c10_lc_hash cfg then (C10LLine, st)
    else (C10LCode, st)
  end.

Definition c10_lex_step (cfg : c10_lexcfg) (s : c10_lstate) (c : char) : c10_lstate :=
  let '(m, st) := s in
  match m with
  | C10LCode => c10_code_step cfg st c
  | C10LSlash => if c =? c10_c_slash then (C10LLine, st) else if c =? c10_c_star then (C10LBlock 0, st) else c10_code_step cfg st c
  | C10LLine => if c10_is_line_end cfg c then (C10LCode, st) else (C10LLine, st)
  | C10LBlock d => if c =? c10_c_star then (C10LBlockStar d, st)
                else if (c =? c10_c_slash) && c10_lc_nest cfg then (C10LBlockSlash d, st) else (C10LBlock d, st)
  | C10LBlockStar d => if c =? c10_c_slash then (match d with O => C10LCode | S d' => C10LBlock d' end, st)
                    else if c =? c10_c_star then (C10LBlockStar d, st) else (C10LBlock d, st)
  | C10LBlockSlash d => if c =? c10_c_star then (C10LBlock (S d), st)
                     else if c =? c10_c_slash then (C10LBlockSlash d, st) else (C10LBlock d, st)
  | C10LQ1 q => if c =? q then (C10LQ2 q, st)
             else if c =? ch_bs then (C10LStrEsc q, st)
             else if c10_is_line_end cfg c then (C10LErr, st) else (C10LStr q, st)
  | C10LQ2 q => if c =? q then (C10LTri q, st) else c10_code_step cfg st c
  | C10LStr q => if c =? q then (C10LCode, st)
              else if c =? ch_bs then (C10LStrEsc q, st)
              else if c10_is_line_end cfg c then (C10LErr, st) else (C10LStr q, st)
  | C10LStrEsc q => if c10_is_line_end cfg c then (C10LErr, st) else (C10LStr q, st)
  | C10LTri q => if c =? q then (C10LTri1 q, st) else if c =? ch_bs then (C10LTriEsc q, st) else (C10LTri q, st)
  | C10LTriEsc q => (C10LTri q, st)
  | C10LTri1 q => if c =? q then (C10LTri2 q, st) else if c =? ch_bs then (C10LTriEsc q, st) else (C10LTri q, st)
  | C10LTri2 q => if c =? q then (C10LCode, st) else if c =? ch_bs then (C10LTriEsc q, st) else (C10LTri q, st)
  | C10LRaw => if c =? c10_c_tick then (C10LCode, st) else (C10LRaw, st)
  | C10LTpl => if c =? c10_c_tick then (C10LCode, st) else if c =? ch_bs then (C10LTplEsc, st) else (C10LTpl, st)
  | C10LTplEsc => (C10LTpl, st)
  | C10LTick => if c =? c10_c_tick then (C10LCode, st) else if c10_is_line_end cfg c then (C10LErr, st) else (C10LTick, st)
  | C10LErr => (C10LErr, st)
  end.

Definition c10_lex_init : c10_lstate := (C10LCode, []).
Definition c10_lex_run (cfg : c10_lexcfg) (s : c10_lstate) (text : str) : c10_lstate := fold_left (c10_lex_step cfg) text s.

Definition c10_lex_final_ok (s : c10_lstate) : bool :=
  match s with (C10LCode, []) => true | _ => false end.

Definition c10_balanced (cfg : c10_lexcfg) (text : str) : bool := c10_lex_final_ok (c10_lex_run cfg c10_lex_init text).

Definition c10_balanced_ts := c10_balanced c10_lex_ts.
Definition c10_balanced_kt := c10_balanced c10_lex_kt.
Definition c10_balanced_sw := c10_balanced c10_lex_sw.
Definition c10_balanced_sc := c10_balanced c10_lex_sc.
Definition c10_balanced_go := c10_balanced c10_lex_go.
Definition c10_balanced_py := c10_balanced c10_lex_py.

(* the verdict with the place of the first error, for the check *)
Inductive c10_lex_verdict :=
| C10LexBalanced
| C10LexErrorAt (pos : N) (s : c10_lstate)       (* the state BEFORE the offending character *)
| C10LexOpenAtEnd (s : c10_lstate).              (* the text ends inside a literal / comment or with open brackets *)

Fixpoint c10_lex_scan (cfg : c10_lexcfg) (s : c10_lstate) (pos : N) (text : str) : c10_lex_verdict :=
  match text with
  | [] => if c10_lex_final_ok s then C10LexBalanced else C10LexOpenAtEnd s
  | c :: r => let s' := c10_lex_step cfg s c in
              match fst s' with
              | C10LErr => C10LexErrorAt pos s
              | _ => c10_lex_scan cfg s' (pos + 1) r
              end
  end.
Definition c10_lex_verdict_of (cfg : c10_lexcfg) (text : str) : c10_lex_verdict := c10_lex_scan cfg c10_lex_init 0 text.

(* ------------------------------------------------------------------ the domain: shapes of names, keys, docs *)
Definition c10_ident_start (c : char) : bool := is_aalpha c || (c =? ch_us).
Definition c10_ident_char (c : char) : bool := is_aalpha c || is_adigit c || (c =? ch_us).
(* identifier-shaped: [A-Za-z_][A-Za-z0-9_]* *)
Definition c10_ident_ok (s : str) : bool :=
  match s with [] => false | c :: r => c10_ident_start c && forallb c10_ident_char r end.
(* the key alphabet of the properties, [A-Za-z0-9_-]+ *)
Definition c10_key_char (c : char) : bool := is_aalpha c || is_adigit c || (c =? ch_us) || (c =? ch_dash).
Definition c10_key_ok (s : str) : bool := match s with [] => false | _ => forallb c10_key_char s end.
(* version strings and dotted package names: [A-Za-z0-9_.+-]* *)
Definition c10_dotted_char (c : char) : bool := c10_key_char c || (c =? 46) || (c =? 43).
Definition c10_dotted_ok (s : str) : bool := forallb c10_dotted_char s.
(* doc text that cannot break out of any comment form a back end uses (the subject of C15; this is the
   conservative local predicate: no line end, no backslash, no star-slash, no three double quotes in a row) *)
Definition c10_doc_ok (s : str) : bool :=
  forallb (fun c => negb ((c =? ch_nl) || (c =? ch_cr) || (c =? ch_bs))) s &&
  negb (contains_sub [c10_c_star; c10_c_slash] s) && negb (contains_sub [c10_c_slash; c10_c_star] s) &&
  negb (contains_sub [ch_dq; ch_dq; ch_dq] s).

(* ------------------------------------------------------------------ neutral characters and verbatim text *)
(* the characters that mean something to one of the six lexers in code mode: brackets, quotes, back-tick,
   slash, hash *)
Definition c10_special (c : char) : bool :=
  existsb (N.eqb c) [c10_c_lparen; c10_c_rparen; c10_c_lbrack; c10_c_rbrack; c10_c_lbrace; c10_c_rbrace; ch_dq; ch_sq; c10_c_tick; c10_c_slash; c10_c_hash].
(* a token made of characters that leave every lexer in code mode with the same stack *)
Definition c10_tok_ok (s : str) : bool := forallb (fun c => negb (c10_special c)) s.
(* text inside a single-line "..." literal printed WITHOUT escaping: no quote, backslash or line end *)
Definition c10_instr_ok (s : str) : bool :=
  forallb (fun c => negb ((c =? ch_dq) || (c =? ch_bs) || (c =? ch_nl) || (c =? ch_cr))) s.
(* text inside back-ticks (Go raw string, Kotlin / Swift / Scala quoted identifier) *)
Definition c10_intick_ok (s : str) : bool :=
  forallb (fun c => negb ((c =? c10_c_tick) || (c =? ch_nl) || (c =? ch_cr))) s.

(* verbatim user text (type overrides, type_mappings values, decorators) is a hole like any other as
   soon as it is c10_balanced ON ITS OWN in the language it is pasted into *)
Definition c10_raw_ok (cfg : c10_lexcfg) (t : str) : bool := c10_balanced cfg t.

(* a target type expression all of whose names are neutral tokens and whose verbatim parts are c10_balanced *)
Fixpoint c10_texp_ok (cfg : c10_lexcfg) (x : texp) : bool :=
  match x with
  | XName n args => c10_tok_ok n && forallb (c10_texp_ok cfg) args
  | XSeq e | XOpt e => c10_texp_ok cfg e
  | XFixed es => forallb (c10_texp_ok cfg) es
  | XMap k v => c10_texp_ok cfg k && c10_texp_ok cfg v
  | XRaw t => c10_raw_ok cfg t
  end.

(* ------------------------------------------------------------------ the promised keyword escapes *)
(* core/src/language/swift.rs:24 SWIFT_KEYWORDS: the names the Swift back end promises to back-tick *)
Definition c10_swift_keywords : list str :=
  map lit ["associatedtype"; "class"; "deinit"; "enum"; "extension"; "fileprivate"; "func"; "import"; "init";
           "inout"; "internal"; "let"; "operator"; "private"; "protocol"; "public"; "rethrows"; "static";
           "struct"; "subscript"; "typealias"; "var"; "break"; "case"; "continue"; "default"; "defer"; "do";
           "else"; "fallthrough"; "for"; "guard"; "if"; "in"; "repeat"; "return"; "switch"; "where"; "while";
           "as"; "Any"; "catch"; "false"; "is"; "nil"; "super"; "self"; "Self"; "throw"; "throws"; "true";
           "try"; "Protocol"; "Type"]%string.
(* core/src/language/python.rs:722: the names the Python back end promises to suffix with `_` *)
Definition c10_python_keywords : list str :=
  map lit ["False"; "None"; "True"; "and"; "as"; "assert"; "async"; "await"; "break"; "class"; "continue";
           "def"; "del"; "elif"; "else"; "except"; "finally"; "for"; "from"; "global"; "if"; "import"; "in";
           "is"; "lambda"; "nonlocal"; "not"; "or"; "pass"; "raise"; "return"; "try"; "while"; "with";
           "yield"]%string.
(* Swift: the three keywords that cannot be used unescaped as an argument label
   (The Swift Programming Language, Lexical Structure, "Keywords and Punctuation") *)
Definition c10_swift_label_keywords : list str := map lit ["inout"; "var"; "let"]%string.

(* ------------------------------------------------------------------ finding classes of the unchanged tree *)
Inductive c10_lang := CTS | CKT | CSW | CSC | CGO | CPY.

Definition c10_all_fields (pd : parsed) : list rfield :=
  flat_map sfields (p_structs pd) ++
  flat_map (fun e => flat_map (fun v => match v with VAnon fs _ => fs | _ => [] end) (evariants (enum_shared e)))
           (p_enums pd).

Definition c10_is_option (t : rtype) : bool := match t with ROption _ => true | _ => false end.

Definition c10_has_items (pd : parsed) : bool :=
  match p_structs pd, p_enums pd, p_aliases pd with [], [], [] => false | _, _, _ => true end.

Definition c10_cls10 (b : bool) (s : string) : list string := if b then [s] else [].

(* convert_case's Snake drops leading separators; what is left must start an identifier *)
Fixpoint c10_drop_seps (s : str) : str :=
  match s with
  | c :: r => if (c =? ch_us) || (c =? ch_dash) || (c =? ch_sp) then c10_drop_seps r else s
  | [] => []
  end.
Definition c10_py_bad_name (s : str) : bool := match c10_drop_seps s with [] => true | c :: _ => is_adigit c end.

(* a declared name that starts with a digit is not an identifier in any of the six languages: a field renamed to a
   key like "1st" (TypeScript, Kotlin, Swift, Scala print the renamed key, dashes replaced), a Rust field `_1x` (Go
   prints its PascalCase, which drops the underscores) *)
Definition c10_digit_first (s : str) : bool := match s with c :: _ => is_adigit c | [] => false end.
Fixpoint c10_drop_us (s : str) : str := match s with c :: r => if c =? ch_us then c10_drop_us r else s | [] => [] end.
Definition c10_go_bad_name (s : str) : bool := match c10_drop_us s with [] => true | c :: _ => is_adigit c end.

(* the type applies type arguments to one of the given names, at any depth *)
Fixpoint c10_mentions_applied (names : list str) (t : rtype) : bool :=
  match t with
  | RSimple _ | RPrim _ => false
  | RGeneric id ps => mem_str id names || existsb (c10_mentions_applied names) ps
  | RVec x | RSlice x | ROption x | RArray x _ => c10_mentions_applied names x
  | RHashMap k v => c10_mentions_applied names k || c10_mentions_applied names v
  end.

(* every class a (language, package setting, input) falls in; [] = no finding class applies.
   No class depends on the package setting any more: C10-scala-package-brace (a package name without a dot and
   something to print: closing braces without openers) was repaired in /repo (scala.rs end_package /
   end_package_object); its witness is the regression pin C10_scala_package_brace_fixed and C10_lex_scala holds
   for every package name. The argument is kept for the driver's protocol. *)
Definition known_C10 (l : c10_lang) (package : str) (pd : parsed) : list string :=
  match l with
  | CSC =>
    (* `x: T = _` for serde(default) on a non-Option field: not valid in a parameter list *)
    c10_cls10 (existsb (fun f => has_default f && negb (c10_is_option (fty f))) (c10_all_fields pd)) "C10-scala-default" ++
    c10_cls10 (existsb (fun f => c10_digit_first (renamed (fid f))) (c10_all_fields pd)) "C10-digit-name"
  | CSW =>
    (* a property named inout / var / let: back-ticked where it is declared, raw as the init label *)
    c10_cls10 (existsb (fun f => mem_str (renamed (fid f)) c10_swift_label_keywords) (c10_all_fields pd)) "C10-swift-label" ++
    c10_cls10 (existsb (fun f => c10_digit_first (renamed (fid f))) (c10_all_fields pd)) "C10-digit-name"
  | CPY =>
    (* C10-python-generic-alias (`Name[T] = List[T]`: a subscript assignment to an undefined name, NameError when the
       module is imported) was repaired in /repo (python.rs write_type_alias prints `Name = List[T]` and declares T as a
       TypeVar); its witness is the regression pin C10_python_generic_alias_fixed *)
    (* a type alias (evaluated when the module is imported) that applies type arguments to a generic ENUM: the
       enum's classes are not declared Generic[..], `Name[..]` raises TypeError *)
    c10_cls10 (existsb (fun a => c10_mentions_applied (map (fun e => renamed (eid (enum_shared e)))
                                                         (filter (fun e => match egenerics (enum_shared e) with [] => false | _ => true end) (p_enums pd)))
                                                    (atype a)) (p_aliases pd)) "C10-python-generic-enum-arg" ++
    (* a name made by Case::Snake that comes out empty or with a leading digit: an attribute named after a Rust field
       `_1x` / `__`, or a member of the <Enum>Types class named after a variant renamed to "1x" / "_-1" *)
    c10_cls10 (existsb (fun f => c10_py_bad_name (original (fid f))) (c10_all_fields pd) ||
               existsb (fun e => match e with
                                 | EAlgebraic _ _ sh => existsb (fun v => c10_py_bad_name (renamed (vid (variant_shared v)))) (evariants sh)
                                 | EUnit _ => false
                                 end) (p_enums pd)) "C10-python-digit-name" ++
    (* `Name = Union[]` for an algebraic enum without variants: a syntax error *)
    c10_cls10 (existsb (fun e => match e with
                             | EAlgebraic _ _ sh => match evariants sh with [] => true | _ => false end
                             | EUnit _ => false
                             end) (p_enums pd)) "C10-python-empty-union"
  | CTS =>
    (* a property named after a key that starts with a digit and has no dash (with a dash it is quoted) *)
    c10_cls10 (existsb (fun f => c10_digit_first (renamed (fid f)) && negb (contains_char ch_dash (renamed (fid f)))) (c10_all_fields pd)) "C10-digit-name"
  | CKT =>
    c10_cls10 (existsb (fun f => c10_digit_first (renamed (fid f))) (c10_all_fields pd)) "C10-digit-name"
  | CGO =>
    (* the exported field name is the PascalCase of the Rust name: leading underscores are dropped *)
    c10_cls10 (existsb (fun f => c10_go_bad_name (original (fid f))) (c10_all_fields pd)) "C10-digit-name"
  end.

(* ------------------------------------------------------------------ what the check evaluates *)
Definition c10_cfg_of (l : c10_lang) : c10_lexcfg :=
  match l with CTS => c10_lex_ts | CKT => c10_lex_kt | CSW => c10_lex_sw | CSC => c10_lex_sc | CGO => c10_lex_go | CPY => c10_lex_py end.
Definition c10_lang_of (l : c10_lang) : lang :=
  match l with CTS => TypeScript | CKT => Kotlin | CSW => Swift | CSC => Scala | CGO => Go | CPY => Python end.

(* good, lexical half: the judgement of one output file *)
Definition c10_lex (l : c10_lang) (text : str) : c10_lex_verdict := c10_lex_verdict_of (c10_cfg_of l) text.
Definition good_C10_lex (l : c10_lang) (text : str) : bool := c10_balanced (c10_cfg_of l) text.

(* good, keyword half, over the observation of Model/Lang/Decl.v (the extractor of lib/extract.py yields the
   same observation from the real text).
   Swift: a declared type / property name that is in SWIFT_KEYWORDS is written in back-ticks.
   Python: no declared attribute name is a Python keyword, and an attribute the back end reports as
   escaped ends in `_`. *)
Definition c10_ends_with_us (s : str) : bool := match rev s with c :: _ => c =? ch_us | [] => false end.
Definition c10_kw_member_good (l : c10_lang) (m : member) : bool :=
  match l with
  | CSW => implb (mem_str (mb_name m) c10_swift_keywords) (mb_escaped m)
  | CPY => negb (mem_str (mb_name m) c10_python_keywords) && implb (mb_escaped m) (c10_ends_with_us (mb_name m))
  | _ => true
  end.
Definition c10_kw_decl_good (l : c10_lang) (d : decl) : bool :=
  match l with
  | CSW => implb (mem_str (d_name d) c10_swift_keywords) (d_escaped d)
  | _ => true
  end && forallb (c10_kw_member_good l) (d_members d).
Definition good_C10_kw (l : c10_lang) (ds : list decl) : bool := forallb (c10_kw_decl_good l) ds.
(* Swift argument labels: `inout`, `var`, `let` cannot be labels *)
Definition good_C10_swift_labels (labels : list str) : bool :=
  forallb (fun x => negb (mem_str x c10_swift_label_keywords)) labels.

(* dom: the shape of names, keys, docs and verbatim text the property quantifies over ("doc-induced breakage
   belongs to C15"): Rust identifiers are identifier-shaped, renamed fields / variants / tag and content keys
   are key-shaped, renamed types and generic parameters identifier-shaped, every doc line is safe, and every
   verbatim decorator / type override for the language at hand is c10_balanced on its own in that language. *)
Fixpoint c10_rtype_ok (t : rtype) : bool :=
  match t with
  | RSimple id => c10_ident_ok id
  | RGeneric id ps => c10_ident_ok id && forallb c10_rtype_ok ps
  | RVec x | RSlice x | ROption x | RArray x _ => c10_rtype_ok x
  | RHashMap k v => c10_rtype_ok k && c10_rtype_ok v
  | RPrim _ => true
  end.
Definition c10_member_id_ok (i : id) : bool := c10_ident_ok (original i) && c10_key_ok (renamed i).
Definition c10_type_id_ok (i : id) : bool := c10_ident_ok (original i) && c10_ident_ok (renamed i).
Definition c10_fdecor_ok (cfg : c10_lexcfg) (d : fdecor) : bool :=
  match d with DWord w => c10_tok_ok w | DNameValue n v => c10_tok_ok n && c10_raw_ok cfg v end.
Definition c10_field_ok (l : c10_lang) (f : rfield) : bool :=
  c10_member_id_ok (fid f) && c10_rtype_ok (fty f) && forallb c10_doc_ok (fcomments f) &&
  match lookup_lang (c10_lang_of l) (fdecs f) with
  | Some ds => forallb (c10_fdecor_ok (c10_cfg_of l)) ds
  | None => true
  end.
(* decorators are pasted verbatim: balanced on their own; the Swift generic-constraint strings are split on `:` and
   `&` by the back end, so they must be neutral tokens (no bracket, quote or comment character at all) *)
Definition c10_decmap_ok (l : c10_lang) (m : decmap) : bool :=
  forallb (fun kv => match fst kv with
                     | DKSwiftGenericConstraints => forallb c10_tok_ok (snd kv)
                     | _ => forallb (c10_raw_ok (c10_cfg_of l)) (snd kv)
                     end) m.
Definition c10_variant_ok (l : c10_lang) (v : rvariant) : bool :=
  c10_member_id_ok (vid (variant_shared v)) && forallb c10_doc_ok (vcomments (variant_shared v)) &&
  match v with
  | VUnit _ => true
  | VTuple t _ => c10_rtype_ok t
  | VAnon fs _ => forallb (c10_field_ok l) fs
  end.
Definition c10_item_ok (l : c10_lang) (it : ritem) : bool :=
  match it with
  | ItStruct s => c10_type_id_ok (sid s) && forallb c10_ident_ok (sgenerics s) && forallb (c10_field_ok l) (sfields s) &&
                  forallb c10_doc_ok (scomments s) && c10_decmap_ok l (sdecs s)
  | ItEnum e =>
    let sh := enum_shared e in
    c10_type_id_ok (eid sh) && forallb c10_ident_ok (egenerics sh) && forallb c10_doc_ok (ecomments sh) &&
    forallb (c10_variant_ok l) (evariants sh) && c10_decmap_ok l (edecs sh) &&
    match e with EUnit _ => true | EAlgebraic tag content _ => c10_key_ok tag && c10_key_ok content end
  | ItAlias a => c10_type_id_ok (aid a) && forallb c10_ident_ok (agenerics a) && c10_rtype_ok (atype a) &&
                 forallb c10_doc_ok (acomments a) && c10_decmap_ok l (adecs a)
  | ItConst c => c10_type_id_ok (cid c) && c10_rtype_ok (ctype c)
  end.
Definition dom_C10 (l : c10_lang) (pd : parsed) : bool :=
  forallb (c10_item_ok l)
          (map ItAlias (p_aliases pd) ++ map ItStruct (p_structs pd) ++ map ItEnum (p_enums pd) ++ map ItConst (p_consts pd)).
