(* C10: generated files are syntactically well-formed - the LEXICAL half, declaratively.

   Six small lexers, one per target language, written as LEFT FOLDS of one step function over a
   state  (mode, stack of expected closing brackets) : the modes are ordinary code, "a slash was
   seen", line comment, block comment (with nesting depth where the language nests them), the
   string-literal states (single-line strings with backslash escapes, Python / Kotlin / Swift /
   Scala triple-quoted strings, Go raw strings, TypeScript template literals, back-ticked
   identifiers) and an absorbing error state.  In code mode an opening bracket pushes the closer it
   expects, a closing bracket must be the one on top of the stack.

     balanced_<l> text = true   iff   the fold ends in code mode with an empty stack and never
                                      reached the error state (a closer that does not match or
                                      finds the stack empty, a line end inside a single-line
                                      literal, a quote character the language does not have).

   What the lexers do NOT model (documented simplifications, all conservative for the text the six
   back ends print): angle brackets are operators, not delimiters; JavaScript regular-expression
   literals (the one regex typeshare prints is constant text whose brackets balance as code);
   `${..}` inside template literals; Swift `#"raw"#` strings; line continuations.

   This file never calls the back-end models.  The finding classes of the unchanged tree are
   decided on the IR ([parsed], a type only). *)
From Coq Require Import String.
From TS Require Import Model.Str Model.Types Model.Parse.

(* ------------------------------------------------------------------ lexer configuration *)
Inductive sq_mode := SqNone | SqString | SqChar.            (* what a single quote starts *)
Inductive bt_mode := BtNone | BtRaw | BtTemplate | BtIdent. (* what a back-tick starts *)

Record lexcfg := {
  lc_slash : bool;      (* `//` line comments and `/* */` block comments *)
  lc_nest : bool;       (* block comments nest *)
  lc_hash : bool;       (* `#` starts a line comment *)
  lc_triple : bool;     (* triple-quoted string literals *)
  lc_sq : sq_mode;
  lc_bt : bt_mode;
  lc_cr : bool          (* a carriage return ends a line (everywhere but Go) *)
}.

Definition lex_ts : lexcfg := {| lc_slash := true; lc_nest := false; lc_hash := false; lc_triple := false;
                                 lc_sq := SqString; lc_bt := BtTemplate; lc_cr := true |}.
Definition lex_kt : lexcfg := {| lc_slash := true; lc_nest := true; lc_hash := false; lc_triple := true;
                                 lc_sq := SqChar; lc_bt := BtIdent; lc_cr := true |}.
Definition lex_sw : lexcfg := {| lc_slash := true; lc_nest := true; lc_hash := false; lc_triple := true;
                                 lc_sq := SqNone; lc_bt := BtIdent; lc_cr := true |}.
Definition lex_sc : lexcfg := {| lc_slash := true; lc_nest := true; lc_hash := false; lc_triple := true;
                                 lc_sq := SqChar; lc_bt := BtIdent; lc_cr := true |}.
Definition lex_go : lexcfg := {| lc_slash := true; lc_nest := false; lc_hash := false; lc_triple := false;
                                 lc_sq := SqChar; lc_bt := BtRaw; lc_cr := false |}.
Definition lex_py : lexcfg := {| lc_slash := false; lc_nest := false; lc_hash := true; lc_triple := true;
                                 lc_sq := SqString; lc_bt := BtNone; lc_cr := true |}.

(* ------------------------------------------------------------------ states *)
Inductive lmode :=
| LCode                      (* ordinary code *)
| LSlash                     (* code; the previous character was `/` *)
| LLine                      (* line comment, up to the line end *)
| LBlock (d : nat)           (* block comment, d enclosing block comments *)
| LBlockStar (d : nat)       (* ... the previous character was `*` *)
| LBlockSlash (d : nat)      (* ... the previous character was `/` (nesting languages) *)
| LQ1 (q : char)             (* one quote q seen (triple-quote languages) *)
| LQ2 (q : char)             (* two quotes seen: the empty literal, or the start of a triple quote *)
| LStr (q : char)            (* single-line literal delimited by q *)
| LStrEsc (q : char)         (* ... after a backslash *)
| LTri (q : char)            (* triple-quoted literal *)
| LTriEsc (q : char)         (* ... after a backslash *)
| LTri1 (q : char)           (* ... one closing quote seen *)
| LTri2 (q : char)           (* ... two closing quotes seen *)
| LRaw                       (* Go raw string `..` *)
| LTpl                       (* TypeScript template literal *)
| LTplEsc
| LTick                      (* back-ticked identifier (Kotlin, Swift, Scala) *)
| LErr.                      (* absorbing *)

Definition lstate := (lmode * list char)%type.

Definition c_lparen : char := 40.  Definition c_rparen : char := 41.
Definition c_lbrack : char := 91.  Definition c_rbrack : char := 93.
Definition c_lbrace : char := 123. Definition c_rbrace : char := 125.
Definition c_slash : char := 47.   Definition c_star : char := 42.
Definition c_hash : char := 35.    Definition c_tick : char := 96.

(* the closer an opening bracket expects *)
Definition closer_of (c : char) : option char :=
  if c =? c_lparen then Some c_rparen
  else if c =? c_lbrack then Some c_rbrack
  else if c =? c_lbrace then Some c_rbrace
  else None.
Definition is_closer (c : char) : bool := (c =? c_rparen) || (c =? c_rbrack) || (c =? c_rbrace).

Definition is_line_end (cfg : lexcfg) (c : char) : bool := (c =? ch_nl) || (lc_cr cfg && (c =? ch_cr)).

(* one character in code mode *)
Definition code_step (cfg : lexcfg) (st : list char) (c : char) : lstate :=
  match closer_of c with
  | Some k => (LCode, k :: st)
  | None =>
    if is_closer c then
      match st with
      | k :: r => if k =? c then (LCode, r) else (LErr, st)
      | [] => (LErr, st)
      end
    else if c =? ch_dq then (if lc_triple cfg then LQ1 ch_dq else LStr ch_dq, st)
    else if c =? ch_sq then
      match lc_sq cfg with
      | SqNone => (LErr, st)
      | SqString => (if lc_triple cfg then LQ1 ch_sq else LStr ch_sq, st)
      | SqChar => (LStr ch_sq, st)
      end
    else if c =? c_tick then
      match lc_bt cfg with
      | BtNone => (LErr, st)
      | BtRaw => (LRaw, st)
      | BtTemplate => (LTpl, st)
      | BtIdent => (LTick, st)
      end
    else if (c =? c_slash) && lc_slash cfg then (LSlash, st)
    else if (c =? c_hash) && lc_hash cfg then (LLine, st)
    else (LCode, st)
  end.

Definition lex_step (cfg : lexcfg) (s : lstate) (c : char) : lstate :=
  let '(m, st) := s in
  match m with
  | LCode => code_step cfg st c
  | LSlash => if c =? c_slash then (LLine, st) else if c =? c_star then (LBlock 0, st) else code_step cfg st c
  | LLine => if is_line_end cfg c then (LCode, st) else (LLine, st)
  | LBlock d => if c =? c_star then (LBlockStar d, st)
                else if (c =? c_slash) && lc_nest cfg then (LBlockSlash d, st) else (LBlock d, st)
  | LBlockStar d => if c =? c_slash then (match d with O => LCode | S d' => LBlock d' end, st)
                    else if c =? c_star then (LBlockStar d, st) else (LBlock d, st)
  | LBlockSlash d => if c =? c_star then (LBlock (S d), st)
                     else if c =? c_slash then (LBlockSlash d, st) else (LBlock d, st)
  | LQ1 q => if c =? q then (LQ2 q, st)
             else if c =? ch_bs then (LStrEsc q, st)
             else if is_line_end cfg c then (LErr, st) else (LStr q, st)
  | LQ2 q => if c =? q then (LTri q, st) else code_step cfg st c
  | LStr q => if c =? q then (LCode, st)
              else if c =? ch_bs then (LStrEsc q, st)
              else if is_line_end cfg c then (LErr, st) else (LStr q, st)
  | LStrEsc q => if is_line_end cfg c then (LErr, st) else (LStr q, st)
  | LTri q => if c =? q then (LTri1 q, st) else if c =? ch_bs then (LTriEsc q, st) else (LTri q, st)
  | LTriEsc q => (LTri q, st)
  | LTri1 q => if c =? q then (LTri2 q, st) else if c =? ch_bs then (LTriEsc q, st) else (LTri q, st)
  | LTri2 q => if c =? q then (LCode, st) else if c =? ch_bs then (LTriEsc q, st) else (LTri q, st)
  | LRaw => if c =? c_tick then (LCode, st) else (LRaw, st)
  | LTpl => if c =? c_tick then (LCode, st) else if c =? ch_bs then (LTplEsc, st) else (LTpl, st)
  | LTplEsc => (LTpl, st)
  | LTick => if c =? c_tick then (LCode, st) else if is_line_end cfg c then (LErr, st) else (LTick, st)
  | LErr => (LErr, st)
  end.

Definition lex_init : lstate := (LCode, []).
Definition lex_run (cfg : lexcfg) (s : lstate) (text : str) : lstate := fold_left (lex_step cfg) text s.

Definition lex_final_ok (s : lstate) : bool :=
  match s with (LCode, []) => true | _ => false end.

Definition balanced (cfg : lexcfg) (text : str) : bool := lex_final_ok (lex_run cfg lex_init text).

Definition balanced_ts := balanced lex_ts.
Definition balanced_kt := balanced lex_kt.
Definition balanced_sw := balanced lex_sw.
Definition balanced_sc := balanced lex_sc.
Definition balanced_go := balanced lex_go.
Definition balanced_py := balanced lex_py.

(* the verdict with the place of the first error, for the check *)
Inductive lex_verdict :=
| LexBalanced
| LexErrorAt (pos : N) (s : lstate)       (* the state BEFORE the offending character *)
| LexOpenAtEnd (s : lstate).              (* the text ends inside a literal / comment or with open brackets *)

Fixpoint lex_scan (cfg : lexcfg) (s : lstate) (pos : N) (text : str) : lex_verdict :=
  match text with
  | [] => if lex_final_ok s then LexBalanced else LexOpenAtEnd s
  | c :: r => let s' := lex_step cfg s c in
              match fst s' with
              | LErr => LexErrorAt pos s
              | _ => lex_scan cfg s' (pos + 1) r
              end
  end.
Definition lex_verdict_of (cfg : lexcfg) (text : str) : lex_verdict := lex_scan cfg lex_init 0 text.

(* ------------------------------------------------------------------ the domain: shapes of names, keys, docs *)
Definition c10_ident_start (c : char) : bool := is_aalpha c || (c =? ch_us).
Definition c10_ident_char (c : char) : bool := is_aalpha c || is_adigit c || (c =? ch_us).
(* identifier-shaped: [A-Za-z_][A-Za-z0-9_]* *)
Definition ident_ok (s : str) : bool :=
  match s with [] => false | c :: r => c10_ident_start c && forallb c10_ident_char r end.
(* the key alphabet of the properties, [A-Za-z0-9_-]+ *)
Definition c10_key_char (c : char) : bool := is_aalpha c || is_adigit c || (c =? ch_us) || (c =? ch_dash).
Definition key_ok (s : str) : bool := match s with [] => false | _ => forallb c10_key_char s end.
(* version strings and dotted package names: [A-Za-z0-9_.+-]* *)
Definition c10_dotted_char (c : char) : bool := c10_key_char c || (c =? 46) || (c =? 43).
Definition dotted_ok (s : str) : bool := forallb c10_dotted_char s.
(* doc text that cannot break out of any comment form a back end uses (the subject of C15; this is the
   conservative local predicate: no line end, no backslash, no star-slash, no three double quotes in a row) *)
Definition doc_ok (s : str) : bool :=
  forallb (fun c => negb ((c =? ch_nl) || (c =? ch_cr) || (c =? ch_bs))) s &&
  negb (contains_sub [c_star; c_slash] s) && negb (contains_sub [c_slash; c_star] s) &&
  negb (contains_sub [ch_dq; ch_dq; ch_dq] s).

(* ------------------------------------------------------------------ neutral characters and verbatim text *)
(* the characters that mean something to one of the six lexers in code mode: brackets, quotes, back-tick,
   slash, hash *)
Definition c10_special (c : char) : bool :=
  existsb (N.eqb c) [c_lparen; c_rparen; c_lbrack; c_rbrack; c_lbrace; c_rbrace; ch_dq; ch_sq; c_tick; c_slash; c_hash].
(* a token made of characters that leave every lexer in code mode with the same stack *)
Definition tok_ok (s : str) : bool := forallb (fun c => negb (c10_special c)) s.
(* text inside a single-line "..." literal printed WITHOUT escaping: no quote, backslash or line end *)
Definition instr_ok (s : str) : bool :=
  forallb (fun c => negb ((c =? ch_dq) || (c =? ch_bs) || (c =? ch_nl) || (c =? ch_cr))) s.
(* text inside back-ticks (Go raw string, Kotlin / Swift / Scala quoted identifier) *)
Definition intick_ok (s : str) : bool :=
  forallb (fun c => negb ((c =? c_tick) || (c =? ch_nl) || (c =? ch_cr))) s.

(* verbatim user text (type overrides, type_mappings values, decorators) is a hole like any other as
   soon as it is balanced ON ITS OWN in the language it is pasted into *)
Definition raw_ok (cfg : lexcfg) (t : str) : bool := balanced cfg t.

(* a target type expression all of whose names are neutral tokens and whose verbatim parts are balanced *)
From TS Require Import Model.Lang.Decl.
Fixpoint c10_texp_ok (cfg : lexcfg) (x : texp) : bool :=
  match x with
  | XName n args => tok_ok n && forallb (c10_texp_ok cfg) args
  | XSeq e | XOpt e => c10_texp_ok cfg e
  | XFixed es => forallb (c10_texp_ok cfg) es
  | XMap k v => c10_texp_ok cfg k && c10_texp_ok cfg v
  | XRaw t => raw_ok cfg t
  end.

(* ------------------------------------------------------------------ the promised keyword escapes *)
(* core/src/language/swift.rs:24 SWIFT_KEYWORDS: the names the Swift back end promises to back-tick *)
Definition c10_swift_keywords : list str :=
  map lit ["associatedtype"; "class"; "deinit"; "enum"; "extension"; "fileprivate"; "func"; "import"; "init";
           "inout"; "internal"; "let"; "operator"; "private"; "protocol"; "public"; "rethrows"; "static";
           "struct"; "subscript"; "typealias"; "var"; "break"; "case"; "continue"; "default"; "defer"; "do";
           "else"; "fallthrough"; "for"; "guard"; "if"; "in"; "repeat"; "return"; "switch"; "where"; "while";
           "as"; "Any"; "catch"; "false"; "is"; "nil"; "super"; "self"; "Self"; "throw"; "throws"; "true";
           "try"; "Protocol"; "Type"]%string.
(* core/src/language/python.rs:722: the names the Python back end promises to suffix with `_` *)
Definition c10_python_keywords : list str :=
  map lit ["False"; "None"; "True"; "and"; "as"; "assert"; "async"; "await"; "break"; "class"; "continue";
           "def"; "del"; "elif"; "else"; "except"; "finally"; "for"; "from"; "global"; "if"; "import"; "in";
           "is"; "lambda"; "nonlocal"; "not"; "or"; "pass"; "raise"; "return"; "try"; "while"; "with";
           "yield"]%string.
(* Swift: the three keywords that cannot be used unescaped as an argument label
   (The Swift Programming Language, Lexical Structure, "Keywords and Punctuation") *)
Definition c10_swift_label_keywords : list str := map lit ["inout"; "var"; "let"]%string.

(* ------------------------------------------------------------------ finding classes of the unchanged tree *)
Inductive c10_lang := CTS | CKT | CSW | CSC | CGO | CPY.

Definition c10_all_fields (pd : parsed) : list rfield :=
  flat_map sfields (p_structs pd) ++
  flat_map (fun e => flat_map (fun v => match v with VAnon fs _ => fs | _ => [] end) (evariants (enum_shared e)))
           (p_enums pd).

Definition c10_is_option (t : rtype) : bool := match t with ROption _ => true | _ => false end.

Definition c10_has_items (pd : parsed) : bool :=
  match p_structs pd, p_enums pd, p_aliases pd with [], [], [] => false | _, _, _ => true end.

Definition cls10 (b : bool) (s : string) : list string := if b then [s] else [].

(* every class a (language, package setting, input) falls in; [] = no finding class applies *)
Definition known_C10 (l : c10_lang) (package : str) (pd : parsed) : list string :=
  match l with
  | CSC =>
    (* `x: T = _` for serde(default) on a non-Option field: not valid in a parameter list *)
    cls10 (existsb (fun f => has_default f && negb (c10_is_option (fty f))) (c10_all_fields pd)) "C10-scala-default" ++
    (* a package name without a dot: no `package x {` opener, but the closing brace is printed *)
    cls10 (negb (contains_char 46 package) && c10_has_items pd) "C10-scala-package-brace"
  | CSW =>
    (* a property named inout / var / let: back-ticked where it is declared, raw as the init label *)
    cls10 (existsb (fun f => mem_str (renamed (fid f)) c10_swift_label_keywords) (c10_all_fields pd)) "C10-swift-label"
  | CPY =>
    (* `Name[T] = List[T]`: a subscript assignment to an undefined name, fails when the module is imported *)
    cls10 (existsb (fun a => match agenerics a with [] => false | _ => true end) (p_aliases pd)) "C10-python-generic-alias" ++
    (* `Name = Union[]` for an algebraic enum without variants: a syntax error *)
    cls10 (existsb (fun e => match e with
                             | EAlgebraic _ _ sh => match evariants sh with [] => true | _ => false end
                             | EUnit _ => false
                             end) (p_enums pd)) "C10-python-empty-union"
  | CTS | CKT | CGO => []
  end.
