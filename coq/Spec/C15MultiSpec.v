(* C15 in MULTI-FILE (folder output, `-d`) mode: what the import maps and crate names the multi-file generators print
   between the comment fragments must satisfy so that this text is code the reference lexer (Spec/Lexers.v) reads from
   code mode back into code mode - then it can neither swallow a following comment nor be mistaken for one.

   TypeScript prints `import { A, B } from "./<crate>";`: the imported names bare ([c15_plain]: no character that opens a
   comment or a literal), the crate name RAW between double quotes ([c15_ts_key_ok]: no double quote, no backslash, no
   line terminator).  Kotlin prints `package <package>.<crate>` and `import <package>.<crate>.<A>`: all bare.
   Decidable; inside: every crate name and type name made of letters, digits, `_`, `-`, `.`; EXCLUDED real inputs: a
   crate directory named with a quote, a backslash or a slash (Kotlin), an imported type whose generated name (serde
   rename) contains a slash or a quote.  This file never calls the back-end models. *)
From Coq Require Import List.
From TS Require Import Model.Str Spec.Lexers Spec.C15Spec Spec.C15Render.

Definition c15_ts_imports_ok (im : list (str * list str)) : bool :=
  forallb (fun kv => c15_ts_key_ok (fst kv) && forallb (c15_plain C15ts) (snd kv)) im.

Definition c15_kt_imports_ok (im : list (str * list str)) : bool :=
  forallb (fun kv => c15_plain C15kt (fst kv) && forallb (c15_plain C15kt) (snd kv)) im.
