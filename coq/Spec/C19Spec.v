(* C19 - what "#[typeshare] is transparent" demands of the macro, written without reference to the
   model's functions: the expansion is the input with the typeshare attributes filtered out at every
   member position (struct fields, tuple fields, union fields, variants, variant fields) and
   everything else untouched.  Plus the observation functions through which the property's clauses
   ("same members", "same other attributes", "only the typeshare attributes are removed") are stated
   and through which the check looks at real expansions, and the domain / known-finding predicates. *)
From TS Require Import Model.Str Model.Syntax Model.Annotation.

(* A typeshare (helper) attribute: its path is the single identifier `typeshare`.  This is also
   how typeshare-core recognises helpers at member positions (core/src/parser.rs get_meta_items:
   `attr.path().is_ident("typeshare")`). *)
Definition is_typeshare_attr (a : attr) : bool := path_is_ident (meta_path (a_meta a)) (lit "typeshare").
Definition other_attrs (l : list attr) : list attr := filter (fun a => negb (is_typeshare_attr a)) l.
Definition typeshare_attrs (l : list attr) : list attr := filter is_typeshare_attr l.

(* ---- the declarative expansion *)
Definition erase_field (f : dfield) : dfield :=
  {| df_attrs := other_attrs (df_attrs f); df_vis := df_vis f; df_ident := df_ident f; df_ty := df_ty f |}.
Definition erase_fields (fs : dfields) : dfields :=
  match fs with
  | DNamed l => DNamed (map erase_field l)
  | DUnnamed l => DUnnamed (map erase_field l)
  | DUnit => DUnit
  end.
Definition erase_variant (v : dvariant) : dvariant :=
  {| dv_attrs := other_attrs (dv_attrs v); dv_ident := dv_ident v; dv_fields := erase_fields (dv_fields v);
     dv_discr := dv_discr v |}.
Definition erase_data (d : ddata) : ddata :=
  match d with
  | DDStruct fs => DDStruct (erase_fields fs)
  | DDEnum vs => DDEnum (map erase_variant vs)
  | DDUnion l => DDUnion (map erase_field l)
  end.
Definition erase (i : macro_input) : macro_input :=
  match i with
  | Derive d => Derive {| di_attrs := di_attrs d; di_vis := di_vis d; di_ident := di_ident d;
                          di_generics := di_generics d; di_where := di_where d; di_data := erase_data (di_data d) |}
  | Other a t => Other a t
  end.

(* ---- observations *)
(* member positions, in source order: a variant is followed by its own fields *)
Inductive mpos :=
| MpField (id : option str)                 (* field of a struct / tuple struct / union *)
| MpVariant (id : str)
| MpVField (v : str) (id : option str).     (* field of variant v *)

Definition c19_fields_list (fs : dfields) : list dfield :=
  match fs with DNamed l => l | DUnnamed l => l | DUnit => [] end.
Definition field_positions (mk : option str -> mpos) (l : list dfield) : list (mpos * list attr) :=
  map (fun f => (mk (df_ident f), df_attrs f)) l.
Definition variant_positions (v : dvariant) : list (mpos * list attr) :=
  (MpVariant (dv_ident v), dv_attrs v) :: field_positions (MpVField (dv_ident v)) (c19_fields_list (dv_fields v)).
Definition member_positions (i : macro_input) : list (mpos * list attr) :=
  match i with
  | Derive d =>
    match di_data d with
    | DDStruct fs => field_positions MpField (c19_fields_list fs)
    | DDEnum vs => flat_map variant_positions vs
    | DDUnion l => field_positions MpField l
    end
  | Other _ _ => []
  end.

(* member identifiers in order *)
Definition obs_members (i : macro_input) : list mpos := map fst (member_positions i).
(* the non-typeshare attributes at each member position, in place and in order *)
Definition obs_other_attrs (i : macro_input) : list (list attr) := map (fun p => other_attrs (snd p)) (member_positions i).
(* how many typeshare attributes sit at member positions *)
Definition obs_ts_count (i : macro_input) : nat :=
  list_sum (map (fun p => List.length (typeshare_attrs (snd p))) (member_positions i)).
(* the attributes of the item itself *)
Definition obs_item_attrs (i : macro_input) : list attr :=
  match i with Derive d => di_attrs d | Other a _ => a end.

(* everything that is not a member attribute: the item with all member attribute lists emptied
   (visibility, names, types, generics, where-clause, discriminants, kind of fields, item attributes) *)
Definition bare_field (f : dfield) : dfield :=
  {| df_attrs := []; df_vis := df_vis f; df_ident := df_ident f; df_ty := df_ty f |}.
Definition bare_fields (fs : dfields) : dfields :=
  match fs with DNamed l => DNamed (map bare_field l) | DUnnamed l => DUnnamed (map bare_field l) | DUnit => DUnit end.
Definition bare_variant (v : dvariant) : dvariant :=
  {| dv_attrs := []; dv_ident := dv_ident v; dv_fields := bare_fields (dv_fields v); dv_discr := dv_discr v |}.
Definition c19_skeleton (i : macro_input) : macro_input :=
  match i with
  | Derive d => Derive {| di_attrs := di_attrs d; di_vis := di_vis d; di_ident := di_ident d;
                          di_generics := di_generics d; di_where := di_where d;
                          di_data := match di_data d with
                                     | DDStruct fs => DDStruct (bare_fields fs)
                                     | DDEnum vs => DDEnum (map bare_variant vs)
                                     | DDUnion l => DDUnion (map bare_field l)
                                     end |}
  | Other a t => Other a t
  end.

(* ---- the stripped twin: the same item with EVERY typeshare attribute removed - the invocations
   on the item (`#[typeshare]`, `#[typeshare(..)]`, `#[typeshare::typeshare]`, `#[::typeshare::typeshare]`)
   and the helpers at member positions.  This is the program the user would have written without
   typeshare. *)
Definition names_the_macro (a : attr) : bool :=
  match meta_path (a_meta a) with
  | [x] => str_eqb x (lit "typeshare")
  | [x; y] => str_eqb x (lit "typeshare") && str_eqb y (lit "typeshare")
  | [z; x; y] => str_eqb z [] && str_eqb x (lit "typeshare") && str_eqb y (lit "typeshare")
  | _ => false
  end.
Definition has_invocation (i : macro_input) : bool := existsb names_the_macro (obs_item_attrs i).
Definition stripped_twin (i : macro_input) : macro_input :=
  let a := filter (fun x => negb (names_the_macro x)) (obs_item_attrs i) in
  match erase i with
  | Derive d => Derive {| di_attrs := a; di_vis := di_vis d; di_ident := di_ident d; di_generics := di_generics d;
                          di_where := di_where d; di_data := di_data d |}
  | Other _ t => Other a t
  end.

(* ---- domain and known findings, evaluated by the check on the item as written ([full]: the view of
   a complete Rust parser) and on whether the annotation crate's own syn parses it ([parses]). *)
Definition c19_all_member_attrs (i : macro_input) : list attr := flat_map snd (member_positions i).

(* attributes at member positions that mention typeshare in some other way than the documented
   single-identifier helper: `typeshare::typeshare(..)`, `::typeshare::typeshare(..)`, `r#typeshare(..)`,
   `cfg_attr(.., typeshare(..))`.  typeshare-core does not recognise them as helpers either, so they
   are outside the property's domain. *)
Definition c19_mentions (m : meta) : bool :=
  existsb (fun s => str_eqb s (lit "typeshare") || str_eqb s (lit "r#typeshare")) (meta_path m).
Definition c19_irregular_helper (a : attr) : bool :=
  negb (is_typeshare_attr a) &&
  (c19_mentions (a_meta a) ||
   match a_meta a with
   | MList p (Some args) _ => path_is_ident p (lit "cfg_attr") && existsb c19_mentions args
   | _ => false
   end).
Definition dom_C19 (full : macro_input) : bool := negb (existsb c19_irregular_helper (c19_all_member_attrs full)).

(* finding C19-derive-parse-needs-syn-full: a struct/enum/union with helpers at member positions
   that syn without the "full" feature cannot parse as DeriveInput is handed back unchanged. *)
Definition known_C19 (parses : bool) (full : macro_input) : option string :=
  match full with
  | Derive _ => if negb parses && negb (Nat.eqb (obs_ts_count full) 0) then Some "C19-derive-parse-needs-syn-full"%string else None
  | Other _ _ => None
  end.
