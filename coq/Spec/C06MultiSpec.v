(* C06, multi-file (folder output) mode: the DECIDABLE CLASSES of inputs on which the unchanged code chooses
   by the iteration order of a hash container, stated on observations of the workspace, without the model.
   Gallina counterpart of checks/c06.py `imports_ambiguity` (finding C06-ambiguous-imports), plus the
   per-file class the Python generator never produces (visitors.rs:156).

   Observations.
     table06   crate -> the names its annotated TYPES are generated under (what parse.rs all_types hands to
               used_imports: structs, enums, aliases; no consts)
     defs06    crate -> its annotated types in the order the rename table is filled (structs, enums, aliases):
               Rust name, generated name, "the generated name comes from #[serde(rename = ..)]"
     imports   the import candidates that survive in the files of ONE importing crate, merged over its files
               (explicit `use c::N` / path `c::N` whose N the file mentions, and every glob `use c::*`)

   Class 1, one-name-imported-from-two-crates-that-rename-it-differently (reconcile.rs:169-185
     resolve_renamed: `imports.iter().find_map(..)` over a HashSet): the crate's merged import set holds
     (c1, N) and (c2, N), c1 serde-renames its N to R1, c2 its N to R2, R1 <> R2.  Real inputs excluded: an
     importing crate one of whose files says `use alpha::Item;` and another `use beta::Item;` (or one file that
     names both through paths) where alpha has `#[serde(rename = "AlphaItem")] struct Item` and beta
     `#[serde(rename = "BetaItem")] struct Item`.
   Class 2, import-falls-back-to-one-of-several-crates-generating-the-name (language/mod.rs:439-447, the
     `fallback` closure: `all_types.iter().find(..)` over a HashMap): an import (c, N), c not the importing crate,
     that does not resolve in c - c generates nothing (no entry in the table) or generates no type NAMED N (and
     the import is not a glob of a crate of the table) - while two or more crates other than the importer
     generate a type named N.  The imports meant are those used_imports sees: since the /repo fix of finding
     C14-renamed-import reconcile_aliases puts the import set back with every (c, N) whose N crate c serde-renames
     under the NEW name (reconcile.rs:71-84; `renamed_imports` below), so `use alpha::Item;` where alpha's Item is
     serde-renamed to AlphaItem is the import (alpha, AlphaItem) and resolves.  Real inputs excluded:
     `use alpha::Item;` where alpha has no annotated type at all or none called Item (an unknown or re-exporting
     crate), and both beta and gamma generate a type called Item.
   Class 3, per file (visitors.rs:152-160 reconcile_referenced_types: `import_types.iter().find(..)` over the
     HashSet of ONE file): the file mentions a non-local type name N in a type position and its import candidates
     hold (c1, N) and (c2, N) with c1 <> c2; one of the two is kept, by hash order.  Real inputs excluded: a file
     that says `use alpha::Item;` and also writes the path `beta::Item` somewhere (or writes both paths), and has
     an annotated item with a member of type Item.
   A glob import is in none of the classes: it is never a rename candidate (its name is `*`), it resolves in its
   crate whenever that crate generates anything, and `*` is not a type name. *)
From Coq Require Import String.
From TS Require Import Model.Str Model.Parse.

Definition GLOB06 : str := lit "*".

Record type_def := { td_rust : str; td_generated : str; td_serde : bool }.
Definition defs06 := list (str * list type_def).
Definition table06 := list (str * list str).

Fixpoint get06 {V : Type} (m : list (str * V)) (k : str) : option V :=
  match m with [] => None | (a, v) :: r => if str_eqb a k then Some v else get06 r k end.

(* the name crate c generates its serde-renamed type of Rust name n under (a later definition of the same
   Rust name - another kind, another file - overwrites an earlier one in the rename table) *)
Definition rename_of (defs : defs06) (c n : str) : option str :=
  match get06 defs c with
  | Some ds => option_map td_generated (find (fun d => str_eqb (td_rust d) n && td_serde d) (rev ds))
  | None => None
  end.

(* ---------- class 1 ---------- *)
Definition rename_candidates (defs : defs06) (imports : list imported) (n : str) : list str :=
  flat_map (fun i => if str_eqb (type_name i) n
                     then match rename_of defs (base_crate i) n with Some r => [r] | None => [] end
                     else []) imports.
Definition all_same (l : list str) : bool :=
  match l with [] => true | x :: r => forallb (str_eqb x) r end.
Definition rename_ambiguous (defs : defs06) (imports : list imported) : bool :=
  existsb (fun i => negb (all_same (rename_candidates defs imports (type_name i)))) imports.

(* ---------- class 2 ---------- *)
(* the import set as reconcile_aliases hands it to used_imports (reconcile.rs:71-84): an import of a type its
   crate serde-renames carries the generated name *)
Definition renamed_import (defs : defs06) (i : imported) : imported :=
  match rename_of defs (base_crate i) (type_name i) with
  | Some r => {| base_crate := base_crate i; type_name := r |}
  | None => i
  end.
Definition renamed_imports (defs : defs06) (imports : list imported) : list imported := map (renamed_import defs) imports.
Definition import_resolves (tt : table06) (i : imported) : bool :=
  match get06 tt (base_crate i) with
  | Some names => str_eqb (type_name i) GLOB06 || mem_str (type_name i) names
  | None => false
  end.
Definition fallback_targets (tt : table06) (own n : str) : list (str * list str) :=
  filter (fun kv => negb (str_eqb (fst kv) own) && mem_str n (snd kv)) tt.
Definition fallback_ambiguous (tt : table06) (own : str) (imports : list imported) : bool :=
  existsb (fun i => negb (str_eqb (base_crate i) own) && negb (import_resolves tt i) &&
                    match fallback_targets tt own (type_name i) with _ :: _ :: _ => true | _ => false end) imports.

(* checks/c06.py imports_ambiguity for one importing crate *)
Definition imports_ambiguity (tt : table06) (defs : defs06) (own : str) (imports : list imported) : option string :=
  if rename_ambiguous defs imports then Some "one-name-imported-from-two-crates-that-rename-it-differently"%string
  else if fallback_ambiguous tt own (renamed_imports defs imports) then Some "import-falls-back-to-one-of-several-crates-generating-the-name"%string
  else None.

(* ... and for the workspace: the class of the first importing crate that has one *)
Fixpoint ws_imports_ambiguity (tt : table06) (defs : defs06) (per_crate : list (str * list imported)) : option string :=
  match per_crate with
  | [] => None
  | (c, imports) :: r =>
    match imports_ambiguity tt defs c imports with Some k => Some k | None => ws_imports_ambiguity tt defs r end
  end.

(* ---------- class 3 (one source file) ----------
   refs: the type names the annotated items of the file mention; locals: the names its own types are generated
   under; candidates: what its `use` trees and qualified paths yield *)
Definition file_import_ambiguous (refs locals : list str) (candidates : list imported) : bool :=
  existsb (fun i => mem_str (type_name i) refs && negb (mem_str (type_name i) locals) &&
                    existsb (fun j => str_eqb (type_name j) (type_name i) && negb (str_eqb (base_crate j) (base_crate i)))
                            candidates) candidates.
