(* C10, grammar half for Go: a tokenizer (with the semicolon insertion of the language) and a recursive-descent
   recogniser for the declaration subset the Go back end emits, written from The Go Programming Language
   Specification (go.dev/ref/spec; the productions are quoted below), not from the printer.

   LEXICAL ELEMENTS (spec, "Lexical elements")
     comments        // to the end of the line;  /* ... */ (acts like a newline when it contains one)
     identifier    = letter { letter | unicode_digit } .        letter = ASCII letter | "_" | any code point >= 128
     int / float / imaginary literals: a digit followed by letters, digits, "_" and "." (one token QNum; the inside
                     of a number is not checked); a rune literal '...' is a QNum too (it is an integer constant)
     string_lit    = raw_string_lit | interpreted_string_lit .
     raw_string_lit         = "`" { unicode_char | newline } "`" .
     interpreted_string_lit = DQUOTE { unicode_value | byte_value } DQUOTE .   no newline inside; after a backslash only
                     a b f n r t v, a backslash, the delimiting quote,  three octal digits,  x hh,  u hhhh,  U hhhhhhhh
     every other character is a one-character token QP c (the two-character operators := != && ... are two tokens:
     they only occur inside function bodies, which are recognised as balanced token runs)
     Semicolons ("Semicolons", rule 1): "a semicolon is automatically inserted into the token stream immediately
     after a line's final token if that token is an identifier, an integer, floating-point, imaginary, rune, or
     string literal, one of the keywords break, continue, fallthrough, or return, one of the operators and
     punctuation ++, --, ), ], or }".  (++ and -- are not modelled.)  The tokenizer emits QNl for a line end,
     [c10_go_semis] replaces it by QP 59 after such a token and drops it otherwise; the end of the text counts as a
     line end.  Rule 2 ("a semicolon may be omitted before a closing ) or }") is in the parser.

   SYNTAX (the subset; spec sections "Source file organization", "Declarations and scope", "Types")
     SourceFile     = PackageClause ";" { ImportDecl ";" } { TopLevelDecl ";" } .
     PackageClause  = "package" identifier .
     ImportDecl     = "import" ( ImportSpec | "(" { ImportSpec ";" } ")" ) .
     ImportSpec     = [ "." | identifier ] string_lit .
     TopLevelDecl   = TypeDecl | ConstDecl | FunctionDecl | MethodDecl .               (no VarDecl)
     TypeDecl       = "type" TypeSpec .                                                  (no grouped form)
     TypeSpec       = identifier [ TypeParameters ] [ "=" ] Type .                       (AliasDecl | TypeDef)
     TypeParameters = "[" TypeParamDecl { "," TypeParamDecl } [ "," ] "]" .
     TypeParamDecl  = identifier { "," identifier } Type .                               (the constraint is a Type)
     ConstDecl      = "const" ( ConstSpec | "(" { ConstSpec ";" } ")" ) .
     ConstSpec      = identifier [ Type ] "=" [ "-" | "+" ] ( int_lit | string_lit | identifier ) .
     FunctionDecl   = "func" identifier Signature Block .
     MethodDecl     = "func" Parameters identifier Signature Block .
     Signature      = Parameters [ Parameters | Type ] .
     Parameters     = "(" [ ParameterDecl { "," ParameterDecl } [ "," ] ] ")" .
     ParameterDecl  = [ identifier ] Type .
     Block          = "{" balanced tokens "}"      the BODY of a function is only checked to be a run of tokens
                      whose ( ) [ ] { } are properly nested and matched (statements are not parsed)
     Type           = TypeName [ TypeArgs ] | "(" Type ")" | "[" "]" Type | "[" ( int_lit | identifier ) "]" Type
                    | "*" Type | "map" "[" Type "]" Type | "struct" "{" { FieldDecl ";" } "}" | "interface" "{" "}" .
     TypeName       = identifier | identifier "." identifier .
     TypeArgs       = "[" Type { "," Type } [ "," ] "]" .
     FieldDecl      = identifier { "," identifier } Type [ string_lit ] .               (no embedded fields)
   An identifier at a declaring or type-name position must not be one of the 25 keywords.
   Where the spec's ParameterDecl is ambiguous without types ("(a, b int)" / "(int, string)") the recogniser takes
   an identifier followed by an identifier, a star, "[]" or "[n]" as a parameter NAME.
   A type-parameter list is told from an array length the way the spec's parser note says: "type T[P any] ..." is
   a parameter list as soon as the bracket holds an identifier that is not directly followed by "]".

   [c10_go_recognise text] = Some n : the text is a source file of this grammar with n top-level declarations. *)
From Coq Require Import String.
From TS Require Import Model.Str Model.Types Model.Parse Spec.C10TsGrammar.

Inductive c10_gtok :=
| QId (s : str)
| QStr
| QNum
| QP (c : char)
| QNl.

Definition c10_go_letter (c : char) : bool := is_aalpha c || (c =? ch_us) || (128 <=? c).
Definition c10_go_id_char (c : char) : bool := c10_go_letter c || is_adigit c.
Definition c10_go_num_char (c : char) : bool := c10_go_id_char c || (c =? 46).
Definition c10_go_blank (c : char) : bool := (c =? 32) || (c =? 9) || (c =? 13).
Definition c10_go_hex (c : char) : bool := is_adigit c || ((97 <=? c) && (c <=? 102)) || ((65 <=? c) && (c <=? 70)).
Definition c10_go_oct (c : char) : bool := (48 <=? c) && (c <=? 55).

(* inside a string / rune literal: ordinary text, just after a backslash, n more hexadecimal / octal digits to come *)
Inductive c10_go_sstate := GSNorm | GSEsc | GSHex (n : nat) | GSOct (n : nat).

(* the rest after the closing quote q (None: unterminated, a line end inside, or an escape the language does not have) *)
Fixpoint c10_go_skip_string (q : char) (st : c10_go_sstate) (s : str) : option str :=
  match s with
  | [] => None
  | c :: r =>
    match st with
    | GSNorm => if c =? q then Some r
                else if c =? ch_bs then c10_go_skip_string q GSEsc r
                else if c =? ch_nl then None
                else c10_go_skip_string q GSNorm r
    | GSEsc => if (c =? 97) || (c =? 98) || (c =? 102) || (c =? 110) || (c =? 114) || (c =? 116) || (c =? 118) || (c =? ch_bs) || (c =? q)
               then c10_go_skip_string q GSNorm r
               else if c =? 120 then c10_go_skip_string q (GSHex 1) r
               else if c =? 117 then c10_go_skip_string q (GSHex 3) r
               else if c =? 85 then c10_go_skip_string q (GSHex 7) r
               else if c10_go_oct c then c10_go_skip_string q (GSOct 1) r
               else None
    | GSHex n => if c10_go_hex c then c10_go_skip_string q (match n with O => GSNorm | S m => GSHex m end) r else None
    | GSOct n => if c10_go_oct c then c10_go_skip_string q (match n with O => GSNorm | S m => GSOct m end) r else None
    end
  end.

(* the rest after the closing back-tick of a raw string *)
Fixpoint c10_go_skip_raw (s : str) : option str :=
  match s with
  | [] => None
  | c :: r => if c =? 96 then Some r else c10_go_skip_raw r
  end.

(* the rest after the closing star-slash of a general comment, and whether a line end was seen *)
Fixpoint c10_go_skip_block (seen : bool) (s : str) : option (bool * str) :=
  match s with
  | [] => None
  | c :: r => if (c =? 42) && match r with d :: _ => d =? 47 | [] => false end
              then Some (seen, tl r) else c10_go_skip_block (seen || (c =? ch_nl)) r
  end.

(* one step: skip blanks / a comment (no token), or cut one token *)
Definition c10_go_next (s : str) : option (option c10_gtok * str) :=
  match s with
  | [] => None
  | c :: r =>
    if c10_go_blank c then Some (None, r)
    else if c =? ch_nl then Some (Some QNl, r)
    else if (c =? 47) && match r with d :: _ => d =? 47 | [] => false end
    then let '(_, b) := c10_take_while (fun x => negb (x =? ch_nl)) r in Some (None, b)
    else if (c =? 47) && match r with d :: _ => d =? 42 | [] => false end
    then match c10_go_skip_block false (tl r) with
         | Some (seen, r') => Some (if seen then Some QNl else None, r')
         | None => None
         end
    else if c =? ch_dq then match c10_go_skip_string ch_dq GSNorm r with Some r' => Some (Some QStr, r') | None => None end
    else if c =? ch_sq then match c10_go_skip_string ch_sq GSNorm r with Some r' => Some (Some QNum, r') | None => None end
    else if c =? 96 then match c10_go_skip_raw r with Some r' => Some (Some QStr, r') | None => None end
    else if c10_go_letter c then let '(a, b) := c10_take_while c10_go_id_char s in Some (Some (QId a), b)
    else if is_adigit c then let '(_, b) := c10_take_while c10_go_num_char s in Some (Some QNum, b)
    else Some (Some (QP c), r)
  end.

Fixpoint c10_go_tokens (fuel : nat) (s : str) : option (list c10_gtok) :=
  match fuel with
  | O => None
  | S f =>
    match s with
    | [] => Some []
    | _ => match c10_go_next s with
           | None => None
           | Some (ot, r) =>
             match c10_go_tokens f r with
             | Some ts => Some (match ot with Some t => t :: ts | None => ts end)
             | None => None
             end
           end
    end
  end.

(* ------------------------------------------------------------------ semicolon insertion *)
Definition c10_go_keywords : list str :=
  map lit ["break"; "case"; "chan"; "const"; "continue"; "default"; "defer"; "else"; "fallthrough"; "for"; "func"; "go"; "goto";
           "if"; "import"; "interface"; "map"; "package"; "range"; "return"; "select"; "struct"; "switch"; "type"; "var"]%string.
Definition c10_go_kw (s : str) : bool := mem_str s c10_go_keywords.

(* the tokens after which a line end becomes a semicolon *)
Definition c10_go_trigger (t : c10_gtok) : bool :=
  match t with
  | QId s => negb (c10_go_kw s) || mem_str s (map lit ["break"; "continue"; "fallthrough"; "return"]%string)
  | QStr | QNum => true
  | QP c => (c =? 41) || (c =? 93) || (c =? 125)
  | QNl => false
  end.

Fixpoint c10_go_semis (fl : bool) (ts : list c10_gtok) : list c10_gtok :=
  match ts with
  | [] => []
  | QNl :: r => if fl then QP 59 :: c10_go_semis false r else c10_go_semis false r
  | t :: r => t :: c10_go_semis (c10_go_trigger t) r
  end.

(* ------------------------------------------------------------------ the parser *)
Definition c10_go_is_p (c : char) (t : c10_gtok) : bool := match t with QP d => d =? c | _ => false end.
Definition c10_go_is_kw (w : string) (t : c10_gtok) : bool := match t with QId s => str_eqb s (lit w) | _ => false end.
(* an identifier that is not a keyword *)
Definition c10_go_is_name (t : c10_gtok) : bool := match t with QId s => negb (c10_go_kw s) | _ => false end.

Definition c10_go_eat (c : char) (ts : list c10_gtok) : option (list c10_gtok) :=
  match ts with t :: r => if c10_go_is_p c t then Some r else None | [] => None end.
Definition c10_go_eat_kw (w : string) (ts : list c10_gtok) : option (list c10_gtok) :=
  match ts with t :: r => if c10_go_is_kw w t then Some r else None | [] => None end.
Definition c10_go_eat_name (ts : list c10_gtok) : option (list c10_gtok) :=
  match ts with t :: r => if c10_go_is_name t then Some r else None | [] => None end.

(* types, type-argument lists, struct bodies and field declarations, mutually recursive: one function with a mode and
   explicit fuel *)
Inductive c10_go_mode := QType | QArgsTail | QFields | QField.

Fixpoint c10_gg (fuel : nat) (m : c10_go_mode) (ts : list c10_gtok) : option (list c10_gtok) :=
  match fuel with
  | O => None
  | S f =>
    match m with
    | QType =>
      match ts with
      | QId s :: r =>
        if str_eqb s (lit "struct") then match c10_go_eat 123 r with Some r1 => c10_gg f QFields r1 | None => None end
        else if str_eqb s (lit "interface") then match c10_go_eat 123 r with Some r1 => c10_go_eat 125 r1 | None => None end
        else if str_eqb s (lit "map")
        then match c10_go_eat 91 r with
             | Some r1 => match c10_gg f QType r1 with
                          | Some r2 => match c10_go_eat 93 r2 with Some r3 => c10_gg f QType r3 | None => None end
                          | None => None
                          end
             | None => None
             end
        else if c10_go_kw s then None
        else
          (* TypeName = identifier | identifier "." identifier, then optional type arguments *)
          let r1 := match r with
                    | t :: t2 :: r' => if c10_go_is_p 46 t && c10_go_is_name t2 then Some r' else if c10_go_is_p 46 t then None else Some r
                    | [t] => if c10_go_is_p 46 t then None else Some r
                    | [] => Some r
                    end in
          match r1 with
          | Some (t :: r2) => if c10_go_is_p 91 t
                              then match c10_gg f QType r2 with Some r3 => c10_gg f QArgsTail r3 | None => None end
                              else r1
          | _ => r1
          end
      | QP c :: r =>
        if c =? 42 then c10_gg f QType r
        else if c =? 40 then match c10_gg f QType r with Some r1 => c10_go_eat 41 r1 | None => None end
        else if c =? 91 then
          match r with
          | t :: r1 =>
            if c10_go_is_p 93 t then c10_gg f QType r1
            else match t, r1 with
                 | (QNum | QId _), t2 :: r2 => if (match t with QId _ => c10_go_is_name t | _ => true end) && c10_go_is_p 93 t2
                                               then c10_gg f QType r2 else None
                 | _, _ => None
                 end
          | [] => None
          end
        else None
      | _ => None
      end
    | QArgsTail =>
      match ts with
      | t :: r => if c10_go_is_p 93 t then Some r
                  else if c10_go_is_p 44 t
                  then match r with
                       | t2 :: r2 => if c10_go_is_p 93 t2 then Some r2
                                     else match c10_gg f QType r with Some r3 => c10_gg f QArgsTail r3 | None => None end
                       | [] => None
                       end
                  else None
      | [] => None
      end
    | QFields =>
      match ts with
      | t :: r => if c10_go_is_p 125 t then Some r
                  else match c10_gg f QField ts with
                       | Some (t2 :: r2) => if c10_go_is_p 59 t2 then c10_gg f QFields r2
                                            else if c10_go_is_p 125 t2 then Some r2 else None
                       | _ => None
                       end
      | [] => None
      end
    | QField =>
      match ts with
      | t :: r =>
        if c10_go_is_name t then
          match r with
          | t2 :: r2 => if c10_go_is_p 44 t2 then c10_gg f QField r2
                        else match c10_gg f QType r with
                             | Some (QStr :: r3) => Some r3
                             | other => other
                             end
          | [] => None
          end
        else None
      | [] => None
      end
    end
  end.

Definition c10_go_type (ts : list c10_gtok) : option (list c10_gtok) := c10_gg (S (S (4 * List.length ts))) QType ts.

(* "[" TypeParamDecl { "," TypeParamDecl } [ "," ] "]" after the opening bracket *)
Fixpoint c10_go_tparams (fuel : nat) (ts : list c10_gtok) : option (list c10_gtok) :=
  match fuel with
  | O => None
  | S f =>
    match ts with
    | t :: t2 :: r2 =>
      if c10_go_is_name t then
        if c10_go_is_p 44 t2 then c10_go_tparams f r2
        else match c10_go_type (t2 :: r2) with
             | Some (t3 :: r3) => if c10_go_is_p 93 t3 then Some r3
                                  else if c10_go_is_p 44 t3
                                  then match r3 with
                                       | t4 :: r4 => if c10_go_is_p 93 t4 then Some r4 else c10_go_tparams f r3
                                       | [] => None
                                       end
                                  else None
             | _ => None
             end
      else None
    | _ => None
    end
  end.

(* the optional type-parameter list of a type declaration *)
Definition c10_go_opt_tparams (ts : list c10_gtok) : option (list c10_gtok) :=
  match ts with
  | t :: QId g :: t3 :: r => if c10_go_is_p 91 t && negb (c10_go_is_p 93 t3) then c10_go_tparams (List.length ts) (QId g :: t3 :: r) else Some ts
  | _ => Some ts
  end.

Definition c10_go_type_decl (ts : list c10_gtok) : option (list c10_gtok) :=
  match c10_go_eat_name ts with
  | Some r1 =>
    match c10_go_opt_tparams r1 with
    | Some r2 => c10_go_type (match r2 with t :: r3 => if c10_go_is_p 61 t then r3 else r2 | [] => r2 end)
    | None => None
    end
  | None => None
  end.

(* identifier [ Type ] "=" [sign] operand *)
Definition c10_go_const_spec (ts : list c10_gtok) : option (list c10_gtok) :=
  match c10_go_eat_name ts with
  | Some r1 =>
    let r2 := match r1 with
              | t :: _ => if c10_go_is_p 61 t then Some r1 else c10_go_type r1
              | [] => None
              end in
    match r2 with
    | Some r3 =>
      match c10_go_eat 61 r3 with
      | Some r4 =>
        let r5 := match r4 with t :: r' => if c10_go_is_p 45 t || c10_go_is_p 43 t then r' else r4 | [] => r4 end in
        match r5 with
        | QNum :: r6 | QStr :: r6 => Some r6
        | t :: r6 => if c10_go_is_name t then Some r6 else None
        | [] => None
        end
      | None => None
      end
    | None => None
    end
  | None => None
  end.

(* the specs of a grouped declaration, after the opening parenthesis *)
Fixpoint c10_go_group (spec : list c10_gtok -> option (list c10_gtok)) (fuel : nat) (ts : list c10_gtok) : option (list c10_gtok) :=
  match fuel with
  | O => None
  | S f =>
    match ts with
    | t :: r => if c10_go_is_p 41 t then Some r
                else match spec ts with
                     | Some (t2 :: r2) => if c10_go_is_p 59 t2 then c10_go_group spec f r2
                                          else if c10_go_is_p 41 t2 then Some r2 else None
                     | _ => None
                     end
    | [] => None
    end
  end.

Definition c10_go_const_decl (ts : list c10_gtok) : option (list c10_gtok) :=
  match ts with
  | t :: r => if c10_go_is_p 40 t then c10_go_group c10_go_const_spec (S (List.length r)) r else c10_go_const_spec ts
  | [] => None
  end.

Definition c10_go_import_spec (ts : list c10_gtok) : option (list c10_gtok) :=
  match ts with
  | QStr :: r => Some r
  | t :: QStr :: r => if c10_go_is_p 46 t || c10_go_is_name t then Some r else None
  | _ => None
  end.

Definition c10_go_import_decl (ts : list c10_gtok) : option (list c10_gtok) :=
  match ts with
  | t :: r => if c10_go_is_p 40 t then c10_go_group c10_go_import_spec (S (List.length r)) r else c10_go_import_spec ts
  | [] => None
  end.

(* ParameterDecl { "," ParameterDecl } [ "," ] ")" after the opening parenthesis (the empty list is handled by the caller) *)
Definition c10_go_param_named (ts : list c10_gtok) : bool :=
  match ts with
  | t :: t2 :: r =>
    c10_go_is_name t &&
    (match t2 with QId _ => true | _ => false end || c10_go_is_p 42 t2 ||
     (c10_go_is_p 91 t2 && match r with
                           | t3 :: r3 => c10_go_is_p 93 t3 || (match t3 with QNum => true | _ => false end && match r3 with t4 :: _ => c10_go_is_p 93 t4 | [] => false end)
                           | [] => false
                           end))
  | _ => false
  end.

Fixpoint c10_go_params_tail (fuel : nat) (ts : list c10_gtok) : option (list c10_gtok) :=
  match fuel with
  | O => None
  | S f =>
    match c10_go_type (if c10_go_param_named ts then tl ts else ts) with
    | Some (t :: r) => if c10_go_is_p 41 t then Some r
                       else if c10_go_is_p 44 t
                       then match r with
                            | t2 :: r2 => if c10_go_is_p 41 t2 then Some r2 else c10_go_params_tail f r
                            | [] => None
                            end
                       else None
    | _ => None
    end
  end.

Definition c10_go_params (ts : list c10_gtok) : option (list c10_gtok) :=
  match c10_go_eat 40 ts with
  | Some (t :: r) => if c10_go_is_p 41 t then Some r else c10_go_params_tail (S (List.length r)) (t :: r)
  | _ => None
  end.

(* Block: the tokens up to the brace that closes the one already opened; [st] = the closers expected, innermost first *)
Definition c10_go_closer (t : c10_gtok) : option char :=
  match t with QP c => if c =? 40 then Some 41 else if c =? 91 then Some 93 else if c =? 123 then Some 125 else None | _ => None end.
Definition c10_go_is_close (t : c10_gtok) : bool := c10_go_is_p 41 t || c10_go_is_p 93 t || c10_go_is_p 125 t.

Fixpoint c10_go_block (st : list char) (ts : list c10_gtok) : option (list c10_gtok) :=
  match ts with
  | [] => None
  | t :: r =>
    match c10_go_closer t with
    | Some k => c10_go_block (k :: st) r
    | None =>
      if c10_go_is_close t then
        match st with
        | k :: st' => if c10_go_is_p k t then match st' with [] => Some r | _ => c10_go_block st' r end else None
        | [] => None
        end
      else c10_go_block st r
    end
  end.

Definition c10_go_func_decl (ts : list c10_gtok) : option (list c10_gtok) :=
  let after_recv := match ts with
                    | t :: _ => if c10_go_is_p 40 t then c10_go_params ts else Some ts
                    | [] => None
                    end in
  match after_recv with
  | Some r1 =>
    match c10_go_eat_name r1 with
    | Some r2 =>
      match c10_go_params r2 with
      | Some (t :: r3) =>
        let res := if c10_go_is_p 123 t then Some (t :: r3)
                   else if c10_go_is_p 40 t then c10_go_params (t :: r3)
                   else c10_go_type (t :: r3) in
        match res with
        | Some (t4 :: r4) => if c10_go_is_p 123 t4 then c10_go_block [125] r4 else None
        | _ => None
        end
      | _ => None
      end
    | None => None
    end
  | None => None
  end.

(* one top-level declaration, without the semicolon that ends it *)
Definition c10_go_decl (ts : list c10_gtok) : option (list c10_gtok) :=
  match ts with
  | QId k :: r =>
    if str_eqb k (lit "type") then c10_go_type_decl r
    else if str_eqb k (lit "const") then c10_go_const_decl r
    else if str_eqb k (lit "func") then c10_go_func_decl r
    else None
  | _ => None
  end.

Fixpoint c10_go_decls (fuel : nat) (ts : list c10_gtok) : option nat :=
  match fuel with
  | O => None
  | S f =>
    match ts with
    | [] => Some O
    | _ => match c10_go_decl ts with
           | Some r => match c10_go_eat 59 r with
                       | Some r' => match c10_go_decls f r' with Some n => Some (S n) | None => None end
                       | None => None
                       end
           | None => None
           end
    end
  end.

Fixpoint c10_go_imports (fuel : nat) (ts : list c10_gtok) : option (list c10_gtok) :=
  match fuel with
  | O => None
  | S f =>
    match ts with
    | t :: r => if c10_go_is_kw "import" t
                then match c10_go_import_decl r with
                     | Some r1 => match c10_go_eat 59 r1 with Some r2 => c10_go_imports f r2 | None => None end
                     | None => None
                     end
                else Some ts
    | [] => Some ts
    end
  end.

Definition c10_go_file (ts : list c10_gtok) : option nat :=
  match c10_go_eat_kw "package" ts with
  | Some r1 =>
    match c10_go_eat_name r1 with
    | Some r2 =>
      match c10_go_eat 59 r2 with
      | Some r3 => match c10_go_imports (S (List.length r3)) r3 with
                   | Some r4 => c10_go_decls (S (List.length r4)) r4
                   | None => None
                   end
      | None => None
      end
    | None => None
    end
  | None => None
  end.

(* the verdict: Some n = the text is a source file with n top-level declarations; None = not in the grammar *)
Definition c10_go_recognise (text : str) : option nat :=
  match c10_go_tokens (S (List.length text)) text with
  | Some ts => c10_go_file (c10_go_semis false (ts ++ [QNl]))
  | None => None
  end.

(* ------------------------------------------------------------------ a finding class the recogniser exposes *)
(* The Go back end escapes no keyword: a type named after one of the 25 keywords (a struct through its serde name, an enum
   or alias through its Rust name - `pub struct r#type`, `enum switch`), a reference to such a type, a generic parameter,
   a unit-enum constant (enum name ++ variant name), the content key of an algebraic enum (the private field `type interface{}`) or the accessor method of an algebraic variant (named after the
   variant: `func (s E) default() ...`) is printed as it is: `type switch struct{`, which is not a TypeSpec.
   Decided on the IR ([parsed], types only). *)
Fixpoint c10_go_rtype_kw (t : rtype) : bool :=
  match t with
  | RSimple id => c10_go_kw id
  | RGeneric id ps => c10_go_kw id || existsb c10_go_rtype_kw ps
  | RVec x | RSlice x | ROption x | RArray x _ => c10_go_rtype_kw x
  | RHashMap k v => c10_go_rtype_kw k || c10_go_rtype_kw v
  | RPrim _ => false
  end.
Definition c10_go_fields_kw (fs : list rfield) : bool := existsb (fun f => c10_go_rtype_kw (fty f)) fs.
Definition c10_go_kw_class (pd : parsed) : bool :=
  existsb (fun s => c10_go_kw (renamed (sid s)) || existsb c10_go_kw (sgenerics s) || c10_go_fields_kw (sfields s)) (p_structs pd) ||
  existsb (fun e => let sh := enum_shared e in
                    c10_go_kw (original (eid sh)) ||
                    (* the content key of an algebraic enum is printed bare as the struct's private field: `type interface{}` *)
                    match e with EAlgebraic _ content _ => c10_go_kw content | EUnit _ => false end ||
                    existsb (fun v => match e with
                                      | EUnit _ => c10_go_kw (original (eid sh) ++ original (vid (variant_shared v)))
                                      | EAlgebraic _ _ _ => c10_go_kw (original (vid (variant_shared v)))
                                      end ||
                                      match v with
                                      | VUnit _ => false
                                      | VTuple t _ => c10_go_rtype_kw t
                                      | VAnon fs _ => c10_go_fields_kw fs
                                      end) (evariants sh)) (p_enums pd) ||
  existsb (fun a => c10_go_kw (original (aid a)) || c10_go_rtype_kw (atype a)) (p_aliases pd) ||
  existsb (fun c => c10_go_rtype_kw (ctype c)) (p_consts pd).
Definition known_C10_go_grammar (pd : parsed) : list string :=
  if c10_go_kw_class pd then ["C10-go-keyword-name"%string] else [].
