(* C17: what a run is responsible for, what it may touch, the verdict predicates the check evaluates
   on observed file systems, and the (now empty) finding classification.  All computable.
   Uses only the data types of Model/Writer.v (fs, outputs, fs_read, content); never the writer. *)
From TS Require Import Model.Str Model.Writer.

(* the crates whose generation completed before the first failure, in order *)
Fixpoint generated_prefix (crates : list (fpath * gen_result)) : list (fpath * bytes) :=
  match crates with
  | [] => []
  | (n, Generated b) :: r => (n, b) :: generated_prefix r
  | (_, GenFailed) :: _ => []
  end.

Definition all_generated (crates : list (fpath * gen_result)) : bool :=
  forallb (fun c => match snd c with Generated _ => true | GenFailed => false end) crates.

(* the run exits with status 0 *)
Definition succeeds (o : outputs) : bool :=
  match o with
  | ParseErrors => false
  | SingleFile _ (Some (Generated _)) => true
  | SingleFile _ _ => false
  | MultiFile _ crates _ => all_generated crates
  end.

Definition codable_path (folder : fpath) : fpath := path_join folder CODABLE_FILE.

(* the files a successful run is responsible for, each with the bytes it is meant to hold: the
   output file (-o), or one file per crate plus Swift's shared Codable.swift (-d).  When
   all_generated holds, generated_prefix is the whole crate list.  A failed run is responsible for
   nothing. *)
Definition responsible (o : outputs) : list (fpath * bytes) :=
  if succeeds o then
    match o with
    | ParseErrors => []
    | SingleFile f (Some (Generated b)) => [(f, b)]
    | SingleFile _ _ => []
    | MultiFile folder crates codable =>
        map (fun c => (path_join folder (fst c), snd c)) (generated_prefix crates) ++
        match codable with Some c => [(codable_path folder, c ++ [ch_nl])] | None => [] end
    end
  else [].

(* every path a run (successful or not) can write to: a failing run stops at the first crate whose
   generation fails and never reaches post_generation *)
Definition may_touch (o : outputs) : list fpath :=
  match o with
  | ParseErrors => []
  | SingleFile f (Some (Generated _)) => [f]
  | SingleFile _ _ => []
  | MultiFile folder crates codable =>
      map (fun c => path_join folder (fst c)) (generated_prefix crates) ++
      (if all_generated crates then match codable with Some _ => [codable_path folder] | None => [] end else [])
  end.

(* domain of the theorems: the run's output files are pairwise distinct (two crates never share an
   output file name, and no crate's file is Codable.swift) *)
Fixpoint distinct_paths (l : list fpath) : bool :=
  match l with
  | [] => true
  | x :: r => negb (mem_str x r) && distinct_paths r
  end.
Definition dom_C17 (o : outputs) : bool := distinct_paths (may_touch o).

(* Finding classes: none is open.  The class C17-swift-codable-rewritten (write_codable_file compared
   Codable.swift with the contents minus the newline it writes, so every run rewrote the file) was
   repaired in /repo by 0622333; the model follows the repaired code and the theorems carry no
   carve-out.  The function stays so that the check's verdict plumbing is the same as everywhere. *)
Definition known_C17 (o : outputs) : option str := None.

(* ---- verdict predicates on observations ---- *)
Definition file_eqb (a b : option file) : bool :=
  match a, b with
  | Some (x, t), Some (y, u) => str_eqb x y && (t =? u)
  | None, None => true
  | _, _ => false
  end.
Definition obytes_eqb (a b : option bytes) : bool :=
  match a, b with
  | Some x, Some y => str_eqb x y
  | None, None => true
  | _, _ => false
  end.

(* same files, same bytes, same modification times *)
Definition fs_same (a b : fs) : bool :=
  forallb (fun e => file_eqb (fs_read a (fst e)) (fs_read b (fst e))) (a ++ b).

(* an identical re-run left every file byte-identical and untouched *)
Definition good_rerun (before after : fs) : bool := fs_same before after.

(* every file in [resp] holds what a run into an empty location produces; [fresh] is the file
   system after such a run *)
Definition good_fresh (resp : list fpath) (after fresh : fs) : bool :=
  forallb (fun p => obytes_eqb (content after p) (content fresh p)) resp.

(* the generator never hands the writer an empty buffer for a file it is responsible for *)
Definition nonempty_outputs (o : outputs) : bool :=
  forallb (fun pb => negb (is_empty_bytes (snd pb))) (responsible o).
