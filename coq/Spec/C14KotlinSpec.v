(* C14, Kotlin: how an import pair (module, generated name) of Spec/C14Spec.v is READ in a generated Kotlin file.
   A Kotlin class is declared under prefix ++ generated name in the package <package>.<crate>; the import line for
   the pair (crate, name) therefore has to say `import <package>.<crate>.<prefix><name>` (kotlin.rs write_imports
   since fix 26 of /repo; before it the line named the UNPREFIXED name, which no file declares when the prefix is
   non-empty: former finding C14-kotlin-import-prefix).  Nothing here calls the model. *)
From Coq Require Import List Bool.
From TS Require Import Model.Str Model.Types Spec.C09Spec.
Import ListNotations.

(* the import line (without its line end) that names the class of type [name] of crate [crate] *)
Definition c14_kt_import_line (package prefix crate name : str) : str :=
  lit "import " ++ package ++ lit "." ++ crate ++ lit "." ++ prefix ++ name.

(* the whole block: one line per pair, in the order of the pairs, then an empty line *)
Definition c14_kt_import_block (package prefix : str) (pairs : list (str * str)) : str :=
  List.concat (map (fun kn => c14_kt_import_line package prefix (fst kn) (snd kn) ++ [ch_nl]) pairs) ++ [ch_nl].

(* the one class of TYPE items that Kotlin does not declare under prefix ++ generated name: a plain `typealias` (no
   JvmInline decorator) of a serde-renamed alias is declared under prefix ++ RUST name - the open finding
   C09-kotlin-alias (kotlin.rs:125), which an import of that alias from another crate inherits *)
Definition c14_kt_alias_class (it : ritem) : bool :=
  match it with
  | ItAlias a => negb (c09_alias_inline a) && negb (str_eqb (renamed (aid a)) (original (aid a)))
  | _ => false
  end.
