(* C05 - type expressions translate structurally, losslessly and honour type mappings.
   Declarative oracle; nothing here calls the model's translators (only the data types of the syn-level
   AST, of the IR and of target type expressions, and the string library, are shared).

   Part A  what Rust type expression a syn type denotes              [c05_denote], [c05_src_ok]
   Part B  what the IR type becomes in each target language:
             [c05_core]    language-independent skeleton: where a mapping replaces, what is a generic
                           parameter, what is a user type, which container stands where (order kept)
             [c05_render]  THE REVIEWED LIST of identifications each language makes when it spells the
                           skeleton (one line per construct and language)
             [c05_erase]   = render of core
   Part C  the primitive table: JSON category and value range of every Rust primitive and of every
           target type name a back end may print for one
   and the computable dom / known / good predicates the check evaluates on the implementation. *)
From Coq Require Import String ZArith List.
From TS Require Import Model.Str Model.Syntax Model.Types Model.Lang.Decl.
From TS Require Spec.C02Spec.
Import ListNotations.
Open Scope N_scope.

(* ------------------------------------------------------------------------------------------ *)
(* Part A: syn type -> IR type                                                                 *)
(* ------------------------------------------------------------------------------------------ *)

(* serde-transparent wrappers: the value is serialised as its content *)
Definition c05_wrappers : list str :=
  [lit "Box"; lit "Weak"; lit "Arc"; lit "Rc"; lit "Cow"; lit "ArcWeak"; lit "RcWeak"; lit "Cell";
   lit "Mutex"; lit "RefCell"; lit "RwLock"].

(* the primitive a (last path segment) name denotes; [&str] reaches this as [str] under a TRef *)
Definition c05_prim_of (id : str) : option prim :=
  if str_eqb id (lit "String") || str_eqb id (lit "str") then Some PString
  else if str_eqb id (lit "char") then Some PChar
  else if str_eqb id (lit "bool") then Some PBool
  else if str_eqb id (lit "i8") then Some PI8
  else if str_eqb id (lit "i16") then Some PI16
  else if str_eqb id (lit "i32") then Some PI32
  else if str_eqb id (lit "u8") then Some PU8
  else if str_eqb id (lit "u16") then Some PU16
  else if str_eqb id (lit "u32") then Some PU32
  else if str_eqb id (lit "I54") then Some PI54
  else if str_eqb id (lit "U53") then Some PU53
  else if str_eqb id (lit "f32") then Some PF32
  else if str_eqb id (lit "f64") then Some PF64
  else if str_eqb id (lit "OffsetDateTime") then Some PDateTime
  else None.

(* integer types typeshare documents as unsupported *)
Definition c05_unsupported_ints : list str := [lit "u64"; lit "i64"; lit "usize"; lit "isize"].

Definition c05_dummy : rtype := RPrim PUnit.

(* the type arguments of a path segment, lifetimes / const arguments dropped, order kept *)
Fixpoint c05_targs {A} (f : ty -> A) (args : list (option ty)) : list A :=
  match args with
  | [] => []
  | None :: r => c05_targs f r
  | Some t :: r => f t :: c05_targs f r
  end.

(* what a path denotes once its type arguments are known *)
Definition c05_path (id : str) (ps : list rtype) : rtype :=
  if str_eqb id (lit "Vec") then RVec (hd c05_dummy ps)
  else if str_eqb id (lit "Option") then ROption (hd c05_dummy ps)
  else if str_eqb id (lit "HashMap") then RHashMap (hd c05_dummy ps) (hd c05_dummy (tl ps))
  else if mem_str id c05_wrappers then hd c05_dummy ps            (* the wrapper vanishes *)
  else match c05_prim_of id with
       | Some p => RPrim p
       | None => match ps with [] => RSimple id | _ => RGeneric id ps end   (* user type: name kept, arguments in order *)
       end.

Fixpoint c05_denote (t : ty) : rtype :=
  match t with
  | TRef x => c05_denote x                                         (* references vanish *)
  | TTuple _ => RPrim PUnit
  | TSlice x => RSlice (c05_denote x)
  | TArray x (ALit (Some n)) => RArray (c05_denote x) n
  | TArray x _ => c05_dummy
  | TPath _ id args =>                                             (* qualification dropped *)
    c05_path id ((fix go (l : list (option ty)) : list rtype :=
                    match l with
                    | [] => []
                    | None :: r => go r
                    | Some a :: r => c05_denote a :: go r
                    end) args)
  | TOther => c05_dummy
  end.

(* the type is built from supported pieces only (right arities, no unsupported leaf) *)
Definition c05_path_ok (id : str) (nargs : nat) : bool :=
  if str_eqb id (lit "Vec") || str_eqb id (lit "Option") || mem_str id c05_wrappers then Nat.leb 1 nargs
  else if str_eqb id (lit "HashMap") then Nat.leb 2 nargs
  else negb (mem_str id c05_unsupported_ints).

Fixpoint c05_src_ok (t : ty) : bool :=
  match t with
  | TRef x => c05_src_ok x
  | TTuple [] => true
  | TTuple _ => false
  | TSlice x => c05_src_ok x
  | TArray x (ALit (Some _)) => c05_src_ok x
  | TArray _ _ => false
  | TPath _ id args =>
    c05_path_ok id (List.length (c05_targs (fun _ => tt) args)) &&
    (fix go (l : list (option ty)) : bool :=
       match l with
       | [] => true
       | None :: r => go r
       | Some a :: r => c05_src_ok a && go r
       end) args
  | TOther => false
  end.

(* ------------------------------------------------------------------------------------------ *)
(* Part B: IR type -> target type expression                                                   *)
(* ------------------------------------------------------------------------------------------ *)

Definition c05_tmap := list (str * str).
Fixpoint c05_lookup (m : c05_tmap) (k : str) : option str :=
  match m with [] => None | (a, b) :: r => if str_eqb a k then Some b else c05_lookup r k end.

(* the configuration facets the translation of a type expression may depend on *)
Record c05_cfg := { c05_m : c05_tmap;          (* type_mappings *)
                    c05_pre : str;             (* prefix (Kotlin, Swift) *)
                    c05_nps : bool }.          (* Go: no_pointer_slice *)

(* Rust spelling of a primitive = the key a user writes in type_mappings *)
Definition c05_prim_name (p : prim) : str :=
  match p with
  | PUnit => lit "()" | PString => lit "String" | PChar => lit "char" | PBool => lit "bool"
  | PI8 => lit "i8" | PI16 => lit "i16" | PI32 => lit "i32" | PI64 => lit "i64"
  | PU8 => lit "u8" | PU16 => lit "u16" | PU32 => lit "u32" | PU64 => lit "u64"
  | PISize => lit "isize" | PUSize => lit "usize" | PF32 => lit "f32" | PF64 => lit "f64"
  | PI54 => lit "I54" | PU53 => lit "U53" | PDateTime => lit "OffsetDateTime"
  end.

(* the Rust spelling of an IR type: the name under which a container INSTANCE is mapped
   (type_mappings "Vec<u8>" = "Uint8Array") *)
Fixpoint c05_rust_name (t : rtype) : str :=
  match t with
  | RSimple id => id
  | RGeneric id ps =>
    match ps with
    | [] => id
    | _ => id ++ lit "<" ++ join (lit ", ") (map c05_rust_name ps) ++ lit ">"
    end
  | RVec x => lit "Vec<" ++ c05_rust_name x ++ lit ">"
  | RArray x n => lit "[" ++ c05_rust_name x ++ lit "; " ++ dec_of_N n ++ lit "]"
  | RSlice x => lit "&[" ++ c05_rust_name x ++ lit "]"
  | RHashMap k v => lit "HashMap<" ++ c05_rust_name k ++ lit ", " ++ c05_rust_name v ++ lit ">"
  | ROption x => lit "Option<" ++ c05_rust_name x ++ lit ">"
  | RPrim p => c05_prim_name p
  end.

(* the key the unchanged tool looks a special type up under (its Display): no blank after the comma
   of a HashMap, the length of an array is dropped, an Option shows only the head of its content *)
Definition c05_head (t : rtype) : str :=
  match t with
  | RSimple id | RGeneric id _ => id
  | RVec _ => lit "Vec" | RArray _ _ => lit "[]" | RSlice _ => lit "&[]"
  | RHashMap _ _ => lit "HashMap" | ROption _ => lit "Option"
  | RPrim p => c05_prim_name p
  end.
Fixpoint c05_tool_key (t : rtype) : str :=
  match t with
  | RSimple id => id
  | RGeneric id ps =>
    match ps with
    | [] => id
    | _ => id ++ lit "<" ++ join (lit ", ") (map c05_tool_key ps) ++ lit ">"
    end
  | RVec x => lit "Vec<" ++ c05_tool_key x ++ lit ">"
  | RArray x _ => lit "[" ++ c05_tool_key x ++ lit "]"
  | RSlice x => lit "&[" ++ c05_tool_key x ++ lit "]"
  | RHashMap k v => lit "HashMap<" ++ c05_tool_key k ++ lit "," ++ c05_tool_key v ++ lit ">"
  | ROption x => lit "Option<" ++ c05_head x ++ lit ">"
  | RPrim p => c05_prim_name p
  end.

(* TypeScript, Go and Python support mappings of primitives and of container instances;
   Kotlin, Swift and Scala mappings of named types and primitives *)
Definition c05_instances (L : lang) : bool :=
  match L with TypeScript | Go | Python => true | Kotlin | Swift | Scala => false end.

(* the language-independent skeleton of a translated type *)
Inductive c05_tree :=
| CMapped (n : str)                                       (* replaced by the configured name, verbatim *)
| CName (param : bool) (id : str) (args : list c05_tree)  (* generic parameter / user type with its arguments *)
| CSeq (c : c05_tree)                                     (* Vec<T>, &[T] *)
| CArr (n : N) (c : c05_tree)                             (* [T; n] *)
| CMap (k v : c05_tree)                                   (* HashMap<K, V> *)
| COpt (of_vec : bool) (c : c05_tree)                     (* Option<T>; of_vec: T is a Vec *)
| CPrim (p : prim).

Definition c05_is_vec (t : rtype) : bool := match t with RVec _ => true | _ => false end.

Fixpoint c05_core (inst : bool) (m : c05_tmap) (g : list str) (t : rtype) : c05_tree :=
  let special (k : c05_tree) : c05_tree :=
    if inst then match c05_lookup m (c05_rust_name t) with Some n => CMapped n | None => k end else k in
  match t with
  | RSimple id =>
    match c05_lookup m id with Some n => CMapped n | None => CName (mem_str id g) id [] end
  | RGeneric id ps =>
    match c05_lookup m id with
    | Some n => CMapped n                        (* a mapped generic type is replaced as a whole *)
    | None => CName (mem_str id g) id (map (c05_core inst m g) ps)
    end
  | RVec x => special (CSeq (c05_core inst m g x))
  | RSlice x => special (CSeq (c05_core inst m g x))
  | RArray x n => special (CArr n (c05_core inst m g x))
  | RHashMap k v => special (CMap (c05_core inst m g k) (c05_core inst m g v))
  | ROption x => special (COpt (c05_is_vec x) (c05_core inst m g x))
  | RPrim p => match c05_lookup m (c05_prim_name p) with Some n => CMapped n | None => CPrim p end
  end.

(* --- the reviewed table: target name of each primitive ("" = the back end has none) --- *)
Definition c05_prim_target (L : lang) (p : prim) : str :=
  match L with
  | TypeScript =>
    match p with
    | PUnit => lit "undefined" | PDateTime => lit "Date" | PString | PChar => lit "string" | PBool => lit "boolean"
    | PI8 | PU8 | PI16 | PU16 | PI32 | PU32 | PI54 | PU53 | PF32 | PF64 => lit "number"
    | PI64 | PU64 | PISize | PUSize => []
    end
  | Kotlin =>
    match p with
    | PUnit => lit "Unit" | PString | PChar => lit "String" | PBool => lit "Boolean"
    | PI8 => lit "Byte" | PI16 => lit "Short" | PI32 | PISize => lit "Int" | PI54 | PI64 => lit "Long"
    | PU8 => lit "UByte" | PU16 => lit "UShort" | PU32 | PUSize => lit "UInt" | PU53 | PU64 => lit "ULong"
    | PF32 => lit "Float" | PF64 => lit "Double" | PDateTime => []
    end
  | Scala =>
    match p with
    | PUnit => lit "Unit" | PString | PChar => lit "String" | PBool => lit "Boolean"
    | PI8 => lit "Byte" | PI16 => lit "Short" | PI32 | PISize => lit "Int" | PI54 | PI64 => lit "Long"
    | PU8 => lit "UByte" | PU16 => lit "UShort" | PU32 | PUSize => lit "UInt" | PU53 | PU64 => lit "ULong"
    | PF32 => lit "Float" | PF64 => lit "Double" | PDateTime => []
    end
  | Swift =>
    match p with
    | PUnit => lit "CodableVoid" | PString => lit "String" | PChar => lit "Unicode.Scalar" | PBool => lit "Bool"
    | PI8 => lit "Int8" | PI16 => lit "Int16" | PI32 => lit "Int32" | PI54 | PI64 => lit "Int64" | PISize => lit "Int"
    | PU8 => lit "UInt8" | PU16 => lit "UInt16" | PU32 => lit "UInt32" | PU53 | PU64 => lit "UInt64" | PUSize => lit "UInt"
    | PF32 => lit "Float" | PF64 => lit "Double" | PDateTime => []
    end
  | Go =>
    match p with
    | PUnit => lit "struct{}" | PString => lit "string" | PChar => lit "rune" | PBool => lit "bool"
    | PI8 | PU8 | PI16 | PU16 | PI32 | PISize | PUSize => lit "int"
    | PU32 => lit "uint32" | PI54 | PI64 => lit "int64" | PU53 | PU64 => lit "uint64"
    | PF32 => lit "float32" | PF64 => lit "float64" | PDateTime => lit "time.Time"
    end
  | Python =>
    match p with
    | PUnit => lit "None" | PString | PChar => lit "str" | PBool => lit "bool" | PDateTime => lit "datetime"
    | PF32 | PF64 => lit "float"
    | _ => lit "int"
    end
  end.

Definition c05_prefix (L : lang) (c : c05_cfg) : str :=
  match L with Kotlin | Swift => c05_pre c | _ => [] end.

(* --- the reviewed list of identifications each language makes --- *)
Fixpoint c05_render (L : lang) (c : c05_cfg) (t : c05_tree) : texp :=
  match t with
  | CMapped n => XRaw n
  (* a generic parameter keeps its name; a user type gets the prefix where the language has one;
     type arguments stay, in order *)
  | CName param id args => XName (if param then id else c05_prefix L c ++ id) (map (c05_render L c) args)
  | CSeq e =>
    match L with
    | TypeScript | Swift | Go => XSeq (c05_render L c e)          (* T[]   [T]   []T *)
    | Kotlin | Python => XName (lit "List") [c05_render L c e]
    | Scala => XName (lit "Vector") [c05_render L c e]
    end
  | CArr n e =>
    match L with
    | TypeScript => XFixed (repeat (c05_render L c e) (N.to_nat n))   (* [T, T, T]: the length is kept *)
    | Swift | Go => XSeq (c05_render L c e)                            (* Go prints [n]T; seen as a sequence *)
    | Kotlin | Python => XName (lit "List") [c05_render L c e]
    | Scala => XName (lit "Vector") [c05_render L c e]
    end
  | CMap k v =>
    match L with
    | TypeScript | Swift | Go => XMap (c05_render L c k) (c05_render L c v)   (* Record<K, V>  [K: V]  map[K]V *)
    | Kotlin => XName (lit "HashMap") [c05_render L c k; c05_render L c v]
    | Scala => XName (lit "Map") [c05_render L c k; c05_render L c v]
    | Python => XName (lit "Dict") [c05_render L c k; c05_render L c v]
    end
  | COpt of_vec e =>
    match L with
    | TypeScript => c05_render L c e               (* optionality is carried by the member (`?`, `| undefined`): C04 *)
    | Go => if of_vec && c05_nps c then c05_render L c e else XOpt (c05_render L c e)   (* *T; a nil slice is its own absent value *)
    | _ => XOpt (c05_render L c e)                 (* T?  Option[T]  Optional[T] *)
    end
  | CPrim p => XName (c05_prim_target L p) []
  end.

Definition c05_erase (L : lang) (c : c05_cfg) (g : list str) (t : rtype) : texp :=
  c05_render L c (c05_core (c05_instances L) (c05_m c) g t).

(* Rust identifiers that survive in a skeleton (as user types or generic parameters) *)
Fixpoint c05_tree_ids (t : c05_tree) : list str :=
  match t with
  | CMapped _ | CPrim _ => []
  | CName _ id args => id :: flat_map c05_tree_ids args
  | CSeq e | CArr _ e | COpt _ e => c05_tree_ids e
  | CMap k v => c05_tree_ids k ++ c05_tree_ids v
  end.

(* ---- the property's quantifier: leaves bool, char, String/&str, i8..i32, u8..u32, I54, U53, f32, f64, () ---- *)
Definition c05_leaf_ok (p : prim) : bool :=
  match p with
  | PDateTime | PI64 | PU64 | PISize | PUSize => false
  | _ => true
  end.
Fixpoint c05_dom (t : rtype) : bool :=
  match t with
  | RSimple _ => true
  | RGeneric _ ps => forallb c05_dom ps
  | RVec x | RArray x _ | RSlice x | ROption x => c05_dom x
  | RHashMap k v => c05_dom k && c05_dom v
  | RPrim p => c05_leaf_ok p
  end.

(* ---- finding classes of the unchanged tree (decided on the INPUT) ---- *)
Inductive c05_class :=
| C05K_generic_map_key          (* TypeScript / Python refuse HashMap<T, _> for a generic parameter T *)
| C05K_special_mapping_ignored  (* Kotlin / Swift / Scala never consult type_mappings for primitives *)
| C05K_mapping_key_display.     (* TS / Go / Python key container instances by a lossy Display *)

Definition c05_opt_eqb (a b : option str) : bool :=
  match a, b with
  | None, None => true
  | Some x, Some y => str_eqb x y
  | _, _ => false
  end.
Definition c05_first {A} (f : A -> option c05_class) (l : list A) : option c05_class :=
  fold_right (fun x acc => match f x with Some k => Some k | None => acc end) None l.

Definition c05_refuses_generic_keys (L : lang) : bool :=
  match L with TypeScript | Python => true | _ => false end.

Fixpoint c05_known (L : lang) (m : c05_tmap) (g : list str) (t : rtype) : option c05_class :=
  (* children are looked at only where neither the configured nor the tool's key replaces the node *)
  let special (k : option c05_class) : option c05_class :=
    if c05_instances L then
      if negb (c05_opt_eqb (c05_lookup m (c05_rust_name t)) (c05_lookup m (c05_tool_key t)))
      then Some C05K_mapping_key_display
      else match c05_lookup m (c05_rust_name t) with Some _ => None | None => k end
    else k in
  match t with
  | RSimple _ => None
  | RGeneric id ps =>
    match c05_lookup m id with
    | Some _ => None
    | None => (fix go (l : list rtype) : option c05_class :=
                 match l with
                 | [] => None
                 | x :: r => match c05_known L m g x with Some k => Some k | None => go r end
                 end) ps
    end
  | RVec x | RArray x _ | RSlice x | ROption x => special (c05_known L m g x)
  | RHashMap k v =>
    special (match k with
             | RSimple id => if c05_refuses_generic_keys L && mem_str id g then Some C05K_generic_map_key
                             else match c05_known L m g k with Some c => Some c | None => c05_known L m g v end
             | _ => match c05_known L m g k with Some c => Some c | None => c05_known L m g v end
             end)
  | RPrim p =>
    if c05_instances L then None
    else match c05_lookup m (c05_prim_name p) with Some _ => Some C05K_special_mapping_ignored | None => None end
  end.

(* ---- observation and verdict ---- *)
(* verbatim text is an opaque name to the observer *)
Fixpoint c05_norm (x : texp) : texp :=
  match x with
  | XName n args => XName n (map c05_norm args)
  | XSeq e => XSeq (c05_norm e)
  | XFixed es => XFixed (map c05_norm es)
  | XMap k v => XMap (c05_norm k) (c05_norm v)
  | XOpt e => XOpt (c05_norm e)
  | XRaw s => XName s []
  end.

Fixpoint c05_texp_eqb (a b : texp) : bool :=
  let fix all2 (l1 l2 : list texp) : bool :=
    match l1, l2 with
    | [], [] => true
    | x :: r1, y :: r2 => c05_texp_eqb x y && all2 r1 r2
    | _, _ => false
    end in
  match a, b with
  | XName n1 a1, XName n2 a2 => str_eqb n1 n2 && all2 a1 a2
  | XSeq e1, XSeq e2 => c05_texp_eqb e1 e2
  | XFixed l1, XFixed l2 => all2 l1 l2
  | XMap k1 v1, XMap k2 v2 => c05_texp_eqb k1 k2 && c05_texp_eqb v1 v2
  | XOpt e1, XOpt e2 => c05_texp_eqb e1 e2
  | XRaw s1, XRaw s2 => str_eqb s1 s2
  | _, _ => false
  end.

(* obs: the target type tree observed at a use site, None when the tool produced no type (error, panic) *)
Definition good_C05 (L : lang) (c : c05_cfg) (g : list str) (t : rtype) (obs : option texp) : bool :=
  match obs with
  | Some x => c05_texp_eqb (c05_norm x) (c05_norm (c05_erase L c g t))
  | None => false
  end.
Definition dom_C05 (t : rtype) : bool := c05_dom t.
Definition known_C05 (L : lang) (c : c05_cfg) (g : list str) (t : rtype) : option c05_class :=
  c05_known L (c05_m c) g t.

(* ---- use sites: where a type expression stands in an item, and under which generics list ---- *)
Inductive c05_site :=
| C05SField            (* struct field / struct-variant field: the generics of the struct / enum *)
| C05SAlias            (* alias target (also a newtype struct): the generics of the alias *)
| C05SInlineAlias      (* alias target of a Kotlin @JvmInline value class *)
| C05SPayload          (* tuple-variant payload: the generics of the enum *)
| C05SConst.           (* const type: no generics *)
Definition c05_site_generics (s : c05_site) (g : list str) : list str :=
  match s with C05SConst => [] | _ => g end.

(* a generic parameter of g survives in the translated type (not mapped away) *)
Definition c05_uses_param (inst : bool) (m : c05_tmap) (g : list str) (t : rtype) : bool :=
  existsb (fun id => mem_str id g) (c05_tree_ids (c05_core inst m g t)).

Inductive c05_site_class :=
| C05S_type (k : c05_class)
| C05S_kotlin_inline_generic.   (* Kotlin formats the target of a value class with an EMPTY generics list: the parameter gets the prefix *)

Definition known_C05_site (L : lang) (c : c05_cfg) (s : c05_site) (g : list str) (t : rtype) : option c05_site_class :=
  match known_C05 L c (c05_site_generics s g) t with
  | Some k => Some (C05S_type k)
  | None =>
    match L, s with
    | Kotlin, C05SInlineAlias =>
      if match c05_pre c with [] => false | _ => true end && c05_uses_param false (c05_m c) g t
      then Some C05S_kotlin_inline_generic else None
    | _, _ => None
    end
  end.
Definition good_C05_site (L : lang) (c : c05_cfg) (s : c05_site) (g : list str) (t : rtype) (obs : option texp) : bool :=
  good_C05 L c (c05_site_generics s g) t obs.

(* ---- Go with uppercase_acronyms ----
   Go follows its naming convention by upper-casing configured acronyms (UserId -> UserID). The rewrite of ONE
   name is Spec.C02Spec.c02_go_rewrite (the PascalCase form of each acronym is searched in the name, leftmost and
   non-overlapping; an occurrence followed by a non-lowercase character or by the end is upper-cased): it changes
   the ASCII CASE of letters and nothing else.  The type written at a struct field, a struct-variant field and a
   tuple-variant payload is the translation with EVERY name rewritten - user types, generic parameters, the
   configured names of type_mappings (verbatim text is rewritten as text) -; the shape of the type, the order of
   the generic arguments and the position of every name are those of the translation.  Alias targets and const
   types are NOT rewritten (go.rs:191, go.rs:205).  Whether a rewritten use still agrees with the (rewritten or
   not rewritten) definition it refers to is C09's subject (classes C09-go-acronym-target, C09-go-acronym-generic,
   C09-go-acronym-inner). *)
Fixpoint c05_map_names (T : str -> str) (x : texp) : texp :=
  match x with
  | XName n args => XName (T n) (map (c05_map_names T) args)
  | XSeq e => XSeq (c05_map_names T e)
  | XFixed es => XFixed (map (c05_map_names T) es)
  | XMap k v => XMap (c05_map_names T k) (c05_map_names T v)
  | XOpt e => XOpt (c05_map_names T e)
  | XRaw s => XRaw (T s)
  end.
Definition c05_go_acronyms (acrs : list str) : texp -> texp := c05_map_names (C02Spec.c02_go_rewrite acrs).
(* the use sites whose type text goes through acronyms_to_uppercase *)
Definition c05_go_site_rewritten (s : c05_site) : bool :=
  match s with C05SField | C05SPayload => true | C05SAlias | C05SInlineAlias | C05SConst => false end.
Definition c05_go_expected (acrs : list str) (c : c05_cfg) (s : c05_site) (g : list str) (t : rtype) : texp :=
  let x := c05_erase Go c (c05_site_generics s g) t in
  if c05_go_site_rewritten s then c05_go_acronyms acrs x else x.
Definition good_C05_site_go (acrs : list str) (c : c05_cfg) (s : c05_site) (g : list str) (t : rtype) (obs : option texp) : bool :=
  match obs with
  | Some x => c05_texp_eqb (c05_norm x) (c05_norm (c05_go_expected acrs c s g t))
  | None => false
  end.

(* ------------------------------------------------------------------------------------------ *)
(* Part C: the primitive table                                                                  *)
(* ------------------------------------------------------------------------------------------ *)
Open Scope Z_scope.

Inductive c05_jcat := JInt | JFloat | JBool | JString | JUnit.
Definition c05_jcat_eqb (a b : c05_jcat) : bool :=
  match a, b with
  | JInt, JInt | JFloat, JFloat | JBool, JBool | JString, JString | JUnit, JUnit => true
  | _, _ => false
  end.

(* what serde_json writes for a value of the Rust type *)
Definition c05_rust_cat (p : prim) : c05_jcat :=
  match p with
  | PUnit => JUnit | PString | PChar | PDateTime => JString | PBool => JBool
  | PF32 | PF64 => JFloat
  | _ => JInt
  end.
(* integers: the closed interval of values; floats: the significand width *)
Definition c05_rust_range (p : prim) : Z * Z :=
  match p with
  | PI8 => (-128, 127) | PI16 => (-32768, 32767) | PI32 => (-2147483648, 2147483647)
  | PI64 | PISize => (-9223372036854775808, 9223372036854775807)
  | PU8 => (0, 255) | PU16 => (0, 65535) | PU32 => (0, 4294967295)
  | PU64 | PUSize => (0, 18446744073709551615)
  | PI54 => (-9007199254740991, 9007199254740991)        (* lib/src/integer.rs I54::MIN / MAX *)
  | PU53 => (0, 9007199254740991)
  | _ => (0, 0)
  end.
Definition c05_rust_fbits (p : prim) : Z := match p with PF32 => 24 | PF64 => 53 | _ => 0 end.

(* what a target type accepts from JSON: categories, integer interval (None = unbounded side),
   float significand width *)
Record c05_tinfo := { ti_cats : list c05_jcat; ti_lo : option Z; ti_hi : option Z; ti_fbits : Z }.
Definition c05_int (lo hi : Z) : c05_tinfo := {| ti_cats := [JInt]; ti_lo := Some lo; ti_hi := Some hi; ti_fbits := 0 |}.
Definition c05_flt (bits : Z) : c05_tinfo := {| ti_cats := [JFloat]; ti_lo := None; ti_hi := None; ti_fbits := bits |}.
Definition c05_cat (k : c05_jcat) : c05_tinfo := {| ti_cats := [k]; ti_lo := None; ti_hi := None; ti_fbits := 0 |}.

Definition c05_assoc (name : str) (l : list (string * c05_tinfo)) : option c05_tinfo :=
  (fix go (l : list (string * c05_tinfo)) :=
     match l with [] => None | (k, v) :: r => if str_eqb (lit k) name then Some v else go r end) l.

Definition c05_i8 := c05_int (-128) 127.
Definition c05_i16 := c05_int (-32768) 32767.
Definition c05_i32 := c05_int (-2147483648) 2147483647.
Definition c05_i64 := c05_int (-9223372036854775808) 9223372036854775807.
Definition c05_u8 := c05_int 0 255.
Definition c05_u16 := c05_int 0 65535.
Definition c05_u32 := c05_int 0 4294967295.
Definition c05_u64 := c05_int 0 18446744073709551615.

(* the target languages' own definitions of the type names the back ends print *)
Local Open Scope string_scope.
Definition c05_target_info (L : lang) (name : str) : option c05_tinfo :=
  c05_assoc name
    match L with
    | TypeScript =>
      (* number is an IEEE double: every integer of magnitude <= 2^53 - 1, and every f32 / f64 *)
      [("number", {| ti_cats := [JInt; JFloat]; ti_lo := Some (-9007199254740991); ti_hi := Some 9007199254740991; ti_fbits := 53 |});
       ("string", c05_cat JString); ("boolean", c05_cat JBool); ("undefined", c05_cat JUnit)]
    | Kotlin =>
      [("Byte", c05_i8); ("Short", c05_i16); ("Int", c05_i32); ("Long", c05_i64);
       ("UByte", c05_u8); ("UShort", c05_u16); ("UInt", c05_u32); ("ULong", c05_u64);
       ("Float", c05_flt 24); ("Double", c05_flt 53); ("String", c05_cat JString); ("Boolean", c05_cat JBool); ("Unit", c05_cat JUnit)]
    | Scala =>
      (* UByte / UShort / UInt / ULong are the aliases scala.rs:431-436 emits: Byte, Short, Int, Int *)
      [("Byte", c05_i8); ("Short", c05_i16); ("Int", c05_i32); ("Long", c05_i64);
       ("UByte", c05_i8); ("UShort", c05_i16); ("UInt", c05_i32); ("ULong", c05_i32);
       ("Float", c05_flt 24); ("Double", c05_flt 53); ("String", c05_cat JString); ("Boolean", c05_cat JBool); ("Unit", c05_cat JUnit)]
    | Swift =>
      (* Unicode.Scalar has no Codable conformance: it denotes no JSON category at all *)
      [("Int8", c05_i8); ("Int16", c05_i16); ("Int32", c05_i32); ("Int64", c05_i64); ("Int", c05_i64);
       ("UInt8", c05_u8); ("UInt16", c05_u16); ("UInt32", c05_u32); ("UInt64", c05_u64); ("UInt", c05_u64);
       ("Float", c05_flt 24); ("Double", c05_flt 53); ("String", c05_cat JString); ("Bool", c05_cat JBool);
       ("CodableVoid", c05_cat JUnit);
       ("Unicode.Scalar", {| ti_cats := []; ti_lo := None; ti_hi := None; ti_fbits := 0 |})]
    | Go =>
      (* int is at least 32 bits wide; rune = int32 is a JSON number *)
      [("int", c05_i32); ("int8", c05_i8); ("int16", c05_i16); ("int32", c05_i32); ("int64", c05_i64);
       ("uint8", c05_u8); ("uint16", c05_u16); ("uint32", c05_u32); ("uint64", c05_u64); ("rune", c05_i32);
       ("float32", c05_flt 24); ("float64", c05_flt 53); ("string", c05_cat JString); ("bool", c05_cat JBool);
       ("struct{}", c05_cat JUnit)]
    | Python =>
      [("int", {| ti_cats := [JInt]; ti_lo := None; ti_hi := None; ti_fbits := 0 |});
       ("float", c05_flt 53); ("str", c05_cat JString); ("bool", c05_cat JBool); ("None", c05_cat JUnit)]
    end.

Definition c05_bound_le (lo : option Z) (z : Z) : bool := match lo with None => true | Some l => Z.leb l z end.
Definition c05_bound_ge (hi : option Z) (z : Z) : bool := match hi with None => true | Some h => Z.leb z h end.

(* [name]: the target type name printed for the Rust primitive p *)
Definition good_C05_prim (L : lang) (p : prim) (name : str) : bool :=
  match c05_target_info L name with
  | None => false
  | Some ti =>
    existsb (c05_jcat_eqb (c05_rust_cat p)) (ti_cats ti) &&
    match c05_rust_cat p with
    | JInt => c05_bound_le (ti_lo ti) (fst (c05_rust_range p)) && c05_bound_ge (ti_hi ti) (snd (c05_rust_range p))
    | JFloat => Z.leb (c05_rust_fbits p) (ti_fbits ti)
    | _ => true
    end
  end.

Inductive c05_prim_class := C05K_scala_unsigned | C05K_go_char | C05K_swift_char.
Definition known_C05_prim (L : lang) (p : prim) : option c05_prim_class :=
  match L, p with
  | Scala, (PU8 | PU16 | PU32 | PU53) => Some C05K_scala_unsigned
  | Go, PChar => Some C05K_go_char
  | Swift, PChar => Some C05K_swift_char
  | _, _ => None
  end.

Definition c05_all_prims : list prim :=
  [PUnit; PString; PChar; PBool; PI8; PI16; PI32; PU8; PU16; PU32; PI54; PU53; PF32; PF64].
