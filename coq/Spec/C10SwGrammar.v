(* C10, grammar half for Swift: a tokenizer and a recursive-descent recogniser for the declaration subset the Swift
   back end emits, written from The Swift Programming Language (Swift 5), "Lexical Structure" and "Summary of the
   Grammar" (the productions are quoted below), not from the printer.

   LEXICAL STRUCTURE
     whitespace      space, tab, NUL, vertical tab, form feed are skipped; a line break (LF or CR) is the token WNl
     comment         // to the end of the line (the line break itself stays a WNl);
                     /* ... */ multiline comments NEST (multiline-comment-text-item -> multiline-comment)
     identifier    -> identifier-head identifier-characters?  |  ` identifier-head identifier-characters? `
                     identifier-head = ASCII letter | _ | any code point >= 128 (the book lists the ranges; not checked)
                     a back-ticked identifier is the token WTick, a plain one WId (keywords are WId too: which WId is
                     allowed where is the parser's business)
     numeric-literal a digit followed by letters, digits, "_" and "." (one token WNum; the inside is not checked)
     static-string-literal -> DQUOTE quoted-text? DQUOTE     no line break inside; escaped-character -> \0 \\ \t \n \r \DQUOTE \QUOTE
                     | \u{ unicode-scalar-digits } (1 to 8 hexadecimal digits).  Interpolation \( and multiline / extended
                     delimiters (three quotes, #"..."#) are NOT in the subset: an interpolation is an invalid escape here.
     every other character is a one-character token WP c ("->" is two tokens).

   SYNTAX (the subset)
     top-level-declaration -> statements?         here: declarations only, each starting on a line of its own (the language:
                     "statements on one line must be separated by ;") - a declaration is followed by a line break, a `;`
                     or the end of the text.  Line breaks are allowed exactly where the grammar below says NL; the
                     language allows them at more places: the recogniser is STRICTER than the language there.
     declaration  -> import-declaration | constant-declaration | variable-declaration | typealias-declaration
                   | function-declaration | enum-declaration | struct-declaration | initializer-declaration
                   | extension-declaration                                      (no class / protocol / subscript / operator)
     every declaration:  attributes? access-level-modifier? ...
     attribute    -> @ attribute-name attribute-argument-clause?      the argument clause is a balanced token run in ( )
     access-level-modifier -> private | fileprivate | internal | public | open
     import-declaration    -> import import-path         import-path -> identifier { . identifier }        (file scope only)
     constant-declaration  -> let identifier type-annotation          variable-declaration -> var identifier type-annotation
                     (one pattern, no initializer: the TYPE ANNOTATION IS REQUIRED - "a member without a type" is rejected)
     type-annotation       -> : inout? type
     typealias-declaration -> typealias typealias-name generic-parameter-clause? typealias-assignment
     typealias-assignment  -> = type
     struct-declaration    -> struct struct-name generic-parameter-clause? type-inheritance-clause? struct-body
     struct-body           -> { struct-members? }           struct-member -> declaration
     extension-declaration -> extension type-identifier type-inheritance-clause? extension-body     (file scope only)
     enum-declaration      -> union-style-enum | raw-value-style-enum
     union-style-enum      -> indirect? enum enum-name generic-parameter-clause? type-inheritance-clause? { union-style-enum-members? }
     union-style-enum-member -> declaration | union-style-enum-case-clause
     union-style-enum-case-clause -> indirect? case union-style-enum-case-list
     union-style-enum-case -> enum-case-name tuple-type?
     raw-value-style-enum  -> enum enum-name generic-parameter-clause? type-inheritance-clause { raw-value-style-enum-members }
     raw-value-style-enum-case -> enum-case-name raw-value-assignment?       raw-value-assignment -> = raw-value-literal
     raw-value-literal     -> numeric-literal | static-string-literal | boolean-literal
                     the two styles exclude each other: one body never holds a case with a tuple type AND a case with a raw
                     value; a raw value needs the type-inheritance-clause; `indirect` goes with the union style only
     generic-parameter-clause -> < generic-parameter-list >            (never empty)
     generic-parameter     -> type-name | type-name : type-identifier | type-name : protocol-composition-type
     protocol-composition-type -> type-identifier & protocol-composition-continuation
     type-inheritance-clause -> : type-inheritance-list        type-inheritance-list -> type-identifier { , type-identifier }
     initializer-declaration -> init (? | !)? generic-parameter-clause? parameter-clause async? (throws | rethrows)? initializer-body
                     (inside a struct / enum / extension body only)
     function-declaration  -> func function-name generic-parameter-clause? parameter-clause async? (throws | rethrows)?
                              function-result? function-body?          function-result -> - > type
     parameter-clause      -> ( ) | ( parameter-list )     parameter-list -> parameter { , NL* parameter }
     parameter             -> external-parameter-name? local-parameter-name type-annotation
                     "Keywords other than inout, var, and let can be used as parameter names [labels] without being escaped"
     code-block            -> { statements? }      the BODY of an initializer / function is only recognised as a run of
                     tokens whose ( ) [ ] { } are properly nested and matched (statements are not parsed)
     type         -> array-type | dictionary-type | type-identifier | tuple-type | optional-type | ( type )
     array-type   -> [ type ]      dictionary-type -> [ type : type ]      optional-type -> type ?
     tuple-type   -> ( ) | ( type , type { , type } )         (no element names)
     type-identifier -> type-name generic-argument-clause? | type-name generic-argument-clause? . type-identifier
     generic-argument-clause -> < type { , type } >
   An identifier at a declaring position or naming a type is a back-ticked identifier or a plain one that is not a
   reserved word ("Keywords and Punctuation": the keywords used in declarations, statements, expressions and types, and
   the wildcard _); Any and Self are allowed as type names.

   [c10_sw_recognise text] = Some n : the text is a file of this grammar with n top-level declarations. *)
From Coq Require Import String.
From TS Require Import Model.Str Spec.C10TsGrammar.

Inductive c10_wtok :=
| WId (s : str)
| WTick (s : str)
| WStr
| WNum
| WP (c : char)
| WNl.

Definition c10_sw_id_head (c : char) : bool := is_aalpha c || (c =? ch_us) || (128 <=? c).
Definition c10_sw_id_char (c : char) : bool := c10_sw_id_head c || is_adigit c.
Definition c10_sw_num_char (c : char) : bool := c10_sw_id_char c || (c =? 46).
Definition c10_sw_blank (c : char) : bool := (c =? 32) || (c =? 9) || (c =? 0) || (c =? 11) || (c =? 12).
Definition c10_sw_line_end (c : char) : bool := (c =? ch_nl) || (c =? ch_cr).
Definition c10_sw_hex (c : char) : bool := is_adigit c || ((97 <=? c) && (c <=? 102)) || ((65 <=? c) && (c <=? 70)).

(* inside a string literal: ordinary text; just after a backslash; after \u; after \u{ (one digit needed); n more digits allowed *)
Inductive c10_sw_sstate := WSNorm | WSEsc | WSU0 | WSU1 | WSU (n : nat).

(* the rest after the closing quote (None: unterminated, a line break inside, or an escape the language does not have) *)
Fixpoint c10_sw_skip_string (st : c10_sw_sstate) (s : str) : option str :=
  match s with
  | [] => None
  | c :: r =>
    match st with
    | WSNorm => if c =? ch_dq then Some r
                else if c =? ch_bs then c10_sw_skip_string WSEsc r
                else if c10_sw_line_end c then None
                else c10_sw_skip_string WSNorm r
    | WSEsc => if (c =? 48) || (c =? ch_bs) || (c =? 116) || (c =? 110) || (c =? 114) || (c =? ch_dq) || (c =? ch_sq)
               then c10_sw_skip_string WSNorm r
               else if c =? 117 then c10_sw_skip_string WSU0 r
               else None
    | WSU0 => if c =? 123 then c10_sw_skip_string WSU1 r else None
    | WSU1 => if c10_sw_hex c then c10_sw_skip_string (WSU 7) r else None
    | WSU n => if c =? 125 then c10_sw_skip_string WSNorm r
               else if c10_sw_hex c then match n with O => None | S m => c10_sw_skip_string (WSU m) r end
               else None
    end
  end.

(* the rest after the star-slash that closes a multiline comment entered at depth d (they nest) *)
Fixpoint c10_sw_skip_block (d : nat) (s : str) : option str :=
  match s with
  | [] => None
  | c :: r =>
    match r with
    | e :: r' =>
      if (c =? 42) && (e =? 47) then match d with O => Some r' | S d' => c10_sw_skip_block d' r' end
      else if (c =? 47) && (e =? 42) then c10_sw_skip_block (S d) r'
      else c10_sw_skip_block d r
    | [] => None
    end
  end.

(* one step: skip a blank / a comment (no token), or cut one token *)
Definition c10_sw_next (s : str) : option (option c10_wtok * str) :=
  match s with
  | [] => None
  | c :: r =>
    if c10_sw_blank c then Some (None, r)
    else if c10_sw_line_end c then Some (Some WNl, r)
    else if (c =? 47) && match r with d :: _ => d =? 47 | [] => false end
    then let '(_, b) := c10_take_while (fun x => negb (c10_sw_line_end x)) r in Some (None, b)
    else if (c =? 47) && match r with d :: _ => d =? 42 | [] => false end
    then match c10_sw_skip_block 0 (tl r) with Some r' => Some (None, r') | None => None end
    else if c =? ch_dq then match c10_sw_skip_string WSNorm r with Some r' => Some (Some WStr, r') | None => None end
    else if c =? 96
    then let '(a, b) := c10_take_while c10_sw_id_char r in
         match a, b with
         | h :: _, e :: b' => if c10_sw_id_head h && (e =? 96) then Some (Some (WTick a), b') else None
         | _, _ => None
         end
    else if c10_sw_id_head c then let '(a, b) := c10_take_while c10_sw_id_char s in Some (Some (WId a), b)
    else if is_adigit c then let '(_, b) := c10_take_while c10_sw_num_char s in Some (Some WNum, b)
    else Some (Some (WP c), r)
  end.

Fixpoint c10_sw_tokens (fuel : nat) (s : str) : option (list c10_wtok) :=
  match fuel with
  | O => None
  | S f =>
    match s with
    | [] => Some []
    | _ => match c10_sw_next s with
           | None => None
           | Some (ot, r) =>
             match c10_sw_tokens f r with
             | Some ts => Some (match ot with Some t => t :: ts | None => ts end)
             | None => None
             end
           end
    end
  end.

(* ------------------------------------------------------------------ words *)
(* "Keywords and Punctuation": keywords used in declarations, in statements, in expressions and types, and the wildcard pattern
   (await, listed since Swift 5.5, is parsed contextually by the compiler and is not in this list) *)
Definition c10_sw_reserved : list str :=
  map lit ["associatedtype"; "class"; "deinit"; "enum"; "extension"; "fileprivate"; "func"; "import"; "init"; "inout"; "internal";
           "let"; "operator"; "precedencegroup"; "private"; "protocol"; "public"; "rethrows"; "static"; "struct"; "subscript";
           "typealias"; "var";
           "break"; "case"; "catch"; "continue"; "default"; "defer"; "do"; "else"; "fallthrough"; "for"; "guard"; "if"; "in";
           "repeat"; "return"; "throw"; "switch"; "where"; "while";
           "Any"; "as"; "false"; "is"; "nil"; "self"; "Self"; "super"; "throws"; "true"; "try"; "_"]%string.
Definition c10_sw_res (s : str) : bool := mem_str s c10_sw_reserved.

Definition c10_sw_is_p (c : char) (t : c10_wtok) : bool := match t with WP d => d =? c | _ => false end.
Definition c10_sw_is_kw (w : string) (t : c10_wtok) : bool := match t with WId s => str_eqb s (lit w) | _ => false end.
Definition c10_sw_is_nl (t : c10_wtok) : bool := match t with WNl => true | _ => false end.
(* an identifier at a declaring position *)
Definition c10_sw_is_name (t : c10_wtok) : bool :=
  match t with WTick _ => true | WId s => negb (c10_sw_res s) | _ => false end.
(* a type name *)
Definition c10_sw_is_tyname (t : c10_wtok) : bool :=
  match t with WTick _ => true | WId s => negb (c10_sw_res s) || str_eqb s (lit "Any") || str_eqb s (lit "Self") | _ => false end.
(* an argument label: any word but inout, var, let *)
Definition c10_sw_is_label (t : c10_wtok) : bool :=
  match t with WTick _ => true | WId s => negb (mem_str s (map lit ["inout"; "var"; "let"]%string)) | _ => false end.
(* a local parameter name *)
Definition c10_sw_is_local (t : c10_wtok) : bool := c10_sw_is_name t || c10_sw_is_kw "_" t.

Definition c10_sw_eat (c : char) (ts : list c10_wtok) : option (list c10_wtok) :=
  match ts with t :: r => if c10_sw_is_p c t then Some r else None | [] => None end.
Definition c10_sw_eat_name (ts : list c10_wtok) : option (list c10_wtok) :=
  match ts with t :: r => if c10_sw_is_name t then Some r else None | [] => None end.

Fixpoint c10_sw_skipnl (ts : list c10_wtok) : list c10_wtok :=
  match ts with WNl :: r => c10_sw_skipnl r | _ => ts end.

(* ------------------------------------------------------------------ types *)
Inductive c10_sw_tmode := WTy | WTyId | WTySuffix | WTyArgs (closer : char).

Fixpoint c10_sw_t (fuel : nat) (m : c10_sw_tmode) (ts : list c10_wtok) : option (list c10_wtok) :=
  match fuel with
  | O => None
  | S f =>
    match m with
    | WTy =>
      match ts with
      | t :: r =>
        if c10_sw_is_p 91 t then
          (* array-type / dictionary-type *)
          match c10_sw_t f WTy r with
          | Some (t2 :: r2) =>
            if c10_sw_is_p 93 t2 then c10_sw_t f WTySuffix r2
            else if c10_sw_is_p 58 t2
            then match c10_sw_t f WTy r2 with
                 | Some r3 => match c10_sw_eat 93 r3 with Some r4 => c10_sw_t f WTySuffix r4 | None => None end
                 | None => None
                 end
            else None
          | _ => None
          end
        else if c10_sw_is_p 40 t then
          (* tuple-type / parenthesised type *)
          match r with
          | t2 :: r2 =>
            if c10_sw_is_p 41 t2 then c10_sw_t f WTySuffix r2
            else match c10_sw_t f WTy r with
                 | Some r3 => match c10_sw_t f (WTyArgs 41) r3 with Some r4 => c10_sw_t f WTySuffix r4 | None => None end
                 | None => None
                 end
          | [] => None
          end
        else match c10_sw_t f WTyId ts with Some r1 => c10_sw_t f WTySuffix r1 | None => None end
      | [] => None
      end
    | WTyId =>
      match ts with
      | t :: r =>
        if c10_sw_is_tyname t then
          let after_args :=
            match r with
            | t2 :: r2 => if c10_sw_is_p 60 t2
                          then match c10_sw_t f WTy r2 with Some r3 => c10_sw_t f (WTyArgs 62) r3 | None => None end
                          else Some r
            | [] => Some r
            end in
          match after_args with
          | Some (t3 :: r3) => if c10_sw_is_p 46 t3 then c10_sw_t f WTyId r3 else after_args
          | other => other
          end
        else None
      | [] => None
      end
    | WTySuffix =>
      match ts with
      | t :: r => if c10_sw_is_p 63 t then c10_sw_t f WTySuffix r else Some ts
      | [] => Some ts
      end
    | WTyArgs closer =>
      match ts with
      | t :: r => if c10_sw_is_p closer t then Some r
                  else if c10_sw_is_p 44 t
                  then match c10_sw_t f WTy r with Some r2 => c10_sw_t f (WTyArgs closer) r2 | None => None end
                  else None
      | [] => None
      end
    end
  end.

Definition c10_sw_type (ts : list c10_wtok) : option (list c10_wtok) := c10_sw_t (S (S (4 * List.length ts))) WTy ts.
Definition c10_sw_tyid (ts : list c10_wtok) : option (list c10_wtok) := c10_sw_t (S (S (4 * List.length ts))) WTyId ts.

(* type-identifier { sep type-identifier } : an inheritance list (sep = ,) or a protocol composition (sep = &) *)
Fixpoint c10_sw_tyids (sep : char) (fuel : nat) (ts : list c10_wtok) : option (list c10_wtok) :=
  match fuel with
  | O => None
  | S f =>
    match c10_sw_tyid ts with
    | Some (t :: r) => if c10_sw_is_p sep t then c10_sw_tyids sep f r else Some (t :: r)
    | other => other
    end
  end.

(* generic-parameter { , generic-parameter } > after the opening angle *)
Fixpoint c10_sw_gparams (fuel : nat) (ts : list c10_wtok) : option (list c10_wtok) :=
  match fuel with
  | O => None
  | S f =>
    match c10_sw_eat_name ts with
    | Some (t :: r) =>
      let after := if c10_sw_is_p 58 t then c10_sw_tyids 38 (S (List.length r)) r else Some (t :: r) in
      match after with
      | Some (t2 :: r2) => if c10_sw_is_p 62 t2 then Some r2 else if c10_sw_is_p 44 t2 then c10_sw_gparams f r2 else None
      | _ => None
      end
    | _ => None
    end
  end.

Definition c10_sw_opt_gparams (ts : list c10_wtok) : option (list c10_wtok) :=
  match ts with
  | t :: r => if c10_sw_is_p 60 t then c10_sw_gparams (S (List.length r)) r else Some ts
  | [] => Some ts
  end.

(* type-inheritance-clause? : whether there was one, and the rest *)
Definition c10_sw_opt_inherit (ts : list c10_wtok) : option (bool * list c10_wtok) :=
  match ts with
  | t :: r => if c10_sw_is_p 58 t
              then match c10_sw_tyids 44 (S (List.length r)) r with Some r1 => Some (true, r1) | None => None end
              else Some (false, ts)
  | [] => Some (false, ts)
  end.

(* ------------------------------------------------------------------ balanced token runs *)
Definition c10_sw_closer (t : c10_wtok) : option char :=
  match t with WP c => if c =? 40 then Some 41 else if c =? 91 then Some 93 else if c =? 123 then Some 125 else None | _ => None end.
Definition c10_sw_is_close (t : c10_wtok) : bool := c10_sw_is_p 41 t || c10_sw_is_p 93 t || c10_sw_is_p 125 t.

(* the tokens up to the closer of the bracket already opened; [st] = the closers expected, innermost first *)
Fixpoint c10_sw_block (st : list char) (ts : list c10_wtok) : option (list c10_wtok) :=
  match ts with
  | [] => None
  | t :: r =>
    match c10_sw_closer t with
    | Some k => c10_sw_block (k :: st) r
    | None =>
      if c10_sw_is_close t then
        match st with
        | k :: st' => if c10_sw_is_p k t then match st' with [] => Some r | _ => c10_sw_block st' r end else None
        | [] => None
        end
      else c10_sw_block st r
    end
  end.

(* ------------------------------------------------------------------ parameters, functions *)
(* type-annotation after the colon *)
Definition c10_sw_annot (ts : list c10_wtok) : option (list c10_wtok) :=
  c10_sw_type (match ts with t :: r => if c10_sw_is_kw "inout" t then r else ts | [] => ts end).

Definition c10_sw_param (ts : list c10_wtok) : option (list c10_wtok) :=
  match ts with
  | t1 :: t2 :: r =>
    if c10_sw_is_p 58 t2 then (if c10_sw_is_label t1 then c10_sw_annot r else None)
    else if c10_sw_is_label t1 && c10_sw_is_local t2
    then match c10_sw_eat 58 r with Some r1 => c10_sw_annot r1 | None => None end
    else None
  | _ => None
  end.

(* parameter { , parameter } ) after the opening parenthesis (the empty list is handled by the caller) *)
Fixpoint c10_sw_params_tail (fuel : nat) (ts : list c10_wtok) : option (list c10_wtok) :=
  match fuel with
  | O => None
  | S f =>
    match c10_sw_param ts with
    | Some (t :: r) => if c10_sw_is_p 41 t then Some r
                       else if c10_sw_is_p 44 t then c10_sw_params_tail f (c10_sw_skipnl r)
                       else None
    | _ => None
    end
  end.

Definition c10_sw_params (ts : list c10_wtok) : option (list c10_wtok) :=
  match c10_sw_eat 40 ts with
  | Some (t :: r) => if c10_sw_is_p 41 t then Some r else c10_sw_params_tail (S (List.length r)) (t :: r)
  | _ => None
  end.

(* async? (throws | rethrows)? *)
Definition c10_sw_effects (ts : list c10_wtok) : list c10_wtok :=
  let ts1 := match ts with t :: r => if c10_sw_is_kw "async" t then r else ts | [] => ts end in
  match ts1 with t :: r => if c10_sw_is_kw "throws" t || c10_sw_is_kw "rethrows" t then r else ts1 | [] => ts1 end.

Definition c10_sw_code_block (ts : list c10_wtok) : option (list c10_wtok) :=
  match c10_sw_eat 123 ts with Some r => c10_sw_block [125] r | None => None end.

(* after the word init *)
Definition c10_sw_init_decl (ts : list c10_wtok) : option (list c10_wtok) :=
  let ts1 := match ts with t :: r => if c10_sw_is_p 63 t || c10_sw_is_p 33 t then r else ts | [] => ts end in
  match c10_sw_opt_gparams ts1 with
  | Some r1 => match c10_sw_params r1 with
               | Some r2 => c10_sw_code_block (c10_sw_effects r2)
               | None => None
               end
  | None => None
  end.

(* after the word func *)
Definition c10_sw_func_decl (ts : list c10_wtok) : option (list c10_wtok) :=
  match c10_sw_eat_name ts with
  | Some r0 =>
    match c10_sw_opt_gparams r0 with
    | Some r1 =>
      match c10_sw_params r1 with
      | Some r2 =>
        let r3 := c10_sw_effects r2 in
        let res := match r3 with
                   | t :: t2 :: r4 => if c10_sw_is_p 45 t && c10_sw_is_p 62 t2 then c10_sw_type r4 else Some r3
                   | _ => Some r3
                   end in
        match res with
        | Some (t :: r5) => if c10_sw_is_p 123 t then c10_sw_block [125] r5 else res
        | other => other
        end
      | None => None
      end
    | None => None
    end
  | None => None
  end.

(* after the word let / var: identifier type-annotation *)
Definition c10_sw_let_decl (ts : list c10_wtok) : option (list c10_wtok) :=
  match c10_sw_eat_name ts with
  | Some r => match c10_sw_eat 58 r with Some r1 => c10_sw_annot r1 | None => None end
  | None => None
  end.

(* after the word typealias *)
Definition c10_sw_alias_decl (ts : list c10_wtok) : option (list c10_wtok) :=
  match c10_sw_eat_name ts with
  | Some r => match c10_sw_opt_gparams r with
              | Some r1 => match c10_sw_eat 61 r1 with Some r2 => c10_sw_type r2 | None => None end
              | None => None
              end
  | None => None
  end.

(* after the word import: identifier { . identifier } *)
Fixpoint c10_sw_import_path (fuel : nat) (ts : list c10_wtok) : option (list c10_wtok) :=
  match fuel with
  | O => None
  | S f =>
    match c10_sw_eat_name ts with
    | Some (t :: r) => if c10_sw_is_p 46 t then c10_sw_import_path f r else Some (t :: r)
    | other => other
    end
  end.

(* attributes? : @ name ( balanced )? , each possibly on a line of its own *)
Fixpoint c10_sw_attrs (fuel : nat) (ts : list c10_wtok) : option (list c10_wtok) :=
  match fuel with
  | O => None
  | S f =>
    match ts with
    | t :: r =>
      if c10_sw_is_p 64 t then
        match c10_sw_eat_name r with
        | Some (t2 :: r2) => if c10_sw_is_p 40 t2
                             then match c10_sw_block [41] r2 with Some r3 => c10_sw_attrs f (c10_sw_skipnl r3) | None => None end
                             else c10_sw_attrs f (c10_sw_skipnl (t2 :: r2))
        | _ => None
        end
      else Some ts
    | [] => Some ts
    end
  end.

Definition c10_sw_access (ts : list c10_wtok) : list c10_wtok :=
  match ts with
  | t :: r => if c10_sw_is_kw "public" t || c10_sw_is_kw "private" t || c10_sw_is_kw "fileprivate" t || c10_sw_is_kw "internal" t ||
                 c10_sw_is_kw "open" t then r else ts
  | [] => ts
  end.

(* ------------------------------------------------------------------ enum cases *)
(* where a declaration stands: file scope; the body of a struct / an extension; the body of an enum whose style is not
   yet known (None), raw-value (Some true) or union (Some false) *)
Inductive c10_sw_ctx := CTop | CType | CEnum (style : option bool).

Definition c10_sw_style_ok (st : option bool) (b : bool) : bool := match st with None => true | Some x => Bool.eqb x b end.

(* one case: enum-case-name ( tuple-type | = raw-value-literal )? ; the style after it *)
Definition c10_sw_case (st : option bool) (ts : list c10_wtok) : option (option bool * list c10_wtok) :=
  match c10_sw_eat_name ts with
  | Some (t :: r) =>
    if c10_sw_is_p 40 t then
      if c10_sw_style_ok st false then
        match r with
        | t2 :: r2 => if c10_sw_is_p 41 t2 then Some (Some false, r2)
                      else match c10_sw_type r with
                           | Some r3 => match c10_sw_t (S (S (4 * List.length r3))) (WTyArgs 41) r3 with
                                        | Some r4 => Some (Some false, r4)
                                        | None => None
                                        end
                           | None => None
                           end
        | [] => None
        end
      else None
    else if c10_sw_is_p 61 t then
      if c10_sw_style_ok st true then
        match r with
        | WStr :: r2 | WNum :: r2 => Some (Some true, r2)
        | t2 :: r2 => if c10_sw_is_kw "true" t2 || c10_sw_is_kw "false" t2 then Some (Some true, r2)
                      else if c10_sw_is_p 45 t2 then match r2 with WNum :: r3 => Some (Some true, r3) | _ => None end
                      else None
        | [] => None
        end
      else None
    else Some (st, t :: r)
  | Some [] => Some (st, [])
  | None => None
  end.

(* case { , NL* case } *)
Fixpoint c10_sw_cases (fuel : nat) (st : option bool) (ts : list c10_wtok) : option (option bool * list c10_wtok) :=
  match fuel with
  | O => None
  | S f =>
    match c10_sw_case st ts with
    | Some (st1, t :: r) => if c10_sw_is_p 44 t then c10_sw_cases f st1 (c10_sw_skipnl r) else Some (st1, t :: r)
    | other => other
    end
  end.

Definition c10_sw_starts_case (ts : list c10_wtok) : bool :=
  match ts with
  | t :: r => c10_sw_is_kw "case" t || (c10_sw_is_kw "indirect" t && match r with t2 :: _ => c10_sw_is_kw "case" t2 | [] => false end)
  | [] => false
  end.

(* a case clause, in the body of an enum only *)
Definition c10_sw_case_clause (ctx : c10_sw_ctx) (ts : list c10_wtok) : option (c10_sw_ctx * list c10_wtok) :=
  match ctx with
  | CEnum st =>
    match ts with
    | t :: r =>
      if c10_sw_is_kw "case" t
      then match c10_sw_cases (S (List.length r)) st r with Some (st1, r1) => Some (CEnum st1, r1) | None => None end
      else if c10_sw_is_kw "indirect" t && c10_sw_style_ok st false
      then match r with
           | t2 :: r2 => if c10_sw_is_kw "case" t2
                         then match c10_sw_cases (S (List.length r2)) (Some false) r2 with Some (st1, r1) => Some (CEnum st1, r1) | None => None end
                         else None
           | [] => None
           end
      else None
    | [] => None
    end
  | _ => None
  end.

(* ------------------------------------------------------------------ declarations *)
(* name generic-parameter-clause? type-inheritance-clause? { : whether there was an inheritance clause, and the rest after the brace *)
Definition c10_sw_head (ts : list c10_wtok) : option (bool * list c10_wtok) :=
  match c10_sw_eat_name ts with
  | Some r =>
    match c10_sw_opt_gparams r with
    | Some r1 =>
      match c10_sw_opt_inherit r1 with
      | Some (inh, r2) => match c10_sw_eat 123 r2 with Some r3 => Some (inh, r3) | None => None end
      | None => None
      end
    | None => None
    end
  | None => None
  end.

Definition c10_sw_in_type (ctx : c10_sw_ctx) : bool := match ctx with CTop => false | _ => true end.
Definition c10_sw_at_top (ctx : c10_sw_ctx) : bool := match ctx with CTop => true | _ => false end.

Inductive c10_sw_dmode := WDecl (ctx : c10_sw_ctx) | WMembers (ctx : c10_sw_ctx).

Fixpoint c10_sw_d (fuel : nat) (m : c10_sw_dmode) (ts : list c10_wtok) : option (list c10_wtok) :=
  match fuel with
  | O => None
  | S f =>
    match m with
    | WMembers ctx =>
      (* after the opening brace: members, each on a line of its own (or after a ;), up to the closing brace *)
      match c10_sw_skipnl ts with
      | [] => None
      | t :: r =>
        if c10_sw_is_p 125 t then Some r
        else
          let res := if c10_sw_starts_case (t :: r) then c10_sw_case_clause ctx (t :: r)
                     else match c10_sw_d f (WDecl ctx) (t :: r) with Some r1 => Some (ctx, r1) | None => None end in
          match res with
          | Some (ctx', t2 :: r2) =>
            if c10_sw_is_p 125 t2 then Some r2
            else if c10_sw_is_nl t2 || c10_sw_is_p 59 t2 then c10_sw_d f (WMembers ctx') r2
            else None
          | _ => None
          end
      end
    | WDecl ctx =>
      match c10_sw_attrs (S (List.length ts)) ts with
      | None => None
      | Some ts0 =>
        match c10_sw_access ts0 with
        | WId k :: r =>
          if str_eqb k (lit "import") then (if c10_sw_at_top ctx then c10_sw_import_path (S (List.length r)) r else None)
          else if str_eqb k (lit "let") || str_eqb k (lit "var") then c10_sw_let_decl r
          else if str_eqb k (lit "typealias") then c10_sw_alias_decl r
          else if str_eqb k (lit "func") then c10_sw_func_decl r
          else if str_eqb k (lit "init") then (if c10_sw_in_type ctx then c10_sw_init_decl r else None)
          else if str_eqb k (lit "struct")
          then match c10_sw_head r with Some (_, r1) => c10_sw_d f (WMembers CType) r1 | None => None end
          else if str_eqb k (lit "enum")
          then match c10_sw_head r with
               | Some (inh, r1) => c10_sw_d f (WMembers (CEnum (if inh then None else Some false))) r1
               | None => None
               end
          else if str_eqb k (lit "indirect")
          then match r with
               | t2 :: r2 => if c10_sw_is_kw "enum" t2
                             then match c10_sw_head r2 with Some (_, r1) => c10_sw_d f (WMembers (CEnum (Some false))) r1 | None => None end
                             else None
               | [] => None
               end
          else if str_eqb k (lit "extension")
          then if c10_sw_at_top ctx
               then match c10_sw_tyid r with
                    | Some r0 => match c10_sw_opt_inherit r0 with
                                 | Some (_, r1) => match c10_sw_eat 123 r1 with Some r2 => c10_sw_d f (WMembers CType) r2 | None => None end
                                 | None => None
                                 end
                    | None => None
                    end
               else None
          else None
        | _ => None
        end
      end
    end
  end.

Definition c10_sw_decl (ts : list c10_wtok) : option (list c10_wtok) := c10_sw_d (S (S (2 * List.length ts))) (WDecl CTop) ts.

(* the declarations of a file, each followed by a line break, a semicolon or the end of the text *)
Fixpoint c10_sw_decls (fuel : nat) (ts : list c10_wtok) : option nat :=
  match fuel with
  | O => None
  | S f =>
    match c10_sw_skipnl ts with
    | [] => Some O
    | t :: r =>
      match c10_sw_decl (t :: r) with
      | Some [] => Some 1%nat
      | Some (t2 :: r2) => if c10_sw_is_nl t2 || c10_sw_is_p 59 t2
                           then match c10_sw_decls f r2 with Some n => Some (S n) | None => None end
                           else None
      | None => None
      end
    end
  end.

(* the verdict: Some n = the text is a file with n top-level declarations; None = not in the grammar *)
Definition c10_sw_recognise (text : str) : option nat :=
  match c10_sw_tokens (S (List.length text)) text with
  | Some ts => c10_sw_decls (S (List.length ts)) ts
  | None => None
  end.
