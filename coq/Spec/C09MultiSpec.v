(* C09 in FOLDER mode (`--output-folder`, one generated file per crate): the declarative side.

   Nothing here calls the model.  The specification is told, for every source file that yields something,
   what the per-file front end hands to the collector (the `arrivals` of Model/MultiFile.v):

     ws : list (crate, per-file data)      crate = the component above the last `src` of the file's path
        p_structs / p_enums / p_aliases    the annotated types of the file (ids: Rust name `original`, generated
                                           name `renamed`, `via_serde_rename`), p_consts its constants
        p_imports                          the import candidates that SURVIVE in the file
                                           (visitors.rs:97 reconcile_referenced_types; their reading in terms of
                                           the file's syntax is C14's subject, Proofs/C14Front.v):
             (d, N)   the file says `use d::..::N` (plain / grouped / nested; `crate` / `self` / `super` stand
                      for the crate of the file) or writes a qualified path d::..::N, AND some annotated item
                      of the file mentions N in a type position, AND N is not a name a type of the file itself
                      is generated under; d and N outside the ignore lists / type mappings
             (d, GLOB) the file says `use d::..::*`

   What a mention denotes (Rust's scoping, per FILE - a file is a module):
     1. a name the file imports explicitly (`use d::N` / path d::N) is d's N: an explicit import shadows a glob
        import, and it cannot coexist with a definition of N in the same module (E0255), so where both an
        explicit import and a type of the own crate exist the own type lives in another module and is not in
        scope without a `use` of its own;
     2. else a type N of the crate itself (typeshare knows types by bare name per crate: modules of one crate
        are not told apart - the same approximation the tool makes);
     3. else the N of a crate the file glob-imports (`use d::*`), the first such crate that has one;
     4. else nothing typeshare knows (a type of an external crate, an unannotated type): nothing is claimed.
   `c9m_denotes ws b f n` is the brief's `denotes ws b n`, with the file made explicit; `c9m_emitted_name ws c n`
   is `emitted_name ws c n`: the name crate c's generated file defines its type n under (after serde(rename);
   the Swift / Kotlin prefix is added by the per-language layer).

   WHERE THE TOOL'S ORDER DIFFERS (reconcile.rs:169 resolve_renamed) - each difference is a decidable class of
   `c9m_known`, not a bend in the definitions above:
     - the tool looks a name up in the import set of the whole CRATE (the union over its files), first the
       explicit imports of that name whose crate serde-renames it, then the crate's own rename; a file is a
       module only for rustc.  Class C09-multi-split-scope: the files of crate b do not agree on an explicit
       import of n - this file imports n from d while another file of b imports n from d' <> d, or this file
       mentions n without importing it while another file of b has an explicit import of n.  Real inputs:
       b/src/one.rs `use a::Item; struct U { i: Item }`, b/src/two.rs `struct Item {..} struct V { i: Item }`
       with a's Item serde-renamed: V's field is rewritten to a's generated name.  (Contains class 1 of finding
       C06-ambiguous-imports, where the two crates rename differently and the hash order decides.)
     - the fallback "own namespace" is taken whenever no importing crate RENAMES the name, also when the name
       IS explicitly imported from a crate that leaves it alone.  Class C09-multi-import-over-own: the file
       imports n explicitly from d <> b, d does not serde-rename its n, and b serde-renames a type n of its
       own (in another module): the reference is rewritten to b's generated name.
     - a glob import is never a rename candidate (its name is `*`).  Class C09-multi-glob-renamed: the file
       reaches n only through `use d::*;` and d generates its n under another name: the reference keeps the
       Rust name while d's file defines - and the import statement of b's file lists - the generated one.
       Real inputs: a: `#[serde(rename = "A2Renamed")] struct A2`; b: `use a::*; struct B1 { f: A2 }`.
     - a generic parameter is looked up like any other name.  Class C09-multi-generic-shadow: a generic
       parameter of the owner is the Rust name of a serde-renamed type of some crate of the workspace
       (`struct G<Item> { i: Item }` next to `#[serde(rename = "X")] struct Item` anywhere).
     - typeshare knows a type by its bare name.  Class C09-multi-two-names: the denoted crate has two types
       of the Rust name n (in two modules) generated under different names; "the name d's file defines n
       under" is then not determined (C14's one_generated_name excludes the same inputs).
   Domain (`c9m_ids_wf`): an item that is not serde-renamed is generated under its Rust name - true of every
   parsed source (Proofs/C14Front.v parse_file_ids_ok). *)
From Coq Require Import String.
From TS Require Import Model.Str Model.Types Model.Parse Model.Lang.Decl Spec.C09Spec.

Definition c9m_ws := list (str * parsed).
Definition GLOB9 : str := lit "*".

(* ---------------------------------------------------------------- definitions: which crate defines what, under which name *)
(* the annotated TYPES of one file (a const is not a type: nothing refers to it in a type position) *)
Definition c9m_type_ids (pd : parsed) : list id :=
  map (fun s => sid s) (p_structs pd) ++ map (fun e => eid (enum_shared e)) (p_enums pd) ++ map (fun a => aid a) (p_aliases pd).
(* the files of crate c, in the order given *)
Definition c9m_files (ws : c9m_ws) (c : str) : list parsed := map snd (filter (fun a => str_eqb (fst a) c) ws).
Definition c9m_crate_types (ws : c9m_ws) (c : str) : list id := flat_map c9m_type_ids (c9m_files ws c).

Definition c9m_named (n : str) (i : id) : bool := str_eqb (original i) n.
(* crate c has an annotated type whose Rust name is n *)
Definition c9m_defines (ws : c9m_ws) (c n : str) : bool := existsb (c9m_named n) (c9m_crate_types ws c).
(* the name crate c's generated file defines its type n under *)
Definition c9m_emitted_name (ws : c9m_ws) (c n : str) : str :=
  match find (c9m_named n) (c9m_crate_types ws c) with Some i => renamed i | None => n end.
(* crate c has a type n that carries #[serde(rename = ..)] *)
Definition c9m_serde_renames (ws : c9m_ws) (c n : str) : bool :=
  existsb (fun i => c9m_named n i && via_serde_rename i) (c9m_crate_types ws c).

(* ---------------------------------------------------------------- what a mention denotes *)
(* the crates file f names for n explicitly / the crates it glob-imports *)
Definition c9m_explicit (f : parsed) (n : str) : list str :=
  map base_crate (filter (fun i => str_eqb (type_name i) n) (p_imports f)).
Definition c9m_globs (f : parsed) : list str :=
  map base_crate (filter (fun i => str_eqb (type_name i) GLOB9) (p_imports f)).

Definition c9m_denotes (ws : c9m_ws) (b : str) (f : parsed) (n : str) : option str :=
  match c9m_explicit f n with
  | d :: _ => Some d
  | [] => if c9m_defines ws b n then Some b else find (fun d => c9m_defines ws d n) (c9m_globs f)
  end.

(* the name a mention of n - in a type position of an item with generic parameters gs, in file f of crate b -
   must be spelled with, before the language's prefix: a generic parameter verbatim, a typeshared type under the
   name its definition is emitted under; None: not a typeshared item, nothing is claimed *)
Definition c9m_spelling (ws : c9m_ws) (b : str) (f : parsed) (gs : list str) (n : str) : option str :=
  if mem_str n gs then Some n
  else match c9m_denotes ws b f n with
       | Some d => if c9m_defines ws d n then Some (c9m_emitted_name ws d n) else None
       | None => None
       end.

(* ---------------------------------------------------------------- domain and classes *)
Definition c9m_ids_wf (ws : c9m_ws) : bool := forallb (fun a => forallb c09_id_wf (c9m_type_ids (snd a))) ws.

(* every explicit import of n anywhere in crate b *)
Definition c9m_crate_explicit (ws : c9m_ws) (b n : str) : list str := flat_map (fun f => c9m_explicit f n) (c9m_files ws b).

Definition c9m_split_scope (ws : c9m_ws) (b : str) (f : parsed) (n : str) : bool :=
  match c9m_explicit f n with
  | d :: _ => negb (forallb (str_eqb d) (c9m_crate_explicit ws b n))
  | [] => negb (c09_is_nil (c9m_crate_explicit ws b n))
  end.
Definition c9m_import_over_own (ws : c9m_ws) (b : str) (f : parsed) (n : str) : bool :=
  match c9m_explicit f n with
  | d :: _ => negb (str_eqb d b) && negb (c9m_serde_renames ws d n) && c9m_serde_renames ws b n
  | [] => false
  end.
Definition c9m_glob_renamed (ws : c9m_ws) (b : str) (f : parsed) (n : str) : bool :=
  match c9m_explicit f n with
  | _ :: _ => false
  | [] => if c9m_defines ws b n then false
          else match find (fun d => c9m_defines ws d n) (c9m_globs f) with
               | Some d => negb (str_eqb (c9m_emitted_name ws d n) n)
               | None => false
               end
  end.
Definition c9m_generic_shadow (ws : c9m_ws) (n : str) : bool := existsb (fun a => c9m_serde_renames ws (fst a) n) ws.
Definition c9m_two_names (ws : c9m_ws) (d n : str) : bool :=
  negb (forallb (fun i => negb (c9m_named n i) || str_eqb (renamed i) (c9m_emitted_name ws d n)) (c9m_crate_types ws d)).

(* the class of ONE mention, from the workspace alone *)
Definition c9m_known (ws : c9m_ws) (b : str) (f : parsed) (gs : list str) (n : str) : option string :=
  if mem_str n gs then (if c9m_generic_shadow ws n then Some "C09-multi-generic-shadow"%string else None)
  else if c9m_split_scope ws b f n then Some "C09-multi-split-scope"%string
  else if c9m_import_over_own ws b f n then Some "C09-multi-import-over-own"%string
  else if c9m_glob_renamed ws b f n then Some "C09-multi-glob-renamed"%string
  else match c9m_denotes ws b f n with
       | Some d => if c9m_two_names ws d n then Some "C09-multi-two-names"%string else None
       | None => None
       end.

(* ... of a file, of a workspace: the first class of any mention *)
Definition c9m_mentions (f : parsed) : list (list str * str) :=
  flat_map (fun tp => map (fun fi => (c9t_generics tp, snd fi)) (c09_type_ids (c9t_type tp))) (c09_tposs f).
Definition c9m_known_file (ws : c9m_ws) (b : str) (f : parsed) : option string :=
  c09_first (map (fun m => c9m_known ws b f (fst m) (snd m)) (c9m_mentions f)).
Definition c9m_known_ws (ws : c9m_ws) : option string :=
  c09_first (map (fun a => c9m_known_file ws (fst a) (snd a)) ws).

(* ---------------------------------------------------------------- the judgement on a generated file *)
(* a reference spelled in the file generated for crate b, under the language's prefix pfx: it stands for a mention
   (form, i) in a type position tp of a source file f of b - same position kind - and, when that mention is in no
   class and the specification has a spelling s for it, it is spelled s (a generic parameter: verbatim, no
   prefix) or pfx ++ s (the emitted name of the denoted definition, with the prefix) *)
Definition c9m_ref_ok (ws : c9m_ws) (b pfx : str) (r : c09_ref) : Prop :=
  exists f tp form i,
    In (b, f) ws /\ In tp (c09_tposs f) /\ In (form, i) (c09_type_ids (c9t_type tp)) /\ c9_pos r = c9t_pos tp /\
    (c9m_known ws b f (c9t_generics tp) i = None ->
     forall s, c9m_spelling ws b f (c9t_generics tp) i = Some s ->
       c9_name r = if mem_str i (c9t_generics tp) then s else pfx ++ s).

(* a definition of the file generated for crate b is declared under the emitted name of a type of b *)
Definition c9m_def_ok (ws : c9m_ws) (b pfx : str) (d : str) : Prop :=
  exists i, In i (c9m_crate_types ws b) /\ d = pfx ++ renamed i.
