(* C07 (topsort + back ends): the vocabulary of the panic-freedom statements of Props/C07.v.

   [panics_only P o]: the outcome [o] is Ok, Err, or a Panic whose site satisfies P.
   [no_panic o]     : the outcome is Ok or Err.

   Two shape facts about the IR that the FRONT END guarantees by construction (Proofs/C07Front*.v) and that
   three back ends rely on (unreachable!/panic! arms in the Rust code):
     - no 64-bit integer primitive occurs in a type (rust_types.rs rejects u64 / i64 / usize / isize with
       UnsupportedType; typescript.rs:137 panics on them);
     - a RustEnum::Unit has unit variants only (parser.rs builds Unit only when every variant is a unit
       variant; typescript.rs:276, go.rs:301, python.rs:368 are `unreachable!()` otherwise).
   Both are computable predicates over the parsed data. *)
From Coq Require Import String.
From TS Require Import Model.Str Model.Outcome Model.Unicode Model.Syntax Model.Types Model.Parse Model.Reconcile
                       Model.TopsortAlgo Model.Topsort Model.Lang.Common.

Definition panics_only {A} (P : string -> Prop) (o : outcome A) : Prop :=
  match o with Panic s => P s | _ => True end.
Definition no_panic {A} (o : outcome A) : Prop := panics_only (fun _ => False) o.

(* the one site topsort can reach: exhaustion of the dependency-collection fuel (= the real stack overflow
   of the recorded finding C07-topsort-recursion) *)
Definition fuel_site (s : string) : Prop := s = "fuel"%string.

(* ---- the two shape facts ---- *)
Definition prim_no64 (p : prim) : bool :=
  match p with PU64 | PI64 | PISize | PUSize => false | _ => true end.

Fixpoint rtype_no64 (t : rtype) : bool :=
  match t with
  | RSimple _ => true
  | RGeneric _ ps => forallb rtype_no64 ps
  | RVec x | RArray x _ | RSlice x | ROption x => rtype_no64 x
  | RHashMap k v => rtype_no64 k && rtype_no64 v
  | RPrim p => prim_no64 p
  end.

Definition field_wf (f : rfield) : bool := rtype_no64 (fty f).
Definition variant_wf (v : rvariant) : bool :=
  match v with
  | VUnit _ => true
  | VTuple t _ => rtype_no64 t
  | VAnon fs _ => forallb field_wf fs
  end.
Definition is_unit_variant (v : rvariant) : bool := match v with VUnit _ => true | _ => false end.
Definition enum_wf (e : renum) : bool :=
  match e with
  | EUnit sh => forallb is_unit_variant (evariants sh)
  | EAlgebraic _ _ sh => forallb variant_wf (evariants sh)
  end.
Definition item_wf (it : ritem) : bool :=
  match it with
  | ItStruct s => forallb field_wf (sfields s)
  | ItEnum e => enum_wf e
  | ItAlias a => rtype_no64 (atype a)
  | ItConst c => rtype_no64 (ctype c)
  end.

(* what parser::parse delivers (and reconcile keeps) *)
Definition pd_wf (pd : parsed) : bool :=
  forallb (fun s => item_wf (ItStruct s)) (p_structs pd) &&
  forallb (fun e => item_wf (ItEnum e)) (p_enums pd) &&
  forallb (fun a => item_wf (ItAlias a)) (p_aliases pd) &&
  forallb (fun c => item_wf (ItConst c)) (p_consts pd).

(* ---- the single-file pipeline, as the whole-pipeline driver command gen_src (ocaml/drv_gen.ml) composes it:
   parser::parse on the file; nothing to generate / the parse errors are reported (exit 1) / reconcile, then the
   back end's generate_types ---- *)
Definition reconcile_single (pd : parsed) : parsed :=
  match Reconcile.reconcile_aliases [([], pd)] with
  | [(_, pd')] => pd'
  | _ => pd
  end.

Definition single_file_run {C : Type} (gen : C -> parsed -> outcome str)
    (uc : Unicode.unicode) (tstr : str -> option Syntax.ty) (T : list str) (c : C) (f : Syntax.file) : outcome (option str) :=
  do r <- parse_file uc tstr T f;
  match r with
  | None => Ok None                                   (* no #[typeshare] marker / nothing annotated: no output *)
  | Some pd =>
    match p_errors pd with
    | e :: _ => Err e                                 (* the parse errors of the file are the diagnostic *)
    | [] => omap Some (gen c (reconcile_single pd))
    end
  end.

(* ---- topsort: dependency collection completes for every item ---- *)
Definition deps_complete (things : list ritem) : bool :=
  forallb (fun thing => match get_dependencies (deps_fuel things) (types_get things) thing {| dres := []; dseen := [] |} with
                        | Some _ => true
                        | None => false
                        end) things.
