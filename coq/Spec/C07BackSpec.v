(* C07 (topsort + back ends): the vocabulary of the panic-freedom statements of Props/C07.v.

   [panics_only P o]: the outcome [o] is Ok, Err, or a Panic whose site satisfies P.
   [no_panic o]     : the outcome is Ok or Err.

   Two shape facts about the IR that the FRONT END guarantees by construction (Proofs/C07Front*.v) and that
   three back ends rely on (unreachable!/panic! arms in the Rust code):
     - no 64-bit integer primitive occurs in a type (rust_types.rs rejects u64 / i64 / usize / isize with
       UnsupportedType; typescript.rs:137 panics on them);
     - a RustEnum::Unit has unit variants only (parser.rs builds Unit only when every variant is a unit
       variant; typescript.rs:276, go.rs:301, python.rs:368 are `unreachable!()` otherwise).
   Both are computable predicates over the parsed data. *)
From Coq Require Import String.
From TS Require Import Model.Str Model.Outcome Model.Unicode Model.Syntax Model.Types Model.Parse Model.Reconcile
                       Model.TopsortAlgo Model.Topsort Model.Lang.Common.

Definition panics_only {A} (P : string -> Prop) (o : outcome A) : Prop :=
  match o with Panic s => P s | _ => True end.
Definition no_panic {A} (o : outcome A) : Prop := panics_only (fun _ => False) o.

(* the one site topsort can reach: exhaustion of the dependency-collection fuel (= the real stack overflow
   of the recorded finding C07-topsort-recursion) *)
Definition fuel_site (s : string) : Prop := s = "fuel"%string.

(* ---- the two shape facts ---- *)
Definition prim_no64 (p : prim) : bool :=
  match p with PU64 | PI64 | PISize | PUSize => false | _ => true end.

Fixpoint rtype_no64 (t : rtype) : bool :=
  match t with
  | RSimple _ => true
  | RGeneric _ ps => forallb rtype_no64 ps
  | RVec x | RArray x _ | RSlice x | ROption x => rtype_no64 x
  | RHashMap k v => rtype_no64 k && rtype_no64 v
  | RPrim p => prim_no64 p
  end.

Definition field_wf (f : rfield) : bool := rtype_no64 (fty f).
Definition variant_wf (v : rvariant) : bool :=
  match v with
  | VUnit _ => true
  | VTuple t _ => rtype_no64 t
  | VAnon fs _ => forallb field_wf fs
  end.
Definition is_unit_variant (v : rvariant) : bool := match v with VUnit _ => true | _ => false end.
Definition enum_wf (e : renum) : bool :=
  match e with
  | EUnit sh => forallb is_unit_variant (evariants sh)
  | EAlgebraic _ _ sh => forallb variant_wf (evariants sh)
  end.
Definition item_wf (it : ritem) : bool :=
  match it with
  | ItStruct s => forallb field_wf (sfields s)
  | ItEnum e => enum_wf e
  | ItAlias a => rtype_no64 (atype a)
  | ItConst c => rtype_no64 (ctype c)
  end.

(* what parser::parse delivers (and reconcile keeps) *)
Definition pd_wf (pd : parsed) : bool :=
  forallb (fun s => item_wf (ItStruct s)) (p_structs pd) &&
  forallb (fun e => item_wf (ItEnum e)) (p_enums pd) &&
  forallb (fun a => item_wf (ItAlias a)) (p_aliases pd) &&
  forallb (fun c => item_wf (ItConst c)) (p_consts pd).

(* ---- Go: every string that can reach convert_acronyms_to_uppercase (go.rs:579) is ASCII ----
   The names Go's writers convert: a struct's renamed id, an enum's / alias's / variant's / field's original id, the
   tag key, and the printed TYPE of every field and tuple variant (ids of user types, type_mappings results, a
   #[typeshare(go(type = ".."))] override).  Constants and alias targets are not converted. *)
Definition str_ascii (s : str) : bool := forallb is_ascii s.

Fixpoint rtype_ascii (t : rtype) : bool :=
  match t with
  | RSimple id => str_ascii id
  | RGeneric id ps => str_ascii id && forallb rtype_ascii ps
  | RVec x | RArray x _ | RSlice x | ROption x => rtype_ascii x
  | RHashMap k v => rtype_ascii k && rtype_ascii v
  | RPrim _ => true
  end.

Definition go_field_ascii (f : rfield) : bool :=
  str_ascii (original (fid f)) &&
  match type_override f Go with Some o => str_ascii o | None => rtype_ascii (fty f) end.

Definition go_variant_ascii (v : rvariant) : bool :=
  str_ascii (original (vid (variant_shared v))) &&
  match v with
  | VUnit _ => true
  | VTuple t _ => rtype_ascii t
  | VAnon fs _ => forallb go_field_ascii fs
  end.

Definition go_item_ascii (it : ritem) : bool :=
  match it with
  | ItStruct s => str_ascii (renamed (sid s)) && forallb go_field_ascii (sfields s)
  | ItEnum e =>
    str_ascii (original (eid (enum_shared e))) &&
    match e with EAlgebraic tag _ _ => str_ascii tag | EUnit _ => true end &&
    forallb go_variant_ascii (evariants (enum_shared e))
  | ItAlias a => str_ascii (original (aid a))
  | ItConst _ => true
  end.

Definition go_input_ascii (mappings : tmap) (pd : parsed) : bool :=
  forallb (fun kv => str_ascii (snd kv)) mappings && forallb go_item_ascii (items_of pd).

(* ---- the single-file pipeline, as the whole-pipeline driver command gen_src (ocaml/drv_gen.ml) composes it:
   parser::parse on the file; nothing to generate / the parse errors are reported (exit 1) / reconcile, then the
   back end's generate_types ---- *)
Definition reconcile_single (pd : parsed) : parsed :=
  match Reconcile.reconcile_aliases [([], pd)] with
  | [(_, pd')] => pd'
  | _ => pd
  end.

Definition single_file_run {C : Type} (gen : C -> parsed -> outcome str)
    (uc : Unicode.unicode) (tstr : str -> option Syntax.ty) (T : list str) (c : C) (f : Syntax.file) : outcome (option str) :=
  do r <- parse_file uc tstr T f;
  match r with
  | None => Ok None                                   (* no #[typeshare] marker / nothing annotated: no output *)
  | Some pd =>
    match p_errors pd with
    | e :: _ => Err e                                 (* the parse errors of the file are the diagnostic *)
    | [] => omap Some (gen c (reconcile_single pd))
    end
  end.

(* what Go is handed in that run consists of ASCII strings (vacuously so when nothing is generated) *)
Definition go_run_ascii (uc : Unicode.unicode) (tstr : str -> option Syntax.ty) (T : list str) (mappings : tmap) (f : Syntax.file) : bool :=
  match parse_file uc tstr T f with
  | Ok (Some pd) => go_input_ascii mappings (reconcile_single pd)
  | _ => true
  end.

(* ---- topsort: dependency collection completes for every item ---- *)
Definition deps_complete (things : list ritem) : bool :=
  forallb (fun thing => match get_dependencies (deps_fuel things) (types_get things) thing {| dres := []; dseen := [] |} with
                        | Some _ => true
                        | None => false
                        end) things.
