(* C04, Python: the class of the open finding C04-python-option-drops-helpers.

   python.rs write_field looks the custom JSON translation of a field up by the FORMATTED type text.  For `OffsetDateTime` that
   text is `datetime` and the field is written `Annotated[datetime, BeforeValidator(parse_rfc3339),
   PlainSerializer(serialize_datetime_data)]`; for `Option<OffsetDateTime>` the text is `Optional[datetime]`, no translation is
   found, and the field is the bare `Optional[datetime] = Field(default=None)`: the optional marker changes the translated type
   (the helpers disappear).  The class is decided on the input - the Rust base type under the Option layers and their number -
   AND on the exact shape of the failure: the marker is present, the type without it is the bare translated type (under the
   remaining Option layers), and the twin of the field without one Option layer carries the helpers. *)
From Coq Require Import List Bool Arith String.
From TS Require Import Model.Str.
Import ListNotations.

(* Rust type -> Python type with a custom JSON translation (python.rs json_translation_for_type) *)
Definition c04_py_translated : list (str * str) := [(lit "OffsetDateTime", lit "datetime")].

Fixpoint c04_py_assoc (k : str) (l : list (str * str)) : option str :=
  match l with [] => None | (a, b) :: l' => if str_eqb a k then Some b else c04_py_assoc k l' end.

Fixpoint c04_py_optional (n : nat) (t : str) : str :=
  match n with O => t | S k => lit "Optional[" ++ c04_py_optional k t ++ lit "]" end.

Definition c04_py_option_drops_helpers (rust_base : str) (depth : nat) (marker : bool) (base twin : str) : bool :=
  match c04_py_assoc rust_base c04_py_translated with
  | None => false
  | Some py =>
      Nat.leb 1 depth && marker && str_eqb base (c04_py_optional (depth - 1) py) &&
      (starts_with (lit "Annotated[" ++ py ++ lit ",") twin || starts_with (lit "Annotated[Optional[" ++ py) twin)
  end.
