(* C16: domain, finding classes and verdict predicate, all computable (extracted and evaluated on
   the implementation's observations by the check). *)
From Coq Require Import String.
From TS Require Import Model.Str Model.Outcome Model.Unicode Spec.SerdeCase.

Inductive position := PField | PVariant.
Definition cls (s:string) : option string := Some s.

Definition snake_char (c:char) : bool := is_alower c || is_adigit c || (c =? ch_us).
Definition camel_char (c:char) : bool := is_aalpha c || is_adigit c.

(* conventional field identifier: [a-z0-9_]+ with at least one non-underscore character *)
Definition conv_field (s:str) : bool :=
  forallb snake_char s && existsb (fun c => negb (c =? ch_us)) s.
(* conventional variant identifier: [A-Z][A-Za-z0-9]* *)
Definition conv_variant (s:str) : bool :=
  match s with
  | [] => false
  | c :: r => is_aupper c && forallb camel_char r
  end.
(* "URL", "TOTP", "AB1": no ASCII lowercase anywhere and an uppercase letter after position 0 *)
Definition allcaps (s:str) : bool :=
  str_eqb (str_upper_ascii s) s && existsb is_aupper (tl s).

(* Finding classes on the unchanged tree: identifiers on which typeshare's single position-blind
   implementation is not shown to agree with serde_derive. [None] = the theorem covers it. *)
Definition known_C16 (p:position) (s:str) : option string :=
  match p with
  | PField =>
    if conv_field s then None
    else if negb (forallb is_ascii s) then cls "C16-field-nonascii"
    else if existsb is_aupper s then cls "C16-field-has-upper"
    else cls "C16-field-degenerate"
  | PVariant =>
    if conv_variant s then (if allcaps s then cls "C16-variant-allcaps" else None)
    else if negb (forallb is_ascii s) then cls "C16-variant-nonascii"
    else if contains_char ch_us s then cls "C16-variant-has-underscore"
    else if match s with c :: _ => is_alower c | [] => false end then cls "C16-variant-lower-first"
    else cls "C16-variant-degenerate"
  end.

Definition serde_name (uc:unicode) (p:position) (rule_str:option str) (s:str) : option str :=
  match p with
  | PField => serde_field_name rule_str s
  | PVariant => serde_variant_name uc rule_str s
  end.

(* Verdict on an observed typeshare result [o]: equal to serde's name.  Where serde_derive itself
   rejects the program ([None]: its own variant[..1] / pascal[..1] byte slices panic inside the
   derive macro on `__` or a non-ASCII first character under camelCase) there is no serde name to
   agree with and the property says nothing.  typeshare no longer panics on those identifiers
   (/repo fix of to_camel_case: `__` gives the empty name, `étoile` stays `étoile`); they remain
   outside the domain for that reason only. *)
Definition good_C16 (uc:unicode) (p:position) (rule_str:option str) (s:str) (o:outcome str) : bool :=
  match serde_name uc p rule_str s with
  | None => true
  | Some x => match o with Ok y => str_eqb x y | _ => false end
  end.
