(* C10, grammar half for Scala: a tokenizer (with the newline rule of the language), and a recursive-descent
   recogniser for the declaration subset the Scala back end emits, written from the Scala Language Specification,
   version 2.13 (chapter 1 "Lexical Syntax", chapter 13 "Syntax Summary"; the productions are quoted below), not
   from the printer.

   LEXICAL SYNTAX (SLS 1)
     whitespace      blank, tab, CR, FF; a line end is the token UNl (see the newline rule)
     comments        // to the end of the line;  /* ... */, which NEST (SLS 1.4); a block comment that contains a line
                     end counts as a line end
     plainid / varid letter {letter | digit}, letters being A-Z a-z $ _ and every code point >= 128   (token UId s);
                     the [_ op] suffix of idrest and the operator identifiers are not modelled: every operator
                     character is a one-character token UP c (they only occur as = : , . [ ] ( ) { } @ + - in the subset)
     `...`           back-quoted identifier: any characters but a back-quote or a line end, at least one (token UBq):
                     a name whatever its spelling
     stringLiteral   DQUOTE {stringElement} DQUOTE, no line end inside; after a backslash only b t n f r DQUOTE QUOTE or
                     a backslash (escapeSeq), or
                     u{u} and four hexadecimal digits (UnicodeEscape)        (token UStr)
                     (the multi-line form with three quotes is not in the subset: it is read as adjacent literals,
                     which no production below accepts)
     numeric literal a digit followed by letters, digits, _ and .  (one token UNum; its inside is not checked)
     reserved words  abstract case catch class def do else extends false final finally for forSome if implicit
                     import lazy macro match new null object override package private protected return sealed super
                     this throw trait try true type val var while with yield _          (SLS 1.1)
     NEWLINES (SLS 1.2) a newline in a Scala source text is treated as the special token nl if the three following
                     criteria are satisfied: 1. the token immediately preceding the newline can terminate a statement;
                     2. the token immediately following the newline can begin a statement; 3. the token appears in a
                     region where newlines are enabled.  Terminating: a literal, an identifier, this null true false
                     return type _ ) ] }.  NOT beginning: catch else extends finally forSome match with yield , . ; : =
                     # [ ) ] }  (and the arrows, which are not tokens here).  Newlines are enabled at the top level and
                     directly inside braces, disabled directly inside ( ) and [ ].  [c10_sc_nls] is that rule as a
                     left-to-right automaton over the raw tokens (region stack, "the last token can end a statement",
                     "a line end is pending"); several line ends give one nl (the grammar's nl {nl} / semi collapse).
                     `case` always counts as beginning a statement (it does when class / object follows; case CLAUSES
                     are not in the subset).

   SYNTAX (SLS 13; the subset)
     CompilationUnit  ::= {'package' QualId semi} TopStatSeq
     TopStatSeq       ::= TopStat {semi TopStat}
     TopStat          ::= {Annotation [nl]} {Modifier} TmplDef | Packaging | PackageObject |            (no Import)
     Packaging        ::= 'package' QualId [nl] '{' TopStatSeq '}'
     PackageObject    ::= 'package' 'object' ObjectDef
     QualId           ::= id {'.' id}
     TmplDef          ::= ['case'] 'class' ClassDef | ['case'] 'object' ObjectDef | 'trait' TraitDef
     ClassDef         ::= id [TypeParamClause] ClassParamClauses ClassTemplateOpt
                          (a case class needs at least one parameter clause: SLS 5.3.2)
     ClassParamClauses::= {[nl] '(' [ClassParams] ')'}
     ClassParams      ::= ClassParam {',' ClassParam}
     ClassParam       ::= {Annotation} {Modifier} [('val' | 'var')] id ':' ParamType ['=' Expr]
     TraitDef         ::= id [TypeParamClause] TraitTemplateOpt
     ObjectDef        ::= id ClassTemplateOpt                               (NO type parameters, NO parameters)
     ClassTemplateOpt ::= 'extends' ClassTemplate | [['extends'] TemplateBody]
     ClassTemplate    ::= ClassParents [TemplateBody]         ClassParents ::= Constr {'with' AnnotType}
     Constr           ::= AnnotType                                         (no ArgumentExprs)
     TemplateBody     ::= [nl] '{' TemplateStat {semi TemplateStat} '}'
     TemplateStat     ::= {Annotation [nl]} {Modifier} Def | {Annotation [nl]} {Modifier} Dcl |
     Def              ::= 'val' id ':' Type '=' Expr | 'def' id ':' Type '=' Expr | 'type' TypeDef | TmplDef
     Dcl              ::= 'val' id ':' Type | 'def' id ':' Type
     TypeDef          ::= id [TypeParamClause] '=' Type
     TypeParamClause  ::= '[' VariantTypeParam {',' VariantTypeParam} ']'     (never empty)
     VariantTypeParam ::= ['+' | '-'] (id | '_')                              (no bounds)
     Type, ParamType  ::= StableId [TypeArgs] | '(' Types ')'                 StableId ::= id {'.' id}
     TypeArgs         ::= '[' Types ']'          Types ::= Type {',' Type}
     Annotation       ::= '@' StableId                                        (no arguments)
     Modifier         ::= abstract final sealed implicit lazy override private protected
     Expr             ::= stringLiteral | ['-'] numeric literal | true | false | null | StableId
     semi             ::= ';' | nl {nl}
   An id is UBq or a UId that is not a reserved word: `x: T = _` (the `_` of a var member's default initialiser) is
   not an Expr, `type: String` not a ClassParam, `type X = T` not a TopStat.

   [c10_sc_recognise text] = Some n : the text is a compilation unit of this grammar with n definitions (counted:
   the TmplDefs at the top level and directly inside packagings, the members of package objects). *)
From Coq Require Import String.
From TS Require Import Model.Str Model.Types Model.Parse Spec.C10TsGrammar.

Inductive c10_utok :=
| UId (s : str)
| UBq
| UStr
| UNum
| UP (c : char)
| UNl.

Definition c10_sc_letter (c : char) : bool := is_aalpha c || (c =? ch_us) || (c =? 36) || (128 <=? c).
Definition c10_sc_id_char (c : char) : bool := c10_sc_letter c || is_adigit c.
Definition c10_sc_num_char (c : char) : bool := c10_sc_id_char c || (c =? 46).
Definition c10_sc_blank (c : char) : bool := (c =? 32) || (c =? 9) || (c =? 13) || (c =? 12).
Definition c10_sc_hex (c : char) : bool := is_adigit c || ((97 <=? c) && (c <=? 102)) || ((65 <=? c) && (c <=? 70)).

(* inside a string literal: ordinary text, just after a backslash, after backslash-u (more u's may follow), n more
   hexadecimal digits to come *)
Inductive c10_sc_sstate := USNorm | USEsc | USUni | USHex (n : nat).

(* the rest after the closing quote (None: unterminated, a line end inside, or an escape the language does not have) *)
Fixpoint c10_sc_skip_string (st : c10_sc_sstate) (s : str) : option str :=
  match s with
  | [] => None
  | c :: r =>
    match st with
    | USNorm => if c =? ch_dq then Some r
                else if c =? ch_bs then c10_sc_skip_string USEsc r
                else if c =? ch_nl then None
                else c10_sc_skip_string USNorm r
    | USEsc => if (c =? 98) || (c =? 116) || (c =? 110) || (c =? 102) || (c =? 114) || (c =? ch_dq) || (c =? ch_sq) || (c =? ch_bs)
               then c10_sc_skip_string USNorm r
               else if c =? 117 then c10_sc_skip_string USUni r
               else None
    | USUni => if c =? 117 then c10_sc_skip_string USUni r
               else if c10_sc_hex c then c10_sc_skip_string (USHex 2) r
               else None
    | USHex n => if c10_sc_hex c then c10_sc_skip_string (match n with O => USNorm | S m => USHex m end) r else None
    end
  end.

(* the rest after the closing back-quote, and whether the name was non-empty *)
Fixpoint c10_sc_skip_bq (seen : bool) (s : str) : option str :=
  match s with
  | [] => None
  | c :: r => if c =? 96 then (if seen then Some r else None)
              else if c =? ch_nl then None
              else c10_sc_skip_bq true r
  end.

(* the rest after the star-slash that closes a block comment opened `depth`+1 times, and whether a line end was seen *)
Fixpoint c10_sc_skip_block (depth : nat) (seen : bool) (s : str) : option (bool * str) :=
  match s with
  | [] => None
  | c :: r =>
    match r with
    | d :: r' =>
      if (c =? 42) && (d =? 47)
      then match depth with O => Some (seen, r') | S k => c10_sc_skip_block k seen r' end
      else if (c =? 47) && (d =? 42) then c10_sc_skip_block (S depth) seen r'
      else c10_sc_skip_block depth (seen || (c =? ch_nl)) r
    | [] => None
    end
  end.

(* one step: skip blanks / a comment (no token), or cut one token *)
Definition c10_sc_next (s : str) : option (option c10_utok * str) :=
  match s with
  | [] => None
  | c :: r =>
    if c10_sc_blank c then Some (None, r)
    else if c =? ch_nl then Some (Some UNl, r)
    else if (c =? 47) && match r with d :: _ => d =? 47 | [] => false end
    then let '(_, b) := c10_take_while (fun x => negb (x =? ch_nl)) r in Some (None, b)
    else if (c =? 47) && match r with d :: _ => d =? 42 | [] => false end
    then match c10_sc_skip_block 0 false (tl r) with
         | Some (seen, r') => Some (if seen then Some UNl else None, r')
         | None => None
         end
    else if c =? ch_dq then match c10_sc_skip_string USNorm r with Some r' => Some (Some UStr, r') | None => None end
    else if c =? 96 then match c10_sc_skip_bq false r with Some r' => Some (Some UBq, r') | None => None end
    else if c10_sc_letter c then let '(a, b) := c10_take_while c10_sc_id_char s in Some (Some (UId a), b)
    else if is_adigit c then let '(_, b) := c10_take_while c10_sc_num_char s in Some (Some UNum, b)
    else Some (Some (UP c), r)
  end.

Fixpoint c10_sc_tokens (fuel : nat) (s : str) : option (list c10_utok) :=
  match fuel with
  | O => None
  | S f =>
    match s with
    | [] => Some []
    | _ => match c10_sc_next s with
           | None => None
           | Some (ot, r) =>
             match c10_sc_tokens f r with
             | Some ts => Some (match ot with Some t => t :: ts | None => ts end)
             | None => None
             end
           end
    end
  end.

(* ------------------------------------------------------------------ the newline rule *)
Definition c10_sc_keywords : list str :=
  map lit ["abstract"; "case"; "catch"; "class"; "def"; "do"; "else"; "extends"; "false"; "final"; "finally"; "for"; "forSome";
           "if"; "implicit"; "import"; "lazy"; "macro"; "match"; "new"; "null"; "object"; "override"; "package"; "private";
           "protected"; "return"; "sealed"; "super"; "this"; "throw"; "trait"; "try"; "true"; "type"; "val"; "var"; "while";
           "with"; "yield"; "_"]%string.
Definition c10_sc_kw (s : str) : bool := mem_str s c10_sc_keywords.

(* the tokens that can terminate a statement *)
Definition c10_sc_can_end (t : c10_utok) : bool :=
  match t with
  | UId s => negb (c10_sc_kw s) || mem_str s (map lit ["this"; "null"; "true"; "false"; "return"; "type"; "_"]%string)
  | UBq | UStr | UNum => true
  | UP c => (c =? 41) || (c =? 93) || (c =? 125)
  | UNl => false
  end.
(* the tokens that can begin a statement *)
Definition c10_sc_can_begin (t : c10_utok) : bool :=
  match t with
  | UId s => negb (mem_str s (map lit ["catch"; "else"; "extends"; "finally"; "forSome"; "match"; "with"; "yield"]%string))
  | UBq | UStr | UNum => true
  | UP c => negb ((c =? 44) || (c =? 46) || (c =? 59) || (c =? 58) || (c =? 61) || (c =? 35) || (c =? 91) || (c =? 41) || (c =? 93) || (c =? 125))
  | UNl => false
  end.

(* the region stack: true = newlines enabled (a brace), false = disabled (a parenthesis or a square bracket) *)
Definition c10_sc_enabled (regs : list bool) : bool := match regs with [] => true | b :: _ => b end.
Definition c10_sc_region (regs : list bool) (t : c10_utok) : list bool :=
  match t with
  | UP c => if c =? 123 then true :: regs
            else if (c =? 40) || (c =? 91) then false :: regs
            else if (c =? 125) || (c =? 41) || (c =? 93) then tl regs
            else regs
  | _ => regs
  end.

(* ce: the last token can end a statement; pend: a line end was seen after it, in an enabled region *)
Fixpoint c10_sc_nls (regs : list bool) (ce pend : bool) (ts : list c10_utok) : list c10_utok :=
  match ts with
  | [] => []
  | UNl :: r => c10_sc_nls regs ce (pend || (ce && c10_sc_enabled regs)) r
  | t :: r => (if pend && c10_sc_can_begin t then [UNl] else []) ++ t :: c10_sc_nls (c10_sc_region regs t) (c10_sc_can_end t) false r
  end.

(* ------------------------------------------------------------------ the parser *)
Definition c10_sc_is_p (c : char) (t : c10_utok) : bool := match t with UP d => d =? c | _ => false end.
Definition c10_sc_is_kw (w : string) (t : c10_utok) : bool := match t with UId s => str_eqb s (lit w) | _ => false end.
(* an id: back-quoted, or not a reserved word *)
Definition c10_sc_is_name (t : c10_utok) : bool := match t with UId s => negb (c10_sc_kw s) | UBq => true | _ => false end.
Definition c10_sc_is_sep (t : c10_utok) : bool := match t with UNl => true | UP c => c =? 59 | _ => false end.

Definition c10_sc_eat (c : char) (ts : list c10_utok) : option (list c10_utok) :=
  match ts with t :: r => if c10_sc_is_p c t then Some r else None | [] => None end.
Definition c10_sc_eat_name (ts : list c10_utok) : option (list c10_utok) :=
  match ts with t :: r => if c10_sc_is_name t then Some r else None | [] => None end.

(* {'.' id} *)
Fixpoint c10_sc_path (fuel : nat) (ts : list c10_utok) : option (list c10_utok) :=
  match fuel with
  | O => None
  | S f =>
    match ts with
    | t :: r => if c10_sc_is_p 46 t
                then match r with t2 :: r2 => if c10_sc_is_name t2 then c10_sc_path f r2 else None | [] => None end
                else Some ts
    | [] => Some ts
    end
  end.
(* StableId / QualId ::= id {'.' id} *)
Definition c10_sc_stable (ts : list c10_utok) : option (list c10_utok) :=
  match c10_sc_eat_name ts with Some r => c10_sc_path (S (List.length r)) r | None => None end.

(* types and type lists, mutually recursive: one function with a mode and explicit fuel *)
Inductive c10_sc_tmode := UType | UTypesTail (closer : char).

Fixpoint c10_sg (fuel : nat) (m : c10_sc_tmode) (ts : list c10_utok) : option (list c10_utok) :=
  match fuel with
  | O => None
  | S f =>
    match m with
    | UType =>
      match ts with
      | t :: r =>
        if c10_sc_is_p 40 t then match c10_sg f UType r with Some r1 => c10_sg f (UTypesTail 41) r1 | None => None end
        else match c10_sc_stable ts with
             | Some (t2 :: r2) => if c10_sc_is_p 91 t2
                                  then match c10_sg f UType r2 with Some r3 => c10_sg f (UTypesTail 93) r3 | None => None end
                                  else Some (t2 :: r2)
             | other => other
             end
      | [] => None
      end
    | UTypesTail closer =>
      match ts with
      | t :: r => if c10_sc_is_p closer t then Some r
                  else if c10_sc_is_p 44 t then match c10_sg f UType r with Some r2 => c10_sg f (UTypesTail closer) r2 | None => None end
                  else None
      | [] => None
      end
    end
  end.

Definition c10_sc_type (ts : list c10_utok) : option (list c10_utok) := c10_sg (S (S (2 * List.length ts)%nat)) UType ts.

(* [TypeParamClause] *)
Fixpoint c10_sc_tparams_tail (fuel : nat) (ts : list c10_utok) : option (list c10_utok) :=
  match fuel with
  | O => None
  | S f =>
    let ts1 := match ts with t :: r => if c10_sc_is_p 43 t || c10_sc_is_p 45 t then r else ts | [] => ts end in
    match ts1 with
    | t :: t2 :: r2 => if c10_sc_is_name t || c10_sc_is_kw "_" t
                       then if c10_sc_is_p 93 t2 then Some r2 else if c10_sc_is_p 44 t2 then c10_sc_tparams_tail f r2 else None
                       else None
    | _ => None
    end
  end.
Definition c10_sc_tparams (ts : list c10_utok) : option (list c10_utok) :=
  match ts with
  | t :: r => if c10_sc_is_p 91 t then c10_sc_tparams_tail (List.length r) r else Some ts
  | [] => Some ts
  end.

(* Expr, the subset *)
Definition c10_sc_expr (ts : list c10_utok) : option (list c10_utok) :=
  match ts with
  | UStr :: r | UNum :: r => Some r
  | UP c :: UNum :: r => if c =? 45 then Some r else None
  | UId s :: r => if mem_str s (map lit ["true"; "false"; "null"]%string) then Some r else c10_sc_stable ts
  | UBq :: _ => c10_sc_stable ts
  | _ => None
  end.

Definition c10_sc_modifiers : list str :=
  map lit ["abstract"; "final"; "sealed"; "implicit"; "lazy"; "override"; "private"; "protected"]%string.
Definition c10_sc_is_modifier (t : c10_utok) : bool := match t with UId s => mem_str s c10_sc_modifiers | _ => false end.

(* {Annotation [nl]} {Modifier}  (nlok: a line end may follow an annotation) *)
Fixpoint c10_sc_annots (fuel : nat) (nlok : bool) (ts : list c10_utok) : option (list c10_utok) :=
  match fuel with
  | O => None
  | S f =>
    match ts with
    | t :: r => if c10_sc_is_p 64 t
                then match c10_sc_stable r with
                     | Some (UNl :: r1) => if nlok then c10_sc_annots f nlok r1 else c10_sc_annots f nlok (UNl :: r1)
                     | Some r1 => c10_sc_annots f nlok r1
                     | None => None
                     end
                else Some ts
    | [] => Some ts
    end
  end.
Fixpoint c10_sc_mods (ts : list c10_utok) : list c10_utok :=
  match ts with t :: r => if c10_sc_is_modifier t then c10_sc_mods r else ts | [] => ts end.

(* ClassParam {',' ClassParam} ')'  (the opening parenthesis is consumed) *)
Definition c10_sc_param (ts : list c10_utok) : option (list c10_utok) :=
  match c10_sc_annots (S (List.length ts)) false ts with
  | None => None
  | Some ts0 =>
    let ts1 := c10_sc_mods ts0 in
    let ts2 := match ts1 with t :: r => if c10_sc_is_kw "val" t || c10_sc_is_kw "var" t then r else ts1 | [] => ts1 end in
    match c10_sc_eat_name ts2 with
    | Some r => match c10_sc_eat 58 r with
                | Some r1 => match c10_sc_type r1 with
                             | Some (t :: r2) => if c10_sc_is_p 61 t then c10_sc_expr r2 else Some (t :: r2)
                             | other => other
                             end
                | None => None
                end
    | None => None
    end
  end.
Fixpoint c10_sc_params (fuel : nat) (ts : list c10_utok) : option (list c10_utok) :=
  match fuel with
  | O => None
  | S f =>
    match c10_sc_param ts with
    | Some (t :: r) => if c10_sc_is_p 41 t then Some r else if c10_sc_is_p 44 t then c10_sc_params f r else None
    | _ => None
    end
  end.
(* {[nl] '(' [ClassParams] ')'}: the number of clauses and the rest *)
Fixpoint c10_sc_clauses (fuel : nat) (ts : list c10_utok) : option (nat * list c10_utok) :=
  match fuel with
  | O => None
  | S f =>
    let ts1 := match ts with UNl :: (t :: _) as r => if c10_sc_is_p 40 t then r else ts | _ => ts end in
    match ts1 with
    | t :: r =>
      if c10_sc_is_p 40 t
      then match (match r with t2 :: r2 => if c10_sc_is_p 41 t2 then Some r2 else c10_sc_params (List.length r) r | [] => None end) with
           | Some r3 => match c10_sc_clauses f r3 with Some (n, r4) => Some (S n, r4) | None => None end
           | None => None
           end
      else Some (O, ts)
    | [] => Some (O, ts)
    end
  end.

(* val / def members and type definitions: what follows the keyword *)
Definition c10_sc_valdef (ts : list c10_utok) : option (list c10_utok) :=
  match c10_sc_eat_name ts with
  | Some r => match c10_sc_eat 58 r with
              | Some r1 => match c10_sc_type r1 with
                           | Some (t :: r2) => if c10_sc_is_p 61 t then c10_sc_expr r2 else Some (t :: r2)
                           | other => other
                           end
              | None => None
              end
  | None => None
  end.
Definition c10_sc_typedef (ts : list c10_utok) : option (list c10_utok) :=
  match c10_sc_eat_name ts with
  | Some r => match c10_sc_tparams r with
              | Some r1 => match c10_sc_eat 61 r1 with Some r2 => c10_sc_type r2 | None => None end
              | None => None
              end
  | None => None
  end.

(* a statement must be followed by a separator, a closing brace or the end of the text *)
Definition c10_sc_stat_end (ts : list c10_utok) : bool :=
  match ts with [] => true | t :: _ => c10_sc_is_sep t || c10_sc_is_p 125 t end.

(* statement sequences, statements, templates and template bodies, mutually recursive: one function with a mode and
   explicit fuel; the answer carries the number of definitions counted *)
Inductive c10_sc_smode :=
| UStats (top closer : bool)       (* TopStatSeq / TemplateStat sequence, up to the closing brace (closer) or the end *)
| UStat (top : bool)
| UTemplateOpt                     (* ClassTemplateOpt / TraitTemplateOpt *)
| UWiths                           (* {'with' AnnotType} [TemplateBody] *)
| UBodyOpt.                        (* [TemplateBody] *)

Fixpoint c10_sq (fuel : nat) (m : c10_sc_smode) (ts : list c10_utok) : option (nat * list c10_utok) :=
  match fuel with
  | O => None
  | S f =>
    match m with
    | UStats top closer =>
      match ts with
      | [] => if closer then None else Some (O, [])
      | t :: r =>
        if c10_sc_is_p 125 t then (if closer then Some (O, r) else None)
        else if c10_sc_is_sep t then c10_sq f (UStats top closer) r
        else match c10_sq f (UStat top) ts with
             | Some (n, r1) =>
               if c10_sc_stat_end r1
               then match c10_sq f (UStats top closer) r1 with Some (k, r2) => Some ((n + k)%nat, r2) | None => None end
               else None
             | None => None
             end
      end
    | UStat top =>
      match ts with
      | t :: t2 :: r2 =>
        if top && c10_sc_is_kw "package" t
        then if c10_sc_is_kw "object" t2
             then (* PackageObject: its members are counted *)
               match c10_sc_eat_name r2 with Some r3 => c10_sq f UTemplateOpt r3 | None => None end
             else (* Packaging *)
               match c10_sc_stable (t2 :: r2) with
               | Some r3 =>
                 let r4 := match r3 with UNl :: (t5 :: _) as r5 => if c10_sc_is_p 123 t5 then r5 else r3 | _ => r3 end in
                 match c10_sc_eat 123 r4 with Some r5 => c10_sq f (UStats true true) r5 | None => None end
               | None => None
               end
        else
          match c10_sc_annots (S (List.length ts)) true ts with
          | None => None
          | Some ts0 =>
            let ts1 := c10_sc_mods ts0 in
            let '(cas, ts2) := match ts1 with t3 :: r3 => if c10_sc_is_kw "case" t3 then (true, r3) else (false, ts1) | [] => (false, ts1) end in
            match ts2 with
            | UId k :: r3 =>
              if str_eqb k (lit "class") then
                match c10_sc_eat_name r3 with
                | Some r4 =>
                  match c10_sc_tparams r4 with
                  | Some r5 =>
                    match c10_sc_clauses (S (List.length r5)) r5 with
                    | Some (n, r6) => if cas && Nat.eqb n 0 then None
                                      else match c10_sq f UTemplateOpt r6 with Some (_, r7) => Some (1%nat, r7) | None => None end
                    | None => None
                    end
                  | None => None
                  end
                | None => None
                end
              else if str_eqb k (lit "object") then
                match c10_sc_eat_name r3 with
                | Some r4 => match c10_sq f UTemplateOpt r4 with Some (_, r5) => Some (1%nat, r5) | None => None end
                | None => None
                end
              else if cas then None
              else if str_eqb k (lit "trait") then
                match c10_sc_eat_name r3 with
                | Some r4 => match c10_sc_tparams r4 with
                             | Some r5 => match c10_sq f UTemplateOpt r5 with Some (_, r6) => Some (1%nat, r6) | None => None end
                             | None => None
                             end
                | None => None
                end
              else if top then None
              else if str_eqb k (lit "type") then match c10_sc_typedef r3 with Some r4 => Some (1%nat, r4) | None => None end
              else if str_eqb k (lit "val") || str_eqb k (lit "def") then match c10_sc_valdef r3 with Some r4 => Some (1%nat, r4) | None => None end
              else None
            | _ => None
            end
          end
      | _ => None
      end
    | UTemplateOpt =>
      match ts with
      | t :: r =>
        if c10_sc_is_kw "extends" t
        then match r with
             | t2 :: _ =>
               if c10_sc_is_p 123 t2 then c10_sq f UBodyOpt r
               else match c10_sc_type r with Some r1 => c10_sq f UWiths r1 | None => None end
             | [] => None
             end
        else c10_sq f UBodyOpt ts
      | [] => Some (O, ts)
      end
    | UWiths =>
      match ts with
      | t :: r => if c10_sc_is_kw "with" t
                  then match c10_sc_type r with Some r1 => c10_sq f UWiths r1 | None => None end
                  else c10_sq f UBodyOpt ts
      | [] => Some (O, ts)
      end
    | UBodyOpt =>
      let ts1 := match ts with UNl :: (t :: _) as r => if c10_sc_is_p 123 t then r else ts | _ => ts end in
      match ts1 with
      | t :: r => if c10_sc_is_p 123 t then c10_sq f (UStats false true) r else Some (O, ts)
      | [] => Some (O, ts)
      end
    end
  end.

(* {'package' QualId semi} TopStatSeq: a leading `package a.b` clause is a packaging without braces *)
Fixpoint c10_sc_unit (fuel : nat) (ts : list c10_utok) : option nat :=
  match fuel with
  | O => None
  | S f =>
    match ts with
    | t :: t2 :: r2 =>
      if c10_sc_is_kw "package" t && negb (c10_sc_is_kw "object" t2)
      then match c10_sc_stable (t2 :: r2) with
           | Some [] => Some O
           | Some (t3 :: r3) =>
             if c10_sc_is_sep t3 then c10_sc_unit f r3
             else match c10_sq (4 * List.length ts + 4)%nat (UStats true false) ts with Some (n, _) => Some n | None => None end
           | None => None
           end
      else match c10_sq (4 * List.length ts + 4)%nat (UStats true false) ts with Some (n, _) => Some n | None => None end
    | _ => match c10_sq (4 * List.length ts + 4)%nat (UStats true false) ts with Some (n, _) => Some n | None => None end
    end
  end.

(* the verdict: Some n = the text is a compilation unit with n definitions; None = not in the grammar *)
Definition c10_sc_recognise (text : str) : option nat :=
  match c10_sc_tokens (S (List.length text)) text with
  | Some ts => let cooked := c10_sc_nls [] false false ts in c10_sc_unit (S (List.length cooked)) cooked
  | None => None
  end.

(* ------------------------------------------------------------------ finding classes of the grammar half *)
(* C10-scala-keyword-name: the Scala back end escapes no reserved word (no back-quotes): a declared type, parameter,
   case or type-parameter name, a referenced type or a content key that is a reserved word is printed as it is. *)
Fixpoint c10_sc_rtype_kw (t : rtype) : bool :=
  match t with
  | RSimple id => c10_sc_kw id
  | RGeneric id ps => c10_sc_kw id || existsb c10_sc_rtype_kw ps
  | RVec x | RSlice x | ROption x | RArray x _ => c10_sc_rtype_kw x
  | RHashMap k v => c10_sc_rtype_kw k || c10_sc_rtype_kw v
  | RPrim _ => false
  end.
Definition c10_sc_field_kw (f : rfield) : bool :=
  c10_sc_kw (replace_char ch_dash ch_us (renamed (fid f))) || c10_sc_rtype_kw (fty f).
Definition c10_sc_kw_class (pd : parsed) : bool :=
  existsb (fun s => c10_sc_kw (renamed (sid s)) || existsb c10_sc_kw (sgenerics s) || existsb c10_sc_field_kw (sfields s)) (p_structs pd) ||
  existsb (fun e => let sh := enum_shared e in
                    c10_sc_kw (renamed (eid sh)) || c10_sc_kw (original (eid sh)) || existsb c10_sc_kw (egenerics sh) ||
                    match e with EAlgebraic _ content _ => c10_sc_kw content | EUnit _ => false end ||
                    existsb (fun v => c10_sc_kw (original (vid (variant_shared v))) ||
                                      match v with
                                      | VUnit _ => false
                                      | VTuple t _ => c10_sc_rtype_kw t
                                      | VAnon fs _ => existsb c10_sc_field_kw fs
                                      end) (evariants sh)) (p_enums pd) ||
  existsb (fun a => c10_sc_kw (original (aid a)) || existsb c10_sc_kw (agenerics a) || c10_sc_rtype_kw (atype a)) (p_aliases pd).

(* (C10-scala-toplevel-alias - under a package name without a dot neither `package object x {` nor `package x {` was
   printed, so the type aliases and the UByte .. ULong helper aliases stood at the top level of the compilation unit, where
   Scala 2 admits only classes, objects, traits, imports and packagings - is repaired in /repo: scala.rs
   begin_package_object / begin_package always open a block named by the last segment of the package name.  The class is
   gone; the package name stays a parameter of known_C10_sc_grammar so that the callers keep one signature.) *)

(* C10-scala-content-key: the content key of a tagged enum is printed, as it is, as the name of the only parameter of every
   case class that carries a payload (`case class V(content: T)`): a key with a dash or a leading digit is not an id. *)
Definition c10_sc_ident_shape (s : str) : bool :=
  match s with [] => false | c :: r => c10_sc_letter c && forallb c10_sc_id_char r end.
Definition c10_sc_content_class (pd : parsed) : bool :=
  existsb (fun e => match e with
                    | EAlgebraic _ content sh =>
                      negb (c10_sc_ident_shape content) && existsb (fun v => match v with VUnit _ => false | _ => true end) (evariants sh)
                    | EUnit _ => false
                    end) (p_enums pd).

Definition known_C10_sc_grammar (package : str) (pd : parsed) : list string :=
  (if c10_sc_kw_class pd then ["C10-scala-keyword-name"%string] else []) ++
  (if c10_sc_content_class pd then ["C10-scala-content-key"%string] else []).
