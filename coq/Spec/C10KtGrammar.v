(* C10, grammar half for Kotlin: a tokenizer and a recursive-descent recogniser for the declaration subset the
   Kotlin back end emits, written from the Kotlin grammar (kotlinlang.org/docs/reference/grammar.html), not from
   the printer.  Run, extracted, on every real Kotlin file by checks/c10.py (driver command c10_kt_parse); PROVED to accept
   every file kt_generate / kt_generate_multi write on the stated domain (Props/C10.v: C10_grammar_kotlin,
   C10_grammar_kotlin_multi; proofs in Proofs/C10_KTGrammar{Tok,Parse,,File,Multi}.v).

   Productions of the Kotlin grammar covered (the names are the grammar's; NL* and the optional semi / semis
   between declarations are the grammar's own - line ends are blanks for this recogniser):

     kotlinFile        ::= packageHeader importList { topLevelObject }
     packageHeader     ::= [ 'package' identifier ]
     importHeader      ::= 'import' identifier                          (no `.*`, no alias: not emitted)
     identifier        ::= simpleIdentifier { '.' simpleIdentifier }
     topLevelObject    ::= declaration
     declaration       ::= classDeclaration | objectDeclaration | functionDeclaration | typeAlias
     typeAlias         ::= [modifiers] 'typealias' simpleIdentifier [typeParameters] '=' type
     classDeclaration  ::= [modifiers] 'class' simpleIdentifier [typeParameters] [primaryConstructor]
                           [ ':' delegationSpecifier ] [ classBody | enumClassBody ]
                           (enumClassBody exactly when `enum` is among the modifiers, as the compiler's parser does)
     objectDeclaration ::= [modifiers] 'object' simpleIdentifier [ ':' delegationSpecifier ] [classBody]
                           (no typeParameters, no primaryConstructor: the grammar has none there)
     functionDeclaration ::= [modifiers] 'fun' simpleIdentifier '(' ')' [ ':' type ] '=' expression
     primaryConstructor::= classParameters
     classParameters   ::= '(' [ classParameter { ',' classParameter } [','] ] ')'
     classParameter    ::= [modifiers] ('val' | 'var') simpleIdentifier ':' type [ '=' expression ]
     delegationSpecifier ::= constructorInvocation | userType ;  constructorInvocation ::= userType valueArguments
     classBody         ::= '{' { classMemberDeclaration } '}' ;  classMemberDeclaration ::= declaration
     enumClassBody     ::= '{' [ enumEntry { ',' enumEntry } [','] ] '}'
     enumEntry         ::= { annotation } simpleIdentifier [valueArguments]
     typeParameters    ::= '<' simpleIdentifier { ',' simpleIdentifier } [','] '>'          (never empty)
     type              ::= userType { '?' }                                   (typeReference | nullableType)
     userType          ::= simpleUserType { '.' simpleUserType }
     simpleUserType    ::= simpleIdentifier [typeArguments]
     typeArguments     ::= '<' type { ',' type } '>'                                         (never empty)
     modifiers         ::= { annotation | modifier }
     annotation        ::= '@' userType-without-arguments [valueArguments]      ('@' glued to the name: AT_NO_WS)
     valueArguments    ::= '(' [ expression { ',' expression } [','] ] ')'
     expression        ::= STRING | simpleIdentifier | NUMBER          (the literals and names the back end prints)

   Lexical grammar: Identifier = (Letter | '_') { Letter | '_' | Digit } with every code point above 127 taken
   for a letter, or a back-ticked identifier; LineComment `//` up to a line end; DelimitedComment, nesting;
   line string literals with the escapes backslash + one of t b n r, single quote, double quote, backslash, dollar,
   or u and four hex digits (any other escape, a line end or the end of the text inside a literal: no tokens).  Documented simplifications, all making the recogniser accept
   LESS or the same: triple-quoted literals are rejected (never printed); a `$` inside a literal is an ordinary
   character (string templates are not analysed); a line comment must be closed by a line end; the hard-keyword
   restriction on simpleIdentifier is NOT enforced (a Rust field named `object` is printed as is: the back end
   promises no keyword escape for Kotlin, this is the keyword half's business, not the grammar's) - keywords
   are recognised by position. *)
From Coq Require Import String.
From TS Require Import Model.Str Spec.C10TsGrammar.

(* ------------------------------------------------------------------ the tokenizer *)
Definition c10k_id_start (c : char) : bool := is_aalpha c || (c =? ch_us) || (128 <=? c).
Definition c10k_id_char (c : char) : bool := c10k_id_start c || is_adigit c.
Definition c10k_space (c : char) : bool := (c =? 32) || (c =? 9) || (c =? 10) || (c =? 13) || (c =? 12).
Definition c10k_hex (c : char) : bool := is_adigit c || ((65 <=? c) && (c <=? 70)) || ((97 <=? c) && (c <=? 102)).
(* EscapedIdentifier: t b r n, the two quotes, backslash, dollar *)
Definition c10k_esc (c : char) : bool :=
  (c =? 116) || (c =? 98) || (c =? 114) || (c =? 110) || (c =? 39) || (c =? 34) || (c =? 92) || (c =? 36).

(* the rest after the line end that closes a line comment *)
Fixpoint c10k_skip_line (s : str) : option str :=
  match s with
  | [] => None
  | c :: r => if (c =? ch_nl) || (c =? ch_cr) then Some r else c10k_skip_line r
  end.

(* the rest after the star-slash that closes a block comment opened [d] levels deep *)
Fixpoint c10k_skip_block (d : nat) (s : str) : option str :=
  match s with
  | [] => None
  | c :: r =>
    match r with
    | e :: r' =>
      if (c =? 42) && (e =? 47) then match d with O => Some r' | S d' => c10k_skip_block d' r' end
      else if (c =? 47) && (e =? 42) then c10k_skip_block (S d) r'
      else c10k_skip_block d r
    | [] => None
    end
  end.

(* the rest after the closing quote of a string literal *)
Fixpoint c10k_skip_string (s : str) : option str :=
  match s with
  | [] => None
  | c :: r =>
    if c =? ch_dq then Some r
    else if c =? ch_bs then
      match r with
      | e :: r' =>
        if e =? 117 then
          match r' with
          | h1 :: h2 :: h3 :: h4 :: r'' =>
            if c10k_hex h1 && c10k_hex h2 && c10k_hex h3 && c10k_hex h4 then c10k_skip_string r'' else None
          | _ => None
          end
        else if c10k_esc e then c10k_skip_string r' else None
      | [] => None
      end
    else if (c =? ch_nl) || (c =? ch_cr) then None
    else c10k_skip_string r
  end.

(* the text between back-ticks and the rest after the closing one *)
Fixpoint c10k_skip_tick (s : str) : option (str * str) :=
  match s with
  | [] => None
  | c :: r => if c =? 96 then Some ([], r)
              else if (c =? ch_nl) || (c =? ch_cr) then None
              else match c10k_skip_tick r with Some (a, b) => Some (c :: a, b) | None => None end
  end.

Definition c10k_head_is (c : char) (s : str) : bool := match s with d :: _ => d =? c | [] => false end.

(* one step: skip a blank or a comment (no token), or cut one token; None = not a token of the language *)
Definition c10k_next (s : str) : option (option c10_tok * str) :=
  match s with
  | [] => None
  | c :: r =>
    if c10k_space c then Some (None, r)
    else if (c =? 47) && c10k_head_is 47 r
    then match c10k_skip_line r with Some r' => Some (None, r') | None => None end
    else if (c =? 47) && c10k_head_is 42 r
    then match c10k_skip_block 0 (tl r) with Some r' => Some (None, r') | None => None end
    else if c =? ch_dq
    then if c10k_head_is ch_dq r && c10k_head_is ch_dq (tl r) then None
         else match c10k_skip_string r with Some r' => Some (Some KStr, r') | None => None end
    else if c =? 96
    then match c10k_skip_tick r with Some (a :: x, r') => Some (Some (KIdent (96 :: a :: x)), r') | _ => None end
    else if c =? 64
    then match r with d :: _ => if c10k_id_start d || (d =? 96) then Some (Some (KP 64), r) else None | [] => None end
    else if c10k_id_start c
    then let '(a, b) := c10_take_while c10k_id_char s in Some (Some (KIdent a), b)
    else if is_adigit c
    then let '(_, b) := c10_take_while is_adigit s in Some (Some KNum, b)
    else Some (Some (KP c), r)
  end.

Definition c10k_otl (o : option c10_tok) : list c10_tok := match o with Some t => [t] | None => [] end.

Fixpoint c10k_tokens (fuel : nat) (s : str) : option (list c10_tok) :=
  match fuel with
  | O => None
  | S f =>
    match s with
    | [] => Some []
    | _ => match c10k_next s with
           | None => None
           | Some (ot, r) => match c10k_tokens f r with Some ts => Some (c10k_otl ot ++ ts) | None => None end
           end
    end
  end.

(* ------------------------------------------------------------------ small parsers *)
Definition c10k_is_ident (t : c10_tok) : bool := match t with KIdent _ => true | _ => false end.
(* expression, as far as the back end prints any: a literal or a name *)
Definition c10k_is_expr (t : c10_tok) : bool := match t with KIdent _ | KStr | KNum => true | KP _ => false end.

(* modifier (classModifier, memberModifier, visibilityModifier, functionModifier, propertyModifier,
   inheritanceModifier, parameterModifier, platformModifier) *)
Definition c10k_modifiers : list str :=
  map lit ["enum"; "sealed"; "annotation"; "data"; "inner"; "value"; "override"; "lateinit"; "public"; "private"; "internal";
           "protected"; "tailrec"; "operator"; "infix"; "inline"; "external"; "suspend"; "const"; "abstract"; "final"; "open";
           "vararg"; "noinline"; "crossinline"; "expect"; "actual"]%string.
Definition c10k_is_mod (t : c10_tok) : bool := match t with KIdent s => mem_str s c10k_modifiers | _ => false end.
Definition c10k_no_mod (t : c10_tok) : bool := false.

(* item { ',' item } [','] closer, every item ONE token: typeParameters after '<', valueArguments after '(' *)
Fixpoint c10k_seplist (p : c10_tok -> bool) (closer : char) (ts : list c10_tok) : option (list c10_tok) :=
  match ts with
  | t :: t2 :: r =>
    if p t then
      if c10_is_p closer t2 then Some r
      else if c10_is_p 44 t2
      then match r with
           | t3 :: r3 => if c10_is_p closer t3 then Some r3 else c10k_seplist p closer r
           | [] => None
           end
      else None
    else None
  | _ => None
  end.

(* [typeParameters] *)
Definition c10k_tparams (ts : list c10_tok) : option (list c10_tok) :=
  match ts with
  | t :: r => if c10_is_p 60 t then c10k_seplist c10k_is_ident 62 r else Some ts
  | [] => Some ts
  end.

(* [valueArguments] *)
Definition c10k_opt_args (ts : list c10_tok) : option (list c10_tok) :=
  match ts with
  | t :: r =>
    if c10_is_p 40 t
    then match r with
         | t2 :: r2 => if c10_is_p 41 t2 then Some r2 else c10k_seplist c10k_is_expr 41 r
         | [] => None
         end
    else Some ts
  | [] => Some ts
  end.

(* identifier: simpleIdentifier { '.' simpleIdentifier } *)
Fixpoint c10k_qual (ts : list c10_tok) : option (list c10_tok) :=
  match ts with
  | KIdent _ :: r =>
    match r with
    | t :: r2 => if c10_is_p 46 t then c10k_qual r2 else Some r
    | [] => Some r
    end
  | _ => None
  end.

(* modifiers: annotations and (where [allow] says so) modifier keywords; the flag: `enum` was among them *)
Fixpoint c10k_mods (fuel : nat) (allow : c10_tok -> bool) (en : bool) (ts : list c10_tok) : option (bool * list c10_tok) :=
  match fuel with
  | O => None
  | S f =>
    match ts with
    | t :: r =>
      if c10_is_p 64 t
      then match c10k_qual r with
           | Some r1 => match c10k_opt_args r1 with Some r2 => c10k_mods f allow en r2 | None => None end
           | None => None
           end
      else if allow t then c10k_mods f allow (en || c10_is_kw "enum" t) r
      else Some (en, ts)
    | [] => Some (en, ts)
    end
  end.

(* ------------------------------------------------------------------ types *)
Fixpoint c10k_quests (ts : list c10_tok) : list c10_tok :=
  match ts with
  | t :: r => if c10_is_p 63 t then c10k_quests r else ts
  | [] => []
  end.

Inductive c10k_tmode := KUser | KTy | KArgsTail.

Fixpoint c10k_t (fuel : nat) (m : c10k_tmode) (ts : list c10_tok) : option (list c10_tok) :=
  match fuel with
  | O => None
  | S f =>
    match m with
    | KUser =>
      match ts with
      | KIdent _ :: r =>
        let after_args :=
          match r with
          | t :: r2 => if c10_is_p 60 t
                       then match c10k_t f KTy r2 with Some r3 => c10k_t f KArgsTail r3 | None => None end
                       else Some r
          | [] => Some r
          end in
        match after_args with
        | Some (t :: r4) => if c10_is_p 46 t then c10k_t f KUser r4 else Some (t :: r4)
        | other => other
        end
      | _ => None
      end
    | KTy => match c10k_t f KUser ts with Some r => Some (c10k_quests r) | None => None end
    | KArgsTail =>
      match ts with
      | t :: r => if c10_is_p 62 t then Some r
                  else if c10_is_p 44 t
                  then match c10k_t f KTy r with Some r2 => c10k_t f KArgsTail r2 | None => None end
                  else None
      | [] => None
      end
    end
  end.

Definition c10k_type (ts : list c10_tok) : option (list c10_tok) := c10k_t (S (S (S (2 * List.length ts)))) KTy ts.
Definition c10k_user (ts : list c10_tok) : option (list c10_tok) := c10k_t (S (S (S (2 * List.length ts)))) KUser ts.

(* ------------------------------------------------------------------ class parameters, delegation, enum entries, functions *)
Definition c10k_param (ts : list c10_tok) : option (list c10_tok) :=
  match c10k_mods (S (List.length ts)) c10k_is_mod false ts with
  | Some (_, t :: r) =>
    if c10_is_kw "val" t || c10_is_kw "var" t then
      match r with
      | KIdent _ :: t2 :: r2 =>
        if c10_is_p 58 t2 then
          match c10k_type r2 with
          | Some (t3 :: r3) =>
            if c10_is_p 61 t3
            then match r3 with e :: r4 => if c10k_is_expr e then Some r4 else None | [] => None end
            else Some (t3 :: r3)
          | other => other
          end
        else None
      | _ => None
      end
    else None
  | _ => None
  end.

(* after '(' *)
Fixpoint c10k_params (fuel : nat) (ts : list c10_tok) : option (list c10_tok) :=
  match fuel with
  | O => None
  | S f =>
    match ts with
    | t :: r =>
      if c10_is_p 41 t then Some r
      else match c10k_param ts with
           | Some (t2 :: r2) => if c10_is_p 41 t2 then Some r2 else if c10_is_p 44 t2 then c10k_params f r2 else None
           | _ => None
           end
    | [] => None
    end
  end.

(* [primaryConstructor] *)
Definition c10k_opt_ctor (ts : list c10_tok) : option (list c10_tok) :=
  match ts with
  | t :: r => if c10_is_p 40 t then c10k_params (S (List.length r)) r else Some ts
  | [] => Some ts
  end.

(* [ ':' delegationSpecifier ] *)
Definition c10k_opt_deleg (ts : list c10_tok) : option (list c10_tok) :=
  match ts with
  | t :: r => if c10_is_p 58 t then match c10k_user r with Some r2 => c10k_opt_args r2 | None => None end else Some ts
  | [] => Some ts
  end.

(* after '{' of an enum class *)
Fixpoint c10k_entries (fuel : nat) (ts : list c10_tok) : option (list c10_tok) :=
  match fuel with
  | O => None
  | S f =>
    match ts with
    | t :: r =>
      if c10_is_p 125 t then Some r
      else match c10k_mods (S (List.length ts)) c10k_no_mod false ts with
           | Some (_, KIdent _ :: r1) =>
             match c10k_opt_args r1 with
             | Some (t2 :: r2) => if c10_is_p 125 t2 then Some r2 else if c10_is_p 44 t2 then c10k_entries f r2 else None
             | _ => None
             end
           | _ => None
           end
    | [] => None
    end
  end.

Definition c10k_opt_entries (ts : list c10_tok) : option (list c10_tok) :=
  match ts with
  | t :: r => if c10_is_p 123 t then c10k_entries (S (List.length r)) r else Some ts
  | [] => Some ts
  end.

(* after 'fun' *)
Definition c10k_fun (ts : list c10_tok) : option (list c10_tok) :=
  match ts with
  | KIdent _ :: t1 :: t2 :: r =>
    if c10_is_p 40 t1 && c10_is_p 41 t2 then
      let after_ty := match r with
                      | t3 :: r3 => if c10_is_p 58 t3 then c10k_type r3 else Some r
                      | [] => Some r
                      end in
      match after_ty with
      | Some (t4 :: e :: r5) => if c10_is_p 61 t4 && c10k_is_expr e then Some r5 else None
      | _ => None
      end
    else None
  | _ => None
  end.

(* ------------------------------------------------------------------ declarations *)
Definition c10k_opt_body (members : list c10_tok -> option (list c10_tok)) (ts : list c10_tok) : option (list c10_tok) :=
  match ts with
  | t :: r => if c10_is_p 123 t then members r else Some ts
  | [] => Some ts
  end.

(* one declaration; [members]: the recogniser of a class body after its opening brace *)
Definition c10k_decl_step (members : list c10_tok -> option (list c10_tok)) (ts : list c10_tok) : option (list c10_tok) :=
  match c10k_mods (S (List.length ts)) c10k_is_mod false ts with
  | Some (en, KIdent k :: r1) =>
    if str_eqb k (lit "typealias") then
      match c10_eat_ident r1 with
      | Some r2 => match c10k_tparams r2 with
                   | Some r3 => match c10_eat 61 r3 with Some r4 => c10k_type r4 | None => None end
                   | None => None
                   end
      | None => None
      end
    else if str_eqb k (lit "object") then
      match c10_eat_ident r1 with
      | Some r2 => match c10k_opt_deleg r2 with Some r3 => c10k_opt_body members r3 | None => None end
      | None => None
      end
    else if str_eqb k (lit "class") then
      match c10_eat_ident r1 with
      | Some r2 =>
        match c10k_tparams r2 with
        | Some r3 =>
          match c10k_opt_ctor r3 with
          | Some r4 =>
            match c10k_opt_deleg r4 with
            | Some r5 => if en then c10k_opt_entries r5 else c10k_opt_body members r5
            | None => None
            end
          | None => None
          end
        | None => None
        end
      | None => None
      end
    else if str_eqb k (lit "fun") then c10k_fun r1
    else None
  | _ => None
  end.

Inductive c10k_dmode := KDecl | KMembers.

Fixpoint c10k_d (fuel : nat) (m : c10k_dmode) (ts : list c10_tok) : option (list c10_tok) :=
  match fuel with
  | O => None
  | S f =>
    match m with
    | KDecl => c10k_decl_step (c10k_d f KMembers) ts
    | KMembers =>
      match ts with
      | t :: r => if c10_is_p 125 t then Some r
                  else match c10k_d f KDecl ts with Some r2 => c10k_d f KMembers r2 | None => None end
      | [] => None
      end
    end
  end.

Definition c10k_decl (ts : list c10_tok) : option (list c10_tok) := c10k_d (S (S (List.length ts))) KDecl ts.

Fixpoint c10k_decls (fuel : nat) (ts : list c10_tok) : option nat :=
  match fuel with
  | O => None
  | S f =>
    match ts with
    | [] => Some O
    | _ => match c10k_decl ts with
           | Some r => match c10k_decls f r with Some n => Some (S n) | None => None end
           | None => None
           end
    end
  end.

(* ------------------------------------------------------------------ the file *)
Fixpoint c10k_imports (fuel : nat) (ts : list c10_tok) : option (list c10_tok) :=
  match ts with
  | t :: r =>
    if c10_is_kw "import" t
    then match fuel with
         | O => None
         | S f => match c10k_qual r with Some r2 => c10k_imports f r2 | None => None end
         end
    else Some ts
  | [] => Some ts
  end.

Definition c10k_header (ts : list c10_tok) : option (list c10_tok) :=
  let after_package := match ts with
                       | t :: r => if c10_is_kw "package" t then c10k_qual r else Some ts
                       | [] => Some ts
                       end in
  match after_package with
  | Some r => c10k_imports (List.length r) r
  | None => None
  end.

(* the verdict: Some n = package header, imports and n well-formed top-level declarations; None = not in the grammar *)
Definition c10_kt_recognise (text : str) : option nat :=
  match c10k_tokens (S (List.length text)) text with
  | Some ts => match c10k_header ts with
               | Some r => c10k_decls (S (List.length r)) r
               | None => None
               end
  | None => None
  end.
