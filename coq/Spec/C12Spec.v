(* C12 - every helper name typeshare introduces into a file is defined or imported there.

   What the property speaks about is read off the DECLARATIONS of a generated file (the values the
   decision layer of every back end computes and its layout layer prints, Model/Lang/*.v):
     * [c12_<L>_uses]: the helper names the declarations spell out - names of the language's helper
       vocabulary inside translated types (at any depth), and the names the fixed template text of
       a declaration refers to (@Serializable, BaseModel, Field, json., ...);
     * [c12_<L>_defs]: the helper names the same file defines or imports.
   [c12_good uses defs] = every used helper name is among the defined ones.
   The readers never call the model: they only inspect declaration values.  The class predicates
   [c12_<L>_known] are decided on the INPUT (the parsed items and the configuration).

   A name written by the USER is not a helper: verbatim text (XRaw: type overrides, type_mappings
   results) contributes nothing, and [c12_<L>_dom] excludes programs whose own type names collide
   with the helper vocabulary (e.g. a user struct called CodableVoid). *)
From Coq Require Import String List Bool.
From TS Require Import Model.Str Model.Outcome Model.Types Model.Parse Model.Lang.Common Model.Lang.Decl
                       Model.Lang.Swift Model.Lang.Scala Model.Lang.Python Model.Lang.Go Model.Lang.Kotlin
                       Model.Lang.TypeScript.
Import ListNotations.

(* ------------------------------------------------------------------ common *)
Definition c12_good (uses defs : list str) : bool := forallb (fun u => mem_str u defs) uses.

(* the names of a translated type that belong to a vocabulary *)
Definition c12_vnames (vocab : list str) (t : texp) : list str :=
  filter (fun n => mem_str n vocab) (texp_names t).

(* every user identifier a Rust type mentions, at any depth *)
Fixpoint c12_rtype_ids (t : rtype) : list str :=
  match t with
  | RSimple id => [id]
  | RGeneric id ps => id :: flat_map c12_rtype_ids ps
  | RVec x | RArray x _ | RSlice x | ROption x => c12_rtype_ids x
  | RHashMap k v => c12_rtype_ids k ++ c12_rtype_ids v
  | RPrim _ => []
  end.

(* the types an item carries: fields, payloads, struct-variant fields, alias target, const type *)
Definition c12_variant_types (v : rvariant) : list rtype :=
  match v with VUnit _ => [] | VTuple t _ => [t] | VAnon fs _ => map fty fs end.
Definition c12_item_types (it : ritem) : list rtype :=
  match it with
  | ItStruct s => map fty (sfields s)
  | ItEnum e => flat_map c12_variant_types (evariants (enum_shared e))
  | ItAlias a => [atype a]
  | ItConst c => [ctype c]
  end.
Definition c12_item_ids (it : ritem) : list str := flat_map c12_rtype_ids (c12_item_types it).
Definition c12_item_generics (it : ritem) : list str :=
  match it with
  | ItStruct s => sgenerics s
  | ItEnum e => egenerics (enum_shared e)
  | ItAlias a => agenerics a
  | ItConst _ => []
  end.

(* no identifier of the program (type names referred to, generic parameters), with the prefix the
   back end may put in front of it, is a word of the helper vocabulary *)
Definition c12_ids_avoid (prefix : str) (vocab : list str) (items : list ritem) : bool :=
  forallb (fun id => negb (mem_str id vocab) && negb (mem_str (prefix ++ id) vocab))
          (flat_map c12_item_ids items ++ flat_map c12_item_generics items).

(* ------------------------------------------------------------------ Swift *)
Definition c12_sw_vocab : list str := [sw_CODABLE_VOID].

Definition c12_sw_member_uses (m : sw_member) : list str :=
  c12_vnames c12_sw_vocab (swm_type m) ++ c12_vnames c12_sw_vocab (swm_init_type m).
Definition c12_sw_struct_uses (s : sw_struct) : list str := flat_map c12_sw_member_uses (sws_members s).
Definition c12_sw_variant_uses (v : sw_variant) : list str :=
  match swv_payload v with SWPTuple ty _ _ => c12_vnames c12_sw_vocab ty | _ => [] end.
Definition c12_sw_decl_uses (d : sw_decl) : list str :=
  match d with
  | SWStruct s => c12_sw_struct_uses s
  | SWAlias _ _ _ _ ty => c12_vnames c12_sw_vocab ty
  | SWEnum e => flat_map c12_sw_struct_uses (swe_inner e) ++ flat_map c12_sw_variant_uses (swe_variants e)
  | SWCodableVoid _ => []
  end.
Definition c12_sw_decl_defs (d : sw_decl) : list str :=
  match d with SWCodableVoid _ => [sw_CODABLE_VOID] | _ => [] end.
Definition c12_sw_uses (ds : list sw_decl) : list str := flat_map c12_sw_decl_uses ds.
Definition c12_sw_defs (ds : list sw_decl) : list str := flat_map c12_sw_decl_defs ds.
Definition c12_sw_dom (cfg : sw_config) (items : list ritem) : bool :=
  c12_ids_avoid (sw_prefix cfg) c12_sw_vocab items.

(* ------------------------------------------------------------------ Scala *)
Definition c12_sc_vocab : list str := [lit "UByte"; lit "UShort"; lit "UInt"; lit "ULong"].

Definition c12_sc_variant_uses (v : sc_variant) : list str :=
  match scv_payload v with SCPayTuple _ _ ty => c12_vnames c12_sc_vocab ty | _ => [] end.
Definition c12_sc_decl_uses (d : sc_decl) : list str :=
  match d with
  | SCAlias _ _ _ ty => c12_vnames c12_sc_vocab ty
  | SCCaseClass _ _ _ ms => flat_map (fun m => c12_vnames c12_sc_vocab (scm_type m)) ms
  | SCEmptyClass _ _ => []
  | SCEnum _ _ _ vs => flat_map c12_sc_variant_uses vs
  | SCHelperAliases _ => []
  end.
Definition c12_sc_decl_defs (d : sc_decl) : list str :=
  match d with SCHelperAliases l => map fst l | _ => [] end.
Definition c12_sc_uses (ds : list sc_decl) : list str := flat_map c12_sc_decl_uses ds.
Definition c12_sc_defs (ds : list sc_decl) : list str := flat_map c12_sc_decl_defs ds.

(* the items the Scala back end writes (it overrides generate_types and ignores consts) *)
Definition c12_sc_items (pd : parsed) : list ritem :=
  map ItAlias (p_aliases pd) ++ map ItStruct (p_structs pd) ++ map ItEnum (p_enums pd).
Definition c12_sc_dom (pd : parsed) : bool := c12_ids_avoid [] c12_sc_vocab (c12_sc_items pd).

Definition c12_is_unsigned (p : prim) : bool :=
  match p with PU8 | PU16 | PU32 | PU53 | PU64 | PUSize => true | _ => false end.

(* the translation of t spells one of UByte/UShort/UInt/ULong: an unsigned integer at ANY depth,
   except below a generic type whose name is in type_mappings (it is replaced, arguments and all) *)
Fixpoint c12_sc_spells_unsigned (tm : tmap) (t : rtype) : bool :=
  match t with
  | RSimple _ => false
  | RGeneric id ps => match tmap_get tm id with
                      | Some _ => false
                      | None => existsb (c12_sc_spells_unsigned tm) ps
                      end
  | RVec x | RArray x _ | RSlice x | ROption x => c12_sc_spells_unsigned tm x
  | RHashMap k v => c12_sc_spells_unsigned tm k || c12_sc_spells_unsigned tm v
  | RPrim p => c12_is_unsigned p
  end.
(* a field whose type is overridden for Scala prints the override verbatim *)
Definition c12_sc_field_spells (tm : tmap) (f : rfield) : bool :=
  match type_override f Scala with Some _ => false | None => c12_sc_spells_unsigned tm (fty f) end.
Definition c12_sc_item_spells (tm : tmap) (it : ritem) : bool :=
  match it with
  | ItAlias a => c12_sc_spells_unsigned tm (atype a)
  | ItStruct s => existsb (c12_sc_field_spells tm) (sfields s)
  | ItEnum e =>
    (* helper classes are written for the struct variants of ANY enum; a payload type is written only
       by an algebraic enum (a unit enum writes bare case objects whatever its variants carry) *)
    existsb (fun v => match v with
                      | VUnit _ => false
                      | VTuple t _ => match e with EAlgebraic _ _ _ => c12_sc_spells_unsigned tm t | EUnit _ => false end
                      | VAnon fs _ => existsb (c12_sc_field_spells tm) fs
                      end) (evariants (enum_shared e))
  | ItConst _ => false
  end.

(* what scala.rs unsigned_integer_used looks at since the /repo fix of C12-scala-unsigned-depth
   (contains_unsigned_integer): an unsigned integer ANYWHERE in a type of the program - below
   Option / Vec / HashMap / a generic type / an array / a slice, at any depth.  It scans the declared
   type of every alias, field and variant payload, whatever its override or mapping. *)
Fixpoint c12_sc_deep_unsigned (t : rtype) : bool :=
  match t with
  | RSimple _ => false
  | RGeneric _ ps => existsb c12_sc_deep_unsigned ps
  | RVec x | RArray x _ | RSlice x | ROption x => c12_sc_deep_unsigned x
  | RHashMap k v => c12_sc_deep_unsigned k || c12_sc_deep_unsigned v
  | RPrim p => c12_is_unsigned p
  end.
Definition c12_sc_scan (pd : parsed) : bool :=
  existsb c12_sc_deep_unsigned (flat_map c12_item_types (c12_sc_items pd)).

(* The class C12-scala-unsigned-depth (a declaration spells an unsigned alias, the one-level scan of
   the unchanged tree saw nothing) is FIXED in /repo: [c12_sc_spells_unsigned] implies the recursive
   scan, so there is no recorded class left for Scala.  Kept as the constant the driver reports. *)
Definition c12_sc_known (cfg : sc_config) (pd : parsed) : option string := None.

(* ------------------------------------------------------------------ Go *)
(* packages: a qualified name `pkg.X` in a type uses package pkg; the (Un)MarshalJSON methods of a
   tagged enum use `json.`; imports are paths whose last segment is the package name *)
Definition c12_go_vocab : list str := [lit "time"; lit "json"].
Definition c12_ch_dot : char := 46%N.
Definition c12_ch_slash : char := 47%N.
Fixpoint c12_before (c : char) (s : str) : option str :=      (* text before the first c *)
  match s with
  | [] => None
  | x :: r => if N.eqb x c then Some [] else match c12_before c r with Some a => Some (x :: a) | None => None end
  end.
Fixpoint c12_after_last (c : char) (s : str) : str :=          (* text after the last c (all of s if none) *)
  match s with
  | [] => []
  | x :: r => if existsb (N.eqb c) r then c12_after_last c r else if N.eqb x c then r else s
  end.
Definition c12_go_pkg_of (name : str) : list str :=
  match c12_before c12_ch_dot name with
  | Some p => if mem_str p c12_go_vocab then [p] else []
  | None => []
  end.
Fixpoint c12_go_ty_uses (t : go_ty) : list str :=
  match t with
  | GName n args => c12_go_pkg_of n ++ flat_map c12_go_ty_uses args
  | GSlice e | GArray _ e | GPtr e => c12_go_ty_uses e
  | GMap k v => c12_go_ty_uses k ++ c12_go_ty_uses v
  | GRaw _ => []
  end.
Definition c12_go_decl_uses (d : go_decl) : list str :=
  match d with
  | GOStruct _ _ _ ms => flat_map (fun m => c12_go_ty_uses (gm_type m)) ms
  | GOAlias _ _ ty => c12_go_ty_uses ty
  | GOConst _ ty _ => c12_go_ty_uses ty
  | GOUnitEnum _ _ _ => []
  | GOTagged e => lit "json" :: flat_map (fun v => match gv_content v with GCType ty _ => c12_go_ty_uses ty | _ => [] end)
                                          (gt_variants e)
  end.
Definition c12_go_uses (ds : list go_decl) : list str := flat_map c12_go_decl_uses ds.
Definition c12_go_defs (imports : list str) : list str := map (c12_after_last c12_ch_slash) imports.
(* the acronym rewriting of go.rs:579 works on the printed text of a type; the theorem is stated for
   configurations without acronyms (the correspondence check runs with them too) *)
Definition c12_go_dom (cfg : go_config) (items : list ritem) : bool :=
  match go_uppercase_acronyms cfg with [] => true | _ => false end &&
  forallb (fun id => match c12_before c12_ch_dot id with Some p => negb (mem_str p c12_go_vocab) | None => true end)
          (flat_map c12_item_ids items).

(* ... and for configurations WITH acronyms: alphanumeric acronyms (letters and digits of ASCII), ASCII type names and ASCII
   type_mappings values (on such input the rewriting only changes the case of letters: it cannot turn a
   name into `time.X` / `json.X`, and cannot damage one: Proofs/GoAcronyms.v) *)
Definition c12_alnum (c : char) : bool := is_aalpha c || is_adigit c.
Definition c12_go_dom_acr (cfg : go_config) (items : list ritem) : bool :=
  forallb (forallb c12_alnum) (go_uppercase_acronyms cfg) &&
  forallb (fun kv => forallb is_ascii (snd kv)) (go_type_mappings cfg) &&
  forallb (forallb is_ascii) (flat_map c12_item_ids items) &&
  forallb (fun id => match c12_before c12_ch_dot id with Some p => negb (mem_str p c12_go_vocab) | None => true end)
          (flat_map c12_item_ids items).

(* ------------------------------------------------------------------ Kotlin *)
Definition c12_kt_vocab : list str := [lit "Serializable"; lit "SerialName"; lit "JvmInline"].
Definition c12_kt_member_uses (m : kt_member) : list str :=
  match km_serial_name m with Some _ => [lit "SerialName"] | None => [] end.
Definition c12_kt_decl_uses (d : kt_decl) : list str :=
  match d with
  | KTObject _ _ => [lit "Serializable"]
  | KTDataClass _ _ _ ms _ => lit "Serializable" :: flat_map c12_kt_member_uses ms
  | KTTypeAlias _ _ _ _ => []
  | KTValueClass _ _ m _ => lit "Serializable" :: lit "JvmInline" :: c12_kt_member_uses m
  | KTEnumClass _ _ _ es => lit "Serializable" :: map (fun _ => lit "SerialName") es
  | KTSealedClass _ _ _ _ vs => lit "Serializable" :: flat_map (fun _ => [lit "Serializable"; lit "SerialName"]) vs
  end.
Definition c12_kt_uses (ds : list kt_decl) : list str := flat_map c12_kt_decl_uses ds.
Definition c12_kt_defs (h : option kt_header) : list str :=
  match h with None => [] | Some h => map snd (kh_imports h) end.

(* classes, decided on the input: C12-kotlin-empty-package (an empty package name makes begin_file
   write nothing, imports included, while every definition but a typealias carries @Serializable);
   C12-kotlin-jvminline (an alias / newtype struct turned into a value class carries @JvmInline, never imported) *)
Definition c12_kt_item_inline (it : ritem) : bool :=
  match it with ItAlias a => kt_is_inline (adecs a) | _ => false end.
Definition c12_kt_item_annotated (it : ritem) : bool :=
  match it with ItAlias a => kt_is_inline (adecs a) | _ => true end.
Definition c12_kt_known (cfg : kt_config) (pd : parsed) : option string :=
  if match kt_package cfg with [] => true | _ => false end && existsb c12_kt_item_annotated (items_of pd)
  then Some "C12-kotlin-empty-package"%string
  else if existsb c12_kt_item_inline (items_of pd) then Some "C12-kotlin-jvminline"%string
  else None.

(* ------------------------------------------------------------------ Python *)
Definition c12_py_fixed : list str :=
  [lit "Optional"; lit "List"; lit "Dict"; lit "datetime"; lit "BaseModel"; lit "Generic"; lit "ConfigDict";
   lit "Field"; lit "Annotated"; lit "BeforeValidator"; lit "PlainSerializer"; lit "Enum"; lit "Literal";
   lit "Union"; lit "TypeVar"; lit "AnyUrl";
   lit "serialize_binary_data"; lit "deserialize_binary_data"; lit "serialize_datetime_data"; lit "parse_rfc3339"].
(* names a user type must not bear for the theorem to speak about the program *)
Definition c12_py_reserved : list str := c12_py_fixed ++ [lit "bytes"; lit "datetime"].

(* the names a type expression spells in Python (Optional[..] is a name there) *)
Fixpoint c12_py_tnames (t : texp) : list str :=
  match t with
  | XName n args => n :: flat_map c12_py_tnames args
  | XOpt e => lit "Optional" :: c12_py_tnames e
  | XSeq e => lit "List" :: c12_py_tnames e
  | XFixed es => lit "Tuple" :: flat_map c12_py_tnames es
  | XMap k v => lit "Dict" :: c12_py_tnames k ++ c12_py_tnames v
  | XRaw _ => []
  end.
(* tvs: the type-variable vocabulary of the program (its generic parameter names) *)
Definition c12_py_tuses (tvs : list str) (t : texp) : list str :=
  filter (fun n => mem_str n c12_py_fixed || mem_str n tvs) (c12_py_tnames t).

Definition c12_py_member_uses (tvs : list str) (m : py_member) : list str :=
  c12_py_tuses tvs (pym_type m) ++
  match pym_annotated m with
  | Some (de, ser) => [lit "Annotated"; lit "BeforeValidator"; lit "PlainSerializer"; de; ser]
  | None => []
  end ++
  (if match pym_alias m with Some _ => true | None => false end || pym_default_none m then [lit "Field"] else []).

Definition c12_py_decl_uses (tvs : list str) (d : py_decl) : list str :=
  match d with
  (* `Name = <type>`: the generic parameters of an alias are not spelled after its name (since the repair of
     write_type_alias, python.rs:283); they are used where the type mentions them *)
  | PYAlias _ _ _ ty => c12_py_tuses tvs ty
  | PYConst _ ty _ => c12_py_tuses tvs ty
  | PYClass _ _ gs config ms =>
    lit "BaseModel" :: match gs with [] => [] | _ => lit "Generic" :: gs end ++
    (if config then [lit "ConfigDict"] else []) ++ flat_map (c12_py_member_uses tvs) ms
  | PYUnitEnum _ _ _ => [lit "Enum"]
  | PYAlgebraic _ _ _ _ _ _ vs =>
    lit "Enum" ::
    flat_map (fun v => lit "BaseModel" :: lit "Literal" ::
                       match pyv_content v with PYCType ty => c12_py_tuses tvs ty | _ => [] end) vs ++
    match vs with [_] => [] | _ => [lit "Union"] end
  end.
(* the header: T = TypeVar("T") lines use TypeVar; the datetime helper functions use datetime *)
Definition c12_py_header_uses (typevars fns : list str) : list str :=
  match typevars with [] => [] | _ => [lit "TypeVar"] end ++
  (if mem_str (lit "parse_rfc3339") fns then [lit "datetime"] else []).
Definition c12_py_uses (tvs : list str) (ds : list py_decl) (typevars fns : list str) : list str :=
  c12_py_header_uses typevars fns ++ flat_map (c12_py_decl_uses tvs) ds.
Definition c12_py_defs (typevars fns imported : list str) : list str := typevars ++ fns ++ imported.

(* generic parameters that the program introduces *)
Definition c12_py_tv_vocab (items : list ritem) : list str :=
  flat_map (fun it => match it with
                      | ItStruct s => sgenerics s
                      | ItEnum (EAlgebraic _ _ sh) => egenerics sh
                      | ItAlias a => agenerics a
                      | _ => []            (* a unit enum prints no type parameters and declares none *)
                      end) items.
Definition c12_py_is_custom (m : str) : bool := str_eqb m (lit "bytes") || str_eqb m (lit "datetime").
(* Some P: the whole type prints as P, one of the two types with (de)serialiser functions: the text write_field
   registers for a field of this type (the proofs' invariant on the translation set; no class is decided by it) *)
Definition c12_py_custom (tm : tmap) (t : rtype) : option str :=
  let mapped k := match tmap_get tm k with
                  | Some m => if c12_py_is_custom m then Some m else None
                  | None => None
                  end in
  match t with
  | RSimple id | RGeneric id _ => mapped id
  | RPrim PDateTime => match tmap_get tm (rtype_display t) with
                       | Some m => if c12_py_is_custom m then Some m else None
                       | None => Some (lit "datetime")
                       end
  | _ => mapped (rtype_display t)
  end.
(* the mapped texts format_special_type itself registers while translating t (any depth) *)
Fixpoint c12_py_registers (tm : tmap) (t : rtype) : list str :=
  let special (below : list str) :=
    match tmap_get tm (rtype_display t) with
    | Some m => if c12_py_is_custom m then [m] else []
    | None => below
    end in
  match t with
  | RSimple _ => []
  | RGeneric id ps => match tmap_get tm id with Some _ => [] | None => flat_map (c12_py_registers tm) ps end
  | RVec x | RArray x _ | RSlice x | ROption x => special (c12_py_registers tm x)
  | RHashMap k v => special (c12_py_registers tm k ++ c12_py_registers tm v)
  | RPrim _ => special []
  end.
Definition c12_item_fields (it : ritem) : list rfield :=
  match it with
  | ItStruct s => sfields s
  | ItEnum e => flat_map (fun v => match v with VAnon fs _ => fs | _ => [] end) (evariants (enum_shared e))
  | _ => []
  end.
(* The two classes of the unchanged tree are FIXED in /repo:
   C12-python-default-translation (a serde(default) field of a non-Option type that prints as bytes / datetime:
   write_field registered the text `Optional[..]`, for which no helper functions exist) - write_field now registers
   the type the translation was found for;
   C12-python-alias-typevar (a generic alias whose parameter no struct / algebraic enum declares: no TypeVar) -
   write_type_alias now calls add_type_var for every parameter of the alias.
   There is no recorded class left for Python.  Kept as the constant the driver reports. *)
Definition c12_py_known (cfg : py_config) (pd : parsed) : option string := None.
(* user type names avoid the reserved words; no type is mapped to `datetime` (the mapped text would be
   used without the import that the DateTime translation brings) *)
Definition c12_py_dom (cfg : py_config) (items : list ritem) : bool :=
  c12_ids_avoid [] c12_py_reserved items &&
  forallb (fun kv => negb (str_eqb (snd kv) (lit "datetime"))) (py_type_mappings cfg).
