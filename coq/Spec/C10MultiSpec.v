(* C10 in MULTI-FILE (folder output, `-d`) mode: the shape of what the import printers paste into a file.

   In multi-file mode every crate gets its own file.  Two things are printed there that single-file mode never
   prints, both taken from the WORKSPACE and not from the annotated items of the crate:
     - the crate's own name (Kotlin: `package <package>.<crate>`);
     - the import map of the crate, BTreeMap<crate name, BTreeSet<type name>> (Model/MultiFile.v [scoped]):
       TypeScript `import { A, B } from "./<crate>";`, Kotlin `import <package>.<crate>.<A>`.
   A crate name is the path component above the last `src` of a source file, `-` replaced by `_`
   (CrateName::find_crate_name, mod.rs:64); an imported type name is a member of all_types of that crate (the
   generated names of its structs, enums and aliases).

   [c10_crate_ok c]     a crate name made of [A-Za-z0-9_-] only (possibly starting with a digit).
   [c10_imports_ok im]  every crate name of the map is c10_crate_ok, every imported type name identifier-shaped
                        ([A-Za-z_][A-Za-z0-9_]*, the shape dom_C10 demands of generated type names anyway).
   Both decidable.  What multi_plan produces from crate directories named like Cargo packages and from programs
   of dom_C10 is inside.  EXCLUDED real inputs: a crate directory whose name contains anything else - a double
   quote or a backslash (would end / escape the TypeScript module string), a line break, a slash-star, a quote, a
   bracket, a dot, a space, a non-ASCII letter (`accept_crate` only asks for a lowercase FIRST character, Unicode
   lowercase included); and a type whose generated name (serde rename) is not identifier-shaped.
   This file never calls the back-end models. *)
From TS Require Import Model.Str Spec.C10Spec.

Definition c10_crate_ok (c : str) : bool := forallb c10_key_char c.

Definition c10_imports_ok (im : list (str * list str)) : bool :=
  forallb (fun kv => c10_crate_ok (fst kv) && forallb c10_ident_ok (snd kv)) im.

(* the type table of the workspace (CrateTypes, all_types): crate names and type names of the shapes above *)
Definition c10_crate_types_ok (m : list (str * list str)) : bool := c10_imports_ok m.
