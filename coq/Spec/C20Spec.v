(* C20: what the property demands, written without the code's control flow.
   - [effective]: command line, else file, else default - per setting;
   - [expected_backend]: every field of every back end named by the setting it must carry;
   - [nearest_config]: the configuration file of the nearest ancestor directory, by search over the
     list of ancestors (prefixes of the current directory, longest first);
   - [expected_generate] / [expected_generate_config]: the two runs of the CLI.
   Uses the vocabulary of Model/Config.v (records, paths, fs_lookup) but none of its functions that
   model code under verification (override_configuration, language_params, the fill and find functions, load_config,
   store_config, generate_types, generate_config). *)
From Coq Require Import String.
From TS Require Import Model.Str Model.Types Model.Config.

Definition effective {A} (cli file : option A) (default : A) : A :=
  match cli with
  | Some v => v
  | None => match file with Some v => v | None => default end
  end.

(* a setting that exists only in the file *)
Definition file_only {A} (file : option A) (default : A) : A := effective None file default.

(* the value a file gives to a key: the file was found, the table is there, the key is there *)
Definition fkey {T A} (file : option pconfig) (table : pconfig -> option T) (key : T -> option A) : option A :=
  match file with
  | None => None
  | Some f => match table f with None => None | Some t => key t end
  end.

(* the documented defaults: empty strings, empty lists and tables, false *)
Definition dstr : str := [].
Definition dlist : list str := [].
Definition dmap : amap := [].

Section Settings.
  Variable options : cli_options.
  Variable file : option pconfig.       (* None: no configuration file is in play *)

  (* settings with a command-line option *)
  Definition eff_swift_prefix : str := effective (o_swift_prefix options) (fkey file pc_swift psw_prefix) dstr.
  Definition eff_kotlin_prefix : str := effective (o_kotlin_prefix options) (fkey file pc_kotlin pkt_prefix) dstr.
  Definition eff_java_package : str := effective (o_java_package options) (fkey file pc_kotlin pkt_package) dstr.
  Definition eff_kotlin_module_name : str := effective (o_kotlin_module_name options) (fkey file pc_kotlin pkt_module_name) dstr.
  Definition eff_scala_package : str := effective (o_scala_package options) (fkey file pc_scala psc_package) dstr.
  Definition eff_scala_module_name : str := effective (o_scala_module_name options) (fkey file pc_scala psc_module_name) dstr.
  Definition eff_go_package : str := effective (o_go_package options) (fkey file pc_go pgo_package) dstr.

  Definition expected_backend (l : lang) (multi_file : bool) : backend :=
    match l with
    | Swift => BSwift {| bsw_prefix := eff_swift_prefix;
                         bsw_type_mappings := file_only (fkey file pc_swift psw_type_mappings) dmap;
                         bsw_default_decorators := file_only (fkey file pc_swift psw_default_decorators) dlist;
                         bsw_default_generic_constraints := file_only (fkey file pc_swift psw_default_generic_constraints) dlist;
                         bsw_multi_file := multi_file;
                         bsw_codablevoid_constraints := file_only (fkey file pc_swift psw_codablevoid_constraints) dlist |}
    | Kotlin => BKotlin {| bkt_package := eff_java_package;
                           bkt_module_name := eff_kotlin_module_name;
                           bkt_prefix := eff_kotlin_prefix;
                           bkt_type_mappings := file_only (fkey file pc_kotlin pkt_type_mappings) dmap |}
    | Scala => BScala {| bsc_package := eff_scala_package;
                         bsc_module_name := eff_scala_module_name;
                         bsc_type_mappings := file_only (fkey file pc_scala psc_type_mappings) dmap |}
    | TypeScript => BTypeScript {| bts_type_mappings := file_only (fkey file pc_typescript pts_type_mappings) dmap |}
    | Go => BGo {| bgo_package := eff_go_package;
                   bgo_type_mappings := file_only (fkey file pc_go pgo_type_mappings) dmap;
                   bgo_uppercase_acronyms := file_only (fkey file pc_go pgo_uppercase_acronyms) dlist;
                   bgo_no_pointer_slice := file_only (fkey file pc_go pgo_no_pointer_slice) false |}
    | Python => BPython {| bpy_type_mappings := file_only (fkey file pc_python ppy_type_mappings) dmap |}
    end.

  (* the whole effective configuration *)
  Definition expected_config : config :=
    {| c_swift := {| sw_prefix := eff_swift_prefix;
                     sw_default_decorators := file_only (fkey file pc_swift psw_default_decorators) dlist;
                     sw_default_generic_constraints := file_only (fkey file pc_swift psw_default_generic_constraints) dlist;
                     sw_codablevoid_constraints := file_only (fkey file pc_swift psw_codablevoid_constraints) dlist;
                     sw_type_mappings := file_only (fkey file pc_swift psw_type_mappings) dmap |};
       c_typescript := {| tsc_type_mappings := file_only (fkey file pc_typescript pts_type_mappings) dmap |};
       c_kotlin := {| kt_package := eff_java_package; kt_module_name := eff_kotlin_module_name;
                      kt_prefix := eff_kotlin_prefix;
                      kt_type_mappings := file_only (fkey file pc_kotlin pkt_type_mappings) dmap |};
       c_scala := {| sc_package := eff_scala_package; sc_module_name := eff_scala_module_name;
                     sc_type_mappings := file_only (fkey file pc_scala psc_type_mappings) dmap |};
       c_python := {| py_type_mappings := file_only (fkey file pc_python ppy_type_mappings) dmap |};
       c_go := {| go_package := eff_go_package;
                  go_uppercase_acronyms := file_only (fkey file pc_go pgo_uppercase_acronyms) dlist;
                  go_no_pointer_slice := file_only (fkey file pc_go pgo_no_pointer_slice) false;
                  go_type_mappings := file_only (fkey file pc_go pgo_type_mappings) dmap |};
       (* not a file setting (#[serde(skip)]): always what the command line says *)
       c_target_os := effective (o_target_os options) None dlist |}.

  (* the one refusal: generating Go (or writing a configuration while -l go is given) without a package *)
  Definition go_package_missing : bool :=
    match o_language options with
    | Some AGo => match eff_go_package with [] => true | _ => false end
    | _ => false
    end.
End Settings.

(* ---------- discovery ---------- *)
(* all prefixes of a path, shortest first *)
Fixpoint prefixes (p : fpath) : list fpath :=
  [] :: match p with [] => [] | x :: r => map (cons x) (prefixes r) end.
(* the directory itself, its parent, ... , the root *)
Definition ancestors (dir : fpath) : list fpath := rev (prefixes dir).

Definition nearest_config {bytes} (fs : fsys bytes) (cwd : fpath) : option fpath :=
  find (fun p => match fs_lookup fs p with Some _ => true | None => false end)
       (map (fun d => d ++ [lit "typeshare.toml"]) (ancestors cwd)).

(* -c names the file; otherwise the nearest ancestor's typeshare.toml; otherwise none *)
Definition config_source {bytes} (fs : fsys bytes) (cwd : fpath) (explicit : option upath) : option fpath :=
  match explicit with
  | Some (PAbs p) => Some p
  | Some (PRel p) => Some (cwd ++ p)
  | None => nearest_config fs cwd
  end.

(* ---------- the two runs ---------- *)
Section Runs.
  Variable bytes : Type.
  Variable ser : config -> bytes.
  Variable parse : bytes -> option pconfig.

  Definition expected_with (options : cli_options) (file : option pconfig) : cres (backend * list str) :=
    if go_package_missing options file then CErr EGoPackageMissing
    else match o_language options with
         | None => CPanic "main.rs:88 no language specified"
         | Some l => COk (expected_backend options file
                            (match l with AKotlin => Kotlin | AScala => Scala | ASwift => Swift
                                        | ATypescript => TypeScript | AGo => Go | APython => Python end)
                            (o_output_folder options),
                          effective (o_target_os options) None dlist)
         end.

  Definition expected_generate (fs : fsys bytes) (cwd : fpath) (options : cli_options) : cres (backend * list str) :=
    match config_source fs cwd (o_config_file options) with
    | None => expected_with options None
    | Some p =>
      match fs_lookup fs p with
      | None => CErr EConfigRead
      | Some b => match parse b with
                  | None => CErr EConfigParse
                  | Some f => expected_with options (Some f)
                  end
      end
    end.

  (* -g: the written configuration is the effective one over NO file; an existing path is never
     overwritten *)
  Definition expected_generate_config (fs : fsys bytes) (cwd : fpath) (options : cli_options) : fsys bytes * cres unit :=
    if go_package_missing options None then (fs, CErr EGoPackageMissing)
    else
      let target := match o_config_file options with
                    | Some (PAbs p) => p
                    | Some (PRel p) => cwd ++ p
                    | None => cwd ++ [lit "typeshare.toml"]
                    end in
      match fs_lookup fs target with
      | Some _ => (fs, CErr EConfigExists)
      | None => ((target, ser (expected_config options None)) :: fs, COk tt)
      end.
End Runs.
Arguments expected_generate {bytes}.
Arguments expected_generate_config {bytes}.

(* ---------- persistence ---------- *)
(* the part of a configuration that a file can hold: everything but target_os (#[serde(skip)]) *)
Definition persisted (c : config) : config :=
  {| c_swift := c_swift c; c_typescript := c_typescript c; c_kotlin := c_kotlin c; c_scala := c_scala c;
     c_python := c_python c; c_go := c_go c; c_target_os := [] |}.

(* a command line that sets none of the seven settings *)
Definition no_setting_options (o : cli_options) : bool :=
  match o_swift_prefix o, o_kotlin_prefix o, o_java_package o, o_kotlin_module_name o,
        o_scala_package o, o_scala_module_name o, o_go_package o with
  | None, None, None, None, None, None, None => true
  | _, _, _, _, _, _, _ => false
  end.
