(* C11: declarative reference graph between items (independent of topsort.rs's collectors), the
   verdict on an emitted order, and the finding classes of the current tree. All computable. *)
From Coq Require Import String.
From TS Require Import Model.Str Model.Types.

Definition cls (s:string) : option string := Some s.

(* every identifier a type expression mentions, at any depth, through any container *)
Fixpoint type_idents (t : rtype) : list str :=
  match t with
  | RSimple id => [id]
  | RGeneric id ps => id :: flat_map type_idents ps
  | RVec x | RArray x _ | RSlice x | ROption x => type_idents x
  | RHashMap k v => type_idents k ++ type_idents v
  | RPrim _ => []
  end.

Definition variant_types (v : rvariant) : list rtype :=
  match v with VUnit _ => [] | VTuple t _ => [t] | VAnon fs _ => map fty fs end.
Definition item_types (it : ritem) : list rtype :=
  match it with
  | ItStruct s => map fty (sfields s)
  | ItEnum e => flat_map variant_types (evariants (enum_shared e))
  | ItAlias a => [atype a]
  | ItConst c => [ctype c]
  end.
Definition item_generics (it : ritem) : list str :=
  match it with
  | ItStruct s => sgenerics s | ItEnum e => egenerics (enum_shared e) | ItAlias a => agenerics a | ItConst _ => []
  end.
(* names an item mentions, its own generic parameters excluded *)
Definition mentions (it : ritem) : list str :=
  filter (fun n => negb (mem_str n (item_generics it))) (flat_map type_idents (item_types it)).

Definition defined_names (it : ritem) : list str := [original (item_id it); renamed (item_id it)].
Definition same_item (a b : ritem) : bool := ritem_eqb a b.

(* a refers to b (a <> b): some type of a mentions a name b is defined under *)
Definition refers (a b : ritem) : bool :=
  negb (same_item a b) && existsb (fun n => mem_str n (mentions a)) (defined_names b).

(* Kahn: repeatedly drop items that refer to nothing that is left; acyclic iff all get dropped *)
Fixpoint kahn (fuel : nat) (left : list ritem) : bool :=
  match fuel with
  | O => match left with [] => true | _ => false end
  | S f =>
    let keep := filter (fun a => existsb (fun b => refers a b) left) left in
    match keep with
    | [] => true
    | _ => if Nat.eqb (List.length keep) (List.length left) then false else kahn f keep
    end
  end.
Definition acyclic (things : list ritem) : bool := kahn (List.length things) things.

(* no emitted item refers to an item emitted later *)
Fixpoint topo_ok (out : list ritem) : bool :=
  match out with
  | [] => true
  | a :: rest => negb (existsb (fun b => refers a b) rest) && topo_ok rest
  end.

(* same multiset of (kind, original name) *)
Definition count_item (x : ritem) (l : list ritem) : nat := List.length (filter (same_item x) l).
Definition perm_ok (things out : list ritem) : bool :=
  Nat.eqb (List.length things) (List.length out) &&
  forallb (fun x => Nat.eqb (count_item x things) (count_item x out)) (things ++ out).

Definition good_C11 (things out : list ritem) : bool :=
  perm_ok things out && (if acyclic things then topo_ok out else true).

(* ---- which references the collectors can see ---- *)
(* identifiers get_dependencies_from_type looks up while it collects for an item: since the repair of
   its Generic arm (every argument of every generic type is followed like a type in its own right,
   whatever the generic type is and however deeply the argument is nested) these are exactly
   [type_idents]: every Simple / Generic id at any depth, through Vec, array, slice, Option, HashMap
   and generic arguments.  (Before the repair only the outermost id() of the arguments of a generic
   type that is itself an item was looked up - class C11-generic-arg-depth - and that id() was the
   fixed string "Vec", "Option", "u8" ... for a special type - class C11-special-id-collision.) *)

(* the types whose identifiers are looked up.  An algebraic enum is walked variant by variant: the
   payload type of a tuple variant, the field types of a struct variant (since the repair of
   get_enum_dependencies; before it the enum pushed its own name first, which made the cycle cut of
   toposort_impl drop the whole row, and struct-variant fields were skipped).  RustEnum::Unit is not
   walked at all (its variants carry no types when they come from the parser). *)
Definition visible_types (it : ritem) : list rtype :=
  match it with
  | ItStruct s => map fty (sfields s)
  | ItEnum (EUnit _) => []
  | ItEnum (EAlgebraic _ _ sh) => flat_map variant_types (evariants sh)
  | ItAlias a => [atype a]
  | ItConst c => [ctype c]
  end.

Definition is_known (things : list ritem) (n : str) : bool :=
  existsb (fun it => str_eqb (original (item_id it)) n) things.

(* the edge a -> b is one the collectors record: an identifier of a walked type equals b's ORIGINAL name *)
Definition edge_visible (a b : ritem) : bool :=
  mem_str (original (item_id b)) (flat_map type_idents (visible_types a)).

Definition has_dup_names (things : list ritem) : bool :=
  existsb (fun a => negb (Nat.eqb (List.length (filter (fun b => str_eqb (original (item_id a)) (original (item_id b))) things)) 1)) things.
Definition alias_generic_shadows (things : list ritem) : bool :=
  existsb (fun it => match it with ItAlias a => existsb (is_known things) (agenerics a) | _ => false end) things.

Fixpoint has_array_slice (t : rtype) : bool :=
  match t with
  | RArray _ _ | RSlice _ => true
  | RGeneric _ ps => existsb has_array_slice ps
  | RVec x | ROption x => has_array_slice x
  | RHashMap k v => has_array_slice k || has_array_slice v
  | _ => false
  end.

(* classification of the first declarative edge the collectors do not record.  Either b is mentioned
   under its RENAMED name only (the lookup table is keyed by id.original), or b's original name is
   mentioned but not in a walked type: the only types that are not walked are the payloads of the
   variants of a RustEnum::Unit (`RustEnum::Unit(_) => {}`).  The parser builds RustEnum::Unit only from
   enums all of whose variants are unit variants (Spec/C07BackSpec.v enum_wf, proved of every parsed
   value), so the second case is a shape of the IR the real tool never produces, not a finding. *)
Definition edge_class (a b : ritem) : option string :=
  if negb (mem_str (original (item_id b)) (mentions a)) then cls "C11-renamed"
  else cls "C11-unit-enum-payload".

(* classification of a recorded edge a -> b (a <> b) that is no reference of a at all.  The
   collectors look names up without regard to what they denote; the one case left is a generic
   parameter of a struct or enum that is named like item b (struct A<T> { f: T } next to struct T):
   b's original name is an identifier of a type of a, yet no mention, so it is one of a's own generic
   parameters (Proofs/C11Link.v phantom_is_param_shadow).  Such a phantom edge can close a cycle the
   references do not have; toposort_impl's cycle `return` then emits a definition before one it
   refers to although the reference graph is acyclic. *)
Definition phantom_class (a b : ritem) : option string := cls "C11-generic-param-shadow".

Definition known_C11 (things : list ritem) : option string :=
  if has_dup_names things then cls "C11-duplicate-names"
  else if alias_generic_shadows things then cls "C11-alias-generic-shadow"
  else
    (fix scan (pairs : list (ritem * ritem)) : option string :=
       match pairs with
       | [] => None
       | (a, b) :: r =>
         if refers a b && negb (edge_visible a b) then edge_class a b
         else if edge_visible a b && negb (same_item a b) && negb (refers a b) then phantom_class a b
         else scan r
       end) (list_prod things things).
