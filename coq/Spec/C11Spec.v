(* C11: declarative reference graph between items (independent of topsort.rs's collectors), the
   verdict on an emitted order, and the finding classes of the unchanged tree. All computable. *)
From Coq Require Import String.
From TS Require Import Model.Str Model.Types.

Definition cls (s:string) : option string := Some s.

(* every identifier a type expression mentions, at any depth, through any container *)
Fixpoint type_idents (t : rtype) : list str :=
  match t with
  | RSimple id => [id]
  | RGeneric id ps => id :: flat_map type_idents ps
  | RVec x | RArray x _ | RSlice x | ROption x => type_idents x
  | RHashMap k v => type_idents k ++ type_idents v
  | RPrim _ => []
  end.

Definition variant_types (v : rvariant) : list rtype :=
  match v with VUnit _ => [] | VTuple t _ => [t] | VAnon fs _ => map fty fs end.
Definition item_types (it : ritem) : list rtype :=
  match it with
  | ItStruct s => map fty (sfields s)
  | ItEnum e => flat_map variant_types (evariants (enum_shared e))
  | ItAlias a => [atype a]
  | ItConst c => [ctype c]
  end.
Definition item_generics (it : ritem) : list str :=
  match it with
  | ItStruct s => sgenerics s | ItEnum e => egenerics (enum_shared e) | ItAlias a => agenerics a | ItConst _ => []
  end.
(* names an item mentions, its own generic parameters excluded *)
Definition mentions (it : ritem) : list str :=
  filter (fun n => negb (mem_str n (item_generics it))) (flat_map type_idents (item_types it)).

Definition defined_names (it : ritem) : list str := [original (item_id it); renamed (item_id it)].
Definition same_item (a b : ritem) : bool := ritem_eqb a b.

(* a refers to b (a <> b): some type of a mentions a name b is defined under *)
Definition refers (a b : ritem) : bool :=
  negb (same_item a b) && existsb (fun n => mem_str n (mentions a)) (defined_names b).

(* Kahn: repeatedly drop items that refer to nothing that is left; acyclic iff all get dropped *)
Fixpoint kahn (fuel : nat) (left : list ritem) : bool :=
  match fuel with
  | O => match left with [] => true | _ => false end
  | S f =>
    let keep := filter (fun a => existsb (fun b => refers a b) left) left in
    match keep with
    | [] => true
    | _ => if Nat.eqb (List.length keep) (List.length left) then false else kahn f keep
    end
  end.
Definition acyclic (things : list ritem) : bool := kahn (List.length things) things.

(* no emitted item refers to an item emitted later *)
Fixpoint topo_ok (out : list ritem) : bool :=
  match out with
  | [] => true
  | a :: rest => negb (existsb (fun b => refers a b) rest) && topo_ok rest
  end.

(* same multiset of (kind, original name) *)
Definition count_item (x : ritem) (l : list ritem) : nat := List.length (filter (same_item x) l).
Definition perm_ok (things out : list ritem) : bool :=
  Nat.eqb (List.length things) (List.length out) &&
  forallb (fun x => Nat.eqb (count_item x things) (count_item x out)) (things ++ out).

Definition good_C11 (things out : list ritem) : bool :=
  perm_ok things out && (if acyclic things then topo_ok out else true).

(* ---- which references the collectors of the unchanged tree can see ---- *)
(* identifiers get_dependencies_from_type looks up while it collects for the item named [own]:
   Simple / Generic ids under Vec, array, slice, Option, HashMap nesting, and the outermost id of
   each argument of a Generic whose own id is a known item OTHER than [own] (the item's name sits in
   the `seen` set for the whole collection, so `seen.insert(id)` fails for a Generic named like the
   item itself and its arguments are never looked at: struct Foo<T> { f: Foo<Bar> } misses Bar) *)
Fixpoint visible_idents (known : str -> bool) (own : str) (t : rtype) : list str :=
  match t with
  | RSimple id => [id]
  | RGeneric id ps => id :: (if known id && negb (str_eqb id own) then map rtype_id ps else [])
  | RVec x | ROption x | RArray x _ | RSlice x => visible_idents known own x
  | RHashMap k v => visible_idents known own k ++ visible_idents known own v
  | RPrim _ => []
  end.

(* the types whose identifiers are looked up.  An algebraic enum is walked variant by variant: the
   payload type of a tuple variant, the field types of a struct variant (since the repair of
   get_enum_dependencies; before it the enum pushed its own name first, which made the cycle cut of
   toposort_impl drop the whole row, and struct-variant fields were skipped).  RustEnum::Unit is not
   walked at all (its variants carry no types when they come from the parser). *)
Definition visible_types (it : ritem) : list rtype :=
  match it with
  | ItStruct s => map fty (sfields s)
  | ItEnum (EUnit _) => []
  | ItEnum (EAlgebraic _ _ sh) => flat_map variant_types (evariants sh)
  | ItAlias a => [atype a]
  | ItConst c => [ctype c]
  end.

Definition is_known (things : list ritem) (n : str) : bool :=
  existsb (fun it => str_eqb (original (item_id it)) n) things.

(* the edge a -> b is one the collectors record: a visible identifier equals b's ORIGINAL name *)
Definition edge_visible (things : list ritem) (a b : ritem) : bool :=
  mem_str (original (item_id b))
          (flat_map (visible_idents (is_known things) (original (item_id a))) (visible_types a)).

Definition has_dup_names (things : list ritem) : bool :=
  existsb (fun a => negb (Nat.eqb (List.length (filter (fun b => str_eqb (original (item_id a)) (original (item_id b))) things)) 1)) things.
Definition alias_generic_shadows (things : list ritem) : bool :=
  existsb (fun it => match it with ItAlias a => existsb (is_known things) (agenerics a) | _ => false end) things.

Fixpoint has_array_slice (t : rtype) : bool :=
  match t with
  | RArray _ _ | RSlice _ => true
  | RGeneric _ ps => existsb has_array_slice ps
  | RVec x | ROption x => has_array_slice x
  | RHashMap k v => has_array_slice k || has_array_slice v
  | _ => false
  end.

(* classification of the first declarative edge the collectors do not record *)
Definition edge_class (a b : ritem) : option string :=
  if negb (mem_str (original (item_id b)) (mentions a)) then cls "C11-renamed"
  else cls "C11-generic-arg-depth".

(* classification of a recorded edge a -> b (a <> b) that is no reference of a at all.  The
   collectors look names up without regard to what they denote: (1) a generic parameter of a struct
   that is named like item b (struct A<T> { f: T } next to struct T); (2) the id() of a special type
   standing as a direct argument of a typeshared generic - "Vec", "Option", "HashMap", "[]", "&[]",
   "String", "u8", ... - when an item b carries that name.  Such a phantom edge can close a cycle the
   references do not have; toposort_impl's cycle `return` then emits a definition before one it
   refers to although the reference graph is acyclic. *)
Definition phantom_class (a b : ritem) : option string :=
  if mem_str (original (item_id b)) (item_generics a) then cls "C11-generic-param-shadow"
  else cls "C11-special-id-collision".

Definition known_C11 (things : list ritem) : option string :=
  if has_dup_names things then cls "C11-duplicate-names"
  else if alias_generic_shadows things then cls "C11-alias-generic-shadow"
  else
    (fix scan (pairs : list (ritem * ritem)) : option string :=
       match pairs with
       | [] => None
       | (a, b) :: r =>
         if refers a b && negb (edge_visible things a b) then edge_class a b
         else if edge_visible things a b && negb (same_item a b) && negb (refers a b) then phantom_class a b
         else scan r
       end) (list_prod things things).
