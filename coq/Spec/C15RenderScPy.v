(* C15, renderer level, Scala and Python: the decidable input classes on which the CODE the printers write
   around the comment fragments is proved to keep the reference lexer of the language in code mode
   (Props/C15.v: C15_sc_decl, C15_sc_item, C15_py_item).

   Scala (reference lexer cfg_sc: `/` may open a comment, a double quote a string or - three of them - a raw
   string, a single quote a character literal): [c15_sc_decl_plain d] says that every name, generic parameter
   and PRINTED type of the abstract declaration d (Model/Lang/Scala.v, the layout layer's input) is free of
   `/`, double and single quotes, and that the wire name of every variant - printed between double quotes
   through Rust's {:?} - is non-empty (two adjacent quotes followed by a third open a raw string) and free of
   control characters.

   Python (reference lexer cfg_py: `#` opens a comment, a double or single quote a string or - three of them - a
   triple-quoted string): [c15_py_item_ok it], on the IR item.  python.rs prints the JSON key of a field
   (Field(alias="key")) and the wire name of a variant (the members of the (str, Enum) classes) RAW between double
   quotes, and derives attribute names, Types-enum members and constant names through Unicode-table functions
   (convert_case's Snake, str::to_uppercase).  So: the names that go through these functions are ASCII strings over
   [A-Za-z0-9_-] (c10_key_char of Spec/C10Spec.v; constants: [A-Za-z0-9_]), where a table that is right on ASCII
   (unicode_ok) gives ASCII results; what is printed raw between quotes is a non-empty string without quote,
   backslash, `#` or control character; type, generic-parameter and tag / content names are free of `#` and
   quotes.  Python has no type override (python.rs never reads one). *)
From Coq Require Import List NArith Bool String.
From TS Require Import Model.Str Model.Unicode Model.Types Model.Lang.Decl Model.Lang.Scala.
From TS Require Import Spec.Lexers Spec.C15Spec Spec.C15Render Spec.C10Spec.
Import ListNotations.
Local Open Scope N_scope.

(* a string that may be printed through {:?} in front of more code: non-empty, no control character *)
Definition c15_quoted_ok (s : str) : bool := match s with [] => false | _ => c15_lit_str s end.

Definition c15_sc_member_plain (m : sc_member) : bool :=
  c15_plain C15sc (scm_name m) && c15_plain C15sc (sc_show (scm_type m)).
Definition c15_sc_variant_plain (v : sc_variant) : bool :=
  c15_plain C15sc (scv_name v) && c15_plain C15sc (scv_parent v) &&
  forallb (c15_plain C15sc) (scv_parent_generics v) && c15_quoted_ok (scv_wire v) &&
  match scv_payload v with
  | SCPayUnit => true
  | SCPayTuple gs content ty =>
    forallb (c15_plain C15sc) gs && c15_plain C15sc content && c15_plain C15sc (sc_show ty)
  | SCPayInner gs content inner args =>
    forallb (c15_plain C15sc) gs && c15_plain C15sc content && c15_plain C15sc inner && forallb (c15_plain C15sc) args
  end.
Definition c15_sc_decl_plain (d : sc_decl) : bool :=
  match d with
  | SCAlias _ name gs ty => c15_plain C15sc name && forallb (c15_plain C15sc) gs && c15_plain C15sc (sc_show ty)
  | SCCaseClass _ name gs ms => c15_plain C15sc name && forallb (c15_plain C15sc) gs && forallb c15_sc_member_plain ms
  | SCEmptyClass _ name => c15_plain C15sc name
  | SCEnum _ name gs vs => c15_plain C15sc name && forallb (c15_plain C15sc) gs && forallb c15_sc_variant_plain vs
  | SCHelperAliases l => forallb (fun nt => c15_plain C15sc (fst nt) && c15_plain C15sc (sc_show (snd nt))) l
  end.

(* ---- Python ---- *)
(* [A-Za-z0-9_-]*: stays in this alphabet under to_snake / to_uppercase when the tables are right on ASCII *)
Definition c15_ascii_key (s : str) : bool := forallb c10_key_char s.
Definition c15_py_field_ok (f : rfield) : bool :=
  c15_ascii_key (original (fid f)) && c15_ident_ok C15py (renamed (fid f)) && c15_rtype_plain C15py (fty f).
Definition c15_py_variant_ok (v : rvariant) : bool :=
  c15_ascii_key (original (vid (variant_shared v))) && c10_key_ok (renamed (vid (variant_shared v))) &&
  match v with
  | VUnit _ => true
  | VTuple t _ => c15_rtype_plain C15py t
  | VAnon fs _ => forallb c15_py_field_ok fs
  end.
Definition c15_py_item_ok (it : ritem) : bool :=
  match it with
  | ItStruct s =>
    c15_plain C15py (renamed (sid s)) && forallb (c15_plain C15py) (sgenerics s) && forallb c15_py_field_ok (sfields s)
  | ItEnum e =>
    let sh := enum_shared e in
    c15_plain C15py (renamed (eid sh)) && forallb (c15_plain C15py) (egenerics sh) &&
    match e with EUnit _ => true | EAlgebraic tag content _ => c15_plain C15py tag && c15_plain C15py content end &&
    forallb c15_py_variant_ok (evariants sh)
  | ItAlias a =>
    c15_plain C15py (renamed (aid a)) && forallb (c15_plain C15py) (agenerics a) && c15_rtype_plain C15py (atype a)
  | ItConst c => forallb c10_ident_char (renamed (cid c)) && c15_rtype_plain C15py (ctype c)
  end.
