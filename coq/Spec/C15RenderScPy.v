(* C15, renderer level, Scala and Python: the decidable input classes on which the CODE the printers write
   around the comment fragments is proved to keep the reference lexer of the language in code mode
   (Props/C15.v: C15_sc_decl, C15_sc_item, C15_py_item).

   Scala (reference lexer cfg_sc: `/` may open a comment, a double quote a string or - three of them - a raw
   string, a single quote a character literal): [c15_sc_decl_plain d] says that every name, generic parameter
   and PRINTED type of the abstract declaration d (Model/Lang/Scala.v, the layout layer's input) is free of
   `/`, double and single quotes, and that the wire name of every variant - printed between double quotes
   through Rust's {:?} - is non-empty (two adjacent quotes followed by a third open a raw string) and free of
   control characters. *)
From Coq Require Import List NArith Bool String.
From TS Require Import Model.Str Model.Unicode Model.Types Model.Lang.Decl Model.Lang.Scala.
From TS Require Import Spec.Lexers Spec.C15Spec Spec.C15Render.
Import ListNotations.
Local Open Scope N_scope.

(* a string that may be printed through {:?} in front of more code: non-empty, no control character *)
Definition c15_quoted_ok (s : str) : bool := match s with [] => false | _ => c15_lit_str s end.

Definition c15_sc_member_plain (m : sc_member) : bool :=
  c15_plain C15sc (scm_name m) && c15_plain C15sc (sc_show (scm_type m)).
Definition c15_sc_variant_plain (v : sc_variant) : bool :=
  c15_plain C15sc (scv_name v) && c15_plain C15sc (scv_parent v) &&
  forallb (c15_plain C15sc) (scv_parent_generics v) && c15_quoted_ok (scv_wire v) &&
  match scv_payload v with
  | SCPayUnit => true
  | SCPayTuple gs content ty =>
    forallb (c15_plain C15sc) gs && c15_plain C15sc content && c15_plain C15sc (sc_show ty)
  | SCPayInner gs content inner args =>
    forallb (c15_plain C15sc) gs && c15_plain C15sc content && c15_plain C15sc inner && forallb (c15_plain C15sc) args
  end.
Definition c15_sc_decl_plain (d : sc_decl) : bool :=
  match d with
  | SCAlias _ name gs ty => c15_plain C15sc name && forallb (c15_plain C15sc) gs && c15_plain C15sc (sc_show ty)
  | SCCaseClass _ name gs ms => c15_plain C15sc name && forallb (c15_plain C15sc) gs && forallb c15_sc_member_plain ms
  | SCEmptyClass _ name => c15_plain C15sc name
  | SCEnum _ name gs vs => c15_plain C15sc name && forallb (c15_plain C15sc) gs && forallb c15_sc_variant_plain vs
  | SCHelperAliases l => forallb (fun nt => c15_plain C15sc (fst nt) && c15_plain C15sc (sc_show (snd nt))) l
  end.
