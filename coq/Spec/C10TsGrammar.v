(* C10, grammar half for TypeScript: a tokenizer and a recursive-descent recogniser for the declaration subset
   the TypeScript back end emits.  VALIDATED (run, extracted, on the real generator's text and on the model's
   text on every check run), not proved.

     file      ::= { decl }
     decl      ::= 'export' 'interface' IDENT [generics] object
                 | 'export' 'type' IDENT [generics] '=' type ';'
                 | 'export' 'enum' IDENT [generics] '{' { IDENT '=' STRING ',' } '}'
                 | 'export' 'const' IDENT ':' type '=' ['-'] NUMBER ';'
                 | 'export' 'const' IDENT '=' balanced-tokens ';'              (ReviverFunc / ReplacerFunc)
     generics  ::= '<' IDENT { ',' IDENT } '>'
     type      ::= ['|'] postfix { '|' postfix }
     postfix   ::= primary { '[' ']' }
     primary   ::= IDENT ['<' type { ',' type } '>'] | STRING | '[' [type { ',' type }] ']' | '(' type ')' | object
     object    ::= '{' { member (';' | ',') } [member] '}'
     member    ::= ['readonly'] (IDENT | STRING) ['?'] ':' type

   Comments are dropped by the tokenizer (block comments only: the back end prints no line comments). *)
From Coq Require Import String.
From TS Require Import Model.Str.

Inductive c10_tok :=
| KIdent (s : str)
| KStr
| KNum
| KP (c : char).        (* any other printable character *)

Definition c10_ts_id_start (c : char) : bool := is_aalpha c || (c =? ch_us) || (c =? 36).
Definition c10_ts_id_char (c : char) : bool := c10_ts_id_start c || is_adigit c.
Definition c10_ts_space (c : char) : bool := (c =? 32) || (c =? 9) || (c =? 10) || (c =? 13).

Fixpoint c10_take_while (p : char -> bool) (s : str) : str * str :=
  match s with
  | c :: r => if p c then let '(a, b) := c10_take_while p r in (c :: a, b) else ([], s)
  | [] => ([], [])
  end.

(* the rest after the closing quote of a "..." literal (None: unterminated) *)
Fixpoint c10_skip_string (s : str) : option str :=
  match s with
  | [] => None
  | c :: r => if c =? ch_dq then Some r
              else if c =? ch_bs then match r with _ :: r' => c10_skip_string r' | [] => None end
              else if (c =? ch_nl) || (c =? ch_cr) then None
              else c10_skip_string r
  end.
(* the rest after the closing star-slash of a block comment *)
Fixpoint c10_skip_block (s : str) : option str :=
  match s with
  | [] => None
  | c :: r => if (c =? 42) && match r with d :: _ => d =? 47 | [] => false end
              then Some (tl r) else c10_skip_block r
  end.

Fixpoint c10_ts_tokens (fuel : nat) (s : str) : option (list c10_tok) :=
  match fuel with
  | O => None
  | S f =>
    match s with
    | [] => Some []
    | c :: r =>
      if c10_ts_space c then c10_ts_tokens f r
      else if (c =? 47) && match r with d :: _ => d =? 42 | [] => false end
      then match c10_skip_block (tl r) with Some r' => c10_ts_tokens f r' | None => None end
      else if c =? ch_dq
      then match c10_skip_string r with
           | Some r' => match c10_ts_tokens f r' with Some ts => Some (KStr :: ts) | None => None end
           | None => None
           end
      else if c10_ts_id_start c
      then let '(a, b) := c10_take_while c10_ts_id_char s in
           match c10_ts_tokens f b with Some ts => Some (KIdent a :: ts) | None => None end
      else if is_adigit c
      then let '(_, b) := c10_take_while is_adigit s in
           match c10_ts_tokens f b with Some ts => Some (KNum :: ts) | None => None end
      else match c10_ts_tokens f r with Some ts => Some (KP c :: ts) | None => None end
    end
  end.

Definition c10_is_p (c : char) (t : c10_tok) : bool := match t with KP d => d =? c | _ => false end.
Definition c10_is_kw (w : string) (t : c10_tok) : bool := match t with KIdent s => str_eqb s (lit w) | _ => false end.

(* expect one punctuation token *)
Definition c10_eat (c : char) (ts : list c10_tok) : option (list c10_tok) :=
  match ts with t :: r => if c10_is_p c t then Some r else None | [] => None end.
Definition c10_eat_kw (w : string) (ts : list c10_tok) : option (list c10_tok) :=
  match ts with t :: r => if c10_is_kw w t then Some r else None | [] => None end.
Definition c10_eat_ident (ts : list c10_tok) : option (list c10_tok) :=
  match ts with KIdent _ :: r => Some r | _ => None end.

(* types, objects and members, mutually recursive: one function with a mode and explicit fuel *)
Inductive c10_gmode := GType | GUnionTail | GPostfixTail | GTypeListTail (closer : char) | GObjectBody | GMember.

Fixpoint c10_g (fuel : nat) (m : c10_gmode) (ts : list c10_tok) : option (list c10_tok) :=
  match fuel with
  | O => None
  | S f =>
    match m with
    | GType =>
      (* an optional leading bar, then postfix types separated by bars *)
      let ts1 := match ts with t :: r => if c10_is_p 124 t then r else ts | [] => ts end in
      let after_primary :=
        match ts1 with
        | KIdent _ :: r =>
          match r with
          | t :: r2 => if c10_is_p 60 t
                       then match c10_g f GType r2 with Some r3 => c10_g f (GTypeListTail 62) r3 | None => None end
                       else Some r
          | [] => Some r
          end
        | KStr :: r => Some r
        | t :: r =>
          if c10_is_p 91 t then
            match r with
            | t2 :: r2 => if c10_is_p 93 t2 then Some r2
                          else match c10_g f GType r with Some r3 => c10_g f (GTypeListTail 93) r3 | None => None end
            | [] => None
            end
          else if c10_is_p 40 t then match c10_g f GType r with Some r3 => c10_eat 41 r3 | None => None end
          else if c10_is_p 123 t then c10_g f GObjectBody r
          else None
        | [] => None
        end in
      match after_primary with
      | Some r => match c10_g f GPostfixTail r with Some r' => c10_g f GUnionTail r' | None => None end
      | None => None
      end
    | GPostfixTail =>
      match ts with
      | t :: t2 :: r => if c10_is_p 91 t && c10_is_p 93 t2 then c10_g f GPostfixTail r else Some ts
      | _ => Some ts
      end
    | GUnionTail =>
      match ts with
      | t :: r => if c10_is_p 124 t then c10_g f GType (t :: r) else Some ts
      | [] => Some ts
      end
    | GTypeListTail closer =>
      match ts with
      | t :: r => if c10_is_p closer t then Some r
                  else if c10_is_p 44 t then match c10_g f GType r with Some r2 => c10_g f (GTypeListTail closer) r2 | None => None end
                  else None
      | [] => None
      end
    | GObjectBody =>
      match ts with
      | t :: r => if c10_is_p 125 t then Some r
                  else match c10_g f GMember ts with
                       | Some r2 =>
                         match r2 with
                         | t2 :: r3 => if c10_is_p 59 t2 || c10_is_p 44 t2 then c10_g f GObjectBody r3
                                       else if c10_is_p 125 t2 then Some r3 else None
                         | [] => None
                         end
                       | None => None
                       end
      | [] => None
      end
    | GMember =>
      let ts1 := match ts with
                 | t :: (t2 :: _) as r => if c10_is_kw "readonly" t && negb (c10_is_p 58 t2) && negb (c10_is_p 63 t2) then r else ts
                 | _ => ts
                 end in
      match ts1 with
      | (KIdent _ | KStr) :: r =>
        let r1 := match r with t :: r' => if c10_is_p 63 t then r' else r | [] => r end in
        match c10_eat 58 r1 with Some r2 => c10_g f GType r2 | None => None end
      | _ => None
      end
    end
  end.

Definition c10_ts_type (ts : list c10_tok) : option (list c10_tok) := c10_g (S (S (4 * List.length ts))) GType ts.

Definition c10_ts_generics (ts : list c10_tok) : option (list c10_tok) :=
  match ts with
  | t :: r =>
    if c10_is_p 60 t then
      (fix go (fuel : nat) (ts : list c10_tok) : option (list c10_tok) :=
         match fuel with
         | O => None
         | S f => match ts with
                  | KIdent _ :: t2 :: r2 => if c10_is_p 62 t2 then Some r2 else if c10_is_p 44 t2 then go f r2 else None
                  | _ => None
                  end
         end) (List.length r) r
    else Some ts
  | [] => Some ts
  end.

(* balanced token soup up to the `;` that ends an arrow-function constant *)
Fixpoint c10_ts_soup (fuel : nat) (depth : nat) (ts : list c10_tok) : option (list c10_tok) :=
  match fuel with
  | O => None
  | S f =>
    match ts with
    | [] => None
    | t :: r =>
      if c10_is_p 59 t && Nat.eqb depth 0 then Some r
      else if c10_is_p 40 t || c10_is_p 91 t || c10_is_p 123 t then c10_ts_soup f (S depth) r
      else if c10_is_p 41 t || c10_is_p 93 t || c10_is_p 125 t
      then match depth with O => None | S d => c10_ts_soup f d r end
      else c10_ts_soup f depth r
    end
  end.

Fixpoint c10_ts_enum_body (fuel : nat) (ts : list c10_tok) : option (list c10_tok) :=
  match fuel with
  | O => None
  | S f =>
    match ts with
    | t :: r => if c10_is_p 125 t then Some r
                else match ts with
                     | KIdent _ :: t2 :: KStr :: t4 :: r4 =>
                       if c10_is_p 61 t2 && c10_is_p 44 t4 then c10_ts_enum_body f r4 else None
                     | _ => None
                     end
    | [] => None
    end
  end.

Definition c10_ts_decl (ts : list c10_tok) : option (list c10_tok) :=
  match c10_eat_kw "export" ts with
  | None => None
  | Some r =>
    match r with
    | KIdent k :: r1 =>
      if str_eqb k (lit "interface") then
        match c10_eat_ident r1 with
        | Some r2 => match c10_ts_generics r2 with
                     | Some r3 => match c10_eat 123 r3 with Some r4 => c10_g (S (S (4 * List.length r4))) GObjectBody r4 | None => None end
                     | None => None
                     end
        | None => None
        end
      else if str_eqb k (lit "type") then
        match c10_eat_ident r1 with
        | Some r2 => match c10_ts_generics r2 with
                     | Some r3 => match c10_eat 61 r3 with
                                  | Some r4 => match c10_ts_type r4 with Some r5 => c10_eat 59 r5 | None => None end
                                  | None => None
                                  end
                     | None => None
                     end
        | None => None
        end
      else if str_eqb k (lit "enum") then
        match c10_eat_ident r1 with
        | Some r2 => match c10_ts_generics r2 with
                     | Some r3 => match c10_eat 123 r3 with Some r4 => c10_ts_enum_body (S (List.length r4)) r4 | None => None end
                     | None => None
                     end
        | None => None
        end
      else if str_eqb k (lit "const") then
        match c10_eat_ident r1 with
        | Some (t :: r2) =>
          if c10_is_p 58 t then
            match c10_ts_type r2 with
            | Some r3 => match c10_eat 61 r3 with
                         | Some r4 => let r5 := match r4 with t5 :: r' => if c10_is_p 45 t5 then r' else r4 | [] => r4 end in
                                      match r5 with KNum :: r6 => c10_eat 59 r6 | _ => None end
                         | None => None
                         end
            | None => None
            end
          else if c10_is_p 61 t then c10_ts_soup (S (List.length r2)) 0 r2
          else None
        | _ => None
        end
      else None
    | _ => None
    end
  end.

Fixpoint c10_ts_decls (fuel : nat) (ts : list c10_tok) : option nat :=
  match fuel with
  | O => None
  | S f =>
    match ts with
    | [] => Some O
    | _ => match c10_ts_decl ts with
           | Some r => match c10_ts_decls f r with Some n => Some (S n) | None => None end
           | None => None
           end
    end
  end.

(* the verdict: Some n = the text is n well-formed declarations; None = not in the grammar *)
Definition c10_ts_recognise (text : str) : option nat :=
  match c10_ts_tokens (S (List.length text)) text with
  | Some ts => c10_ts_decls (S (List.length ts)) ts
  | None => None
  end.
