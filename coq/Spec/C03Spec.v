(* C03: which items of a file are to be generated (declarative) and what is expected of each. *)
From Coq Require Import String.
From TS Require Import Model.Str Model.Unicode Model.Syntax Model.Attrs Spec.Serde Spec.TargetOsRule.
From TS Require Import Model.Types Model.Parse Model.Lang.Decl Model.Lang.ConvertCase Spec.SerdeCase Spec.C16Spec.

(* the struct / enum / type / const items of a file in source (= syn visit) order, at any nesting
   depth: inside modules, function bodies, impl blocks *)
Fixpoint leaves (it : item) : list item :=
  match it with
  | INest inner => (fix go (l : list item) := match l with [] => [] | x :: r => leaves x ++ go r end) inner
  | IUse _ => []
  | x => [x]
  end.
Definition leaves_of (l : list item) : list item := flat_map leaves l.

Definition leaf_attrs (it : item) : list attr :=
  match it with IStruct a _ _ _ | IEnum a _ _ _ | IType a _ _ _ | IConst a _ _ _ => a | _ => [] end.
Definition leaf_ident (it : item) : str :=
  match it with IStruct _ i _ _ | IEnum _ i _ _ | IType _ i _ _ | IConst _ i _ _ => i | _ => [] end.

(* annotated with #[typeshare] / #[typeshare(..)] (any path ending or containing `typeshare`) *)
Definition annotated (attrs : list attr) : bool :=
  existsb (fun a => mem_str (lit "typeshare") (meta_path (a_meta a))) attrs.

Section T.
Variable T : list str.
(* the items typeshare must account for: annotated and not excluded by --target-os *)
Definition expected_leaf (it : item) : bool := annotated (leaf_attrs it) && os_rule (leaf_attrs it) T.
Definition expected_leaves (f : file) : list item :=
  if fl_marker f && os_rule (fl_attrs f) T then filter expected_leaf (leaves_of (fl_items f)) else [].

Definition member_skipped (attrs : list attr) : bool := skip_marked attrs || negb (os_rule attrs T).
(* names of the members a generated definition must list, in source order *)
Definition expected_field_names (l : list field) : list str :=
  map (fun f => match f_ident f with Some i => unraw i | None => lit "???" end)
      (filter (fun f => negb (member_skipped (f_attrs f))) l).
Definition expected_variant_names (vs : list variant) : list str :=
  map (fun v => unraw (v_ident v)) (filter (fun v => negb (member_skipped (v_attrs v))) vs).
End T.

(* ====================================================================================================
   Part 2 (C03 proper).  Three computable verdicts, all extracted and evaluated on the real tool's
   observations by checks/c03.py:

     good_C03_front    which items a file yields (parser::parse's ParsedData)          - C03_items
     expected_*_names  which members an item lists (above)                             - C03_members
     good_C03_item / good_C03_file / good_C03_src_file
                       which definitions a generated file contains and which members /
                       variants each lists, on the observation of Model/Lang/Decl.v    - C03_back_<L>

   Only DATA types of the model are used here (the IR of Model/Types.v, the record `parsed`, the
   observation type `decl`); no function of the model's pipeline is called.
   ==================================================================================================== *)
Definition c03_cls (s : string) : option string := Some s.
Definition c03_is_nil {A} (l : list A) : bool := match l with [] => true | _ => false end.

(* a Rust identifier never contains '#' except in the raw prefix r# (a fact about syn's output) *)
Definition c03_ident_ok (i : str) : bool := forallb (fun c => negb (c =? 35)) (unraw i).

(* ---------------------------------------------------------------------------------------------
   Front end.  Observation of one parsed file: the Rust identifiers (id.original) of the collected
   structs / enums / aliases / consts, each list in collection order, and the number of recorded
   errors (ParsedData.errors carries no item name).
   --------------------------------------------------------------------------------------------- *)
Record c03_front_obs := { c03_structs : list str; c03_enums : list str; c03_aliases : list str;
                          c03_consts : list str; c03_nerr : nat }.
Definition c03_empty_obs : c03_front_obs :=
  {| c03_structs := []; c03_enums := []; c03_aliases := []; c03_consts := []; c03_nerr := 0 |}.

(* projection of parser::parse's answer (None = nothing collected for the file) *)
Definition c03_obs_of_parsed (r : option parsed) : c03_front_obs :=
  match r with
  | None => c03_empty_obs
  | Some pd => {| c03_structs := map (fun s => original (sid s)) (p_structs pd);
                  c03_enums := map (fun e => original (eid (enum_shared e))) (p_enums pd);
                  c03_aliases := map (fun a => original (aid a)) (p_aliases pd);
                  c03_consts := map (fun c => original (cid c)) (p_consts pd);
                  c03_nerr := List.length (p_errors pd) |}
  end.

Definition c03_pop (name : str) (l : list str) : option (list str) :=
  match l with x :: r => if str_eqb x name then Some r else None | [] => None end.

(* Is there a way to account for EVERY expected leaf, in source order, by exactly one of: an error,
   or the next not yet used entry of a list its item kind may end up in (a struct or enum may become
   an alias: tuple structs, typeshare(serialized_as)) under its own identifier - using up all
   entries?  None dropped, none duplicated, none invented, order kept. *)
Fixpoint c03_assign (exp : list item) (ss es als cs : list str) (nerr : nat) : bool :=
  match exp with
  | [] => c03_is_nil ss && c03_is_nil es && c03_is_nil als && c03_is_nil cs && Nat.eqb nerr 0
  | x :: r =>
    let nm := unraw (leaf_ident x) in
    (match nerr with S n => c03_assign r ss es als cs n | O => false end) ||
    (match x, c03_pop nm ss with IStruct _ _ _ _, Some ss' => c03_assign r ss' es als cs nerr | _, _ => false end) ||
    (match x, c03_pop nm es with IEnum _ _ _ _, Some es' => c03_assign r ss es' als cs nerr | _, _ => false end) ||
    (match x, c03_pop nm als with
     | IStruct _ _ _ _, Some als' | IEnum _ _ _ _, Some als' | IType _ _ _ _, Some als' => c03_assign r ss es als' cs nerr
     | _, _ => false
     end) ||
    (match x, c03_pop nm cs with IConst _ _ _ _, Some cs' => c03_assign r ss es als cs' nerr | _, _ => false end)
  end.

(* the kinds of IR item a source item may become: a struct or enum may become an alias (tuple struct,
   typeshare(serialized_as)); nothing else changes kind *)
Definition c03_leaf_kind_ok (x : item) (it : ritem) : Prop :=
  match x, it with
  | IStruct _ _ _ _, ItStruct _ | IStruct _ _ _ _, ItAlias _
  | IEnum _ _ _ _, ItEnum _ | IEnum _ _ _ _, ItAlias _
  | IType _ _ _ _, ItAlias _ | IConst _ _ _ _, ItConst _ => True
  | _, _ => False
  end.

Definition c03_leaf_ok (x : item) : bool := cfg_parsable (leaf_attrs x) && c03_ident_ok (leaf_ident x).
Definition c03_field_ok (f : field) : bool :=
  cfg_parsable (f_attrs f) && match f_ident f with Some i => c03_ident_ok i | None => true end.
Definition c03_variant_ok (v : variant) : bool :=
  cfg_parsable (v_attrs v) && c03_ident_ok (v_ident v) &&
  match v_fields v with FNamed l => forallb c03_field_ok l | _ => true end.
(* the quantifier of C03_members on one item: cfg attributes rustc accepts, identifiers *)
Definition dom_C03_members (it : item) : bool :=
  match it with
  | IStruct _ _ _ (FNamed l) => forallb c03_field_ok l
  | IEnum _ _ _ vs => forallb c03_variant_ok vs
  | _ => true
  end.

Section Front.
Variable T : list str.
(* the quantifier of C03_items: every cfg attribute on the file and on its items is one rustc accepts *)
Definition dom_C03_front (f : file) : bool :=
  cfg_parsable (fl_attrs f) && forallb c03_leaf_ok (leaves_of (fl_items f)).
Definition good_C03_front (f : file) (o : c03_front_obs) : bool :=
  c03_assign (expected_leaves T f) (c03_structs o) (c03_enums o) (c03_aliases o) (c03_consts o) (c03_nerr o).
End Front.

(* ---------------------------------------------------------------------------------------------
   Back ends.  What a generated file must DEFINE, stated on the language-independent observation
   of Model/Lang/Decl.v (the same structure lib/extract.py recovers from the real tool's text).

   The facet of C03 is PRESENCE: which definitions exist and which members / variants each lists,
   in which order.  How a definition is named (prefixes, original vs renamed, acronyms, case of
   consts) is C02's / C09's subject, the exact spelling of a key C01's; so a definition is
   identified here by its SIGNATURE (kind, ordered member keys, ordered variant wire names, the
   ordered member keys of every struct variant written inline) and a member key is compared up to
   '-' / '_' (Scala and Kotlin declare `a_b` for the key `a-b`: C01's subject, not a missing member).
   --------------------------------------------------------------------------------------------- *)
Definition c03_undash (s : str) : str := replace_char ch_dash ch_us s.

Record c03_sig := { xs_kind : defkind; xs_members : list str; xs_variants : list str; xs_inline : list (list str) }.

Definition c03_kind_eqb (a b : defkind) : bool :=
  match a, b with
  | DStruct, DStruct | DEnum, DEnum | DAlias, DAlias | DConst, DConst | DHelper, DHelper => true
  | _, _ => false
  end.
Fixpoint c03_strs_eqb (a b : list str) : bool :=
  match a, b with
  | [], [] => true
  | x :: a', y :: b' => str_eqb x y && c03_strs_eqb a' b'
  | _, _ => false
  end.
Fixpoint c03_strss_eqb (a b : list (list str)) : bool :=
  match a, b with
  | [], [] => true
  | x :: a', y :: b' => c03_strs_eqb x y && c03_strss_eqb a' b'
  | _, _ => false
  end.
Definition c03_sig_eqb (a b : c03_sig) : bool :=
  c03_kind_eqb (xs_kind a) (xs_kind b) && c03_strs_eqb (xs_members a) (xs_members b) &&
  c03_strs_eqb (xs_variants a) (xs_variants b) && c03_strss_eqb (xs_inline a) (xs_inline b).
Fixpoint c03_sigs_eqb (a b : list c03_sig) : bool :=
  match a, b with
  | [], [] => true
  | x :: a', y :: b' => c03_sig_eqb x y && c03_sigs_eqb a' b'
  | _, _ => false
  end.

Definition c03_member_keys (ms : list member) : list str := map (fun m => c03_undash (mb_key m)) ms.
Definition c03_inline_keys (v : variantd) : list (list str) :=
  match vd_payload v with PayInline ms => [c03_member_keys ms] | _ => [] end.

(* the signature of an observed definition: members count for struct-like definitions, variants for
   enums and for the helper a back end derives from an enum (Python's <Enum>Types) *)
Definition c03_sig_of (d : decl) : c03_sig :=
  {| xs_kind := d_kind d;
     xs_members := match d_kind d with DStruct => c03_member_keys (d_members d) | _ => [] end;
     xs_variants := match d_kind d with DEnum | DHelper => map vd_wire (d_variants d) | _ => [] end;
     xs_inline := match d_kind d with DEnum => flat_map c03_inline_keys (d_variants d) | _ => [] end |}.

(* ---- what the IR says must be there ---- *)
Definition c03_keys_of (fs : list rfield) : list str := map (fun f => c03_undash (renamed (fid f))) fs.
Definition c03_wires_of (vs : list rvariant) : list str := map (fun v => renamed (vid (variant_shared v))) vs.

Definition c03_x_struct (keys : list str) : c03_sig := {| xs_kind := DStruct; xs_members := keys; xs_variants := []; xs_inline := [] |}.
Definition c03_x_plain (k : defkind) : c03_sig := {| xs_kind := k; xs_members := []; xs_variants := []; xs_inline := [] |}.
Definition c03_x_enum (wires : list str) (inl : list (list str)) : c03_sig :=
  {| xs_kind := DEnum; xs_members := []; xs_variants := wires; xs_inline := inl |}.
Definition c03_x_helper (wires : list str) : c03_sig := {| xs_kind := DHelper; xs_members := []; xs_variants := wires; xs_inline := [] |}.

(* TypeScript inlines struct variants; the other five derive one <Enum><Variant>Inner struct each *)
Definition c03_inlines (L : lang) : bool := match L with TypeScript => true | _ => false end.
(* the helper definition a back end adds to an ALGEBRAIC enum: Go's key type `<Enum><Tag>s` (its
   constants are listed with the enum), Python's `<Enum>Types` class (it lists the wire names) *)
Definition c03_enum_helper (L : lang) (wires : list str) : list c03_sig :=
  match L with
  | Go => [c03_x_helper []]
  | Python => [c03_x_helper wires]
  | _ => []
  end.

Definition c03_anon_keys (vs : list rvariant) : list (list str) :=
  flat_map (fun v => match v with VAnon fs _ => [c03_keys_of fs] | _ => [] end) vs.

(* the definitions expected for one IR item, in output order *)
Definition c03_expected_sigs (L : lang) (it : ritem) : list c03_sig :=
  match it with
  | ItStruct s => [c03_x_struct (c03_keys_of (sfields s))]
  | ItAlias _ => [c03_x_plain DAlias]
  | ItConst _ => [c03_x_plain DConst]
  | ItEnum e =>
    let vs := evariants (enum_shared e) in
    (if c03_inlines L then [] else map c03_x_struct (c03_anon_keys vs)) ++
    (match e with EAlgebraic _ _ _ => c03_enum_helper L (c03_wires_of vs) | EUnit _ => [] end) ++
    [c03_x_enum (c03_wires_of vs) (if c03_inlines L then c03_anon_keys vs else [])]
  end.

(* every variant of an enum definition carries the payload form of its source variant *)
Definition c03_payload_ok (L : lang) (v : rvariant) (vd : variantd) : bool :=
  match v, vd_payload vd with
  | VUnit _, PayUnit => true
  | VTuple _ _, PayNewtype _ _ => true
  | VAnon _ _, PayInline _ => c03_inlines L
  | VAnon _ _, PayRef _ _ => negb (c03_inlines L)
  | _, _ => false
  end.
Fixpoint c03_forall2b {A B} (p : A -> B -> bool) (a : list A) (b : list B) : bool :=
  match a, b with
  | [], [] => true
  | x :: a', y :: b' => p x y && c03_forall2b p a' b'
  | _, _ => false
  end.
Definition c03_payloads_ok (L : lang) (it : ritem) (ds : list decl) : bool :=
  match it with
  | ItEnum e => forallb (fun d => match d_kind d with
                                  | DEnum => c03_forall2b (c03_payload_ok L) (evariants (enum_shared e)) (d_variants d)
                                  | _ => true
                                  end) ds
  | _ => true
  end.

(* the IR states the parser produces: a unit enum has unit variants only (Proofs.C03.parsed_in_dom) *)
Definition c03_is_unit_variant (v : rvariant) : bool := match v with VUnit _ => true | _ => false end.
Definition dom_C03_item (it : ritem) : bool :=
  match it with
  | ItEnum (EUnit sh) => forallb c03_is_unit_variant (evariants sh)
  | _ => true
  end.

(* verdict for ONE item: [ds] are the definitions emitted for it, in output order *)
Definition good_C03_item (L : lang) (it : ritem) (ds : list decl) : bool :=
  c03_sigs_eqb (map c03_sig_of ds) (c03_expected_sigs L it) && c03_payloads_ok L it ds.

Definition c03_non_helper (x : c03_sig) : bool := match xs_kind x with DHelper => false | _ => true end.
Definition c03_count_sig (x : c03_sig) (l : list c03_sig) : nat := List.length (filter (c03_sig_eqb x) l).
(* same multiset *)
Definition c03_perm_b (a b : list c03_sig) : bool :=
  forallb (fun x => Nat.eqb (c03_count_sig x a) (c03_count_sig x b)) (a ++ b).

(* verdict for a file: apart from helper definitions (the per-item ones are judged by good_C03_item,
   the file-level ones - CodableVoid, UByte.., TypeVars, translation functions - are C12's subject),
   the definitions are, as a multiset of signatures, exactly the expected ones: one per item plus
   the derived <Enum><Variant>Inner structs, none missing, none twice, none invented.  (A multiset:
   reconcile sorts and topsort reorders the items - the order of definitions is C11's subject.) *)
Definition good_C03_sigs (observed expected : list c03_sig) : bool :=
  c03_perm_b (filter c03_non_helper observed) (filter c03_non_helper expected).

Definition c03_all_items (pd : parsed) : list ritem :=
  map ItAlias (p_aliases pd) ++ map ItStruct (p_structs pd) ++ map ItEnum (p_enums pd) ++ map ItConst (p_consts pd).
Definition dom_C03_file (pd : parsed) : bool := forallb dom_C03_item (c03_all_items pd).
Definition good_C03_file (L : lang) (pd : parsed) (fd : file_decls) : bool :=
  good_C03_sigs (map c03_sig_of (fd_decls fd)) (flat_map (c03_expected_sigs L) (c03_all_items pd)).

Section KnownIR.
Variable uc : unicode.

(* python.rs:620: the member of <Enum>Types that stands for a wire name *)
Definition c03_py_type_key (wire : str) : str := str_to_uppercase uc (cc_to_snake uc wire).
Fixpoint c03_first_wire (entries : list (str * str)) (key : str) : str :=
  match entries with
  | [] => []
  | (k, w) :: r => if str_eqb k key then w else c03_first_wire r key
  end.
(* two variants whose wire names differ get the same Types member: the later variant class then
   refers to the earlier one's wire name (the variant is listed under a wire name that is not its own) *)
Definition c03_py_key_collision (wires : list str) : bool :=
  let entries := map (fun w => (c03_py_type_key w, w)) wires in
  existsb (fun kw => negb (str_eqb (c03_first_wire entries (fst kw)) (snd kw))) entries.

Definition known_C03_item (L : lang) (it : ritem) : option string :=
  match L, it with
  | Python, ItEnum (EAlgebraic _ _ sh) =>
    if c03_py_key_collision (c03_wires_of (evariants sh)) then c03_cls "C03-python-typekey-collision" else None
  | _, _ => None
  end.

Definition known_C03_file (L : lang) (pd : parsed) : option string :=
  match L with
  | Scala => if c03_is_nil (p_consts pd) then None else c03_cls "C03-scala-const"
  | Python => if existsb (fun e => match known_C03_item Python (ItEnum e) with Some _ => true | None => false end) (p_enums pd)
              then c03_cls "C03-python-typekey-collision" else None
  | _ => None
  end.
End KnownIR.

(* ---------------------------------------------------------------------------------------------
   Source side: the same expectation computed from the syn-level AST with serde's reading of the
   attributes (Spec/Serde.v), for conventional identifiers.  This is what the check judges the real
   tool's generated files with.
   --------------------------------------------------------------------------------------------- *)
Definition c03_key_char (c : char) : bool := is_aalpha c || is_adigit c || (c =? ch_us) || (c =? ch_dash).
Definition c03_rule_ok (ra : option str) : bool := match ra with None => true | Some s => forallb c03_key_char s end.
Definition c03_okey (o : option str) : str := match o with Some k => k | None => [] end.

Section Src.
Variable uc : unicode.
Variable T : list str.

Definition c03_kept_fields (l : list field) : list field := filter (fun f => negb (member_skipped T (f_attrs f))) l.
Definition c03_kept_variants (vs : list variant) : list variant := filter (fun v => negb (member_skipped T (v_attrs v))) vs.

Definition c03_src_keys (container_attrs : list attr) (l : list field) : list str :=
  map (fun f => c03_undash (c03_okey (match f_ident f with
                                      | Some i => field_key (serde_nv container_attrs (lit "rename_all")) (f_attrs f) i
                                      | None => None
                                      end))) (c03_kept_fields l).
Definition c03_src_wires (enum_attrs : list attr) (vs : list variant) : list str :=
  map (fun v => c03_okey (variant_name uc (serde_nv enum_attrs (lit "rename_all")) (v_attrs v) (v_ident v))) (c03_kept_variants vs).

Definition c03_src_anon_keys (vs : list variant) : list (list str) :=
  flat_map (fun v => match v_fields v with FNamed l => [c03_src_keys (v_attrs v) l] | _ => [] end) (c03_kept_variants vs).
Definition c03_src_is_unit (v : variant) : bool := match v_fields v with FUnit => true | _ => false end.

(* typeshare(serialized_as = "..") turns a struct / enum into an alias *)
Definition c03_serialized_as (attrs : list attr) : bool :=
  existsb (fun a => match a_meta a with
                    | MList [p] (Some args) _ =>
                      str_eqb p (lit "typeshare") &&
                      existsb (fun m => match m with MNV [n] (VStr _) => str_eqb n (lit "serialized_as") | _ => false end) args
                    | _ => false
                    end) attrs.

(* the definitions expected for one annotated source item *)
Definition c03_src_expected_sigs (L : lang) (it : item) : list c03_sig :=
  match it with
  | IStruct a _ _ fs =>
    if c03_serialized_as a then [c03_x_plain DAlias] else
    match fs with
    | FNamed l => [c03_x_struct (c03_src_keys a l)]
    | FUnnamed _ => [c03_x_plain DAlias]
    | FUnit => [c03_x_struct []]
    end
  | IEnum a _ _ vs =>
    if c03_serialized_as a then [c03_x_plain DAlias] else
    (if c03_inlines L then [] else map c03_x_struct (c03_src_anon_keys vs)) ++
    (if forallb c03_src_is_unit (c03_kept_variants vs) then [] else c03_enum_helper L (c03_src_wires a vs)) ++
    [c03_x_enum (c03_src_wires a vs) (if c03_inlines L then c03_src_anon_keys vs else [])]
  | IType _ _ _ _ => [c03_x_plain DAlias]
  | IConst _ _ _ _ => [c03_x_plain DConst]
  | _ => []
  end.

(* the quantifier of the property on one item, as far as the KEYS are concerned: conventional
   identifiers (snake_case fields, CamelCase variants), rename / rename_all strings over the key
   alphabet, cfg attributes that rustc accepts (everything else is C01 / C02 / C16 territory) *)
Definition c03_conv_member_field (f : field) : bool :=
  cfg_parsable (f_attrs f) &&
  (member_skipped T (f_attrs f) ||
   (match f_ident f with Some i => conv_field (unraw i) | None => false end &&
    c03_rule_ok (serde_nv (f_attrs f) (lit "rename")))).
Definition c03_conv_fields (container_attrs : list attr) (l : list field) : bool :=
  c03_rule_ok (serde_nv container_attrs (lit "rename_all")) && forallb c03_conv_member_field l.
Definition c03_conv_variant (v : variant) : bool :=
  cfg_parsable (v_attrs v) &&
  (member_skipped T (v_attrs v) ||
   (match known_C16 PVariant (unraw (v_ident v)) with None => true | Some _ => false end &&
    c03_rule_ok (serde_nv (v_attrs v) (lit "rename")) &&
    match v_fields v with FNamed l => c03_conv_fields (v_attrs v) l | _ => true end)).
Definition dom_C03_src (it : item) : bool :=
  match it with
  | IStruct a _ _ (FNamed l) => c03_conv_fields a l
  | IEnum a _ _ vs => c03_rule_ok (serde_nv a (lit "rename_all")) && forallb c03_conv_variant vs
  | _ => true
  end.
Definition dom_C03_src_file (f : file) : bool :=
  dom_C03_front f && forallb dom_C03_src (expected_leaves T f).

(* verdict for one source item on the definitions emitted for it *)
Definition good_C03_src (L : lang) (it : item) (ds : list decl) : bool :=
  c03_sigs_eqb (map c03_sig_of ds) (c03_src_expected_sigs L it).

(* verdict for one source file on everything the generated file defines *)
Definition c03_src_file_expected (L : lang) (f : file) : list c03_sig :=
  flat_map (c03_src_expected_sigs L) (expected_leaves T f).
Definition good_C03_src_file (L : lang) (f : file) (observed : list c03_sig) : bool :=
  good_C03_sigs observed (c03_src_file_expected L f).

(* finding classes, decided on the source: an annotated const that the parser can accept (its
   initialiser is an integer literal, possibly parenthesised / negated:
   Proofs.FrontItems.const_needs_int_literal) in a file generated for Scala;
   a data-carrying enum two of whose wire names share a Types member, for Python *)
Fixpoint c03_const_is_int (e : cexpr) : bool :=
  match e with
  | CELit (CInt (Some _)) => true
  | CEParen x | CENeg x => c03_const_is_int x
  | _ => false
  end.
Definition c03_const_candidate (x : item) : bool :=
  match x with
  | IConst _ _ _ e => c03_const_is_int e
  | _ => false
  end.
Definition c03_src_py_collision (x : item) : bool :=
  match x with
  | IEnum a _ _ vs => negb (c03_serialized_as a) && negb (forallb c03_src_is_unit (c03_kept_variants vs)) &&
                      c03_py_key_collision uc (c03_src_wires a vs)
  | _ => false
  end.
Definition known_C03_src_file (L : lang) (f : file) : option string :=
  match L with
  | Scala => if existsb c03_const_candidate (expected_leaves T f) then c03_cls "C03-scala-const" else None
  | Python => if existsb c03_src_py_collision (expected_leaves T f) then c03_cls "C03-python-typekey-collision" else None
  | _ => None
  end.
End Src.
