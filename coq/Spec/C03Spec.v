(* C03: which items of a file are to be generated (declarative) and what is expected of each. *)
From Coq Require Import String.
From TS Require Import Model.Str Model.Unicode Model.Syntax Model.Attrs Spec.Serde Spec.TargetOsRule.

(* the struct / enum / type / const items of a file in source (= syn visit) order, at any nesting
   depth: inside modules, function bodies, impl blocks *)
Fixpoint leaves (it : item) : list item :=
  match it with
  | INest inner => (fix go (l : list item) := match l with [] => [] | x :: r => leaves x ++ go r end) inner
  | IUse _ => []
  | x => [x]
  end.
Definition leaves_of (l : list item) : list item := flat_map leaves l.

Definition leaf_attrs (it : item) : list attr :=
  match it with IStruct a _ _ _ | IEnum a _ _ _ | IType a _ _ _ | IConst a _ _ _ => a | _ => [] end.
Definition leaf_ident (it : item) : str :=
  match it with IStruct _ i _ _ | IEnum _ i _ _ | IType _ i _ _ | IConst _ i _ _ => i | _ => [] end.

(* annotated with #[typeshare] / #[typeshare(..)] (any path ending or containing `typeshare`) *)
Definition annotated (attrs : list attr) : bool :=
  existsb (fun a => mem_str (lit "typeshare") (meta_path (a_meta a))) attrs.

Section T.
Variable T : list str.
(* the items typeshare must account for: annotated and not excluded by --target-os *)
Definition expected_leaf (it : item) : bool := annotated (leaf_attrs it) && os_rule (leaf_attrs it) T.
Definition expected_leaves (f : file) : list item :=
  if fl_marker f && os_rule (fl_attrs f) T then filter expected_leaf (leaves_of (fl_items f)) else [].

Definition member_skipped (attrs : list attr) : bool := skip_marked attrs || negb (os_rule attrs T).
(* names of the members a generated definition must list, in source order *)
Definition expected_field_names (l : list field) : list str :=
  map (fun f => match f_ident f with Some i => unraw i | None => lit "???" end)
      (filter (fun f => negb (member_skipped (f_attrs f))) l).
Definition expected_variant_names (vs : list variant) : list str :=
  map (fun v => unraw (v_ident v)) (filter (fun v => negb (member_skipped (v_attrs v))) vs).
End T.
