(* C09 - every reference to a generated type uses the name the type is defined under.

   Declarative side only: nothing here calls the model.  The oracle works on
     - the INPUT: the parsed program before reconciliation (ids carry original / renamed), the
       configured prefix (Kotlin, Swift) and Go's acronym list;
     - the OBSERVATION of a generated file (Model/Lang/Decl.v, recovered from real text by
       lib/extract.py): the names definitions are declared under and every name spelled in a type
       position (member type, variant payload, alias target, const type, sealed parent, helper struct).

   A name "denotes" a typeshared item when it is one of the spellings any printer path could give it
   (original or serde-renamed identifier, with or without the configured prefix, plus the
   <Enum><Variant>Inner suffix for helper structs).  The property: a referenced name that is not a
   generic parameter of the item it stands in denotes an item, and is then EXACTLY the name that
   item's definition is declared under; a generic parameter is spelled verbatim. *)
From Coq Require Import String.
From TS Require Import Model.Str Model.Types Model.Parse Model.Lang.Decl.

(* ------------------------------------------------------------------ observation *)
Inductive c09_pos := C9Field | C9Payload | C9Alias | C9Parent | C9Const.
Definition c09_pos_eqb (a b : c09_pos) : bool :=
  match a, b with
  | C9Field, C9Field | C9Payload, C9Payload | C9Alias, C9Alias | C9Parent, C9Parent | C9Const, C9Const => true
  | _, _ => false
  end.
Record c09_ref := { c9_in : str;          (* name of the declaration the reference stands in *)
                    c9_pos : c09_pos;
                    c9_name : str }.      (* the identifier as spelled *)
Record c09_obs := { c9_defs : list str;   (* names of the struct / enum / alias declarations, in output order *)
                    c9_refs : list c09_ref }.

(* names that belong to the target language or that typeshare itself brings in: never references to
   generated types (the same tables as lib/extract.py BUILTINS + HELPERS) *)
Definition c09_builtins (L : lang) : list str :=
  match L with
  | TypeScript => map lit ["string"; "number"; "boolean"; "undefined"; "null"; "Date"; "Record"; "Array"; "unknown"; "any"; "void";
                           "never"; "object"; "bigint"; "symbol"; "Uint8Array"; "readonly"; "Map"; "Set"; "Partial";
                           "ReviverFunc"; "ReplacerFunc"]%string
  | Kotlin => map lit ["String"; "Byte"; "Short"; "Int"; "Long"; "UByte"; "UShort"; "UInt"; "ULong"; "Boolean"; "Float"; "Double";
                       "Unit"; "List"; "HashMap"; "Any"; "Char"; "Map"; "Set"; "Array"; "Nothing";
                       "Serializable"; "SerialName"; "JvmInline"]%string
  | Swift => map lit ["String"; "Int"; "Int8"; "Int16"; "Int32"; "Int64"; "UInt"; "UInt8"; "UInt16"; "UInt32"; "UInt64"; "Bool";
                      "Float"; "Double"; "Unicode.Scalar"; "Any"; "Void"; "Character"; "Data"; "Date"; "Array"; "Dictionary";
                      "Optional"; "CodableVoid"; "Foundation"]%string
  | Scala => map lit ["String"; "Byte"; "Short"; "Int"; "Long"; "Boolean"; "Float"; "Double"; "Unit"; "Vector"; "Option"; "Map";
                      "Any"; "Char"; "List"; "Seq"; "Serializable"; "Nothing"; "UByte"; "UShort"; "UInt"; "ULong"]%string
  | Go => map lit ["string"; "rune"; "int"; "int8"; "int16"; "int32"; "int64"; "uint"; "uint8"; "uint16"; "uint32"; "uint64";
                   "bool"; "float32"; "float64"; "byte"; "struct"; "interface"; "map"; "any"; "error"; "chan"; "func";
                   "struct{}"]%string
  | Python => map lit ["str"; "int"; "float"; "bool"; "None"; "bytes"; "list"; "dict"; "object";
                       "List"; "Dict"; "Optional"; "Union"; "Literal"; "Annotated"; "Generic"; "TypeVar"; "BaseModel"; "Field";
                       "ConfigDict"; "BeforeValidator"; "PlainSerializer"; "Enum"; "datetime"; "AnyUrl";
                       "serialize_binary_data"; "deserialize_binary_data"; "serialize_datetime_data"; "parse_rfc3339";
                       "annotations"]%string
  end.
Definition c09_ch_dot : char := 46%N.
(* Go: a package-qualified name (time.Time) is not a generated type *)
Definition c09_builtin (L : lang) (n : str) : bool :=
  mem_str n (c09_builtins L) || match L with Go => contains_char c09_ch_dot n | _ => false end.

Definition c09_type_refs (L : lang) (owner : str) (pos : c09_pos) (t : texp) : list c09_ref :=
  map (fun n => {| c9_in := owner; c9_pos := pos; c9_name := n |})
      (filter (fun n => negb (c09_builtin L n)) (texp_names t)).

(* reader of one declaration: every name spelled in a type position of it *)
Definition c09_decl_refs (L : lang) (d : decl) : list c09_ref :=
  let owner := d_name d in
  match d_kind d with
  | DHelper => []
  | DAlias => match d_type d with Some t => c09_type_refs L owner C9Alias t | None => [] end
  | DConst => match d_type d with Some t => c09_type_refs L owner C9Const t | None => [] end
  | DStruct | DEnum =>
    flat_map (fun m => c09_type_refs L owner C9Field (mb_type m)) (d_members d) ++
    flat_map (fun v =>
                match vd_parent v with
                | Some p => [{| c9_in := owner; c9_pos := C9Parent; c9_name := p |}]
                | None => []
                end ++
                match vd_payload v with
                | PayUnit => []
                | PayNewtype t _ => c09_type_refs L owner C9Payload t
                | PayInline ms => flat_map (fun m => c09_type_refs L owner C9Field (mb_type m)) ms
                | PayRef inner args =>
                  map (fun n => {| c9_in := owner; c9_pos := C9Payload; c9_name := n |}) (inner :: args)
                end) (d_variants d)
  end.

Definition c09_is_def (d : decl) : bool :=
  match d_kind d with DStruct | DEnum | DAlias => true | DConst | DHelper => false end.

Definition c09_observe (L : lang) (fd : file_decls) : c09_obs :=
  {| c9_defs := map d_name (filter c09_is_def (fd_decls fd));
     c9_refs := flat_map (c09_decl_refs L) (fd_decls fd) |}.

(* ------------------------------------------------------------------ the input side *)
(* the things a generated file defines for a program: one per struct / enum / alias, and one helper
   struct per struct variant of an enum *)
Inductive c09_kind := C9KStruct | C9KUnitEnum | C9KAlgEnum | C9KAlias (inline : bool) | C9KInner.
Record c09_entity := { c9e_id : id;             (* id of the item (of the enum, for a helper struct) *)
                       c9e_suffix : str;        (* [] or <variant original>Inner *)
                       c9e_generics : list str;
                       c9e_kind : c09_kind }.

(* #[typeshare(kotlin = "JvmInline")]: the decorator set recorded under the key Kotlin contains JvmInline *)
Fixpoint c09_decmap_get (k : deckind) (m : decmap) : option (list str) :=
  match m with [] => None | (a, v) :: r => if deckind_eqb a k then Some v else c09_decmap_get k r end.
Definition c09_alias_inline (a : ralias) : bool :=
  match c09_decmap_get DKKotlin (adecs a) with Some v => mem_str (lit "JvmInline") v | None => false end.

Definition c09_enum_kind (e : renum) : c09_kind := match e with EUnit _ => C9KUnitEnum | EAlgebraic _ _ _ => C9KAlgEnum end.
Definition c09_enum_entities (e : renum) : list c09_entity :=
  let sh := enum_shared e in
  {| c9e_id := eid sh; c9e_suffix := []; c9e_generics := egenerics sh; c9e_kind := c09_enum_kind e |} ::
  flat_map (fun v => match v with
                     | VAnon _ vsh => [{| c9e_id := eid sh; c9e_suffix := original (vid vsh) ++ lit "Inner";
                                          c9e_generics := egenerics sh; c9e_kind := C9KInner |}]
                     | _ => []
                     end) (evariants sh).
Definition c09_entities (pd : parsed) : list c09_entity :=
  map (fun s => {| c9e_id := sid s; c9e_suffix := []; c9e_generics := sgenerics s; c9e_kind := C9KStruct |}) (p_structs pd) ++
  flat_map c09_enum_entities (p_enums pd) ++
  map (fun a => {| c9e_id := aid a; c9e_suffix := []; c9e_generics := agenerics a;
                   c9e_kind := C9KAlias (c09_alias_inline a) |}) (p_aliases pd).

(* Go's acronym conversion only changes letter case and may drop underscores: Go names are linked to
   items up to case and underscores; everywhere else a spelling is matched exactly *)
Definition c09_fold (s : str) : str := map alower (remove_char ch_us s).
Definition c09_name_eqb (L : lang) (a b : str) : bool :=
  match L with Go => str_eqb (c09_fold a) (c09_fold b) | _ => str_eqb a b end.

Definition c09_spellings (pfx : str) (e : c09_entity) : list str :=
  [pfx ++ renamed (c9e_id e) ++ c9e_suffix e; pfx ++ original (c9e_id e) ++ c9e_suffix e;
   renamed (c9e_id e) ++ c9e_suffix e; original (c9e_id e) ++ c9e_suffix e].
Definition c09_denotes (L : lang) (pfx : str) (e : c09_entity) (n : str) : bool :=
  existsb (c09_name_eqb L n) (c09_spellings pfx e).

(* ------------------------------------------------------------------ the judgement *)
(* the name the item is defined under, read off the observation *)
Definition c09_defined_as (L : lang) (pfx : str) (defs : list str) (e : c09_entity) : option str :=
  find (c09_denotes L pfx e) defs.

Definition c09_same_entity (a b : c09_entity) : bool :=
  str_eqb (original (c9e_id a)) (original (c9e_id b)) && str_eqb (c9e_suffix a) (c9e_suffix b).

Definition c09_target_ok (L : lang) (pfx : str) (ents : list c09_entity) (defs : list str)
                         (owner : option c09_entity) (r : c09_ref) : bool :=
  match find (fun e => c09_denotes L pfx e (c9_name r)) ents with
  | None => false                       (* neither a generic parameter nor any spelling of a typeshared item *)
  | Some i =>
    match c09_defined_as L pfx defs i with
    | Some d => str_eqb (c9_name r) d &&
                match c9_pos r, owner with
                | C9Parent, Some j => c09_same_entity i j      (* the sealed parent is the enum itself *)
                | C9Parent, None => false
                | _, _ => true
                end
    | None => false
    end
  end.

Definition c09_ref_ok (L : lang) (pfx : str) (ents : list c09_entity) (defs : list str) (r : c09_ref) : bool :=
  let owner := find (fun e => c09_denotes L pfx e (c9_in r)) ents in
  match owner with
  | Some j => if mem_str (c9_name r) (c9e_generics j) && negb (c09_pos_eqb (c9_pos r) C9Parent) then true
              else c09_target_ok L pfx ents defs owner r
  | None => c09_target_ok L pfx ents defs None r                (* a const declaration *)
  end.

Definition c09_failures (L : lang) (pfx : str) (pd : parsed) (obs : c09_obs) : list c09_ref :=
  filter (fun r => negb (c09_ref_ok L pfx (c09_entities pd) (c9_defs obs) r)) (c9_refs obs).

Definition good_C09 (L : lang) (pfx : str) (pd : parsed) (obs : c09_obs) : bool :=
  forallb (c09_ref_ok L pfx (c09_entities pd) (c9_defs obs)) (c9_refs obs).

(* ------------------------------------------------------------------ domain *)
(* names a type mentions: Simple and Generic ids, with the form they are written in *)
Inductive c09_form := C9Simple | C9Generic.
Fixpoint c09_type_ids (t : rtype) : list (c09_form * str) :=
  match t with
  | RSimple i => [(C9Simple, i)]
  | RGeneric i ps => (C9Generic, i) :: flat_map c09_type_ids ps
  | RVec x | RArray x _ | RSlice x | ROption x => c09_type_ids x
  | RHashMap k v => c09_type_ids k ++ c09_type_ids v
  | RPrim _ => []
  end.

(* the type positions of a program: (owner id, owner generics, position, type) *)
Record c09_tpos := { c9t_owner : id; c9t_generics : list str; c9t_pos : c09_pos; c9t_type : rtype }.
Definition c09_variant_tpos (i : id) (gs : list str) (v : rvariant) : list c09_tpos :=
  match v with
  | VUnit _ => []
  | VTuple t _ => [{| c9t_owner := i; c9t_generics := gs; c9t_pos := C9Payload; c9t_type := t |}]
  | VAnon fs _ => map (fun f => {| c9t_owner := i; c9t_generics := gs; c9t_pos := C9Field; c9t_type := fty f |}) fs
  end.
Definition c09_tposs (pd : parsed) : list c09_tpos :=
  flat_map (fun s => map (fun f => {| c9t_owner := sid s; c9t_generics := sgenerics s; c9t_pos := C9Field; c9t_type := fty f |})
                         (sfields s)) (p_structs pd) ++
  flat_map (fun e => let sh := enum_shared e in flat_map (c09_variant_tpos (eid sh) (egenerics sh)) (evariants sh)) (p_enums pd) ++
  map (fun a => {| c9t_owner := aid a; c9t_generics := agenerics a; c9t_pos := C9Alias; c9t_type := atype a |}) (p_aliases pd) ++
  map (fun c => {| c9t_owner := cid c; c9t_generics := []; c9t_pos := C9Const; c9t_type := ctype c |}) (p_consts pd).

Definition c09_item_ents (pd : parsed) : list c09_entity :=
  filter (fun e => match c9e_kind e with C9KInner => false | _ => true end) (c09_entities pd).
Definition c09_lookup (pd : parsed) (name : str) : option c09_entity :=
  find (fun e => str_eqb (original (c9e_id e)) name) (c09_item_ents pd).

Definition c09_is_nil {A} (l : list A) : bool := match l with [] => true | _ => false end.

(* every name mentioned is a generic parameter of its owner or the Rust name of a typeshared item,
   written with type arguments exactly when that item is generic *)
Definition c09_resolves (pd : parsed) (tp : c09_tpos) : bool :=
  forallb (fun fi => let '(form, i) := fi in
             match form with
             | C9Simple => mem_str i (c9t_generics tp) ||
                           match c09_lookup pd i with Some e => c09_is_nil (c9e_generics e) | None => false end
             | C9Generic => negb (mem_str i (c9t_generics tp)) &&
                            match c09_lookup pd i with Some e => negb (c09_is_nil (c9e_generics e)) | None => false end
             end) (c09_type_ids (c9t_type tp)).

Definition c09_id_wf (i : id) : bool := via_serde_rename i || str_eqb (renamed i) (original i).

Fixpoint c09_pairwise {A} (ok : A -> A -> bool) (l : list A) : bool :=
  match l with [] => true | x :: r => forallb (ok x) r && c09_pairwise ok r end.

Definition c09_all_generics (pd : parsed) : list str := flat_map c9e_generics (c09_entities pd).

(* no two different entities share a spelling, no spelling is a generic parameter or a builtin *)
Definition c09_unambiguous (L : lang) (pfx : str) (pd : parsed) : bool :=
  let ents := c09_entities pd in
  c09_pairwise (fun a b => negb (existsb (c09_denotes L pfx b) (c09_spellings pfx a))) ents &&
  forallb (fun e => forallb (fun s => negb (existsb (c09_name_eqb L s) (c09_all_generics pd)) && negb (c09_builtin L s))
                            (c09_spellings pfx e)) ents &&
  forallb (fun g => negb (c09_builtin L g)) (c09_all_generics pd).

Definition dom_C09 (L : lang) (pfx : str) (pd : parsed) : bool :=
  c09_is_nil (p_imports pd) &&
  forallb (fun e => c09_id_wf (c9e_id e)) (c09_entities pd) &&
  c09_unambiguous L pfx pd &&
  forallb (c09_resolves pd) (c09_tposs pd).

(* ------------------------------------------------------------------ recorded finding classes *)
(* WHICH of the two identifiers each printer path of the unchanged tree uses (observed; only used
   to delimit the classes below - the judgement above does not look at this table) *)
Inductive c09_which := C9Orig | C9Ren.
Definition c09_which_eqb (a b : c09_which) : bool := match a, b with C9Orig, C9Orig | C9Ren, C9Ren => true | _, _ => false end.

Definition c09_def_which (L : lang) (k : c09_kind) : c09_which :=
  match L, k with
  | Kotlin, C9KAlias false => C9Orig          (* kotlin.rs:125 typealias under id.original *)
  | Scala, C9KAlias _ => C9Orig               (* scala.rs:149 *)
  | Go, C9KAlias _ => C9Orig                  (* go.rs:197 *)
  | Go, (C9KUnitEnum | C9KAlgEnum) => C9Orig  (* go.rs:283,312 *)
  | Go, C9KInner => C9Orig
  | _, _ => C9Ren
  end.
(* the name written after `:` / `extends` in the variants of an enum; None: not written *)
Definition c09_parent_which (L : lang) (k : c09_kind) : option c09_which :=
  match L, k with
  | Kotlin, C9KAlgEnum => Some C9Orig         (* kotlin.rs:408,420 *)
  | Scala, C9KAlgEnum => Some C9Orig          (* scala.rs:336,347 *)
  | Scala, C9KUnitEnum => Some C9Ren
  | _, _ => None
  end.
(* the <Enum><Variant>Inner helper as a struct variant REFERS to it *)
Definition c09_inner_ref_which (L : lang) : c09_which :=
  match L with Kotlin | Scala | Go => C9Orig | _ => C9Ren end.
(* a type position: reconcile.rs rewrites every id a type mentions - Simple ids and (since the fix: commits
   in /repo) the id of a Generic - in the types of structs, enums, aliases and (likewise) consts: whatever the
   form and the position, a mention of a typeshared item is spelled with its renamed id *)
Definition c09_type_ref_which (form : c09_form) (pos : c09_pos) : c09_which := C9Ren.

Definition c09_renamed_away (i : id) : bool := negb (str_eqb (renamed i) (original i)).

Definition c09_lang_tag (L : lang) : string :=
  match L with Go => "go" | Kotlin => "kotlin" | Scala => "scala" | Swift => "swift" | TypeScript => "typescript" | Python => "python" end.

(* class of a reference FROM a type position to the item [e]: the DEFINITION of [e] is printed under the
   original name (c09_def_which) while every mention says the renamed one.  (The two classes in which the
   MENTION kept the original name, C09-generic-ref and C09-const-type, are repaired in /repo and gone: a
   reference G<..> to a renamed generic type and the type of a const are judged like every other mention.) *)
Definition c09_type_site_class (L : lang) (form : c09_form) (pos : c09_pos) (e : c09_entity) : option string :=
  if c09_renamed_away (c9e_id e) && negb (c09_which_eqb (c09_def_which L (c9e_kind e)) (c09_type_ref_which form pos)) then
    Some (match c9e_kind e with
          | C9KAlias _ => "C09-" ++ c09_lang_tag L ++ "-alias"
          | C9KUnitEnum | C9KAlgEnum => "C09-" ++ c09_lang_tag L ++ "-enum"
          | _ => "C09-" ++ c09_lang_tag L ++ "-other"
          end)%string
  else None.
Definition c09_parent_site_class (L : lang) (e : c09_entity) : option string :=
  match c09_parent_which L (c9e_kind e) with
  | Some w => if c09_renamed_away (c9e_id e) && negb (c09_which_eqb w (c09_def_which L (c9e_kind e)))
              then Some ("C09-" ++ c09_lang_tag L ++ "-enum-parent")%string else None
  | None => None
  end.
Definition c09_inner_site_class (L : lang) (e : c09_entity) : option string :=
  if c09_renamed_away (c9e_id e) && negb (c09_which_eqb (c09_inner_ref_which L) (c09_def_which L C9KInner))
  then Some ("C09-" ++ c09_lang_tag L ++ "-inner")%string else None.

(* Kotlin formats the member of a JvmInline value class with an empty generics list: a generic
   parameter of the alias gets the prefix (kotlin.rs:137) *)
Definition c09_mentions_generic (gs : list str) (t : rtype) : bool :=
  existsb (fun fi => mem_str (snd fi) gs) (c09_type_ids t).
Definition c09_inline_generic_class (L : lang) (pfx : str) (a : ralias) : option string :=
  match L with
  | Kotlin => if c09_alias_inline a && negb (c09_is_nil pfx) && c09_mentions_generic (agenerics a) (atype a)
              then Some "C09-kotlin-inline-generic"%string else None
  | _ => None
  end.

(* Go: acronyms_to_uppercase (go.rs:579) read as a specification.  Each configured acronym is first put in
   PascalCase (go.rs:582 to_pascal_case, rename.rs:25: `_` dropped, the first letter and every letter after a `_`
   upper-cased, the other letters lower-cased when the acronym is written all in upper case, kept otherwise:
   id, Id and ID all give Id); every leftmost non-overlapping occurrence - searched in the ORIGINAL name - of
   that form which is not followed by a lower-case letter is upper-cased in the result.  The conversion is NOT
   idempotent (an upper-cased acronym can complete an occurrence of another one: xy, yZw turn XyZw into XYZw,
   then XYZW).  (Proofs/C09_GoAcr.v: this IS the model's go_convert_acronyms_to_uppercase on ASCII input.) *)
Fixpoint c09_pascal_go (tolow cap : bool) (s : str) : str :=
  match s with
  | [] => []
  | c :: r => if N.eqb c ch_us then c09_pascal_go tolow true r
              else if cap then aupper c :: c09_pascal_go tolow false r
              else (if tolow then alower c else c) :: c09_pascal_go tolow false r
  end.
Definition c09_capitalise (a : str) : str := c09_pascal_go (str_eqb (str_upper_ascii a) a) true a.
Fixpoint c09_acr_pass (fuel : nat) (pat orig cur : str) : str :=
  match fuel with
  | O => cur
  | S f =>
    match orig, cur with
    | _ :: orig', c :: cur' =>
      if starts_with pat orig && negb (c09_is_nil pat) then
        let n := List.length pat in
        (if match skipn n orig with x :: _ => negb (is_alower x) | [] => true end
         then str_upper_ascii pat else firstn n cur) ++ c09_acr_pass f pat (skipn n orig) (skipn n cur)
      else c :: c09_acr_pass f pat orig' cur'
    | _, _ => cur
    end
  end.
Definition c09_acr_conv (acrs : list str) (name : str) : str :=
  fold_left (fun res a => c09_acr_pass (S (List.length name)) (c09_capitalise a) name res) acrs name.
(* the conversion changes this name *)
Definition c09_acr_changes (acrs : list str) (n : str) : bool := negb (str_eqb (c09_acr_conv acrs n) n).

(* Go converts acronyms in definition names and in member / payload types, but not in alias targets and const
   types (go.rs:191,205): a reference from there to an item whose DEFINITION name the conversion changes *)
Definition c09_acronym_class (L : lang) (acrs : list str) (pos : c09_pos) (e : c09_entity) : option string :=
  match L, pos with
  | Go, (C9Alias | C9Const) =>
    if c09_acr_changes acrs (match c09_def_which L (c9e_kind e) with C9Orig => original (c9e_id e) | C9Ren => renamed (c9e_id e) end)
    then Some "C09-go-acronym-target"%string else None
  | _, _ => None
  end.
(* ... and a generic parameter is declared unconverted (`type S[TId any] struct`, go.rs:228) but converted
   where a field or a payload mentions it (`X TID`): a parameter whose name the conversion changes *)
Definition c09_go_rewritten_pos (pos : c09_pos) : bool := match pos with C9Field | C9Payload => true | _ => false end.
Definition c09_generic_acronym_class (L : lang) (acrs : list str) (tp : c09_tpos) (i : str) : option string :=
  match L with
  | Go => if c09_go_rewritten_pos (c9t_pos tp) && mem_str i (c9t_generics tp) && c09_acr_changes acrs i
          then Some "C09-go-acronym-generic"%string else None
  | _ => None
  end.
(* The <Enum><Variant>Inner helper struct is DEFINED under conv (conv (Enum ++ Variant ++ Inner))
   (go.rs:266 make_anonymous_struct_name, then write_struct) but REFERRED TO as
   conv (conv (Enum ++ conv Variant ++ Inner)) (go.rs:330 converts the variant name first, go.rs:360 the whole
   name again): the variant part gets one pass more at the reference. *)
Definition c09_inner_acronym_class (L : lang) (acrs : list str) (enum_orig variant_orig : str) : option string :=
  match L with
  | Go => let conv := c09_acr_conv acrs in
          if str_eqb (conv (conv (enum_orig ++ variant_orig ++ lit "Inner")))
                     (conv (conv (enum_orig ++ conv variant_orig ++ lit "Inner")))
          then None else Some "C09-go-acronym-inner"%string
  | _ => None
  end.

Definition c09_first {A} (l : list (option A)) : option A :=
  fold_right (fun x acc => match x with Some _ => x | None => acc end) None l.

(* all classes a program falls into, from the INPUT alone *)
Definition c09_tpos_classes (L : lang) (acrs : list str) (pd : parsed) (tp : c09_tpos) : list (option string) :=
  flat_map (fun fi => match c09_lookup pd (snd fi) with
                      | Some e => [c09_type_site_class L (fst fi) (c9t_pos tp) e; c09_acronym_class L acrs (c9t_pos tp) e]
                      | None => []
                      end) (c09_type_ids (c9t_type tp)).
Definition c09_classes (L : lang) (pfx : str) (acrs : list str) (pd : parsed) : list (option string) :=
  flat_map (c09_tpos_classes L acrs pd) (c09_tposs pd) ++
  flat_map (fun e => match c9e_kind e with
                     | C9KInner => [c09_inner_site_class L e]
                     | _ => [c09_parent_site_class L e]
                     end) (c09_entities pd) ++
  map (c09_inline_generic_class L pfx) (p_aliases pd) ++
  flat_map (fun e => let sh := enum_shared e in
              flat_map (fun v => match v with
                                 | VAnon _ vsh => [c09_inner_acronym_class L acrs (original (eid sh)) (original (vid vsh))]
                                 | _ => []
                                 end) (evariants sh)) (p_enums pd) ++
  flat_map (fun tp => map (fun fi => c09_generic_acronym_class L acrs tp (snd fi)) (c09_type_ids (c9t_type tp))) (c09_tposs pd).
Definition known_C09 (L : lang) (pfx : str) (acrs : list str) (pd : parsed) : option string :=
  c09_first (c09_classes L pfx acrs pd).

(* class of ONE failing reference of an observation, decided from the input program, the configuration
   and the coordinates of the reference (which entity it stands in, which position, which entity its
   name denotes) - never from whether the names agree.  None: a failure no recorded class explains. *)
Definition c09_ref_class (L : lang) (pfx : str) (acrs : list str) (pd : parsed) (r : c09_ref) : option string :=
  let ents := c09_entities pd in
  let owner := find (fun e => c09_denotes L pfx e (c9_in r)) ents in
  match find (fun e => c09_denotes L pfx e (c9_name r)) ents with
  | Some i =>
    match c9_pos r with
    | C9Parent => match owner with
                  | Some j => if c09_same_entity i j then c09_parent_site_class L j else None
                  | None => None
                  end
    | pos =>
      match c9e_kind i with
      | C9KInner => match owner, pos with
                    | Some j, C9Payload =>
                      if str_eqb (original (c9e_id i)) (original (c9e_id j)) then
                        match c09_inner_site_class L i with
                        | Some k => Some k
                        | None => (* the suffix is <variant original>Inner *)
                          c09_inner_acronym_class L acrs (original (c9e_id i))
                                                  (firstn (List.length (c9e_suffix i) - 5) (c9e_suffix i))
                        end
                      else None
                    | _, _ => None
                    end
      | _ =>
        let form := if c09_is_nil (c9e_generics i) then C9Simple else C9Generic in
        match c09_type_site_class L form pos i with
        | Some k => Some k
        | None => c09_acronym_class L acrs pos i
        end
      end
    end
  | None =>
    (* a prefixed generic parameter inside a JvmInline value class *)
    match owner with
    | Some j =>
      match c09_first (map (fun a => if str_eqb (original (aid a)) (original (c9e_id j)) &&
                                        existsb (fun g => str_eqb (c9_name r) (pfx ++ g)) (agenerics a)
                                     then c09_inline_generic_class L pfx a else None) (p_aliases pd)) with
      | Some k => Some k
      | None =>
        (* Go: a generic parameter of the owner, acronym-converted where a field / payload mentions it *)
        match L with
        | Go => if c09_go_rewritten_pos (c9_pos r) &&
                   existsb (fun g => str_eqb (c09_acr_conv acrs g) (c9_name r) && c09_acr_changes acrs g) (c9e_generics j)
                then Some "C09-go-acronym-generic"%string else None
        | _ => None
        end
      end
    | None => None
    end
  end.
