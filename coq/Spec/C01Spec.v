(* C01 - field wire names in generated types equal serde's JSON keys.
   Computable domain / finding-class / verdict predicates, stated over
     (a) the expected keys: one list of keys per generated member list ("group") - a struct gives one
         group, an enum one group per struct variant, in order.  The expected keys are read off the IR
         ([ir_groups], what the decision layers are handed) or off the Rust SOURCE with serde's
         reading of the attributes ([src_groups]: Spec/Serde.v + Spec/SerdeCase.v, no typeshare code);
     (b) the language-independent observation of a generated file (Model/Lang/Decl.v): the member
         lists a list of [decl]s declares ([obs_groups]).
   Nothing here calls the model: Model.Str / Model.Syntax / Model.Types / Model.Lang.Decl only supply
   the data types (strings, syn-level AST, IR records, observation records). *)
From Coq Require Import String.
From TS Require Import Model.Str Model.Unicode Model.Syntax Model.Types Model.Lang.Decl.
From TS Require Import Spec.SerdeCase Spec.C16Spec Spec.Serde Spec.TargetOsRule Spec.C03Spec.

(* ---------- small computable list predicates ---------- *)
Fixpoint c01_strs_eqb (a b : list str) : bool :=
  match a, b with
  | [], [] => true
  | x :: a', y :: b' => str_eqb x y && c01_strs_eqb a' b'
  | _, _ => false
  end.

Fixpoint c01_all2 {A B} (p : A -> B -> bool) (a : list A) (b : list B) : bool :=
  match a, b with
  | [], [] => true
  | x :: a', y :: b' => p x y && c01_all2 p a' b'
  | _, _ => false
  end.

(* ---------- the key alphabet ---------- *)
(* characters of a key: [A-Za-z0-9_-] *)
Definition c01_key_char (c : char) : bool := is_aalpha c || is_adigit c || (c =? ch_us) || (c =? ch_dash).
(* a serde(rename) value as the property's quantifier writes it: [A-Za-z_][A-Za-z0-9_-]* *)
Definition c01_rename_value_ok (k : str) : bool :=
  match k with
  | [] => false
  | c :: _ => (is_aalpha c || (c =? ch_us)) && forallb c01_key_char k
  end.
(* a key the back ends are handed: non-empty, over the key characters (serde's rename_all applied to
   a conventional identifier stays in this set: `_a` under kebab-case is `-a`) *)
Definition c01_key_ok (k : str) : bool :=
  match k with [] => false | _ => forallb c01_key_char k end.
Definition c01_has_dash (k : str) : bool := contains_char ch_dash k.

(* ---------- (b) what a list of declarations declares: its member lists, in order ---------- *)
(* a struct definition declares one member list; a TypeScript union inlines the member list of each
   struct variant; the other five languages declare a helper struct per struct variant, which is a
   struct definition of its own (placed in front of the enum) *)
Definition decl_groups (d : decl) : list (list member) :=
  match d_kind d with
  | DStruct => [d_members d]
  | DEnum => flat_map (fun v => match vd_payload v with PayInline ms => [ms] | _ => [] end) (d_variants d)
  | _ => []
  end.
Definition obs_groups (ds : list decl) : list (list member) := flat_map decl_groups ds.

(* ---------- (a) expected keys, from the IR ---------- *)
Definition ir_field_keys (fs : list rfield) : list str := map (fun f => renamed (fid f)) fs.
Definition ir_groups (it : ritem) : list (list str) :=
  match it with
  | ItStruct s => [ir_field_keys (sfields s)]
  | ItEnum e => flat_map (fun v => match v with VAnon fs _ => [ir_field_keys fs] | _ => [] end)
                         (evariants (enum_shared e))
  | _ => []
  end.

(* ---------- (a') expected keys, from the Rust source: serde's reading ---------- *)
Fixpoint c01_opt_all {A} (l : list (option A)) : option (list A) :=
  match l with
  | [] => Some []
  | None :: _ => None
  | Some x :: r => match c01_opt_all r with Some xs => Some (x :: xs) | None => None end
  end.

Section Src.
Variable T : list str.       (* --target-os *)

(* the non-skipped fields, in source order (C03's reading of skip / cfg(target_os)) *)
Definition kept_fields (l : list field) : list field :=
  filter (fun f => negb (member_skipped T (f_attrs f))) l.
Definition kept_variants (vs : list variant) : list variant :=
  filter (fun v => negb (member_skipped T (v_attrs v))) vs.

(* serde's JSON key of one field under the container's (struct) or the VARIANT's (struct variant)
   rename_all string; None where serde_derive itself rejects the program *)
Definition src_field_key (rename_all : option str) (f : field) : option str :=
  match f_ident f with
  | Some i => field_key rename_all (f_attrs f) i
  | None => None
  end.
Definition src_field_keys (rename_all : option str) (l : list field) : option (list str) :=
  c01_opt_all (map (src_field_key rename_all) (kept_fields l)).

Definition src_struct_groups (attrs : list attr) (fs : fields) : option (list (list str)) :=
  match fs with
  | FNamed l => option_map (fun ks => [ks]) (src_field_keys (serde_nv attrs (lit "rename_all")) l)
  | FUnit => Some [[]]
  | FUnnamed _ => Some []          (* newtype struct: generated as an alias *)
  end.

Definition src_variant_groups (v : variant) : list (option (list str)) :=
  match v_fields v with
  | FNamed l => [src_field_keys (serde_nv (v_attrs v) (lit "rename_all")) l]
  | _ => []
  end.
Definition src_enum_groups (vs : list variant) : option (list (list str)) :=
  c01_opt_all (flat_map src_variant_groups (kept_variants vs)).

Definition src_groups (it : item) : option (list (list str)) :=
  match it with
  | IStruct attrs _ _ fs => src_struct_groups attrs fs
  | IEnum _ _ _ vs => src_enum_groups vs
  | _ => Some []
  end.

(* the property's quantifier on the source side: conventionally named fields (snake_case, raw or
   not), rename values over [A-Za-z_][A-Za-z0-9_-]*, rename_all one of serde's 8 rules or absent, in
   any spelling, order and splitting of the attributes (only [serde_nv]'s reading matters) *)
Definition c01_rename_ok (o : option str) : bool := match o with None => true | Some s => c01_rename_value_ok s end.
Definition c01_rule_ok (o : option str) : bool :=
  match o with None => true | Some s => match rule_from_str s with Some _ => true | None => false end end.
Definition src_field_dom (f : field) : bool :=
  match f_ident f with
  | Some i => conv_field (unraw i) && c01_rename_ok (serde_nv (f_attrs f) (lit "rename"))
  | None => false
  end.
(* cfg attributes (which decide presence: C13 / C03) parse as meta lists, on every member *)
Definition src_fields_dom (container_attrs : list attr) (l : list field) : bool :=
  c01_rule_ok (serde_nv container_attrs (lit "rename_all")) && forallb (fun f => cfg_parsable (f_attrs f)) l &&
  forallb src_field_dom (kept_fields l).
Definition src_dom (it : item) : bool :=
  match it with
  | IStruct attrs _ _ (FNamed l) => src_fields_dom attrs l
  | IEnum _ _ _ vs =>
    forallb (fun v => cfg_parsable (v_attrs v)) vs &&
    forallb (fun v => match v_fields v with FNamed l => src_fields_dom (v_attrs v) l | _ => true end) (kept_variants vs)
  | _ => true
  end.

(* per annotated item of a file, in source order: identifier, in-domain?, serde's keys *)
Definition c01_item_kind (it : item) : N :=
  match it with IStruct _ _ _ (FNamed _) => 1 | IStruct _ _ _ FUnit => 2 | IStruct _ _ _ _ => 3 | IEnum _ _ _ _ => 4 | _ => 0 end.
Definition c01_variant_idents (it : item) : list str :=
  match it with
  | IEnum _ _ _ vs => flat_map (fun v => match v_fields v with FNamed _ => [unraw (v_ident v)] | _ => [] end) (kept_variants vs)
  | _ => []
  end.
Definition c01_file_expected (f : file) : list (str * N * bool * list str * option (list (list str))) :=
  map (fun it => (unraw (leaf_ident it), c01_item_kind it, src_dom it, c01_variant_idents it, src_groups it))
      (expected_leaves T f).
End Src.

(* ---------- domain and finding classes, over language x expected keys ---------- *)
(* Scala's case-class parameters carry no key binding: for Scala only keys without '-' are in scope. *)
Definition dom_group (l : lang) (keys : list str) : bool :=
  forallb c01_key_ok keys &&
  match l with Scala => forallb (fun k => negb (c01_has_dash k)) keys | _ => true end.
Definition dom_C01 (l : lang) (expected : list (list str)) : bool := forallb (dom_group l) expected.

(* No finding class is recorded for C01: the theorems hold on the whole domain. *)
Definition known_C01 (l : lang) (expected : list (list str)) : option string := None.

(* ---------- the verdict, one predicate per facet ---------- *)
(* facet 1: the keys bound by each member list are exactly the expected keys, in order *)
Definition keys_group (expected : list str) (ms : list member) : bool := c01_strs_eqb (map mb_key ms) expected.
(* facet 2: a member whose key is NOT carried by an explicit binding (quoted property, @SerialName,
   CodingKeys raw value, json tag, pydantic alias) declares the key itself as its identifier, and that
   identifier has no '-' (TypeScript, Kotlin, Swift and Scala build the identifier from the key; Go
   always writes a tag, Python builds the identifier from the Rust identifier) *)
Definition c01_name_from_key (l : lang) : bool := match l with Go | Python => false | _ => true end.
Definition binding_ok (l : lang) (m : member) : bool :=
  match mb_binding m with
  | BName => str_eqb (mb_name m) (mb_key m) && (negb (c01_name_from_key l) || negb (c01_has_dash (mb_name m)))
  | _ => true
  end.
Definition binding_group (l : lang) (ms : list member) : bool := forallb (binding_ok l) ms.

Definition good_keys_C01 (expected : list (list str)) (gs : list (list member)) : bool := c01_all2 keys_group expected gs.
Definition good_binding_C01 (l : lang) (gs : list (list member)) : bool := forallb (binding_group l) gs.

Definition good_groups_C01 (l : lang) (expected : list (list str)) (gs : list (list member)) : bool :=
  good_keys_C01 expected gs && good_binding_C01 l gs.

Definition good_C01 (l : lang) (expected : list (list str)) (ds : list decl) : bool :=
  good_groups_C01 l expected (obs_groups ds).
