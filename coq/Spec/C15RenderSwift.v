(* C15, renderer level, Swift: the inputs on which the CODE swift.rs writes around the `/// ` fragments is
   proved to keep the reference lexer (Spec/Lexers.v cfg_sw) in code mode.  Declarative, nothing here refers
   to the model of typeshare.

   The Swift reference lexer reacts, in code, to `/` (may open a comment) and to the double quote (string or
   multi-line string literal); the apostrophe and the back-tick are ordinary code characters.  swift.rs prints
     - names, generic parameters, tag / content keys, decorators and generic constraints bare,
     - the raw value of a CodingKeys case (a key with a `-`, a variant's wire name) VERBATIM between double
       quotes, the raw value of a case of a String-backed enum through {:?},
     - the (prefixed, maybe back-ticked) name of a tagged enum VERBATIM inside the string literal
       "Wrong type for <name>" of init(from:).
   [c15_item_strict C15sw Swift it] (Spec/C15Render.v) covers the identifiers: non-empty, no `/`, no double
   quote, no backslash, no control character.  What Swift adds: the tag key is printed bare (`case tag, content`,
   `forKey: .tag`), and the texts of #[typeshare(swift = "..")] / #[typeshare(swiftGenericConstraints = "..")]
   are printed bare after `:` in the declaration head, so they must be plain too; the prefix ends up inside the
   string literal, so it has to be free of backslashes and line ends as well. *)
From Coq Require Import List NArith Bool String.
From TS Require Import Model.Str Model.Types Spec.Lexers Spec.C15Spec Spec.C15Render.
Import ListNotations.
Local Open Scope N_scope.

(* a character that may stand verbatim inside a one-line "..." literal of Swift and bare in code:
   no `/`, no double quote, no backslash, no LF / CR *)
Definition c15_sw_raw_char (c : char) : bool :=
  c15_plain_char C15sw c && negb (c =? ch_bs) && negb (eol_lf_cr c).
Definition c15_sw_raw (s : str) : bool := forallb c15_sw_raw_char s.

(* all decorator texts of kind k in a decorator map *)
Definition c15_decs_of (k : deckind) (dm : decmap) : list str :=
  flat_map (fun kv => if deckind_eqb (fst kv) k then snd kv else []) dm.
(* the Swift decorators and generic constraints of an item are plain *)
Definition c15_sw_decs_plain (dm : decmap) : bool :=
  forallb (c15_plain C15sw) (c15_decs_of DKSwift dm) &&
  forallb (c15_plain C15sw) (c15_decs_of DKSwiftGenericConstraints dm).

(* the input class of an item *)
Definition c15_sw_item_ok (it : ritem) : bool :=
  c15_item_strict C15sw Swift it &&
  match it with
  | ItStruct s => c15_sw_decs_plain (sdecs s)
  | ItEnum e =>
    c15_sw_decs_plain (edecs (enum_shared e)) &&
    match e with EUnit _ => true | EAlgebraic tag _ _ => c15_plain C15sw tag end
  | ItAlias _ | ItConst _ => true
  end.

(* ---- whole files ----
   the header prints the version inside a block comment (which nests in Swift): no star and no slash in it;
   the trailer is the helper struct CodableVoid, printed under a comment typeshare writes itself when () was translated *)
Definition c15_sw_version_ok (v : str) : bool := forallb (fun c => negb (c =? ch_star) && negb (c =? ch_slash)) v.
Definition c15_sw_trailer_docs : list str :=
  [lit "() isn't codable, so we use this instead to represent Rust's unit type"].
