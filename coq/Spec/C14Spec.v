(* C14: what multi-file mode must do, stated without the model.
   Inputs are observations that do not depend on Model/MultiFile.v: the path of each source file,
   its syn-level syntax (`use` trees, qualified paths) and what its annotated items are (the
   single-file IR of C03/C08: names and the type expressions of their members).
   Speaks about the import LIST of a generated file: pairs (module, name), before rendering. *)
From Coq Require Import String.
From TS Require Import Model.Str Model.Syntax Model.Types Spec.C11Spec.

Definition cls14 (s : string) : option string := Some s.

(* ---------- the crate of a path: the component above the LAST `src`, dashes as underscores ---------- *)
Definition SRC14 : str := lit "src".
Definition dash_us (s : str) : str := map (fun c => if c =? 45 then 95 else c) s.

(* relational form *)
Definition is_crate_of (components : list str) (c : str) : Prop :=
  exists pre above post, components = pre ++ above :: SRC14 :: post /\ ~ In SRC14 post /\ c = dash_us above.

(* computable form: one forward scan remembering the component before the latest `src` *)
Fixpoint crate_scan (prev best : option str) (components : list str) : option str :=
  match components with
  | [] => best
  | c :: r => crate_scan (Some c) (if str_eqb c SRC14 then option_map dash_us prev else best) r
  end.
Definition crate_of (components : list str) : option str := crate_scan None None components.

(* ---------- the name of the generated file ---------- *)
Definition ext14 (l : lang) : str :=
  match l with
  | Go => lit "go" | Kotlin => lit "kt" | Scala => lit "scala" | Swift => lit "swift"
  | TypeScript => lit "ts" | Python => lit "py"
  end.
(* PascalCase of a snake_case crate name: every piece between underscores starts with a capital *)
Fixpoint pascal14 (cap : bool) (s : str) : str :=
  match s with
  | [] => []
  | c :: r => if c =? 95 then pascal14 true r
              else (if cap then aupper c else c) :: pascal14 false r
  end.
Definition file_name14 (l : lang) (c : str) : str :=
  (match l with Swift => pascal14 true c | _ => c end) ++ lit "." ++ ext14 l.
(* the casing rule is only claimed for conventional crate names (some lowercase letter) *)
Definition conventional_crate (c : str) : bool := existsb is_alower c.

(* ---------- one source file of the workspace ---------- *)
Record src_info := { si_path : list str; si_file : file; si_items : list ritem }.

Definition in_crate (c : str) (s : src_info) : bool :=
  match crate_of (si_path s) with Some c' => str_eqb c c' | None => false end.
Definition crate_items (ws : list src_info) (c : str) : list ritem :=
  flat_map (fun s => if in_crate c s then si_items s else []) ws.

(* everything the file of crate c declares, under the generated names *)
Definition defs_renamed (ws : list src_info) (c : str) : list str := map (fun it => renamed (item_id it)) (crate_items ws c).

(* The import clause speaks about TYPES: a struct, an enum or an alias.  A constant is not a type - nothing can
   refer to it in a type position - so it is neither something a module "defines" for the purpose of an import,
   nor a target of a reference, nor a local type name (finding C14-glob-const, repaired in /repo). *)
Definition is_type14 (it : ritem) : bool := match it with ItConst _ => false | _ => true end.
Definition type_items (ws : list src_info) (c : str) : list ritem := filter is_type14 (crate_items ws c).
Definition tdefs_renamed (ws : list src_info) (c : str) : list str := map (fun it => renamed (item_id it)) (type_items ws c).
Definition tdefs_original (ws : list src_info) (c : str) : list str := map (fun it => original (item_id it)) (type_items ws c).
(* `defines crate name`: an annotated TYPE of that crate is generated under that name *)
Definition defines (ws : list src_info) (c n : str) : bool := mem_str n (tdefs_renamed ws c).

(* a definition at declaration level: its kind and the names it is defined under *)
Definition c14_kind (it : ritem) : N := match it with ItStruct _ => 0 | ItEnum _ => 1 | ItAlias _ => 2 | ItConst _ => 3 end.
Definition c14_decl (it : ritem) : N * id := (c14_kind it, item_id it).

(* crates that get a file: those with at least one annotated item *)
Fixpoint dedup14 (l : list str) : list str :=
  match l with [] => [] | x :: r => if mem_str x r then dedup14 r else x :: dedup14 r end.
Definition generated_crates (ws : list src_info) : list str :=
  dedup14 (flat_map (fun s => match crate_of (si_path s), si_items s with
                             | Some c, _ :: _ => [c]
                             | _, _ => []
                             end) ws).

(* ---------- `uses file name` ----------
   a type identifier in a type position of an annotated item of the file that is not one of the
   item's generic parameters and not mapped by the language's type_mappings *)
Definition file_uses (mapped : list str) (s : src_info) : list str :=
  dedup14 (filter (fun n => negb (mem_str n mapped)) (flat_map mentions (si_items s))).

(* ---------- how a file introduces a name ---------- *)
Fixpoint name_leaf (n : str) (t : use_tree) : bool :=
  match t with
  | UPath _ s => name_leaf n s
  | UName id => str_eqb id n
  | UGroup l => (fix any (l : list use_tree) : bool := match l with [] => false | x :: r => name_leaf n x || any r end) l
  | URename _ _ | UGlob => false
  end.
Fixpoint glob_leaf (t : use_tree) : bool :=
  match t with
  | UPath _ s => glob_leaf s
  | UGlob => true
  | UGroup l => (fix any (l : list use_tree) : bool := match l with [] => false | x :: r => glob_leaf x || any r end) l
  | UName _ | URename _ _ => false
  end.
(* every `use` of the file, at any nesting depth (mod / fn / impl bodies) *)
Fixpoint item_uses (it : item) : list use_tree :=
  match it with
  | IUse t => [t]
  | INest inner => (fix go (l : list item) : list use_tree := match l with [] => [] | x :: r => item_uses x ++ go r end) inner
  | _ => []
  end.
Definition file_uses_trees (f : file) : list use_tree := flat_map item_uses (fl_items f).

(* plain / grouped / nested `use d::...::n` *)
Definition use_introduces (d n : str) (t : use_tree) : bool :=
  match t with UPath id s => str_eqb id d && name_leaf n s | _ => false end.
(* `use d::...::*` *)
Definition use_globs (d : str) (t : use_tree) : bool :=
  match t with UPath id s => str_eqb id d && glob_leaf s | _ => false end.
(* a qualified path d::...::n (a leading `::` is an empty first element) *)
Definition segs14 (p : path) : path := match p with [] :: r => r | _ => p end.
Definition path_introduces (d n : str) (p : path) : bool :=
  match segs14 p with
  | c :: (_ :: _) as r => str_eqb c d && str_eqb (last r c) n
  | _ => false
  end.
Definition path_mentions (n : str) (p : path) : bool :=
  match segs14 p with
  | c :: (_ :: _) as r => str_eqb (last r c) n
  | _ => false
  end.
Definition introduces (f : file) (d n : str) : bool :=
  existsb (use_introduces d n) (file_uses_trees f) || existsb (path_introduces d n) (fl_paths f).
Definition glob_introduces (f : file) (d : str) : bool := existsb (use_globs d) (file_uses_trees f).
(* nothing else in the file brings in the same name from somewhere else *)
Definition unambiguous (f : file) (d n : str) : bool :=
  forallb (fun t => implb (name_leaf n t) (use_introduces d n t)) (file_uses_trees f) &&
  forallb (fun p => implb (path_mentions n p) (path_introduces d n p)) (fl_paths f).

(* ---------- the documented ignore lists ---------- *)
Definition IGNORED_CRATES14 : list str :=
  [lit "std"; lit "serde"; lit "serde_json"; lit "typeshare"; lit "once_cell"; lit "itertools"; lit "anyhow";
   lit "thiserror"; lit "quote"; lit "syn"; lit "clap"; lit "tokio"; lit "reqwest"; lit "regex"; lit "http";
   lit "time"; lit "axum"; lit "either"; lit "chrono"; lit "base64"; lit "rayon"; lit "ring"; lit "zip"; lit "neon"].
Definition IGNORED_TYPES14 : list str :=
  [lit "Option"; lit "String"; lit "Vec"; lit "HashMap"; lit "T"; lit "I54"; lit "U53"].
Definition crate_ok (d : str) : bool :=
  negb (mem_str d IGNORED_CRATES14) && negb (mem_str d [lit "crate"; lit "super"; lit "self"]) &&
  match d with c :: _ => is_alower c | [] => false end.
Definition type_ok (n : str) : bool :=
  negb (mem_str n IGNORED_TYPES14) && negb (str_eqb n (lit "*")) &&
  match n with c :: _ => is_aupper c | [] => false end.

(* ---------- one cross-crate reference and its verdict ---------- *)
(* crates other than c with an annotated type whose ORIGINAL (Rust) name is n *)
Definition targets (ws : list src_info) (c n : str) : list str :=
  filter (fun d => negb (str_eqb d c) && mem_str n (tdefs_original ws d)) (generated_crates ws).
(* the name the type of crate d with original name n is generated under *)
Definition renamed_in (ws : list src_info) (d n : str) : str :=
  match find (fun it => str_eqb (original (item_id it)) n) (type_items ws d) with
  | Some it => renamed (item_id it)
  | None => n
  end.
(* the crate file s refers to when it says n: the one its `use` / path names, else the one a glob
   names, else the first that defines it *)
Definition referenced_crate (ws : list src_info) (s : src_info) (c n : str) : option str :=
  let ts := targets ws c n in
  match find (fun d => introduces (si_file s) d n) ts with
  | Some d => Some d
  | None => match find (fun d => glob_introduces (si_file s) d) ts with
            | Some d => Some d
            | None => match ts with d :: _ => Some d | [] => None end
            end
  end.
(* every annotated type of crate d whose Rust name is n is generated under ONE name (renamed_in).  Typeshare knows
   a type by its bare name: two types of one crate with the same Rust name (in two modules) and different
   generated names leave "the name crate d generates n under" undetermined - the tool rewrites the reference and
   the import alike, to the name its rename table holds last. *)
Definition one_generated_name (ws : list src_info) (d n : str) : bool :=
  forallb (fun it => negb (str_eqb (original (item_id it)) n) || str_eqb (renamed (item_id it)) (renamed_in ws d n)) (type_items ws d).
(* no other crate generates a type called n (as original or as generated name) *)
Definition unique_name (ws : list src_info) (d n : str) : bool :=
  forallb (fun k => str_eqb k d || negb (mem_str n (tdefs_original ws k) || mem_str n (tdefs_renamed ws k))) (generated_crates ws).

(* The domain of the completeness theorem: the reference of file s (crate c) to the type n of crate d is
   (a) named: introduced by a plain / grouped / nested `use d::..::n` or a path d::..::n, nothing else in the file
       brings in n from elsewhere, crate d generates its n under one name (serde-renamed or not: the import must
       name the GENERATED name, renamed_in), the name is unique across crates, d and n outside the ignore lists,
       n not type-mapped and not the generated name of a type of the file itself; or
   (b) covered by a glob: the file says `use d::*;` or a nested `use d::m::*;` / `use d::{m::*, ..}` with d
       outside the ignore lists (and `*` itself not a key of the type mappings, which would remove every glob
       candidate; and `*` not the Rust name of a type of d - no identifier is, this only excludes syntax trees no
       parser produces).  Such a glob imports EVERY type of crate d under its generated name, so (b) needs none of
       the other conditions of (a): the target may be ambiguous, not unique. *)
Definition GLOB14 : str := lit "*".
Definition dom_named (ws : list src_info) (mapped : list str) (s : src_info) (c d n : str) : bool :=
  introduces (si_file s) d n && unambiguous (si_file s) d n &&
  one_generated_name ws d n && unique_name ws d n &&
  crate_ok d && type_ok n && negb (mem_str n mapped) &&
  negb (mem_str n (map (fun it => renamed (item_id it)) (filter is_type14 (si_items s)))).
Definition dom_glob (ws : list src_info) (mapped : list str) (s : src_info) (d : str) : bool :=
  glob_introduces (si_file s) d && crate_ok d && negb (mem_str GLOB14 mapped) && negb (mem_str GLOB14 (tdefs_original ws d)).
Definition dom_C14 (ws : list src_info) (mapped : list str) (s : src_info) (c d n : str) : bool :=
  dom_named ws mapped s c d n || dom_glob ws mapped s d.

(* finding classes of the unchanged tree for a reference that is NOT imported.  A reference covered by a glob
   import is in no class: since the /repo fix of findings C14-glob / C14-glob-order `use d::*;` imports every
   type of d (renamed and same-named ones included), so a miss there is a new violation.  A serde-renamed target
   is in no class either: since the /repo fix of finding C14-renamed-import (reconcile.rs:71) the import set is
   put back with the generated names, so `use d::N;` imports what d's file defines N under. *)
Definition known_C14 (ws : list src_info) (mapped : list str) (s : src_info) (c d n : str) : option string :=
  if dom_glob ws mapped s d then None
  else if negb (unique_name ws d n) then cls14 "C14-same-name"
  else None.

Record ref_verdict := { rv_crate : str; rv_name : str; rv_from : str; rv_generated_name : str;
                        rv_imported : bool; rv_elsewhere : list str; rv_dom : bool; rv_known : option string;
                        rv_unique : bool (* unique_name: no other crate has a type of that name *) }.

(* every reference of crate c to a type of another generated crate, judged against the OBSERVED
   import list of c's file *)
Definition judge_crate (ws : list src_info) (mapped : list str) (c : str) (observed : list (str * str)) : list ref_verdict :=
  flat_map (fun s =>
    if in_crate c s then
      flat_map (fun n =>
        if mem_str n (tdefs_original ws c) then []      (* a type of the same crate *)
        else match referenced_crate ws s c n with
             | None => []                                (* not a generated type at all *)
             | Some d =>
               let g := renamed_in ws d n in
               [{| rv_crate := c; rv_name := n; rv_from := d; rv_generated_name := g;
                   rv_imported := existsb (fun p => str_eqb (fst p) d && str_eqb (snd p) g) observed;
                   rv_elsewhere := map fst (filter (fun p => negb (str_eqb (fst p) d) && str_eqb (snd p) g) observed);
                   rv_dom := dom_C14 ws mapped s c d n;
                   rv_known := known_C14 ws mapped s c d n;
                   rv_unique := unique_name ws d n |}]
             end) (file_uses mapped s)
    else []) ws.

(* soundness of an observed import list: the pairs that are NOT fine - the module is the importing crate itself,
   or the name is not the generated name of a TYPE of the module (a const of the module is not: TypeScript does
   not even export it under that name).  A glob may import types the file never uses: that is sound. *)
Definition unsound_imports (ws : list src_info) (c : str) (observed : list (str * str)) : list (str * str) :=
  filter (fun p => str_eqb (fst p) c || negb (defines ws (fst p) (snd p))) observed.

(* imports that name a CONST of their module (what finding C14-glob-const was about, repaired in /repo: a glob
   import listed every name of the crate's type table, consts included, under the generated name, while
   TypeScript writes a const under the SCREAMING_SNAKE_CASE of that name).  Each of them is unsound (above);
   kept to name the regression in the check's message. *)
Definition is_const_of (ws : list src_info) (k n : str) : bool :=
  existsb (fun it => match it with ItConst c => str_eqb (renamed (cid c)) n | _ => false end) (crate_items ws k).
Definition const_imports (ws : list src_info) (observed : list (str * str)) : list (str * str) :=
  filter (fun p => is_const_of ws (fst p) (snd p)) observed.

Definition good_C14 (ws : list src_info) (mapped : list str) (c : str) (observed : list (str * str)) : bool :=
  match unsound_imports ws c observed with
  | _ :: _ => false
  | [] => forallb (fun v => rv_imported v || negb (rv_dom v)) (judge_crate ws mapped c observed)
  end.
