(* Reference lexers of the six target languages, as far as comments and literals go: what part of a
   text is comment, what part is a literal, what part is code.  They are DEFINITIONS (C15's notion of
   "inside a comment of the target language"), kept small: one step function over a small state,
   driven by a table per language.  Nothing here refers to the model of typeshare.

   Sources: ECMAScript 2023 12.4 (comments, no nesting; line terminators LF CR LS PS), 12.9.4/12.9.6
   (string and template literals); Kotlin grammar (Kotlin.flex: EOL_COMMENT, nested block comments,
   raw strings); The Swift Programming Language, Lexical Structure (nested comments, multi-line string
   literals); Scala Language Specification 1.4 (nested comments) and 1.3.5/1.3.6 (literals), scalac
   Scanners.skipLineComment (a // comment runs up to CR or LF; FF does not end it); Go spec "Comments" (a // comment stops at the newline
   U+000A; /* */ does not nest), string / raw string / rune literals; Python reference 2.1.3
   (comments), 2.1.2-2.1.4 (physical lines end at LF, CR LF or CR), 2.4.1 (string literals, triple
   quotes, backslash escapes).

   Deliberately not modelled (none of it can occur in the text typeshare generates around doc text,
   and the correspondence check lexes whole generated files): interpolation (`${..}` in TS templates
   and Kotlin strings, `\(..)` in Swift, s".." in Scala), regular expression literals, Swift #".."#
   strings, Scala symbol literals, string prefixes of Python (r b f u: they do not change where a
   literal ends), a run of more than three closing quotes of a Kotlin/Scala raw string.  A literal
   that is not closed on its line ends at the line end, which is where all six real lexers resume
   after reporting the error. *)
From Coq Require Import List NArith Bool.
From TS Require Import Model.Str.
Import ListNotations.
Local Open Scope N_scope.

Definition ch_slash : char := 47.   (* / *)
Definition ch_star : char := 42.    (* * *)
Definition ch_hash : char := 35.    (* # *)
Definition ch_btick : char := 96.   (* ` *)

(* inside a block comment: was the previous character a '*' that may close it, or (languages whose
   block comments nest) a '/' that may open an inner one *)
Inductive pend := PNone | PStar | PSlash.

Inductive lstate :=
| LCode                                      (* code *)
| LSlash                                     (* code; the previous character is a '/' that may open a comment *)
| LLine                                      (* line comment: // .. or # .. *)
| LBlock (depth : nat) (p : pend)            (* block comment, [depth] enclosing block comments around it *)
| LStr (q : char) (esc : bool)               (* one-line literal q .. q; esc: the previous character is an unescaped backslash *)
| LLong (q : char) (esc : bool)              (* multi-line literal q .. q (Go raw string, TS template) *)
| LOpen (q : char) (two : bool)              (* code; one (two = false) or two quotes q seen: q.. , qq or qqq.. *)
| LTriple (q : char) (n : nat) (esc : bool). (* literal qqq .. qqq; n < 3 consecutive closing quotes seen *)

Record lexcfg := {
  lc_slash : bool;           (* //  and  /* */  comments *)
  lc_nested : bool;          (* /* */ nests *)
  lc_hash : bool;            (* # comments *)
  lc_eol : char -> bool;     (* the characters that end a line, hence a line comment *)
  lc_quotes : list char;     (* delimiters of one-line literals with backslash escapes *)
  lc_long : list char;       (* delimiters of multi-line literals *)
  lc_long_esc : bool;        (* .. in which a backslash escapes the next character *)
  lc_triple : list char;     (* q (also in lc_quotes) such that qqq opens a multi-line literal closed by qqq *)
  lc_triple_esc : bool;      (* .. in which a backslash escapes the next character *)
  lc_docstring : bool        (* a triple-quoted literal is the language's docstring form *)
}.

Definition isin (c : char) (l : list char) : bool := existsb (N.eqb c) l.
Definition is_star (p : pend) : bool := match p with PStar => true | _ => false end.
Definition is_pslash (p : pend) : bool := match p with PSlash => true | _ => false end.

(* a character met in code *)
Definition lex_code (L : lexcfg) (c : char) : lstate :=
  if lc_slash L && (c =? ch_slash) then LSlash
  else if lc_hash L && (c =? ch_hash) then LLine
  else if isin c (lc_triple L) then LOpen c false
  else if isin c (lc_quotes L) then LStr c false
  else if isin c (lc_long L) then LLong c false
  else LCode.

(* a character met inside the one-line literal q .. *)
Definition lex_quoted (L : lexcfg) (q : char) (esc : bool) (c : char) : lstate :=
  if esc then LStr q false
  else if c =? ch_bs then LStr q true
  else if (c =? q) || lc_eol L c then LCode
  else LStr q false.

Definition lex_gen (L : lexcfg) (st : lstate) (c : char) : lstate :=
  match st with
  | LCode => lex_code L c
  | LSlash => if c =? ch_slash then LLine else if c =? ch_star then LBlock 0 PNone else lex_code L c
  | LLine => if lc_eol L c then LCode else LLine
  | LBlock d p =>
    if is_star p && (c =? ch_slash) then match d with O => LCode | S d' => LBlock d' PNone end
    else if is_pslash p && (c =? ch_star) then LBlock (S d) PNone
    else LBlock d (if c =? ch_star then PStar else if lc_nested L && (c =? ch_slash) then PSlash else PNone)
  | LStr q esc => lex_quoted L q esc c
  | LLong q esc =>
    if esc then LLong q false
    else if lc_long_esc L && (c =? ch_bs) then LLong q true
    else if c =? q then LCode else LLong q false
  | LOpen q false => if c =? q then LOpen q true else lex_quoted L q false c
  | LOpen q true => if c =? q then LTriple q 0 false else lex_code L c
  | LTriple q n esc =>
    if esc then LTriple q 0 false
    else if lc_triple_esc L && (c =? ch_bs) then LTriple q 0 true
    else if c =? q then (if Nat.leb 2 n then LCode else LTriple q (S n) false)
    else LTriple q 0 false
  end.

Definition lex_str_gen (L : lexcfg) (st : lstate) (s : str) : lstate := fold_left (lex_gen L) s st.

(* the states in which the character being read is comment (or docstring) text *)
Definition in_comment (L : lexcfg) (st : lstate) : bool :=
  match st with
  | LLine | LBlock _ _ => true
  | LTriple _ _ _ => lc_docstring L
  | _ => false
  end.

(* ---- a text in which some characters are marked as PLANTED (they come from a doc string) ---- *)
Definition mtext := list (char * bool).
Definition plain_text (s : str) : mtext := map (fun c => (c, false)) s.
Definition planted_text (s : str) : mtext := map (fun c => (c, true)) s.
Definition unmark (t : mtext) : str := map fst t.
Definition planted_of (t : mtext) : str := map fst (filter snd t).

(* lex a marked text; None as soon as a planted character is read in a state that is not a comment
   state, or ENDS the comment it is read in (the state after it is not a comment state) *)
Fixpoint lex_marked (L : lexcfg) (st : lstate) (t : mtext) : option lstate :=
  match t with
  | [] => Some st
  | (c, planted) :: r =>
    let st' := lex_gen L st c in
    if planted && negb (in_comment L st && in_comment L st') then None else lex_marked L st' r
  end.

(* containment: every planted character is comment text, and the lexer is back in code at the end *)
Definition contained_gen (L : lexcfg) (st : lstate) (t : mtext) : bool :=
  match lex_marked L st t with Some LCode => true | _ => false end.

(* ---- the six languages ---- *)
Definition eol_lf (c : char) : bool := c =? ch_nl.
Definition eol_lf_cr (c : char) : bool := (c =? ch_nl) || (c =? ch_cr).
Definition eol_js (c : char) : bool := (c =? ch_nl) || (c =? ch_cr) || (c =? 8232) || (c =? 8233).

Definition cfg_ts : lexcfg :=
  {| lc_slash := true; lc_nested := false; lc_hash := false; lc_eol := eol_js;
     lc_quotes := [ch_dq; ch_sq]; lc_long := [ch_btick]; lc_long_esc := true;
     lc_triple := []; lc_triple_esc := false; lc_docstring := false |}.
Definition cfg_kt : lexcfg :=
  {| lc_slash := true; lc_nested := true; lc_hash := false; lc_eol := eol_lf_cr;
     lc_quotes := [ch_dq; ch_sq]; lc_long := []; lc_long_esc := false;
     lc_triple := [ch_dq]; lc_triple_esc := false; lc_docstring := false |}.
Definition cfg_sw : lexcfg :=
  {| lc_slash := true; lc_nested := true; lc_hash := false; lc_eol := eol_lf_cr;
     lc_quotes := [ch_dq]; lc_long := []; lc_long_esc := false;
     lc_triple := [ch_dq]; lc_triple_esc := true; lc_docstring := false |}.
Definition cfg_sc : lexcfg :=
  {| lc_slash := true; lc_nested := true; lc_hash := false; lc_eol := eol_lf_cr;
     lc_quotes := [ch_dq; ch_sq]; lc_long := []; lc_long_esc := false;
     lc_triple := [ch_dq]; lc_triple_esc := false; lc_docstring := false |}.
Definition cfg_go : lexcfg :=
  {| lc_slash := true; lc_nested := false; lc_hash := false; lc_eol := eol_lf;
     lc_quotes := [ch_dq; ch_sq]; lc_long := [ch_btick]; lc_long_esc := false;
     lc_triple := []; lc_triple_esc := false; lc_docstring := false |}.
Definition cfg_py : lexcfg :=
  {| lc_slash := false; lc_nested := false; lc_hash := true; lc_eol := eol_lf_cr;
     lc_quotes := [ch_dq; ch_sq]; lc_long := []; lc_long_esc := false;
     lc_triple := [ch_dq; ch_sq]; lc_triple_esc := true; lc_docstring := true |}.

Definition lex_ts : lstate -> char -> lstate := lex_gen cfg_ts.
Definition lex_kt : lstate -> char -> lstate := lex_gen cfg_kt.
Definition lex_sw : lstate -> char -> lstate := lex_gen cfg_sw.
Definition lex_sc : lstate -> char -> lstate := lex_gen cfg_sc.
Definition lex_go : lstate -> char -> lstate := lex_gen cfg_go.
Definition lex_py : lstate -> char -> lstate := lex_gen cfg_py.

Definition lex_str_ts (st : lstate) (s : str) : lstate := fold_left lex_ts s st.
Definition lex_str_kt (st : lstate) (s : str) : lstate := fold_left lex_kt s st.
Definition lex_str_sw (st : lstate) (s : str) : lstate := fold_left lex_sw s st.
Definition lex_str_sc (st : lstate) (s : str) : lstate := fold_left lex_sc s st.
Definition lex_str_go (st : lstate) (s : str) : lstate := fold_left lex_go s st.
Definition lex_str_py (st : lstate) (s : str) : lstate := fold_left lex_py s st.

Definition contained_ts : lstate -> mtext -> bool := contained_gen cfg_ts.
Definition contained_kt : lstate -> mtext -> bool := contained_gen cfg_kt.
Definition contained_sw : lstate -> mtext -> bool := contained_gen cfg_sw.
Definition contained_sc : lstate -> mtext -> bool := contained_gen cfg_sc.
Definition contained_go : lstate -> mtext -> bool := contained_gen cfg_go.
Definition contained_py : lstate -> mtext -> bool := contained_gen cfg_py.

(* ---- a text given as literal pieces and doc pieces ---- *)
Inductive piece := PLit (s : str) | PDoc (s : str).
Definition piece_text (p : piece) : str := match p with PLit s | PDoc s => s end.
Definition piece_mark (p : piece) : mtext := match p with PLit s => plain_text s | PDoc s => planted_text s end.
Definition text_of (ps : list piece) : str := flat_map piece_text ps.
Definition mark (ps : list piece) : mtext := flat_map piece_mark ps.
Definition docs_of (ps : list piece) : list str := flat_map (fun p => match p with PDoc s => [s] | PLit _ => [] end) ps.
