(* Transliteration of serde_derive-1.0.214/src/internals/case.rs (RenameRule::from_str,
   apply_to_variant, apply_to_field).  Independent of the model; validated on every run against
   the real case.rs, which the Rust harness #[path]-includes from the offline cargo registry.
   [None] = serde_derive itself panics (variant[..1] / pascal[..1] on an empty or non-ASCII-led
   string), i.e. the program does not compile. *)
From TS Require Import Model.Str Model.Unicode.

Inductive rule := LowerCase | UpperCase | PascalCase | CamelCase | SnakeCase
                | ScreamingSnakeCase | KebabCase | ScreamingKebabCase.

Definition rule_names : list (str * rule) :=
  [ (lit "lowercase", LowerCase); (lit "UPPERCASE", UpperCase); (lit "PascalCase", PascalCase);
    (lit "camelCase", CamelCase); (lit "snake_case", SnakeCase);
    (lit "SCREAMING_SNAKE_CASE", ScreamingSnakeCase); (lit "kebab-case", KebabCase);
    (lit "SCREAMING-KEBAB-CASE", ScreamingKebabCase) ].

Fixpoint rule_from_str_in (t : list (str * rule)) (s : str) : option rule :=
  match t with
  | [] => None
  | (n, r) :: t' => if str_eqb s n then Some r else rule_from_str_in t' s
  end.
Definition rule_from_str := rule_from_str_in rule_names.

Definition lower_first (s:str) : option str :=
  match s with
  | [] => None
  | c :: r => if c <? 128 then Some (alower c :: r) else None
  end.

Section U.
Variable uc : unicode.

Fixpoint sd_snake_go (first:bool) (s:str) : str :=
  match s with
  | [] => []
  | c :: r => (if negb first && u_is_upper uc c then [ch_us] else []) ++ alower c :: sd_snake_go false r
  end.

Definition apply_to_variant (r:rule) (v:str) : option str :=
  match r with
  | PascalCase => Some v
  | LowerCase => Some (str_lower_ascii v)
  | UpperCase => Some (str_upper_ascii v)
  | CamelCase => lower_first v
  | SnakeCase => Some (sd_snake_go true v)
  | ScreamingSnakeCase => Some (str_upper_ascii (sd_snake_go true v))
  | KebabCase => Some (replace_char ch_us ch_dash (sd_snake_go true v))
  | ScreamingKebabCase => Some (replace_char ch_us ch_dash (str_upper_ascii (sd_snake_go true v)))
  end.

Fixpoint sd_pascal_go (cap:bool) (s:str) : str :=
  match s with
  | [] => []
  | c :: r => if c =? ch_us then sd_pascal_go true r
              else if cap then aupper c :: sd_pascal_go false r
              else c :: sd_pascal_go false r
  end.

Definition apply_to_field (r:rule) (f:str) : option str :=
  match r with
  | LowerCase | SnakeCase => Some f
  | UpperCase => Some (str_upper_ascii f)
  | PascalCase => Some (sd_pascal_go true f)
  | CamelCase => lower_first (sd_pascal_go true f)
  | ScreamingSnakeCase => Some (str_upper_ascii f)
  | KebabCase => Some (replace_char ch_us ch_dash f)
  | ScreamingKebabCase => Some (replace_char ch_us ch_dash (str_upper_ascii f))
  end.

(* serde_derive's use of a rename_all string: an unknown rule is a compile error in serde; the
   property says typeshare then leaves names unchanged, which is what [None] rule means here. *)
Definition serde_field_name (rule_str : option str) (ident : str) : option str :=
  match rule_str with
  | None => Some ident
  | Some rs => match rule_from_str rs with
               | None => Some ident
               | Some r => apply_to_field r ident
               end
  end.
Definition serde_variant_name (rule_str : option str) (ident : str) : option str :=
  match rule_str with
  | None => Some ident
  | Some rs => match rule_from_str rs with
               | None => Some ident
               | Some r => apply_to_variant r ident
               end
  end.
End U.
