(* C07: declarative description (over the syn-level AST) of the inputs on which the unchanged
   front end reaches one of its partial operations.  [front_unsafe f = false] is the domain on which
   the front end is proved panic-free; each disjunct is a recorded finding class. *)
From Coq Require Import String.
From TS Require Import Model.Str Model.Unicode Model.Syntax Model.Attrs Spec.Serde Spec.TargetOsRule Spec.C03Spec.

Definition cls7 (s:string) : option string := Some s.

Definition NEEDS_ONE : list str :=
  [lit "Vec"; lit "Option"; lit "Box"; lit "Weak"; lit "Arc"; lit "Rc"; lit "Cow"; lit "ArcWeak"; lit "RcWeak";
   lit "Cell"; lit "Mutex"; lit "RefCell"; lit "RwLock"].

Definition count_type_args (args : list (option ty)) : nat :=
  List.length (filter (fun o => match o with Some _ => true | None => false end) args).

(* every Vec / Option / smart pointer has a type argument and every HashMap two, at every depth
   (rust_types.rs:366-383 unwrap them) *)
Fixpoint ty_safe (t : ty) : bool :=
  match t with
  | TPath _ id args =>
    (fix go (l : list (option ty)) : bool :=
       match l with [] => true | None :: r => go r | Some x :: r => ty_safe x && go r end) args &&
    (if mem_str id NEEDS_ONE then Nat.leb 1 (count_type_args args)
     else if str_eqb id (lit "HashMap") then Nat.leb 2 (count_type_args args) else true)
  | TRef x | TSlice x | TArray x _ => ty_safe x
  | TTuple _ | TOther => true
  end.

(* first character that is not an underscore *)
Fixpoint first_significant (s : str) : option char :=
  match s with [] => None | c :: r => if c =? ch_us then first_significant r else Some c end.

Section U.
Variable uc : unicode.
Variable tstr : str -> option ty.
Variable T : list str.

(* rename.rs:22 slices the first BYTE of the PascalCase form: safe iff the identifier has a
   non-underscore character and the first such character is ASCII - only camelCase does this *)
Definition rename_safe (rule : option str) (ident : str) : bool :=
  match rule with
  | Some r => if str_eqb r (lit "camelCase") then
                match first_significant ident with Some c => c <? 128 | None => false end
              else true
  | None => true
  end.

Definition the_rule (attrs : list attr) : option str := serde_rename_all uc attrs.
Definition ident_of (i : option str) : str :=
  match i with Some x => replace_sub (lit "r#") [] x | None => lit "???" end.

Definition effective_ty_safe (attrs : list attr) (declared : ty) : bool :=
  match get_serialized_as_type uc attrs with
  | Some s => match tstr s with Some t => ty_safe t | None => true end
  | None => ty_safe declared
  end.

(* parser.rs:737: a nested typeshare(..) list on a field whose name is not a language *)
Definition lang_name_ok (name : str) : bool :=
  let l := str_to_lowercase uc name in
  mem_str l [lit "go"; lit "kotlin"; lit "scala"; lit "swift"; lit "typescript"; lit "python"].
Definition decorators_safe (attrs : list attr) : bool :=
  forallb (fun a => forallb (fun m => match m with MList [name] _ _ => lang_name_ok name | _ => true end)
                            (get_meta_items a TYPESHARE)) attrs.

Definition skipped7 (attrs : list attr) : bool := skip_marked attrs || negb (os_rule attrs T).

Definition field_safe (rule : option str) (f : field) : bool :=
  skipped7 (f_attrs f) ||
  (effective_ty_safe (f_attrs f) (f_ty f) && decorators_safe (f_attrs f) && rename_safe rule (ident_of (f_ident f))).

Definition variant_safe (enum_rule : option str) (v : variant) : bool :=
  skipped7 (v_attrs v) ||
  (rename_safe enum_rule (ident_of (Some (v_ident v))) &&
   match v_fields v with
   | FUnit => true
   | FUnnamed [] => false                               (* parser.rs:445 *)
   | FUnnamed [f] => effective_ty_safe (f_attrs f) (f_ty f)
   | FUnnamed _ => true                                 (* rejected with an error before anything else *)
   | FNamed l => forallb (field_safe (the_rule (v_attrs v))) l
   end).

Definition leaf_safe (it : item) : bool :=
  match it with
  | IStruct attrs _ _ fs =>
    match get_serialized_as_type uc attrs with
    | Some s => match tstr s with Some t => ty_safe t | None => true end
    | None =>
      match fs with
      | FNamed l => forallb (field_safe (the_rule attrs)) l
      | FUnnamed [] => false                            (* parser.rs:287 *)
      | FUnnamed [f] => effective_ty_safe (f_attrs f) (f_ty f)
      | FUnnamed _ => true
      | FUnit => true
      end
    end
  | IEnum attrs _ _ vs =>
    match get_serialized_as_type uc attrs with
    | Some s => match tstr s with Some t => ty_safe t | None => true end
    | None => forallb (variant_safe (the_rule attrs)) vs
    end
  | IType attrs _ _ t => effective_ty_safe attrs t
  | IConst attrs _ t _ => effective_ty_safe attrs t
  | _ => true
  end.

Definition front_safe (f : file) : bool := forallb leaf_safe (expected_leaves T f).
End U.
