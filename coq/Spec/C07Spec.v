(* C07 (front end).  Since the /repo fixes of the front-end panic sites (parser.rs:287 / :445 / :737,
   rust_types.rs:366-383, rename.rs:22) the front end has no reachable partial operation: the
   panic-freedom theorems of Props/C07.v are UNCONDITIONAL and there is no `known` class for it.

   What stays declarative here (over the syn-level AST) is the class of EDGE inputs that used to
   panic and that the property wants DIAGNOSED: [leaf_complete it = false] means the annotated item
   has, in a non-skipped position, a container / smart pointer written without its type argument(s)
   (`Vec`, `HashMap<K>`, `Cow<'a>`; at any depth, also in a serialized_as string) or is an empty tuple
   struct / has an empty tuple variant.  Props/C07.v proves that such an item is reported as an error
   (never generated, never a panic); the check evaluates the same predicate against the real code. *)
From Coq Require Import String.
From TS Require Import Model.Str Model.Outcome Model.Unicode Model.Syntax Model.Attrs Spec.Serde Spec.TargetOsRule Spec.C03Spec.

Definition NEEDS_ONE : list str :=
  [lit "Vec"; lit "Option"; lit "Box"; lit "Weak"; lit "Arc"; lit "Rc"; lit "Cow"; lit "ArcWeak"; lit "RcWeak";
   lit "Cell"; lit "Mutex"; lit "RefCell"; lit "RwLock"].

Definition count_type_args (args : list (option ty)) : nat :=
  List.length (filter (fun o => match o with Some _ => true | None => false end) args).

(* every Vec / Option / smart pointer has a type argument and every HashMap two, at every depth
   (lifetime and const arguments do not count) *)
Fixpoint ty_complete (t : ty) : bool :=
  match t with
  | TPath _ id args =>
    (fix go (l : list (option ty)) : bool :=
       match l with [] => true | None :: r => go r | Some x :: r => ty_complete x && go r end) args &&
    (if mem_str id NEEDS_ONE then Nat.leb 1 (count_type_args args)
     else if str_eqb id (lit "HashMap") then Nat.leb 2 (count_type_args args) else true)
  | TRef x | TSlice x | TArray x _ => ty_complete x
  | TTuple _ | TOther => true
  end.

Section U.
Variable uc : unicode.
Variable tstr : str -> option ty.
Variable T : list str.

(* the type typeshare is told to use: a serialized_as string wins over the declared type (a string
   that is not a type is another error, not this class) *)
Definition effective_ty_complete (attrs : list attr) (declared : ty) : bool :=
  match get_serialized_as_type uc attrs with
  | Some s => match tstr s with Some t => ty_complete t | None => true end
  | None => ty_complete declared
  end.

Definition skipped7 (attrs : list attr) : bool := skip_marked attrs || negb (os_rule attrs T).

Definition field_complete (f : field) : bool :=
  skipped7 (f_attrs f) || effective_ty_complete (f_attrs f) (f_ty f).

Definition variant_complete (v : variant) : bool :=
  skipped7 (v_attrs v) ||
  match v_fields v with
  | FUnit => true
  | FUnnamed [] => false                               (* `V()`: parser.rs:445 before the fix *)
  | FUnnamed [f] => effective_ty_complete (f_attrs f) (f_ty f)
  | FUnnamed _ => true                                 (* rejected for another reason (C08) *)
  | FNamed l => forallb field_complete l
  end.

Definition leaf_complete (it : item) : bool :=
  match it with
  | IStruct attrs _ _ fs =>
    match get_serialized_as_type uc attrs with
    | Some s => match tstr s with Some t => ty_complete t | None => true end
    | None =>
      match fs with
      | FNamed l => forallb field_complete l
      | FUnnamed [] => false                            (* `struct S();`: parser.rs:287 before the fix *)
      | FUnnamed [f] => effective_ty_complete (f_attrs f) (f_ty f)
      | FUnnamed _ => true
      | FUnit => true
      end
    end
  | IEnum attrs _ _ vs =>
    match get_serialized_as_type uc attrs with
    | Some s => match tstr s with Some t => ty_complete t | None => true end
    | None => forallb variant_complete vs
    end
  | IType attrs _ _ t => effective_ty_complete attrs t
  | IConst attrs _ t _ => effective_ty_complete attrs t
  | _ => true
  end.

(* number of expected leaves of the file that must be diagnosed for this reason *)
Definition front_incomplete_leaves (f : file) : nat :=
  List.length (filter (fun it => negb (leaf_complete it)) (expected_leaves T f)).
Definition front_complete (f : file) : bool := forallb leaf_complete (expected_leaves T f).
End U.

(* ---- runs that fail at GENERATION time (every file parsed without error; a back end returns Err) ----
   The CLI ends them with exit 1 and "typeshare failed to generate types: <message>".  Two kinds of such errors
   (the constructors of Model/Outcome.v perr that a back end can return):
   - the back end cannot express an ITEM of some source file (a const for Kotlin / Swift, a DateTime for Kotlin /
     Scala / Swift, a map keyed by a generic parameter for TypeScript / Python): the property asks for a diagnostic
     that names the offending file; the message names the item or type only (the per-crate ParsedData no longer
     knows which file an item came from) - recorded finding C07-generation-error-no-file, class
     [c07_item_rejection e = true] on the predicted error;
   - the CONFIGURATION lacks a value (Scala without a package): there is no offending source file to name. *)
Definition c07_item_rejection (e : perr) : bool :=
  match e with
  | EConstUnsupported _ | EUnsupportedSpecialType _ | EGenericKeyForbiddenInTS _ | EGenericsForbiddenInGo _ => true
  | _ => false
  end.
Definition c07_config_rejection (e : perr) : bool :=
  match e with EPackageRequired => true | _ => false end.
