(* C15 - documentation text is carried only inside comments of the generated code.

   [c15_carried]: WHAT a doc attribute carries.  After the repair of parse_comment_attrs a doc attribute
   with value v carries the LIST of the trimmed lines of [trim v] (an empty [trim v] carries one empty
   line).  No carried line contains a line break (Props/C15.v, C15_carried_no_break).
   [c15_written]: HOW a carried line is written.  Verbatim, except that TypeScript writes a comment
   terminator (star slash) as star backslash slash, and a Python docstring writes three double quotes as
   backslash quote, three times: the line is reproduced MODULO THIS ESCAPE, and what has to stay inside the
   comment is the text as written.
   [safe_<l>]: the written strings that stay inside the comment form the back end of language <l> prints
   them in.  Each is a plain condition on the string; that it is EXACTLY the set of strings the
   reference lexer of Spec/Lexers.v keeps inside the comment is Props/C15.v (C15_exact_written).
   [c15_safe l]: the same as a condition on the doc string before it is written; it holds of every
   string for TypeScript and for Python docstrings (the escapes remove the terminators), and of every
   string without LF / CR for the line-comment writers - hence of every carried line.
   [<l>_tmpl]: the shape of the comment fragment a back end prints for a list of doc strings, as
   literal pieces and doc pieces (independent of the model; Props/C15.v, C15_fragment_<l> proves that
   its text IS what the model's write_comments prints).
   [known_C15]: the finding classes.  None is left: the six classes of the unrepaired tree (status
   `fixed` in KNOWN_FINDINGS.jsonl) are no carve-out any more.
   [good_C15]: the verdict on a generated file, given the strings that must be found in it (the
   carried lines as written): every one occurs in the file (reproduced) and every character of every
   occurrence is read by the reference lexer inside a comment / docstring, the lexer being back in code
   at the end.
   Nothing here refers to the model of typeshare. *)
From Coq Require Import List NArith Bool String.
From TS Require Import Model.Str Model.Unicode Model.Types Spec.Lexers.
Import ListNotations.
Local Open Scope N_scope.

(* `///` / `//` / `#` line comments: the doc string must not contain a character that ends the line
   in the language's lexer (Kotlin, Swift, Scala, Python: LF CR; Go: LF only) *)
Definition safe_line (eol : char -> bool) (d : str) : bool := forallb (fun c => negb (eol c)) d.
Definition safe_kt (d : str) : bool := safe_line eol_lf_cr d.
Definition safe_sw (d : str) : bool := safe_line eol_lf_cr d.
Definition safe_sc (d : str) : bool := safe_line eol_lf_cr d.
Definition safe_go (d : str) : bool := safe_line eol_lf d.
(* TypeScript `/** .. */`: no comment terminator in the doc string *)
Definition safe_ts (d : str) : bool := negb (contains_sub [ch_star; ch_slash] d).
(* Python docstring (a triple-double-quote literal the doc strings are written into, one per line):
   the doc string must not contain three consecutive unescaped double quotes.  [n] = number of
   consecutive unescaped quotes just read, [esc] = the previous character is an unescaped backslash.
   Newlines, a trailing backslash (a newline follows it, never the closing quotes), three single
   quotes and `#` are all harmless there. *)
Fixpoint py_doc_scan (n : nat) (esc : bool) (d : str) : bool :=
  match d with
  | [] => true
  | c :: r =>
    if esc then py_doc_scan 0 false r
    else if c =? ch_bs then py_doc_scan 0 true r
    else if c =? ch_dq then (if Nat.leb 2 n then false else py_doc_scan (S n) false r)
    else py_doc_scan 0 false r
  end.
Definition safe_py_docstring (d : str) : bool := py_doc_scan 0 false d.
(* Python `# ` comments (the doc of an algebraic enum, printed above the Union alias) *)
Definition safe_py_hash (d : str) : bool := safe_line eol_lf_cr d.
Definition safe_py (docstring : bool) (d : str) : bool :=
  if docstring then safe_py_docstring d else safe_py_hash d.

(* ---- how a doc string is written ----
   TypeScript (typescript.rs write_comments): a backslash is written between a star and the slash that follows
   it, so the written text contains no comment terminator (this is str::replace of star slash by star
   backslash slash: the pattern cannot overlap itself). *)
Fixpoint c15_esc_ts (d : str) : str :=
  match d with
  | [] => []
  | c :: r => if (c =? ch_star) && starts_with [ch_slash] r then c :: ch_bs :: c15_esc_ts r else c :: c15_esc_ts r
  end.
(* Python docstrings (python.rs write_comments): three double quotes in a row are written backslash quote,
   backslash quote, backslash quote; leftmost first, the search resumes after the three quotes (str::replace):
   four quotes become three escaped ones and a bare one. *)
Fixpoint c15_esc_py (d : str) : str :=
  match d with
  | [] => []
  | c :: r =>
    match r with
    | c2 :: c3 :: r3 =>
      if (c =? ch_dq) && (c2 =? ch_dq) && (c3 =? ch_dq)
      then [ch_bs; ch_dq; ch_bs; ch_dq; ch_bs; ch_dq] ++ c15_esc_py r3
      else c :: c15_esc_py r
    | _ => c :: c15_esc_py r
    end
  end.

(* ---- the comment fragments, given the strings AS WRITTEN ---- *)
Definition tabs_ (n : nat) : str := repeat_str [ch_tab] n.
(* one line per doc string: indent and opener, the doc string, newline *)
Definition line_tmpl (pre : str) (docs : list str) : list piece :=
  flat_map (fun d => [PLit pre; PDoc d; PLit [ch_nl]]) docs.

Definition kt_tmpl_w (indent : nat) (docs : list str) : list piece := line_tmpl (tabs_ indent ++ lit "/// ") docs.
Definition sw_tmpl_w (indent : nat) (docs : list str) : list piece := line_tmpl (tabs_ indent ++ lit "/// ") docs.
Definition sc_tmpl_w (indent : nat) (docs : list str) : list piece := line_tmpl (tabs_ indent ++ lit "// ") docs.
Definition go_tmpl_w (indent : nat) (docs : list str) : list piece := line_tmpl (tabs_ indent ++ lit "// ") docs.
(* typescript.rs:369: one doc string: `/** d */`; several: `/**`, a ` * d` line each, ` */` *)
Definition ts_tmpl_w (indent : nat) (docs : list str) : list piece :=
  match docs with
  | [] => []
  | [d] => [PLit (tabs_ indent ++ lit "/** "); PDoc d; PLit (lit " */" ++ [ch_nl])]
  | _ => [PLit (tabs_ indent ++ lit "/**" ++ [ch_nl])] ++ line_tmpl (tabs_ indent ++ lit " * ") docs ++
         [PLit (tabs_ indent ++ lit " */" ++ [ch_nl])]
  end.
(* python.rs:494: docstring: three double quotes, the doc strings one per line, three double quotes,
   all at the indent (four spaces per level); otherwise `# d` lines *)
Definition py_tmpl_w (docstring : bool) (indent_level : nat) (docs : list str) : list piece :=
  let indent := repeat_str (lit "    ") indent_level in
  match docs with
  | [] => []
  | _ => if docstring
         then [PLit (indent ++ lit """""""" ++ [ch_nl])] ++ line_tmpl indent docs ++
              [PLit (indent ++ lit """""""" ++ [ch_nl])]
         else line_tmpl (indent ++ lit "# ") docs
  end.

(* ---- the six languages at once ---- *)
Inductive c15_lang := C15ts | C15kt | C15sw | C15sc | C15go | C15py.

Definition c15_cfg (l : c15_lang) : lexcfg :=
  match l with C15ts => cfg_ts | C15kt => cfg_kt | C15sw => cfg_sw | C15sc => cfg_sc | C15go => cfg_go | C15py => cfg_py end.
(* [docstring] only matters for Python *)
Definition c15_safe_w (l : c15_lang) (docstring : bool) (w : str) : bool :=
  match l with
  | C15ts => safe_ts w | C15kt => safe_kt w | C15sw => safe_sw w | C15sc => safe_sc w | C15go => safe_go w
  | C15py => safe_py docstring w
  end.
Definition c15_tmpl_w (l : c15_lang) (docstring : bool) (indent : nat) (ws : list str) : list piece :=
  match l with
  | C15ts => ts_tmpl_w indent ws | C15kt => kt_tmpl_w indent ws | C15sw => sw_tmpl_w indent ws
  | C15sc => sc_tmpl_w indent ws | C15go => go_tmpl_w indent ws | C15py => py_tmpl_w docstring indent ws
  end.

(* the text a back end writes for the doc string d (Python: in the docstring form / in the `# ` form) *)
Definition c15_written (l : c15_lang) (docstring : bool) (d : str) : str :=
  match l with
  | C15ts => c15_esc_ts d
  | C15py => if docstring then c15_esc_py d else d
  | _ => d
  end.
(* the doc string stays inside its comment when written *)
Definition c15_safe (l : c15_lang) (docstring : bool) (d : str) : bool := c15_safe_w l docstring (c15_written l docstring d).

(* ---- the comment fragments, given the doc strings ---- *)
Definition c15_tmpl (l : c15_lang) (docstring : bool) (indent : nat) (docs : list str) : list piece :=
  c15_tmpl_w l docstring indent (map (c15_written l docstring) docs).
Definition ts_tmpl (indent : nat) (docs : list str) : list piece := c15_tmpl C15ts false indent docs.
Definition kt_tmpl (indent : nat) (docs : list str) : list piece := c15_tmpl C15kt false indent docs.
Definition sw_tmpl (indent : nat) (docs : list str) : list piece := c15_tmpl C15sw false indent docs.
Definition sc_tmpl (indent : nat) (docs : list str) : list piece := c15_tmpl C15sc false indent docs.
Definition go_tmpl (indent : nat) (docs : list str) : list piece := c15_tmpl C15go false indent docs.
Definition py_tmpl (docstring : bool) (indent_level : nat) (docs : list str) : list piece :=
  c15_tmpl C15py docstring indent_level docs.
Definition c15_contained (l : c15_lang) (st : lstate) (t : mtext) : bool := contained_gen (c15_cfg l) st t.

(* ---- whole files as code parts and comment fragments ---- *)
(* A generated file seen as a sequence of parts: code the printer writes, and comment fragments
   (write_comments of some doc list at some indentation; for Python in docstring or `#` form). *)
Inductive c15_part := CPcode (s : str) | CPdoc (docstring : bool) (indent : nat) (docs : list str).
Definition c15_part_pieces (l : c15_lang) (p : c15_part) : list piece :=
  match p with CPcode s => [PLit s] | CPdoc b i ds => c15_tmpl l b i ds end.
Definition c15_file_pieces (l : c15_lang) (ps : list c15_part) : list piece := flat_map (c15_part_pieces l) ps.
Definition c15_part_safe (l : c15_lang) (p : c15_part) : bool :=
  match p with CPcode _ => true | CPdoc b _ ds => forallb (c15_safe l b) ds end.
(* what C10 (whole-file lexing) has to provide: every code part, read from code, ends in code *)
Definition c15_code_neutral (l : c15_lang) (p : c15_part) : Prop :=
  match p with CPcode s => lex_str_gen (c15_cfg l) LCode s = LCode | CPdoc _ _ _ => True end.


(* ---- the doc strings of an IR item (Model/Types.v mirrors rust_types.rs), in source order:
   type, then members; a struct variant: the variant, then its fields ---- *)
Definition c15_variant_docs (v : rvariant) : list str :=
  match v with
  | VUnit sh | VTuple _ sh => vcomments sh
  | VAnon fs sh => vcomments sh ++ flat_map fcomments fs
  end.
Definition c15_item_docs (it : ritem) : list str :=
  match it with
  | ItStruct s => scomments s ++ flat_map fcomments (sfields s)
  | ItEnum e => ecomments (enum_shared e) ++ flat_map c15_variant_docs (evariants (enum_shared e))
  | ItAlias a => acomments a
  | ItConst _ => []
  end.

(* ---- documentable positions, finding classes ---- *)
(* the positions of the property's quantifier; an enum is either all-unit or data-carrying (algebraic) *)
Inductive c15_pos := C15struct | C15field | C15unit_enum | C15alg_enum | C15variant | C15variant_field | C15alias.

(* python.rs: every position is printed as a docstring except the doc of an algebraic enum, which
   becomes `# ` lines above the Union alias (python.rs write_enum) *)
Definition c15_docstring_at (p : c15_pos) : bool :=
  match p with C15alg_enum => false | _ => true end.

(* a documented position of the input: where, and its doc strings (as they arrive from
   parse_comment_attrs: the carried lines of its doc attributes) *)
Definition c15_site := (c15_pos * list str)%type.
Definition c15_class (l : c15_lang) : string :=
  match l with
  | C15ts => "C15-typescript" | C15kt => "C15-kotlin" | C15sw => "C15-swift"
  | C15sc => "C15-scala" | C15go => "C15-go" | C15py => "C15-python"
  end.
Definition c15_site_safe (l : c15_lang) (s : c15_site) : bool :=
  forallb (c15_safe l (c15_docstring_at (fst s))) (snd s).
(* The strings the generated file must contain for a position: its doc strings as written *)
Definition c15_site_written (l : c15_lang) (s : c15_site) : list str :=
  map (c15_written l (c15_docstring_at (fst s))) (snd s).
(* No finding class is left.  (Before the repairs: class l = some doc string at some position is outside safe_<l>;
   the six entries of KNOWN_FINDINGS.jsonl are `fixed`, their witnesses are pinned as C15_<l>_fixed in Props/C15.v
   and stay in the corpus of the check, where they must pass.) *)
Definition known_C15 (l : c15_lang) (sites : list c15_site) : option string := None.
(* IR-level inputs only (doc strings put directly into the IR, which no source text produces): the doc
   strings of the positions printed in a line-comment form are strings the front end can deliver as far
   as line breaks go.  On what the front end delivers this is always true (C15_carried_safe). *)
Definition dom_C15_ir (l : c15_lang) (sites : list c15_site) : bool := forallb (c15_site_safe l) sites.

(* ---- what a doc attribute CARRIES ----
   To syn, `/// v`, `/** v */` and #[doc = "v"] are all the attribute #[doc = v].  The front end
   (parser.rs parse_comment_attrs) trims the value (Rust's str::trim: leading and trailing white space, line
   breaks included, removed) and hands the back ends ONE ENTRY PER LINE of the trimmed value, each line
   trimmed again; an empty trimmed value is one empty entry (a blank `///` line stays a paragraph
   separator).  Lines are those of str::lines - a line ends at LF, and a CR in front of that LF belongs to
   the line ending - and every remaining lone CR breaks a line as well.
   The property speaks about the CARRIED text: every carried line must be reproduced (modulo the escape of
   [c15_written]) and must stay inside a comment; the white space trimmed away is not carried, hence cannot
   escape.  A generator that printed a trimmed-away or a splitting line break would violate C15. *)
Definition c15_prepend (c : char) (ls : list str) : list str :=
  match ls with [] => [[c]] | l :: r => (c :: l) :: r end.
(* str::lines: no line for the empty string, no empty last line after a final line ending *)
Fixpoint c15_lines (s : str) : list str :=
  match s with
  | [] => []
  | c :: r =>
    if c =? ch_nl then [] :: c15_lines r
    else match r with
         | c2 :: r2 => if (c =? ch_cr) && (c2 =? ch_nl) then [] :: c15_lines r2 else c15_prepend c (c15_lines r)
         | [] => [[c]]
         end
  end.
(* the pieces between the occurrences of c: one more piece than occurrences *)
Fixpoint c15_split_at (c : char) (s : str) : list str :=
  match s with
  | [] => [[]]
  | x :: r => if x =? c then [] :: c15_split_at c r else c15_prepend x (c15_split_at c r)
  end.
Definition c15_carried (uc : unicode) (v : str) : list str :=
  match trim uc v with
  | [] => [[]]
  | t => map (trim uc) (flat_map (c15_split_at ch_cr) (c15_lines t))
  end.
(* sites given by the attribute values as written in the source -> sites as carried *)
Definition c15_carried_sites (uc : unicode) (raw : list c15_site) : list c15_site :=
  map (fun s => (fst s, flat_map (c15_carried uc) (snd s))) raw.

(* ---- the verdict on a generated file ---- *)
(* mark every occurrence of every doc string in the text ([k] = characters still to mark) *)
Definition c15_hit (docs : list str) (s : str) : nat :=
  fold_left (fun k d => if starts_with d s then Nat.max k (List.length d) else k) docs O.
Fixpoint c15_mark_from (docs : list str) (k : nat) (s : str) : mtext :=
  match s with
  | [] => []
  | c :: r => let k' := Nat.max k (c15_hit docs s) in
              (c, negb (Nat.eqb k' 0)) :: c15_mark_from docs (Nat.pred k') r
  end.
Definition c15_mark_docs (docs : list str) (text : str) : mtext := c15_mark_from docs O text.

Definition c15_reproduced (docs : list str) (text : str) : bool := forallb (fun d => contains_sub d text) docs.
Definition c15_contained_in (l : c15_lang) (docs : list str) (text : str) : bool :=
  c15_contained l LCode (c15_mark_docs docs text).
Definition good_C15 (l : c15_lang) (docs : list str) (text : str) : bool :=
  c15_reproduced docs text && c15_contained_in l docs text.

(* ---- the observation: for every character of the file, 0 if it is not doc text, otherwise the mode
   of the reference lexer in which it is read (1 code, 2 code after '/', 3 line comment, 4 block
   comment, 5 one-line literal, 6 multi-line literal, 7 code after one or two quotes, 8 triple-quoted
   literal), plus 10 if the character is not comment text or ends its comment ---- *)
Definition c15_mode_tag (st : lstate) : N :=
  match st with
  | LCode => 1 | LSlash => 2 | LLine => 3 | LBlock _ _ => 4 | LStr _ _ => 5 | LLong _ _ => 6
  | LOpen _ _ => 7 | LTriple _ _ _ => 8
  end.
Fixpoint c15_modes (L : lexcfg) (st : lstate) (t : mtext) : list N :=
  match t with
  | [] => []
  | (c, planted) :: r =>
    let st' := lex_gen L st c in
    (if planted then c15_mode_tag st + (if in_comment L st && in_comment L st' then 0 else 10) else 0)
      :: c15_modes L st' r
  end.
Definition c15_obs (l : c15_lang) (docs : list str) (text : str) : list N :=
  c15_modes (c15_cfg l) LCode (c15_mark_docs docs text).
