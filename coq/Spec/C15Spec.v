(* C15 - documentation text is carried only inside comments of the generated code.

   [safe_<l>]: the doc strings that stay inside the comment form the back end of language <l> prints
   them in.  Each is a plain condition on the string; that it is EXACTLY the set of strings the
   reference lexer of Spec/Lexers.v keeps inside the comment is Props/C15.v (C15_contained_<l> and
   C15_necessary_<l>).
   [<l>_tmpl]: the shape of the comment fragment a back end prints for a list of doc strings, as
   literal pieces and doc pieces (independent of the model; Props/C15.v, C15_fragment_<l> proves that
   its text IS what the model's write_comments prints).
   [known_C15]: the finding classes of the unchanged tree, decided on the doc strings of the input.
   [good_C15]: the verdict on a generated file, given the doc strings that were planted in the input:
   every doc string occurs in the file (reproduced) and every character of every occurrence is read
   by the reference lexer inside a comment / docstring, the lexer being back in code at the end.
   Nothing here refers to the model of typeshare. *)
From Coq Require Import List NArith Bool String.
From TS Require Import Model.Str Model.Unicode Model.Types Spec.Lexers.
Import ListNotations.
Local Open Scope N_scope.

(* `///` / `//` / `#` line comments: the doc string must not contain a character that ends the line
   in the language's lexer (Kotlin, Swift, Scala, Python: LF CR; Go: LF only) *)
Definition safe_line (eol : char -> bool) (d : str) : bool := forallb (fun c => negb (eol c)) d.
Definition safe_kt (d : str) : bool := safe_line eol_lf_cr d.
Definition safe_sw (d : str) : bool := safe_line eol_lf_cr d.
Definition safe_sc (d : str) : bool := safe_line eol_lf_cr d.
Definition safe_go (d : str) : bool := safe_line eol_lf d.
(* TypeScript `/** .. */`: no comment terminator in the doc string *)
Definition safe_ts (d : str) : bool := negb (contains_sub [ch_star; ch_slash] d).
(* Python docstring (a triple-double-quote literal the doc strings are written into, one per line):
   the doc string must not contain three consecutive unescaped double quotes.  [n] = number of
   consecutive unescaped quotes just read, [esc] = the previous character is an unescaped backslash.
   Newlines, a trailing backslash (a newline follows it, never the closing quotes), three single
   quotes and `#` are all harmless there. *)
Fixpoint py_doc_scan (n : nat) (esc : bool) (d : str) : bool :=
  match d with
  | [] => true
  | c :: r =>
    if esc then py_doc_scan 0 false r
    else if c =? ch_bs then py_doc_scan 0 true r
    else if c =? ch_dq then (if Nat.leb 2 n then false else py_doc_scan (S n) false r)
    else py_doc_scan 0 false r
  end.
Definition safe_py_docstring (d : str) : bool := py_doc_scan 0 false d.
(* Python `# ` comments (the doc of an algebraic enum, printed above the Union alias) *)
Definition safe_py_hash (d : str) : bool := safe_line eol_lf_cr d.
Definition safe_py (docstring : bool) (d : str) : bool :=
  if docstring then safe_py_docstring d else safe_py_hash d.

(* ---- the comment fragments ---- *)
Definition tabs_ (n : nat) : str := repeat_str [ch_tab] n.
(* one line per doc string: indent and opener, the doc string, newline *)
Definition line_tmpl (pre : str) (docs : list str) : list piece :=
  flat_map (fun d => [PLit pre; PDoc d; PLit [ch_nl]]) docs.

Definition kt_tmpl (indent : nat) (docs : list str) : list piece := line_tmpl (tabs_ indent ++ lit "/// ") docs.
Definition sw_tmpl (indent : nat) (docs : list str) : list piece := line_tmpl (tabs_ indent ++ lit "/// ") docs.
Definition sc_tmpl (indent : nat) (docs : list str) : list piece := line_tmpl (tabs_ indent ++ lit "// ") docs.
Definition go_tmpl (indent : nat) (docs : list str) : list piece := line_tmpl (tabs_ indent ++ lit "// ") docs.
(* typescript.rs:369: one doc string: `/** d */`; several: `/**`, a ` * d` line each, ` */` *)
Definition ts_tmpl (indent : nat) (docs : list str) : list piece :=
  match docs with
  | [] => []
  | [d] => [PLit (tabs_ indent ++ lit "/** "); PDoc d; PLit (lit " */" ++ [ch_nl])]
  | _ => [PLit (tabs_ indent ++ lit "/**" ++ [ch_nl])] ++ line_tmpl (tabs_ indent ++ lit " * ") docs ++
         [PLit (tabs_ indent ++ lit " */" ++ [ch_nl])]
  end.
(* python.rs:494: docstring: three double quotes, the doc strings one per line, three double quotes,
   all at the indent (four spaces per level); otherwise `# d` lines *)
Definition py_tmpl (docstring : bool) (indent_level : nat) (docs : list str) : list piece :=
  let indent := repeat_str (lit "    ") indent_level in
  match docs with
  | [] => []
  | _ => if docstring
         then [PLit (indent ++ lit """""""" ++ [ch_nl])] ++ line_tmpl indent docs ++
              [PLit (indent ++ lit """""""" ++ [ch_nl])]
         else line_tmpl (indent ++ lit "# ") docs
  end.

(* ---- the six languages at once ---- *)
Inductive c15_lang := C15ts | C15kt | C15sw | C15sc | C15go | C15py.

Definition c15_cfg (l : c15_lang) : lexcfg :=
  match l with C15ts => cfg_ts | C15kt => cfg_kt | C15sw => cfg_sw | C15sc => cfg_sc | C15go => cfg_go | C15py => cfg_py end.
(* [docstring] only matters for Python *)
Definition c15_safe (l : c15_lang) (docstring : bool) (d : str) : bool :=
  match l with
  | C15ts => safe_ts d | C15kt => safe_kt d | C15sw => safe_sw d | C15sc => safe_sc d | C15go => safe_go d
  | C15py => safe_py docstring d
  end.
Definition c15_tmpl (l : c15_lang) (docstring : bool) (indent : nat) (docs : list str) : list piece :=
  match l with
  | C15ts => ts_tmpl indent docs | C15kt => kt_tmpl indent docs | C15sw => sw_tmpl indent docs
  | C15sc => sc_tmpl indent docs | C15go => go_tmpl indent docs | C15py => py_tmpl docstring indent docs
  end.
Definition c15_contained (l : c15_lang) (st : lstate) (t : mtext) : bool := contained_gen (c15_cfg l) st t.

(* ---- whole files as code parts and comment fragments ---- *)
(* A generated file seen as a sequence of parts: code the printer writes, and comment fragments
   (write_comments of some doc list at some indentation; for Python in docstring or `#` form). *)
Inductive c15_part := CPcode (s : str) | CPdoc (docstring : bool) (indent : nat) (docs : list str).
Definition c15_part_pieces (l : c15_lang) (p : c15_part) : list piece :=
  match p with CPcode s => [PLit s] | CPdoc b i ds => c15_tmpl l b i ds end.
Definition c15_file_pieces (l : c15_lang) (ps : list c15_part) : list piece := flat_map (c15_part_pieces l) ps.
Definition c15_part_safe (l : c15_lang) (p : c15_part) : bool :=
  match p with CPcode _ => true | CPdoc b _ ds => forallb (c15_safe l b) ds end.
(* what C10 (whole-file lexing) has to provide: every code part, read from code, ends in code *)
Definition c15_code_neutral (l : c15_lang) (p : c15_part) : Prop :=
  match p with CPcode s => lex_str_gen (c15_cfg l) LCode s = LCode | CPdoc _ _ _ => True end.


(* ---- the doc strings of an IR item (Model/Types.v mirrors rust_types.rs), in source order:
   type, then members; a struct variant: the variant, then its fields ---- *)
Definition c15_variant_docs (v : rvariant) : list str :=
  match v with
  | VUnit sh | VTuple _ sh => vcomments sh
  | VAnon fs sh => vcomments sh ++ flat_map fcomments fs
  end.
Definition c15_item_docs (it : ritem) : list str :=
  match it with
  | ItStruct s => scomments s ++ flat_map fcomments (sfields s)
  | ItEnum e => ecomments (enum_shared e) ++ flat_map c15_variant_docs (evariants (enum_shared e))
  | ItAlias a => acomments a
  | ItConst _ => []
  end.

(* ---- documentable positions, finding classes ---- *)
(* the positions of the property's quantifier; an enum is either all-unit or data-carrying (algebraic) *)
Inductive c15_pos := C15struct | C15field | C15unit_enum | C15alg_enum | C15variant | C15variant_field | C15alias.

(* python.rs: every position is printed as a docstring except the doc of an algebraic enum, which
   becomes `# ` lines above the Union alias (python.rs write_enum) *)
Definition c15_docstring_at (p : c15_pos) : bool :=
  match p with C15alg_enum => false | _ => true end.

(* a documented position of the input: where, and its doc strings (as they arrive from
   parse_comment_attrs: one per doc attribute) *)
Definition c15_site := (c15_pos * list str)%type.
Definition c15_class (l : c15_lang) : string :=
  match l with
  | C15ts => "C15-typescript" | C15kt => "C15-kotlin" | C15sw => "C15-swift"
  | C15sc => "C15-scala" | C15go => "C15-go" | C15py => "C15-python"
  end.
Definition c15_site_safe (l : c15_lang) (s : c15_site) : bool :=
  forallb (c15_safe l (c15_docstring_at (fst s))) (snd s).
(* The finding class of language l: some doc string at some position is outside safe_<l>. *)
Definition known_C15 (l : c15_lang) (sites : list c15_site) : option string :=
  if forallb (c15_site_safe l) sites then None else Some (c15_class l).

(* ---- what a doc attribute CARRIES ----
   To syn, `/// v`, `/** v */` and #[doc = "v"] are all the attribute #[doc = v].  On the unchanged tree
   the front end carries such an attribute as the text [trim v] (Rust's str::trim: leading and trailing
   white space, line breaks included, removed; Props/C15.v, C15_front_raw_doc_strings /
   C15_front_carried).  The property speaks about the CARRIED text: the expectation for a doc attribute
   with value v is the text [trim v], every character of which must be reproduced and must stay inside
   a comment; the characters trimmed away are not carried, hence cannot escape.  So [safe_<l>], the
   finding classes [known_C15] and the verdict [good_C15] are decided on the carried strings, never on
   the raw attribute values: `#[doc = "\ntext"]` or the conventional
       /**
        * text
        */
   (value: LF, " * text", LF, " ") carry `text` / `* text`, which is safe for every language, although the
   raw value contains line breaks; a generator that printed those line breaks would violate C15 and is
   NOT covered by the finding classes. *)
Definition c15_carried (uc : unicode) (v : str) : str := trim uc v.
(* sites given by the attribute values as written in the source -> sites as carried *)
Definition c15_carried_sites (uc : unicode) (raw : list c15_site) : list c15_site :=
  map (fun s => (fst s, map (c15_carried uc) (snd s))) raw.
Definition known_C15_attrs (uc : unicode) (l : c15_lang) (raw : list c15_site) : option string :=
  known_C15 l (c15_carried_sites uc raw).

(* ---- the verdict on a generated file ---- *)
(* mark every occurrence of every doc string in the text ([k] = characters still to mark) *)
Definition c15_hit (docs : list str) (s : str) : nat :=
  fold_left (fun k d => if starts_with d s then Nat.max k (List.length d) else k) docs O.
Fixpoint c15_mark_from (docs : list str) (k : nat) (s : str) : mtext :=
  match s with
  | [] => []
  | c :: r => let k' := Nat.max k (c15_hit docs s) in
              (c, negb (Nat.eqb k' 0)) :: c15_mark_from docs (Nat.pred k') r
  end.
Definition c15_mark_docs (docs : list str) (text : str) : mtext := c15_mark_from docs O text.

Definition c15_reproduced (docs : list str) (text : str) : bool := forallb (fun d => contains_sub d text) docs.
Definition c15_contained_in (l : c15_lang) (docs : list str) (text : str) : bool :=
  c15_contained l LCode (c15_mark_docs docs text).
Definition good_C15 (l : c15_lang) (docs : list str) (text : str) : bool :=
  c15_reproduced docs text && c15_contained_in l docs text.

(* ---- the observation: for every character of the file, 0 if it is not doc text, otherwise the mode
   of the reference lexer in which it is read (1 code, 2 code after '/', 3 line comment, 4 block
   comment, 5 one-line literal, 6 multi-line literal, 7 code after one or two quotes, 8 triple-quoted
   literal), plus 10 if the character is not comment text or ends its comment ---- *)
Definition c15_mode_tag (st : lstate) : N :=
  match st with
  | LCode => 1 | LSlash => 2 | LLine => 3 | LBlock _ _ => 4 | LStr _ _ => 5 | LLong _ _ => 6
  | LOpen _ _ => 7 | LTriple _ _ _ => 8
  end.
Fixpoint c15_modes (L : lexcfg) (st : lstate) (t : mtext) : list N :=
  match t with
  | [] => []
  | (c, planted) :: r =>
    let st' := lex_gen L st c in
    (if planted then c15_mode_tag st + (if in_comment L st && in_comment L st' then 0 else 10) else 0)
      :: c15_modes L st' r
  end.
Definition c15_obs (l : c15_lang) (docs : list str) (text : str) : list N :=
  c15_modes (c15_cfg l) LCode (c15_mark_docs docs text).
