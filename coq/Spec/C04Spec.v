(* C04 - "a generated field is optional iff the Rust field is Option<T> or serde(default)".

   Part 1 (source side, over the syn-level AST, independent of Model/Types.v and Model/Parse.v):
     how many Option layers a declared type has once references and serde-transparent wrappers are
     peeled off at every layer ([c04_opt_depth]; depth 0 = T, 1 = Option<T>, 2 = Option<Option<T>>),
     wrapper stacks ([c04_wrap]) and what the source says about a member ([c04_src_optional]).
     The bare `default` word is Spec.Serde.bare_default.

   Part 2 (target side): what the check OBSERVES at one position of a generated definition
     ([c04_seen]: the parts of the language's optional idiom that are present, TypeScript's
     `| null`, and the type text with the marker removed), what the source lets one EXPECT there
     ([c04_expect]), and the computable verdict predicates dom_C04 / known_C04 / good_C04 that the
     check evaluates (extracted) on the implementation's observation.

   The idioms (property text): TS `k?:` (alias: `| undefined`), Kotlin `T? = null`, Swift `T?`,
   Scala `Option[T] = None`, Go `*T` + `,omitempty`, Python `Optional[T]` + `Field(default=None)`.
   At a newtype payload or an alias target there is no initialiser / tag, so only the type-level
   part exists there; a reader reports the missing part as equal to the type-level part. *)
From Coq Require Import String List Bool Arith.
From TS Require Import Model.Str Model.Syntax Model.Types Spec.Serde.
Import ListNotations.
Local Open Scope nat_scope.

Definition cls4 (s : string) : option string := Some s.

(* ---------------- part 1: the source ---------------- *)

(* Option layers of a declared type. A reference and a transparent wrapper are invisible at every
   layer: Box<Option<&Option<T>>> has depth 2. Only the FIRST type argument of a wrapper / of
   Option counts (lifetimes are skipped), as for serde. *)
Fixpoint c04_opt_depth (t : ty) : nat :=
  match t with
  | TRef x => c04_opt_depth x
  | TPath _ id args =>
    let inner := (fix first (l : list (option ty)) : nat :=
                    match l with [] => 0 | None :: r => first r | Some x :: _ => c04_opt_depth x end) args in
    if str_eqb id (lit "Option") then S inner
    else if mem_str id TRANSPARENT then inner
    else 0
  | _ => 0
  end.

(* one layer of wrapping that leaves the depth unchanged *)
Inductive c04_wrap :=
| C04Ref                                                  (* &T, &'a T, &mut T *)
| C04Ptr (quals : list str) (name : str) (lifetimes : nat).  (* q::Name<'a, .., T>: `lifetimes` non-type arguments first *)

Definition c04_wrap_one (w : c04_wrap) (t : ty) : ty :=
  match w with
  | C04Ref => TRef t
  | C04Ptr q name n => TPath q name (repeat None n ++ [Some t])
  end.
Definition c04_wrap_ok (w : c04_wrap) : bool :=
  match w with C04Ref => true | C04Ptr _ name _ => mem_str name TRANSPARENT end.
(* the outermost wrapper is the head of the list *)
Definition c04_wrap_ty (stack : list c04_wrap) (t : ty) : ty := fold_right c04_wrap_one t stack.

Definition c04_option_of (q : list str) (t : ty) : ty := TPath q (lit "Option") [Some t].

(* what the source says about a named field *)
Definition c04_src_optional (attrs : list attr) (t : ty) : bool := is_option_type t || bare_default attrs.

(* what the source of a file says at every position the property speaks about, keyed by the
   identifier of the field / newtype variant / alias: (identifier, Option depth, bare default?).
   At a payload or an alias target `default` is reported as false: serde ignores the attribute on
   the field of a newtype variant, and a `type` item has none. *)
Definition c04_field_cell (f : field) : str * nat * bool :=
  (match f_ident f with Some i => i | None => [] end, c04_opt_depth (f_ty f), bare_default (f_attrs f)).
Fixpoint c04_item_cells (it : item) : list (str * nat * bool) :=
  match it with
  | IStruct _ _ _ (FNamed l) => map c04_field_cell l
  | IStruct _ ident _ (FUnnamed [f]) => [(ident, c04_opt_depth (f_ty f), false)]       (* newtype struct = alias *)
  | IEnum _ _ _ vs =>
    flat_map (fun v => match v_fields v with
                       | FNamed l => map c04_field_cell l
                       | FUnnamed [f] => [(v_ident v, c04_opt_depth (f_ty f), false)]
                       | _ => []
                       end) vs
  | IType _ ident _ t => [(ident, c04_opt_depth t, false)]
  | INest inner => flat_map c04_item_cells inner
  | _ => []
  end.
Definition c04_file_cells (f : file) : list (str * nat * bool) := flat_map c04_item_cells (fl_items f).

(* ---------------- part 2: the generated definition ---------------- *)

Inductive c04_pos := C04Field | C04VariantField | C04Payload | C04Alias.
Definition c04_fieldlike (p : c04_pos) : bool :=
  match p with C04Field | C04VariantField => true | _ => false end.
Definition c04_pos_eqb (a b : c04_pos) : bool :=
  match a, b with
  | C04Field, C04Field | C04VariantField, C04VariantField | C04Payload, C04Payload | C04Alias, C04Alias => true
  | _, _ => false
  end.

(* what the source lets one expect at a position.
   c04e_ref: the type AS WRITTEN at the same position by the same back end for the declared type with
   ONE Option layer removed (depth 0: the type itself) and without serde(default) - "the marker
   never changes the underlying type" says the marked position shows exactly this text once its
   marker is taken away. *)
Record c04_expect := { c04e_pos : c04_pos; c04e_depth : nat; c04e_default : bool; c04e_ref : str }.

(* what is observed at a position *)
Record c04_seen := {
  c04s_type_mark : bool;     (* the type-level part of the idiom: TS `?` / `| undefined`, Kotlin+Swift `?`, Scala Option[..], Go `*`, Python Optional[..] *)
  c04s_init_mark : bool;     (* the other part: Kotlin `= null`, Scala `= None`, Go `,omitempty`, Python default=None, Swift: the init parameter's `?`
                                (payload: the decodeNil branch); where the idiom has no second part: equal to c04s_type_mark *)
  c04s_null_union : bool;    (* TypeScript `| null` after the type *)
  c04s_base : str            (* the type text with the marker (one layer) removed *)
}.

(* the property's quantifier: T, Option<T>, Option<Option<T>>; serde(default) is a FIELD attribute
   (serde itself ignores it on the payload of a newtype variant; an alias has no attributes) *)
Definition dom_C04 (L : lang) (e : c04_expect) : bool :=
  (c04e_depth e <=? 2) && (c04_fieldlike (c04e_pos e) || negb (c04e_default e)).

Definition c04_expected_optional (e : c04_expect) : bool :=
  (0 <? c04e_depth e) || (c04e_default e && c04_fieldlike (c04e_pos e)).
Definition c04_expected_null_union (L : lang) (e : c04_expect) : bool :=
  match L with TypeScript => 2 <=? c04e_depth e | _ => false end.

(* recorded finding classes of the unchanged tree.
   (TypeScript's former class C04-ts-double-nonfield - `content?: T` / `type A = T | undefined` for Option<Option<T>>,
   the `| null` missing - is repaired in /repo: `| null` is expected at every position, no carve-out.) *)
Definition known_C04 (L : lang) (e : c04_expect) : option string :=
  match L with
  | Scala =>
    (* `x: T = _` for serde(default) on a non-Option field: neither Option[..] nor `= None` *)
    if c04_fieldlike (c04e_pos e) && c04e_default e && (c04e_depth e =? 0) then cls4 "C04-scala-default" else None
  | _ => None
  end.

Definition good_C04 (L : lang) (e : c04_expect) (s : c04_seen) : bool :=
  Bool.eqb (c04s_type_mark s) (c04_expected_optional e) &&
  Bool.eqb (c04s_init_mark s) (c04_expected_optional e) &&
  str_eqb (c04s_base s) (c04e_ref e) &&
  Bool.eqb (c04s_null_union s) (c04_expected_null_union L e).

(* Go's configuration switch `no_pointer_slice = true`: Option<Vec<T>> is written `[]T` (a nil slice IS the absent
   value), i.e. the type-level part of the idiom (`*`) is deliberately not written at a position whose IR type is
   Option<Vec<_>> ([bare]); the tag part (`,omitempty`; named fields only) stays, and so does everything else:
   Option<[T;N]>, Option<&[T]>, Option<Option<Vec<T>>> keep their `*`, serde(default) on a non-Option Vec<T> still
   writes `*[]T`.  With bare = false this is good_C04 Go (Proofs.C04_Back.good_C04_go_false). *)
Definition c04_go_bare (no_pointer_slice : bool) (t : rtype) : bool :=
  no_pointer_slice && match t with ROption (RVec _) => true | _ => false end.
Definition good_C04_go (bare : bool) (e : c04_expect) (s : c04_seen) : bool :=
  let exp_type := c04_expected_optional e && negb bare in
  Bool.eqb (c04s_type_mark s) exp_type &&
  Bool.eqb (c04s_init_mark s) (if c04_fieldlike (c04e_pos e) then c04_expected_optional e else exp_type) &&
  str_eqb (c04s_base s) (c04e_ref e) &&
  Bool.eqb (c04s_null_union s) false.
(* a field with a Go type override (#[typeshare(go(type = ".."))]): the type text is the user's (typeshare prints it
   verbatim, `*` included or not); the part of the idiom typeshare still decides is the tag *)
Definition good_C04_go_override (e : c04_expect) (s : c04_seen) : bool :=
  Bool.eqb (c04s_init_mark s) (c04_expected_optional e).

(* one observed position of a generated file, as the readers (Spec/C04Readers.v) and the text
   extractors report it *)
Record c04_row := {
  c04r_decl : str;           (* definition name *)
  c04r_member : str;         (* member / variant name ([] for an alias) *)
  c04r_pos : c04_pos;
  c04r_seen : c04_seen;
  c04r_raw : str             (* the type as written, type-level marker included (TS: without `| null` / `| undefined`) *)
}.
