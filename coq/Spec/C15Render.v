(* C15, renderer level: WHICH doc strings a back end prints for one IR item, in which comment form and
   in which order.  Declarative, written from the Rust sources (language/mod.rs
   write_types_for_anonymous_structs, kotlin.rs / swift.rs / go.rs / python.rs write_enum), nothing here
   refers to the model of typeshare.

   TypeScript inlines struct variants, so it prints exactly [c15_item_docs] (Spec/C15Spec.v): type,
   then members / variants, a struct variant followed by its fields.  The other back ends print one
   HELPER STRUCT per struct variant IN FRONT of the enum: the doc strings of the variant's fields move
   there, under a comment that typeshare writes itself ([c15_anon_comment], built from the two
   identifiers).  Hence for an enum the print order is: per struct variant (generated comment, field
   docs), then the enum's own doc, then the variants' docs.  Python prints the doc of an algebraic
   enum AFTER its variant classes, as `# ` lines; every other position is a docstring.  Swift prints
   every doc string without its trailing white space (write_comment: trim_end). *)
From Coq Require Import List NArith Bool String.
From TS Require Import Model.Str Model.Unicode Model.Types Spec.Lexers Spec.C15Spec.
Import ListNotations.
Local Open Scope N_scope.

(* mod.rs:393-411: the comment typeshare generates for the helper struct of a struct variant *)
Definition c15_anon_comment (enum_original variant_original : str) : str :=
  lit "Generated type representing the anonymous struct variant `" ++ variant_original ++
  lit "` of the `" ++ enum_original ++ lit "` Rust enum".

(* the comment lines of the helper struct printed for one variant: none unless it is a struct variant *)
Definition c15_helper_docs (sh : eshared) (v : rvariant) : list str :=
  match v with
  | VAnon fs vsh => c15_anon_comment (original (eid sh)) (original (vid vsh)) :: flat_map fcomments fs
  | _ => []
  end.
Definition c15_variant_own_docs (v : rvariant) : list str := vcomments (variant_shared v).

(* Kotlin, Swift, Go: helper structs first, then the enum's doc, then the variants' docs *)
Definition c15_item_docs_helpers_first (it : ritem) : list str :=
  match it with
  | ItEnum e =>
    let sh := enum_shared e in
    flat_map (c15_helper_docs sh) (evariants sh) ++ ecomments sh ++ flat_map c15_variant_own_docs (evariants sh)
  | _ => c15_item_docs it
  end.

(* the strings among them that typeshare wrote itself *)
Definition c15_item_generated (it : ritem) : list str :=
  match it with
  | ItEnum e =>
    let sh := enum_shared e in
    flat_map (fun v => match v with
                       | VAnon _ vsh => [c15_anon_comment (original (eid sh)) (original (vid vsh))]
                       | _ => []
                       end) (evariants sh)
  | _ => []
  end.

(* Swift: str::trim_end on every line *)
Definition c15_trim_end (uc : unicode) (s : str) : str := rev (trim_start uc (rev s)).
Definition c15_sw_item_docs (uc : unicode) (it : ritem) : list str :=
  map (c15_trim_end uc) (c15_item_docs_helpers_first it).

(* Python: a documented position is printed as a docstring (true) or as `# ` lines (false) *)
Definition c15_doc_site := (bool * str)%type.
Definition c15_sites (docstring : bool) (docs : list str) : list c15_doc_site := map (pair docstring) docs.
Definition c15_py_item_sites (it : ritem) : list c15_doc_site :=
  match it with
  | ItEnum e =>
    let sh := enum_shared e in
    c15_sites true (flat_map (c15_helper_docs sh) (evariants sh)) ++
    match e with
    | EUnit _ => c15_sites true (ecomments sh ++ flat_map c15_variant_own_docs (evariants sh))
    | EAlgebraic _ _ _ =>
      c15_sites true (flat_map c15_variant_own_docs (evariants sh)) ++ c15_sites false (ecomments sh)
    end
  | _ => c15_sites true (c15_item_docs it)
  end.
Definition c15_site_ok (l : c15_lang) (s : c15_doc_site) : bool := c15_safe l (fst s) (snd s).
(* the text printed for a documented position: the doc string as written in its comment form (Spec/C15Spec.v c15_written:
   TypeScript and Python docstrings escape the comment terminator, everything else is verbatim) *)
Definition c15_site_text (l : c15_lang) (s : c15_doc_site) : str := c15_written l (fst s) (snd s).

(* ---- neutrality of code: characters that leave the reference lexer of language l in code mode ---- *)
Definition c15_plain_char (l : c15_lang) (c : char) : bool :=
  match lex_code (c15_cfg l) c with LCode => true | _ => false end.
Definition c15_plain (l : c15_lang) (s : str) : bool := forallb (c15_plain_char l) s.

(* ---- the inputs on which the CODE a printer writes around the comments is proved neutral ----
   [c15_plain l s]: no character of s opens a comment or a literal of language l (identifiers, type
   names, numbers, punctuation other than / # quotes backtick: whatever the language).
   [c15_lit_str s]: s may be written between double quotes through Rust's {:?} (escape_debug): no
   control character (those are printed as \u{..}, outside the tabulated alphabet of the model), no
   U+2028 / U+2029 (which the ECMAScript reference lexer above treats as line ends).  Quotes and
   backslashes are fine: {:?} escapes them.
   [c15_name_ok l s]: both - a name that is printed bare in one place and quoted in another. *)
Definition c15_lit_char (c : char) : bool :=
  negb (c <? 32) && negb (c =? 127) && negb (c =? 8232) && negb (c =? 8233).
Definition c15_lit_str (s : str) : bool := forallb c15_lit_char s.
Definition c15_name_ok (l : c15_lang) (s : str) : bool := c15_plain l s && c15_lit_str s.

(* every identifier of a type expression of the IR is plain *)
Fixpoint c15_rtype_plain (l : c15_lang) (t : rtype) : bool :=
  match t with
  | RSimple id => c15_plain l id
  | RGeneric id ps => c15_plain l id && forallb (c15_rtype_plain l) ps
  | RVec x | RArray x _ | RSlice x | ROption x => c15_rtype_plain l x
  | RHashMap k v => c15_rtype_plain l k && c15_rtype_plain l v
  | RPrim _ => true
  end.
(* the target texts of a type_mappings table *)
Definition c15_mappings_plain (l : c15_lang) (m : list (str * str)) : bool :=
  forallb (fun kv => c15_plain l (snd kv)) m.

(* a field: its key, and its type (the verbatim override of language [lg] if there is one) *)
Definition c15_field_plain (l : c15_lang) (lg : lang) (f : rfield) : bool :=
  c15_name_ok l (renamed (fid f)) && c15_name_ok l (original (fid f)) &&
  match type_override f lg with Some o => c15_plain l o | None => c15_rtype_plain l (fty f) end.
Definition c15_variant_plain (l : c15_lang) (lg : lang) (v : rvariant) : bool :=
  c15_name_ok l (renamed (vid (variant_shared v))) && c15_name_ok l (original (vid (variant_shared v))) &&
  match v with
  | VUnit _ => true
  | VTuple t _ => c15_rtype_plain l t
  | VAnon fs _ => forallb (c15_field_plain l lg) fs
  end.
(* an item: its names, generic parameters, tag / content keys, members, types; [const_name] is the
   function the back end applies to the name of a constant *)
Definition c15_item_plain (l : c15_lang) (lg : lang) (const_name : str -> str) (it : ritem) : bool :=
  match it with
  | ItStruct s =>
    c15_name_ok l (renamed (sid s)) && c15_name_ok l (original (sid s)) && forallb (c15_plain l) (sgenerics s) &&
    forallb (c15_field_plain l lg) (sfields s)
  | ItEnum e =>
    let sh := enum_shared e in
    c15_name_ok l (renamed (eid sh)) && c15_name_ok l (original (eid sh)) && forallb (c15_plain l) (egenerics sh) &&
    match e with EUnit _ => true | EAlgebraic tag content _ => c15_name_ok l tag && c15_name_ok l content end &&
    forallb (c15_variant_plain l lg) (evariants sh)
  | ItAlias a =>
    c15_name_ok l (renamed (aid a)) && c15_name_ok l (original (aid a)) && forallb (c15_plain l) (agenerics a) &&
    c15_rtype_plain l (atype a)
  | ItConst c => c15_plain l (const_name (renamed (cid c))) && c15_rtype_plain l (ctype c)
  end.

(* ---- the stricter input class used for Kotlin: every identifier is a non-empty string of characters
   that open no comment and no literal, are no control characters and no backslash.  Such a string may be
   printed bare, between double quotes through {:?}, or between double quotes VERBATIM (kotlin.rs writes
   the wire name of a sealed-class variant as format!(r##""{}""##), unescaped). *)
Definition c15_ident_char (l : c15_lang) (c : char) : bool :=
  c15_plain_char l c && c15_lit_char c && negb (c =? ch_bs).
Definition c15_ident_ok (l : c15_lang) (s : str) : bool :=
  match s with [] => false | _ => forallb (c15_ident_char l) s end.
Definition c15_field_strict (l : c15_lang) (lg : lang) (f : rfield) : bool :=
  c15_ident_ok l (renamed (fid f)) &&
  match type_override f lg with Some o => c15_plain l o | None => c15_rtype_plain l (fty f) end.
Definition c15_variant_strict (l : c15_lang) (lg : lang) (v : rvariant) : bool :=
  c15_ident_ok l (renamed (vid (variant_shared v))) && c15_ident_ok l (original (vid (variant_shared v))) &&
  match v with
  | VUnit _ => true
  | VTuple t _ => c15_rtype_plain l t
  | VAnon fs _ => forallb (c15_field_strict l lg) fs
  end.
Definition c15_item_strict (l : c15_lang) (lg : lang) (it : ritem) : bool :=
  match it with
  | ItStruct s =>
    c15_ident_ok l (renamed (sid s)) && forallb (c15_plain l) (sgenerics s) && forallb (c15_field_strict l lg) (sfields s)
  | ItEnum e =>
    let sh := enum_shared e in
    c15_ident_ok l (renamed (eid sh)) && c15_ident_ok l (original (eid sh)) && forallb (c15_plain l) (egenerics sh) &&
    match e with EUnit _ => true | EAlgebraic _ content _ => c15_plain l content end &&
    forallb (c15_variant_strict l lg) (evariants sh)
  | ItAlias a =>
    c15_ident_ok l (renamed (aid a)) && c15_ident_ok l (original (aid a)) && forallb (c15_plain l) (agenerics a) &&
    c15_rtype_plain l (atype a)
  | ItConst _ => true
  end.

(* ---- TypeScript, whole files ----
   the header prints the version inside a block comment: it must not contain a star (so not `*/`);
   the trailer (ReviverFunc) prints the property names of Date-typed fields RAW between double quotes:
   no double quote, no backslash, no line terminator in a field's key;
   the trailer starts with a comment typeshare writes itself. *)
Definition c15_no_star (s : str) : bool := forallb (fun c => negb (c =? ch_star)) s.
Definition c15_ts_raw_char (c : char) : bool := negb (c =? ch_dq) && negb (c =? ch_bs) && negb (eol_js c).
Definition c15_ts_key_ok (i : str) : bool := forallb c15_ts_raw_char i.
Definition c15_ts_field_key_ok (f : rfield) : bool := c15_ts_key_ok (renamed (fid f)).
Definition c15_ts_item_keys_ok (it : ritem) : bool :=
  match it with
  | ItStruct s => forallb c15_ts_field_key_ok (sfields s)
  | ItEnum e => forallb (fun v => match v with VAnon fs _ => forallb c15_ts_field_key_ok fs | _ => true end) (evariants (enum_shared e))
  | _ => true
  end.
Definition c15_ts_trailer_docs : list str :=
  [lit "Custom JSON reviver and replacer functions for dynamic data transformation";
   lit "ReviverFunc is used during JSON parsing to detect and transform specific data structures";
   lit "ReplacerFunc is used during JSON serialization to modify certain values before stringifying.";
   lit "These functions allow for flexible encoding and decoding of data, ensuring that complex types are properly handled when converting between TS objects and JSON"].
