(* C15, renderer level: WHICH doc strings a back end prints for one IR item, in which comment form and
   in which order.  Declarative, written from the Rust sources (language/mod.rs
   write_types_for_anonymous_structs, kotlin.rs / swift.rs / go.rs / python.rs write_enum), nothing here
   refers to the model of typeshare.

   TypeScript inlines struct variants, so it prints exactly [c15_item_docs] (Spec/C15Spec.v): type,
   then members / variants, a struct variant followed by its fields.  The other back ends print one
   HELPER STRUCT per struct variant IN FRONT of the enum: the doc strings of the variant's fields move
   there, under a comment that typeshare writes itself ([c15_anon_comment], built from the two
   identifiers).  Hence for an enum the print order is: per struct variant (generated comment, field
   docs), then the enum's own doc, then the variants' docs.  Python prints the doc of an algebraic
   enum AFTER its variant classes, as `# ` lines; every other position is a docstring.  Swift prints
   every doc string without its trailing white space (write_comment: trim_end). *)
From Coq Require Import List NArith Bool String.
From TS Require Import Model.Str Model.Unicode Model.Types Spec.Lexers Spec.C15Spec.
Import ListNotations.
Local Open Scope N_scope.

(* mod.rs:393-411: the comment typeshare generates for the helper struct of a struct variant *)
Definition c15_anon_comment (enum_original variant_original : str) : str :=
  lit "Generated type representing the anonymous struct variant `" ++ variant_original ++
  lit "` of the `" ++ enum_original ++ lit "` Rust enum".

(* the comment lines of the helper struct printed for one variant: none unless it is a struct variant *)
Definition c15_helper_docs (sh : eshared) (v : rvariant) : list str :=
  match v with
  | VAnon fs vsh => c15_anon_comment (original (eid sh)) (original (vid vsh)) :: flat_map fcomments fs
  | _ => []
  end.
Definition c15_variant_own_docs (v : rvariant) : list str := vcomments (variant_shared v).

(* Kotlin, Swift, Go: helper structs first, then the enum's doc, then the variants' docs *)
Definition c15_item_docs_helpers_first (it : ritem) : list str :=
  match it with
  | ItEnum e =>
    let sh := enum_shared e in
    flat_map (c15_helper_docs sh) (evariants sh) ++ ecomments sh ++ flat_map c15_variant_own_docs (evariants sh)
  | _ => c15_item_docs it
  end.

(* the strings among them that typeshare wrote itself *)
Definition c15_item_generated (it : ritem) : list str :=
  match it with
  | ItEnum e =>
    let sh := enum_shared e in
    flat_map (fun v => match v with
                       | VAnon _ vsh => [c15_anon_comment (original (eid sh)) (original (vid vsh))]
                       | _ => []
                       end) (evariants sh)
  | _ => []
  end.

(* Swift: str::trim_end on every line *)
Definition c15_trim_end (uc : unicode) (s : str) : str := rev (trim_start uc (rev s)).
Definition c15_sw_item_docs (uc : unicode) (it : ritem) : list str :=
  map (c15_trim_end uc) (c15_item_docs_helpers_first it).

(* Python: a documented position is printed as a docstring (true) or as `# ` lines (false) *)
Definition c15_doc_site := (bool * str)%type.
Definition c15_sites (docstring : bool) (docs : list str) : list c15_doc_site := map (pair docstring) docs.
Definition c15_py_item_sites (it : ritem) : list c15_doc_site :=
  match it with
  | ItEnum e =>
    let sh := enum_shared e in
    c15_sites true (flat_map (c15_helper_docs sh) (evariants sh)) ++
    match e with
    | EUnit _ => c15_sites true (ecomments sh ++ flat_map c15_variant_own_docs (evariants sh))
    | EAlgebraic _ _ _ =>
      c15_sites true (flat_map c15_variant_own_docs (evariants sh)) ++ c15_sites false (ecomments sh)
    end
  | _ => c15_sites true (c15_item_docs it)
  end.
Definition c15_site_ok (l : c15_lang) (s : c15_doc_site) : bool := c15_safe l (fst s) (snd s).

(* ---- neutrality of code: characters that leave the reference lexer of language l in code mode ---- *)
Definition c15_plain_char (l : c15_lang) (c : char) : bool :=
  match lex_code (c15_cfg l) c with LCode => true | _ => false end.
Definition c15_plain (l : c15_lang) (s : str) : bool := forallb (c15_plain_char l) s.
