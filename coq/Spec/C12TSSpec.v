(* C12, TypeScript (added for the multi-file theorems; the single-file property has nothing to check for TypeScript:
   generated declarations never NAME the two helpers).  The helpers typeshare brings in are the two functions the
   trailer of a file exports,
       export const ReviverFunc = ...      export const ReplacerFunc = ...
   each a sequence of `if` blocks, one per translated type (Uint8Array, Date).  What can go wrong in a run that threads
   the printer state through several files is the CONTENT: a file whose declarations have a member of a translated
   type must carry, in its own trailer, the blocks handling that type.  The readers below inspect declaration values
   and the printer state only; they never call the generator. *)
From Coq Require Import String List Bool.
From TS Require Import Model.Str Model.Outcome Model.Lang.Common Model.Lang.Decl Model.Lang.TypeScript.
Import ListNotations.

Definition c12_ts_helpers : list str := [lit "ReviverFunc"; lit "ReplacerFunc"].

(* the members of a declaration: the properties of an interface and of the object types of struct variants *)
Definition c12_ts_variant_members (v : ts_variant) : list ts_member :=
  match v with TVStruct _ _ ms => ms | _ => [] end.
Definition c12_ts_decl_members (d : ts_decl) : list ts_member :=
  match d with
  | TSInterface _ _ _ ms => ms
  | TSUnion _ _ _ _ _ vs => flat_map c12_ts_variant_members vs
  | _ => []
  end.

(* the translated types the declarations of a file need handled: the printed type of every member, when it is one
   of the types with a reviver / replacer *)
Definition c12_ts_translated (ds : list ts_decl) : list str :=
  filter has_custom_translation (map (fun m => ts_show (tm_type m)) (flat_map c12_ts_decl_members ds)).

(* the types whose blocks the trailer written from state st contains (typescript.rs:43 end_file iterates the map),
   and the helper names that trailer defines *)
Definition c12_ts_handled (st : ts_state) : list str := map fst st.
Definition c12_ts_defs (st : ts_state) : list str := match st with [] => [] | _ => c12_ts_helpers end.

(* the judgement on one file: every translated type of a member is handled by the trailer of the same file (which
   then exists and defines both helpers) *)
Definition c12_ts_good (ds : list ts_decl) (st : ts_state) : bool :=
  forallb (fun t => mem_str t (c12_ts_handled st)) (c12_ts_translated ds) &&
  match c12_ts_translated ds with [] => true | _ => forallb (fun h => mem_str h (c12_ts_defs st)) c12_ts_helpers end.
