(* What serde (serde_derive 1.0.x) does with the attributes the properties speak about: naming
   precedence, skip, bare `default`, tag/content, and what the Rust type system says about
   `Option`.  Written against the syn-level AST with its own (untrimmed, first-of-at-most-one)
   attribute lookup; independent of Model/Attrs.v and Model/Parse.v. *)
From TS Require Import Model.Str Model.Unicode Model.Syntax Spec.SerdeCase.

(* all string values of `name = ".."` arguments of #[serde(..)] attributes, in source order.
   serde_derive rejects a duplicate, so for a compiling program there is at most one. *)
Definition serde_nv_values (attrs : list attr) (name : str) : list str :=
  flat_map (fun a =>
    match a_meta a with
    | MList [p] (Some args) _ =>
      if str_eqb p (lit "serde") then
        flat_map (fun m => match m with
                           | MNV [n] (VStr s) => if str_eqb n name then [s] else []
                           | _ => []
                           end) args
      else []
    | _ => []
    end) attrs.
Definition serde_nv (attrs : list attr) (name : str) : option str :=
  match serde_nv_values attrs name with [] => None | s :: _ => Some s end.

(* bare words inside #[serde(..)] / #[typeshare(..)] *)
Definition list_words (attrs : list attr) (which : str) : list str :=
  flat_map (fun a =>
    match a_meta a with
    | MList [p] (Some args) _ =>
      if str_eqb p which then flat_map (fun m => match m with MPath [w] => [w] | _ => [] end) args else []
    | _ => []
    end) attrs.

Definition has_serde_word (attrs : list attr) (w : str) : bool := mem_str w (list_words attrs (lit "serde")).
Definition has_typeshare_word (attrs : list attr) (w : str) : bool := mem_str w (list_words attrs (lit "typeshare")).

(* raw identifier prefix removed: r#type -> type *)
Definition unraw (ident : str) : str :=
  if starts_with (lit "r#") ident then skipn 2 ident else ident.

Section U.
Variable uc : unicode.

(* JSON key of a field: rename if given, else the container's (or, for a struct variant, the
   VARIANT's) rename_all rule applied to the identifier, else the identifier *)
Definition field_key (rename_all : option str) (attrs : list attr) (ident : str) : option str :=
  match serde_nv attrs (lit "rename") with
  | Some r => Some r
  | None => serde_field_name rename_all (unraw ident)
  end.

(* wire name of a variant *)
Definition variant_name (enum_rename_all : option str) (attrs : list attr) (ident : str) : option str :=
  match serde_nv attrs (lit "rename") with
  | Some r => Some r
  | None => serde_variant_name uc enum_rename_all (unraw ident)
  end.
End U.

Definition skip_marked (attrs : list attr) : bool :=
  has_serde_word attrs (lit "skip") || has_typeshare_word attrs (lit "skip").
Definition bare_default (attrs : list attr) : bool := has_serde_word attrs (lit "default").
Definition bare_flatten (attrs : list attr) : bool := has_serde_word attrs (lit "flatten").

(* the wrappers serde (de)serialises transparently *)
Definition TRANSPARENT : list str :=
  [lit "Box"; lit "Weak"; lit "Arc"; lit "Rc"; lit "Cow"; lit "ArcWeak"; lit "RcWeak"; lit "Cell";
   lit "Mutex"; lit "RefCell"; lit "RwLock"].

(* is the type `Option<_>` once references and transparent wrappers are peeled off? *)
Fixpoint is_option_type (t : ty) : bool :=
  match t with
  | TRef x => is_option_type x
  | TPath _ id args =>
    if str_eqb id (lit "Option") then true
    else if mem_str id TRANSPARENT then
      (* the first TYPE argument (lifetimes are skipped) *)
      (fix first (l : list (option ty)) : bool :=
         match l with [] => false | None :: r => first r | Some x :: _ => is_option_type x end) args
    else false
  | _ => false
  end.

(* constructs typeshare documents as unsupported, at any depth: the 64-bit / pointer-sized integers
   and non-empty tuples *)
Definition UNSUPPORTED_INT_NAMES : list str := [lit "u64"; lit "i64"; lit "usize"; lit "isize"].
Fixpoint has_unsupported (t : ty) : bool :=
  match t with
  | TPath _ id args =>
    mem_str id UNSUPPORTED_INT_NAMES ||
    (fix go (l : list (option ty)) : bool :=
       match l with
       | [] => false
       | None :: r => go r
       | Some x :: r => has_unsupported x || go r
       end) args
  | TRef x | TSlice x | TArray x _ => has_unsupported x
  | TTuple [] => false
  | TTuple _ => true
  | TOther => false
  end.
