(* What "JavaScript can represent safely" means: |z| <= 2^53 - 1 (Number.MAX_SAFE_INTEGER), and
   IEEE-754 binary64 from Flocq for "conversion through a double". *)
From Coq Require Import ZArith Reals.
From Flocq Require Import Core.Core IEEE754.BinarySingleNaN.
Local Open Scope Z_scope.

Definition js_safe (z:Z) : bool := (-(2^53 - 1) <=? z) && (z <=? 2^53 - 1).
Definition js_safe_unsigned (z:Z) : bool := (0 <=? z) && (z <=? 2^53 - 1).

Definition prec := 53%Z.
Definition emax := 1024%Z.
Definition b64 := binary_float prec emax.
Lemma Hprec : FLX.Prec_gt_0 prec. Proof. unfold FLX.Prec_gt_0, prec; reflexivity. Qed.
Lemma Hmax : Prec_lt_emax prec emax. Proof. unfold Prec_lt_emax, prec, emax; reflexivity. Qed.

(* `v as f64` for an integer v: round to nearest, ties to even *)
Definition of_Z (z : Z) : b64 := binary_normalize prec emax Hprec Hmax mode_NE z 0 false.
